(* C17 proofs, part 6: on an acyclic conserved flow the subtract scheme explains the requested
   fraction of the source outflow.
     conserved n f S T : for every state v < n, nothing flows into v if v is a source, nothing flows
                         out of v if v is a sink, inflow = outflow otherwise
     acyclic n f       : a topological order exists (a rank that increases along every positive edge)
   Steps: (1) exact values of the matrix after a subtraction, hence exact row and column sums;
   (2) a subtraction of a pathway returned by top_path keeps the flow non-negative, conserved and
   acyclic and lowers the source outflow by exactly the pathway flux; (3) while the source outflow
   is positive a source-to-sink walk exists, so top_path does not answer -inf; (4) the loop. *)
From Coq Require Import List Arith QArith Qreduction Bool Lia Lqa.
From EV Require Import Paths PathsProofs PathsSearch PathsTop PathsLoop PathsTotal.
Import ListNotations.
Close Scope Q_scope.

Definition conserved (n : nat) (f : fmat) (srcs sinks : list nat) : Prop :=
  forall v, v < n ->
    (In v srcs -> (colsum n f v == 0)%Q) /\
    (~ In v srcs -> In v sinks -> (rowsum n f v == 0)%Q) /\
    (~ In v srcs -> ~ In v sinks -> (colsum n f v == rowsum n f v)%Q).

Definition acyclic (n : nat) (f : fmat) : Prop :=
  exists rank : nat -> nat, forall a b, a < n -> b < n -> (0 < f a b)%Q -> rank a < rank b.

(* ------------------------------------------------------------------ sums *)
Lemma qsum_map_ext : forall {A} (g h : A -> Q) l,
  (forall x, In x l -> (g x == h x)%Q) -> (qsum (map g l) == qsum (map h l))%Q.
Proof.
  intros A g h l. induction l as [|x r IH]; intro H; simpl.
  - reflexivity.
  - rewrite (H x (or_introl eq_refl)). rewrite IH; [reflexivity|].
    intros y Hy. apply H. right. exact Hy.
Qed.

Lemma qsum_map_drop : forall {A} (g h : A -> Q) l x0 m,
  NoDup l -> In x0 l -> (g x0 == h x0 - m)%Q ->
  (forall x, In x l -> x <> x0 -> (g x == h x)%Q) ->
  (qsum (map g l) == qsum (map h l) - m)%Q.
Proof.
  intros A g h l x0 m Hnd. induction Hnd as [|x r Hx Hnd IH]; intros Hin H0 H; [contradiction|].
  simpl. destruct Hin as [Hin|Hin].
  - subst x. rewrite H0.
    assert (E : (qsum (map g r) == qsum (map h r))%Q).
    { apply qsum_map_ext. intros y Hy. apply H; [right; exact Hy|]. intro C. subst. contradiction. }
    rewrite E. ring.
  - assert (Hne : x <> x0) by (intro C; subst; contradiction).
    rewrite (H x (or_introl eq_refl) Hne).
    rewrite IH; [ring|exact Hin|exact H0|]. intros y Hy. apply H. right. exact Hy.
Qed.

Lemma qsum_pos_ex : forall {A} (g : A -> Q) l,
  (0 < qsum (map g l))%Q -> exists x, In x l /\ (0 < g x)%Q.
Proof.
  intros A g l. induction l as [|x r IH]; simpl; intro H.
  - exfalso. revert H. apply Qlt_irrefl.
  - destruct (Qlt_le_dec 0 (g x)) as [Hx|Hx].
    + exists x. split; [left; reflexivity|exact Hx].
    + assert (Hr : (0 < qsum (map g r))%Q) by lra.
      destruct (IH Hr) as [y [Hy1 Hy2]]. exists y. split; [right; exact Hy1|exact Hy2].
Qed.

Lemma qsum_ge_elem : forall {A} (g : A -> Q) l x,
  (forall y, In y l -> (0 <= g y)%Q) -> In x l -> (g x <= qsum (map g l))%Q.
Proof.
  intros A g l x. induction l as [|y r IH]; intros Hn Hin; [contradiction|]. simpl.
  assert (Hy : (0 <= g y)%Q) by (apply Hn; left; reflexivity).
  assert (Hr : (0 <= qsum (map g r))%Q).
  { apply qsum_nonneg. intros z Hz. apply in_map_iff in Hz. destruct Hz as [w [Ew Hw]]. subst z.
    apply Hn. right. exact Hw. }
  destruct Hin as [Hin|Hin].
  - subst y. lra.
  - assert (H1 : (g x <= qsum (map g r))%Q) by (apply IH; [intros z Hz; apply Hn; right; exact Hz|exact Hin]).
    lra.
Qed.

Lemma qsum_app : forall a b, (qsum (a ++ b) == qsum a + qsum b)%Q.
Proof.
  induction a as [|x r IH]; intro b; simpl; [ring|]. rewrite IH. ring.
Qed.

Lemma qsum_rev : forall l, (qsum (rev l) == qsum l)%Q.
Proof.
  induction l as [|x r IH]; simpl; [reflexivity|]. rewrite qsum_app. simpl. rewrite IH. ring.
Qed.

Lemma rowsum_nonneg : forall n f v, nonneg f -> (0 <= rowsum n f v)%Q.
Proof.
  intros n f v Hn. unfold rowsum. apply qsum_nonneg. intros y Hy.
  apply in_map_iff in Hy. destruct Hy as [j [Ej _]]. subst y. apply Hn.
Qed.

Lemma colsum_nonneg : forall n f v, nonneg f -> (0 <= colsum n f v)%Q.
Proof.
  intros n f v Hn. unfold colsum. apply qsum_nonneg. intros y Hy.
  apply in_map_iff in Hy. destruct Hy as [j [Ej _]]. subst y. apply Hn.
Qed.

Lemma rowsum_fle : forall n f' f v, fle f' f -> (rowsum n f' v <= rowsum n f v)%Q.
Proof. intros n f' f v H. unfold rowsum. apply qsum_map_le. intros j _. apply H. Qed.

Lemma colsum_fle : forall n f' f v, fle f' f -> (colsum n f' v <= colsum n f v)%Q.
Proof. intros n f' f v H. unfold colsum. apply qsum_map_le. intros j _. apply H. Qed.

Lemma colsum_ge_edge : forall n f u v, nonneg f -> u < n -> (f u v <= colsum n f v)%Q.
Proof.
  intros n f u v Hn Hu. unfold colsum. apply (qsum_ge_elem (fun u => f u v)).
  - intros y _. apply Hn.
  - apply in_seq. lia.
Qed.

(* ------------------------------------------------------------------ edges of a simple path *)
Lemma edges_snd_in_tl : forall p x a b, In (a, b) (edges (x :: p)) -> In b p.
Proof.
  induction p as [|y t IH]; intros x a b H; simpl in H; [contradiction|].
  destruct H as [H|H].
  - inversion H; subst. left. reflexivity.
  - right. eapply IH. exact H.
Qed.

Lemma edges_out_unique : forall p a b b', NoDup p ->
  In (a, b) (edges p) -> In (a, b') (edges p) -> b = b'.
Proof.
  induction p as [|x t IH]; intros a b b' Hnd H1 H2; [contradiction|].
  destruct t as [|y t']; [contradiction|]. rewrite edges_cons2 in H1, H2.
  inversion Hnd as [|x' t0 Hx Hnd']; subst.
  destruct H1 as [H1|H1]; destruct H2 as [H2|H2].
  - inversion H1; inversion H2; subst. reflexivity.
  - inversion H1; subst. exfalso. apply Hx. apply (edges_in _ _ _ H2).
  - inversion H2; subst. exfalso. apply Hx. apply (edges_in _ _ _ H1).
  - eapply IH; eassumption.
Qed.

Lemma edges_in_unique : forall p a a' b, NoDup p ->
  In (a, b) (edges p) -> In (a', b) (edges p) -> a = a'.
Proof.
  induction p as [|x t IH]; intros a a' b Hnd H1 H2; [contradiction|].
  destruct t as [|y t']; [contradiction|]. rewrite edges_cons2 in H1, H2.
  inversion Hnd as [|x' t0 Hx Hnd']; subst.
  inversion Hnd' as [|y' t1 Hy _]; subst.
  destruct H1 as [H1|H1]; destruct H2 as [H2|H2].
  - inversion H1; inversion H2; subst. reflexivity.
  - inversion H1; subst. exfalso. apply Hy. eapply edges_snd_in_tl. exact H2.
  - inversion H2; subst. exfalso. apply Hy. eapply edges_snd_in_tl. exact H1.
  - eapply IH; eassumption.
Qed.

(* v is the tail (resp. head) of an edge of p *)
Definition tailb (p : list nat) (v : nat) : bool := existsb (fun e => Nat.eqb (fst e) v) (edges p).
Definition headb (p : list nat) (v : nat) : bool := existsb (fun e => Nat.eqb (snd e) v) (edges p).

Lemma tailb_true : forall p v, tailb p v = true <-> exists b, In (v, b) (edges p).
Proof.
  intros p v. unfold tailb. rewrite existsb_exists. split.
  - intros [[a b] [H E]]. simpl in E. apply Nat.eqb_eq in E. subst. exists b. exact H.
  - intros [b H]. exists (v, b). split; [exact H|apply Nat.eqb_refl].
Qed.

Lemma headb_true : forall p v, headb p v = true <-> exists a, In (a, v) (edges p).
Proof.
  intros p v. unfold headb. rewrite existsb_exists. split.
  - intros [[a b] [H E]]. simpl in E. apply Nat.eqb_eq in E. subst. exists a. exact H.
  - intros [a H]. exists (a, v). split; [exact H|apply Nat.eqb_refl].
Qed.

Lemma tailb_cons2 : forall x y t v, tailb (x :: y :: t) v = Nat.eqb x v || tailb (y :: t) v.
Proof. reflexivity. Qed.

Lemma headb_cons2 : forall x y t v, headb (x :: y :: t) v = Nat.eqb y v || headb (y :: t) v.
Proof. reflexivity. Qed.

Lemma tailb_hd : forall p, edges p <> [] -> tailb p (hd 0 p) = true.
Proof.
  intros [|x [|y t]] H; try (simpl in H; congruence).
  rewrite tailb_cons2. simpl. rewrite Nat.eqb_refl. reflexivity.
Qed.

(* away from the first state, being the tail of an edge implies being the head of one *)
Lemma tail_then_head : forall p v, v <> hd 0 p -> tailb p v = true -> headb p v = true.
Proof.
  induction p as [|x t IH]; intros v Hv H; [discriminate|].
  destruct t as [|y t']; [discriminate|].
  rewrite tailb_cons2 in H. rewrite headb_cons2. simpl in Hv.
  destruct (Nat.eqb x v) eqn:Ex; [apply Nat.eqb_eq in Ex; congruence|]. simpl in H.
  destruct (Nat.eqb y v) eqn:Ey; [reflexivity|]. simpl.
  apply IH; [|exact H]. simpl. intro C. subst. rewrite Nat.eqb_refl in Ey. discriminate.
Qed.

(* away from the first and the last state the two notions agree *)
Lemma head_tail_interior : forall p v, v <> hd 0 p -> v <> last p 0 -> headb p v = tailb p v.
Proof.
  induction p as [|x t IH]; intros v H1 H2; [reflexivity|].
  destruct t as [|y t']; [reflexivity|].
  rewrite tailb_cons2, headb_cons2. simpl in H1.
  assert (Ex : Nat.eqb x v = false) by (apply Nat.eqb_neq; congruence). rewrite Ex. simpl.
  change (last (x :: y :: t') 0) with (last (y :: t') 0) in H2.
  destruct (Nat.eqb y v) eqn:Ey.
  - apply Nat.eqb_eq in Ey. subst y. simpl. destruct t' as [|z t''].
    + simpl in H2. congruence.
    + rewrite tailb_cons2. rewrite Nat.eqb_refl. reflexivity.
  - simpl. apply IH; [|exact H2]. simpl. intro C. subst. rewrite Nat.eqb_refl in Ey. discriminate.
Qed.

(* ------------------------------------------------------------------ exact values after a subtraction *)
Section Subtract.
Variable n : nat.
Variable f : fmat.
Variable p : list nat.
Hypothesis Hne : edges p <> [].
Let m := minQ (evals f (edges p)).

Lemma sub1_argmin_zero :
  let e := nth (argminQ (evals (sub1 f p) (edges p))) (edges p) (0, 0) in
  In e (edges p) /\ (sub1 f p (fst e) (snd e) == 0)%Q.
Proof.
  intro e. destruct (argmin_edge (sub1 f p) (edges p) Hne) as [Hin [Hm Hmin]]. fold e in Hin, Hm.
  split; [exact Hin|].
  destruct (argmin_edge f (edges p) Hne) as [Hin0 [Hm0 Hmin0]].
  set (e0 := nth (argminQ (evals f (edges p))) (edges p) (0, 0)) in *.
  assert (H0 : (sub1 f p (fst e0) (snd e0) == 0)%Q).
  { destruct e0 as [a0 b0]. simpl in *. rewrite (sub1_on f p a0 b0 Hin0). rewrite Hm0. ring. }
  assert (Hle : (sub1 f p (fst e) (snd e) <= sub1 f p (fst e0) (snd e0))%Q).
  { rewrite <- Hm. apply Hmin. exact Hin0. }
  assert (Hge : (0 <= sub1 f p (fst e) (snd e))%Q).
  { destruct e as [a b]. simpl in *. rewrite (sub1_on f p a b Hin).
    specialize (Hmin0 _ Hin). simpl in Hmin0. lra. }
  lra.
Qed.

Lemma subtract_val_on : forall a b, In (a, b) (edges p) -> (subtract_path f p a b == f a b - m)%Q.
Proof.
  intros a b Hin. rewrite subtract_path_eq. unfold set0.
  destruct (eqe _ a b) eqn:E.
  - apply eqe_true in E. destruct sub1_argmin_zero as [_ Hz]. rewrite E in Hz. simpl in Hz.
    rewrite (sub1_on f p a b Hin) in Hz. unfold m. lra.
  - apply sub1_on. exact Hin.
Qed.

Lemma subtract_val_off : forall a b, ~ In (a, b) (edges p) -> subtract_path f p a b = f a b.
Proof.
  intros a b Hout. rewrite subtract_path_eq. unfold set0.
  destruct (eqe _ a b) eqn:E.
  - apply eqe_true in E. destruct sub1_argmin_zero as [Hin _]. rewrite E in Hin. contradiction.
  - apply sub1_off. exact Hout.
Qed.

Hypothesis Hnd : NoDup p.
Hypothesis Hlt : Forall (fun x => x < n) p.

Lemma path_lt : forall a b, In (a, b) (edges p) -> a < n /\ b < n.
Proof.
  intros a b H. destruct (edges_in p a b H) as [Ha Hb]. rewrite Forall_forall in Hlt.
  split; apply Hlt; assumption.
Qed.

Lemma rowsum_subtract : forall v,
  (rowsum n (subtract_path f p) v == rowsum n f v - (if tailb p v then m else 0))%Q.
Proof.
  intro v. unfold rowsum. destruct (tailb p v) eqn:Et.
  - apply tailb_true in Et. destruct Et as [b Hb]. destruct (path_lt v b Hb) as [_ Hbn].
    apply qsum_map_drop with (x0 := b).
    + apply seq_NoDup.
    + apply in_seq. lia.
    + apply subtract_val_on. exact Hb.
    + intros j _ Hj. rewrite subtract_val_off; [reflexivity|].
      intro C. apply Hj. eapply edges_out_unique; eassumption.
  - assert (E : (qsum (map (subtract_path f p v) (seq 0 n)) == qsum (map (f v) (seq 0 n)))%Q).
    { apply qsum_map_ext. intros j _. rewrite subtract_val_off; [reflexivity|].
      intro C. assert (T : tailb p v = true) by (apply tailb_true; exists j; exact C). congruence. }
    rewrite E. ring.
Qed.

Lemma colsum_subtract : forall v,
  (colsum n (subtract_path f p) v == colsum n f v - (if headb p v then m else 0))%Q.
Proof.
  intro v. unfold colsum. destruct (headb p v) eqn:Et.
  - apply headb_true in Et. destruct Et as [a Ha]. destruct (path_lt a v Ha) as [Han _].
    apply (qsum_map_drop (fun u => subtract_path f p u v) (fun u => f u v)) with (x0 := a).
    + apply seq_NoDup.
    + apply in_seq. lia.
    + apply subtract_val_on. exact Ha.
    + intros j _ Hj. rewrite subtract_val_off; [reflexivity|].
      intro C. apply Hj. eapply edges_in_unique; eassumption.
  - assert (E : (qsum (map (fun u => subtract_path f p u v) (seq 0 n)) == qsum (map (fun u => f u v) (seq 0 n)))%Q).
    { apply qsum_map_ext. intros j _. rewrite subtract_val_off; [reflexivity|].
      intro C. assert (T : headb p v = true) by (apply headb_true; exists j; exact C). congruence. }
    rewrite E. ring.
Qed.

(* --- the pathway runs from a source to a sink of a conserved non-negative flow *)
Variable srcs sinks : list nat.
Hypothesis Hnn : nonneg f.
Hypothesis Hpos : pos_edges f p.
Hypothesis Hsrc : In (hd 0 p) srcs.
Hypothesis Hsnk : In (last p 0) sinks.
Hypothesis Hcons : conserved n f srcs sinks.

Lemma head_not_source : forall v, In v srcs -> headb p v = false.
Proof.
  intros v Hv. destruct (headb p v) eqn:E; [|reflexivity]. exfalso.
  apply headb_true in E. destruct E as [a Ha]. destruct (path_lt a v Ha) as [Han Hvn].
  unfold pos_edges in Hpos. rewrite Forall_forall in Hpos. specialize (Hpos _ Ha). simpl in Hpos.
  destruct (Hcons v Hvn) as [C1 _]. specialize (C1 Hv).
  pose proof (colsum_ge_edge n f a v Hnn Han) as Hge. lra.
Qed.

Lemma subtract_conserved : conserved n (subtract_path f p) srcs sinks.
Proof.
  pose proof (subtract_path_fle f p Hnn Hpos Hne) as Hfle.
  pose proof (subtract_path_nonneg f p Hnn Hne) as Hnn'.
  intros v Hv. destruct (Hcons v Hv) as [C1 [C2 C3]]. repeat split.
  - intro Hs. specialize (C1 Hs).
    pose proof (colsum_fle n _ _ v Hfle). pose proof (colsum_nonneg n _ v Hnn'). lra.
  - intros Hs Hk. specialize (C2 Hs Hk).
    pose proof (rowsum_fle n _ _ v Hfle). pose proof (rowsum_nonneg n _ v Hnn'). lra.
  - intros Hs Hk. specialize (C3 Hs Hk).
    rewrite rowsum_subtract, colsum_subtract.
    rewrite (head_tail_interior p v); [rewrite C3; reflexivity| |]; intro C; subst v; contradiction.
Qed.

Lemma subtract_total_exact : NoDup srcs ->
  (total_flux n (subtract_path f p) srcs == total_flux n f srcs - m)%Q.
Proof.
  intro Hnds. unfold total_flux. apply qsum_map_drop with (x0 := hd 0 p).
  - exact Hnds.
  - exact Hsrc.
  - rewrite rowsum_subtract. rewrite (tailb_hd p Hne). reflexivity.
  - intros s Hs Hsne. rewrite rowsum_subtract.
    destruct (tailb p s) eqn:Et; [|ring]. exfalso.
    apply (tail_then_head p s Hsne) in Et. rewrite (head_not_source s Hs) in Et. discriminate.
Qed.

End Subtract.

Lemma subtract_acyclic : forall n f p, nonneg f -> pos_edges f p -> edges p <> [] ->
  acyclic n f -> acyclic n (subtract_path f p).
Proof.
  intros n f p Hnn Hpos Hne [rank Hr]. exists rank. intros a b Ha Hb H. apply Hr; try assumption.
  eapply Qlt_le_trans; [exact H|]. apply subtract_path_fle; assumption.
Qed.

(* the flux reported by top_path is the minimum that _subtract_path_flux subtracts *)
Lemma top_flux_is_min : forall n f srcs sinks p q,
  top_path n f srcs sinks = Ok (p, Fin q) -> (q == minQ (evals f (edges p)))%Q.
Proof.
  intros n f srcs sinks p q H.
  destruct (top_path_edges _ _ _ _ _ _ H) as [_ Hne].
  destruct (top_path_flux_lemma _ _ _ _ _ _ H) as [Hall [[e [Hin He]] _]].
  destruct (argmin_edge f (edges p) Hne) as [Hin0 [Hm Hmin]].
  specialize (Hmin _ Hin). specialize (Hall _ Hin0). rewrite <- Hm in Hall.
  apply Qle_antisym; [exact Hall|]. rewrite He. exact Hmin.
Qed.

(* (2) one round of the loop keeps the invariant and lowers the outflow by exactly the flux *)
Lemma subtract_step_lemma : forall n f srcs sinks p q,
  nonneg f -> conserved n f srcs sinks -> acyclic n f -> NoDup srcs ->
  top_path n f srcs sinks = Ok (p, Fin q) ->
  nonneg (subtract_path f p) /\ conserved n (subtract_path f p) srcs sinks /\
  acyclic n (subtract_path f p) /\
  (total_flux n (subtract_path f p) srcs == total_flux n f srcs - q)%Q.
Proof.
  intros n f srcs sinks p q Hnn Hc Ha Hnds Ht.
  destruct (top_path_edges _ _ _ _ _ _ Ht) as [Hpos Hne].
  destruct (top_path_valid_lemma _ _ _ _ _ _ Ht) as [[_ [Hlt _]] [Hnd [Hs Hk]]].
  split; [apply subtract_path_nonneg; assumption|].
  split; [eapply subtract_conserved; eassumption|].
  split; [apply subtract_acyclic; assumption|].
  rewrite (top_flux_is_min _ _ _ _ _ _ Ht).
  eapply subtract_total_exact; eassumption.
Qed.

(* ------------------------------------------------------------------ (3) a pathway exists *)
Lemma walk_cons : forall n f v w, v < n -> is_walk n f w -> (0 < f v (hd 0%nat w))%Q -> is_walk n f (v :: w).
Proof.
  intros n f v w Hv [H1 [H2 H3]] Hpos. destruct w as [|y t]; [congruence|].
  repeat split.
  - discriminate.
  - constructor; assumption.
  - rewrite edges_cons2. constructor; [exact Hpos|exact H3].
Qed.

Lemma rank_le_max : forall (rank : nat -> nat) n v, v < n -> rank v <= list_max (map rank (seq 0 n)).
Proof.
  intros rank n v Hv.
  assert (H : list_max (map rank (seq 0 n)) <= list_max (map rank (seq 0 n))) by lia.
  apply list_max_le in H. rewrite Forall_forall in H. apply H.
  apply in_map. apply in_seq. lia.
Qed.

Lemma walk_to_sink : forall n f srcs sinks rank,
  nonneg f -> conserved n f srcs sinks ->
  (forall a b, a < n -> b < n -> (0 < f a b)%Q -> rank a < rank b) ->
  forall k v, v < n -> list_max (map rank (seq 0 n)) - rank v <= k -> (0 < colsum n f v)%Q ->
  exists w, is_walk n f w /\ hd 0 w = v /\ In (last w 0) sinks.
Proof.
  intros n f srcs sinks rank Hnn Hc Hr.
  induction k as [|k IH]; intros v Hv Hk Hcol.
  - destruct (Hc v Hv) as [C1 [C2 C3]].
    destruct (in_dec Nat.eq_dec v srcs) as [Hs|Hs]; [specialize (C1 Hs); lra|].
    destruct (in_dec Nat.eq_dec v sinks) as [Ht|Ht].
    + exists [v]. repeat split; try (constructor; try assumption; constructor); try discriminate. exact Ht.
    + specialize (C3 Hs Ht). assert (Hrow : (0 < rowsum n f v)%Q) by lra.
      unfold rowsum in Hrow. apply qsum_pos_ex in Hrow. destruct Hrow as [y [Hy Hpos]].
      apply in_seq in Hy. assert (Hyn : y < n) by lia.
      pose proof (Hr v y Hv Hyn Hpos). pose proof (rank_le_max rank n y Hyn). lia.
  - destruct (Hc v Hv) as [C1 [C2 C3]].
    destruct (in_dec Nat.eq_dec v srcs) as [Hs|Hs]; [specialize (C1 Hs); lra|].
    destruct (in_dec Nat.eq_dec v sinks) as [Ht|Ht].
    + exists [v]. repeat split; try (constructor; try assumption; constructor); try discriminate. exact Ht.
    + specialize (C3 Hs Ht). assert (Hrow : (0 < rowsum n f v)%Q) by lra.
      unfold rowsum in Hrow. apply qsum_pos_ex in Hrow. destruct Hrow as [y [Hy Hpos]].
      apply in_seq in Hy. assert (Hyn : y < n) by lia.
      pose proof (Hr v y Hv Hyn Hpos) as Hlt. pose proof (rank_le_max rank n y Hyn) as Hmax.
      assert (Hcy : (0 < colsum n f y)%Q).
      { pose proof (colsum_ge_edge n f v y Hnn Hv). lra. }
      destruct (IH y Hyn ltac:(lia) Hcy) as [w [Hw [Hh Hl]]].
      exists (v :: w). split; [apply walk_cons; [exact Hv|exact Hw|rewrite Hh; exact Hpos]|].
      split; [reflexivity|].
      destruct w as [|y' t]; [destruct Hw as [C _]; congruence|]. exact Hl.
Qed.

Lemma positive_outflow_has_walk : forall n f srcs sinks,
  nonneg f -> conserved n f srcs sinks -> acyclic n f ->
  (forall s, In s srcs -> s < n) -> (0 < total_flux n f srcs)%Q ->
  exists w, st_walk n f srcs sinks w /\ ele (Fin 0) (bottleneck f w) /\ bottleneck f w <> Fin 0.
Proof.
  intros n f srcs sinks Hnn Hc [rank Hr] Hlt Htot.
  unfold total_flux in Htot. apply qsum_pos_ex in Htot. destruct Htot as [s [Hs Hrow]].
  unfold rowsum in Hrow. apply qsum_pos_ex in Hrow. destruct Hrow as [y [Hy Hpos]].
  apply in_seq in Hy. assert (Hyn : y < n) by lia.
  assert (Hcy : (0 < colsum n f y)%Q).
  { pose proof (colsum_ge_edge n f s y Hnn (Hlt s Hs)). lra. }
  destruct (walk_to_sink n f srcs sinks rank Hnn Hc Hr _ y Hyn (Nat.le_refl _) Hcy) as [w [Hw [Hh Hl]]].
  assert (Hwalk : is_walk n f (s :: w)) by (apply walk_cons; [apply Hlt; exact Hs|exact Hw|rewrite Hh; exact Hpos]).
  exists (s :: w). split; [|split].
  - split; [exact Hwalk|]. split; [exact Hs|].
    destruct w as [|y' t]; [destruct Hw as [C _]; congruence|]. exact Hl.
  - apply bottleneck_glb. destruct Hwalk as [_ [_ Hp]]. eapply Forall_impl; [|exact Hp].
    intros e He. unfold eflux. apply ele_fin. apply Qlt_le_weak. exact He.
  - destruct w as [|y' t]; [destruct Hw as [C _]; congruence|].
    assert (Hne : edges (s :: y' :: t) <> []) by (rewrite edges_cons2; discriminate).
    destruct (bottleneck_is_edge f _ Hne) as [e [Hin He]]. rewrite He. unfold eflux.
    destruct Hwalk as [_ [_ Hp]]. rewrite Forall_forall in Hp. specialize (Hp e Hin).
    intro C. inversion C as [C']. rewrite C' in Hp. revert Hp. apply Qlt_irrefl.
Qed.

(* ... so top_path answers a finite flux (not -inf, and not +inf when no source is a sink) *)
Lemma top_path_in_range : forall n f srcs sinks r,
  top_path n f srcs sinks = Ok r -> forall s, In s srcs -> s < n.
Proof.
  intros n f srcs sinks r H. unfold top_path in H.
  destruct (in_range n srcs && in_range n sinks) eqn:Er; simpl in H; [|discriminate].
  apply andb_true_iff in Er. destruct Er as [Er _]. apply in_range_spec. exact Er.
Qed.

Lemma edges_nil : forall p, edges p = [] -> p = [] \/ exists a, p = [a].
Proof.
  intros [|a [|b t]] H; [left; reflexivity|right; exists a; reflexivity|discriminate].
Qed.

Lemma top_path_not_PInf : forall n f srcs sinks p,
  (forall x, In x srcs -> ~ In x sinks) -> top_path n f srcs sinks <> Ok (p, PInf).
Proof.
  intros n f srcs sinks p Hdis H.
  destruct (top_path_sound _ _ _ _ _ _ H) as [H1 _].
  destruct H1 as [[[Hne _] [_ [Hs Hk]]] [Hb _]]; [discriminate|].
  apply PInf_ele_inv in Hb.
  destruct (edges p) as [|e es] eqn:Ee.
  - destruct (edges_nil p Ee) as [C|[a C]]; [congruence|]. subst p. simpl in Hs, Hk.
    exact (Hdis a Hs Hk).
  - assert (Hne' : edges p <> []) by (rewrite Ee; discriminate).
    destruct (bottleneck_is_edge f p Hne') as [e0 [_ He0]]. rewrite He0 in Hb. discriminate.
Qed.

Lemma conserved_top_path_finite : forall n f srcs sinks p fl,
  nonneg f -> conserved n f srcs sinks -> acyclic n f ->
  (forall x, In x srcs -> ~ In x sinks) -> (0 < total_flux n f srcs)%Q ->
  top_path n f srcs sinks = Ok (p, fl) -> exists q, fl = Fin q /\ (0 < q)%Q.
Proof.
  intros n f srcs sinks p fl Hnn Hc Ha Hdis Htot Ht.
  destruct fl as [|q|].
  - exfalso. pose proof (top_path_in_range _ _ _ _ _ Ht) as Hlt.
    destruct (positive_outflow_has_walk n f srcs sinks Hnn Hc Ha Hlt Htot) as [w [Hw _]].
    exact (top_path_none_lemma _ _ _ _ _ w Ht Hw).
  - exists q. split; [reflexivity|]. apply (top_path_flux_lemma _ _ _ _ _ _ Ht).
  - exfalso. exact (top_path_not_PInf _ _ _ _ _ Hdis Ht).
Qed.

(* ------------------------------------------------------------------ (4) the loop *)
Lemma paths_loop_reaches : forall n srcs sinks total cutoff,
  NoDup srcs -> (forall x, In x srcs -> ~ In x sinks) ->
  forall fuel f counter expl accp accf ps qs,
  nonneg f -> conserved n f srcs sinks -> acyclic n f ->
  (0 <= qsum accf)%Q ->
  (total_flux n f srcs == total - qsum accf)%Q ->
  ((0 < total)%Q -> (expl == qsum accf / total)%Q) ->
  paths_loop fuel subtract_path n srcs sinks f total None cutoff counter expl accp accf = Ok (ps, qs) ->
  (cutoff * total <= qsum qs)%Q \/ (qsum qs == total)%Q.
Proof.
  intros n srcs sinks total cutoff Hnds Hdis.
  induction fuel as [|k IH]; intros f counter expl accp accf ps qs Hnn Hc Ha Hacc Htot Hexpl H;
    [discriminate|].
  cbn [paths_loop] in H.
  destruct (top_path n f srcs sinks) as [[p fl]| | |] eqn:Et; try discriminate.
  destruct fl as [|q|].
  - (* -inf: the outflow is exhausted *)
    assert (Eqs : qs = rev accf) by congruence. subst qs. right. rewrite qsum_rev.
    destruct (Qlt_le_dec 0 (total_flux n f srcs)) as [Hpos|Hle].
    + exfalso. destruct (conserved_top_path_finite _ _ _ _ _ _ Hnn Hc Ha Hdis Hpos Et) as [q [C _]].
      discriminate.
    + pose proof (total_flux_nonneg n f srcs Hnn). lra.
  - destruct (subtract_step_lemma n f srcs sinks p q Hnn Hc Ha Hnds Et) as [Hnn' [Hc' [Ha' Htot']]].
    destruct (top_path_flux_lemma _ _ _ _ _ _ Et) as [_ [_ Hq]].
    pose proof (total_flux_nonneg n _ srcs Hnn') as Hge'.
    assert (Htp : (0 < total)%Q) by lra.
    assert (Hexpl' : (Qred (expl + q / total) == qsum (q :: accf) / total)%Q).
    { rewrite Qred_correct. rewrite (Hexpl Htp). simpl. field. lra. }
    cbn [reached_count orb] in H.
    destruct (Qle_bool cutoff (Qred (expl + q / total))) eqn:Ecut.
    + assert (Eqs : qs = rev (q :: accf)) by congruence. subst qs. left. rewrite qsum_rev.
      apply Qle_bool_iff in Ecut. rewrite Hexpl' in Ecut.
      apply (Qmult_le_compat_r _ _ total) in Ecut; [|lra].
      assert (E : (qsum (q :: accf) / total * total == qsum (q :: accf))%Q) by (field; lra).
      rewrite E in Ecut. exact Ecut.
    + apply IH in H; try assumption.
      * simpl. lra.
      * simpl. rewrite Htot', Htot. ring.
      * intros _. exact Hexpl'.
  - exfalso. exact (top_path_not_PInf _ _ _ _ _ Hdis Et).
Qed.

(* with num_paths = inf the loop ends only once the explained fraction has reached the cut-off, or the
   whole outflow of the sources has been explained *)
Lemma conserved_reaches_general : forall n f srcs sinks cutoff ps qs,
  nonneg f -> conserved n f srcs sinks -> acyclic n f ->
  NoDup srcs -> (forall x, In x srcs -> ~ In x sinks) ->
  paths subtract_path n f srcs sinks None cutoff = Ok (ps, qs) ->
  (cutoff * total_flux n f srcs <= qsum qs)%Q \/ (qsum qs == total_flux n f srcs)%Q.
Proof.
  intros n f srcs sinks cutoff ps qs Hnn Hc Ha Hnds Hdis H. unfold paths in H.
  eapply paths_loop_reaches; try eassumption.
  - simpl. apply Qle_refl.
  - simpl. ring.
  - intros Hp. simpl. field. lra.
Qed.

Lemma conserved_reaches_lemma : forall n f srcs sinks cutoff ps qs,
  nonneg f -> conserved n f srcs sinks -> acyclic n f ->
  NoDup srcs -> (forall x, In x srcs -> ~ In x sinks) -> (cutoff <= 1)%Q ->
  paths subtract_path n f srcs sinks None cutoff = Ok (ps, qs) ->
  (cutoff * total_flux n f srcs <= qsum qs)%Q.
Proof.
  intros n f srcs sinks cutoff ps qs Hnn Hc Ha Hnds Hdis Hcut H.
  destruct (conserved_reaches_general _ _ _ _ _ _ _ Hnn Hc Ha Hnds Hdis H) as [Hl|Hr]; [exact Hl|].
  pose proof (total_flux_nonneg n f srcs Hnn). rewrite Hr. nra.
Qed.

(* ------------------------------------------------------------------ the executable tests imply the Props *)
Lemma Qeq_bool_true : forall a b, Qeq_bool a b = true -> (a == b)%Q.
Proof. intros a b H. apply Qeq_bool_iff. exact H. Qed.

Lemma conservedb_conserved : forall n f srcs sinks,
  conservedb n f srcs sinks = true -> conserved n f srcs sinks.
Proof.
  intros n f srcs sinks H v Hv. unfold conservedb in H. rewrite forallb_forall in H.
  assert (Hin : In v (seq 0 n)) by (apply in_seq; lia). specialize (H v Hin).
  destruct (memb v srcs) eqn:Es.
  - apply memb_In in Es. repeat split; try (intro; contradiction). intros _. apply Qeq_bool_true. exact H.
  - apply memb_false in Es. destruct (memb v sinks) eqn:Ek.
    + apply memb_In in Ek. repeat split; try (intros; contradiction). intros _ _. apply Qeq_bool_true. exact H.
    + apply memb_false in Ek. repeat split; try (intros; contradiction). intros _ _. apply Qeq_bool_true. exact H.
Qed.

Lemma forwardb_acyclic : forall n f ord, forwardb n f ord = true -> acyclic n f.
Proof.
  intros n f ord H. exists (fun a => index_of a ord). intros a b Ha Hb Hpos.
  unfold forwardb in H. apply andb_true_iff in H. destruct H as [_ H].
  rewrite forallb_forall in H. assert (Hia : In a (seq 0 n)) by (apply in_seq; lia).
  specialize (H a Hia). rewrite forallb_forall in H.
  assert (Hib : In b (seq 0 n)) by (apply in_seq; lia). specialize (H b Hib).
  apply orb_true_iff in H. destruct H as [H|H].
  - apply negb_true_iff in H. apply Qltb_false in H. lra.
  - apply Nat.ltb_lt. exact H.
Qed.

Lemma nodupb_NoDup : forall l, nodupb l = true -> NoDup l.
Proof.
  induction l as [|x r IH]; intro H; [constructor|].
  simpl in H. apply andb_true_iff in H. destruct H as [H1 H2].
  apply negb_true_iff in H1. apply memb_false in H1. constructor; [exact H1|apply IH; exact H2].
Qed.

(* a non-trivial instance of the hypotheses: the graph of test_paths *)
Lemma ex_graph_hyps :
  nonneg ex_graph /\ conserved 6 ex_graph [0] [5] /\ acyclic 6 ex_graph /\ NoDup [0] /\
  (forall x, In x [0] -> ~ In x [5]).
Proof.
  split; [apply of_lists_nonneg; vm_compute; reflexivity|].
  split; [apply conservedb_conserved; vm_compute; reflexivity|].
  split; [apply (forwardb_acyclic 6 ex_graph [0; 1; 2; 3; 4; 5]); vm_compute; reflexivity|].
  split; [apply nodupb_NoDup; reflexivity|].
  intros x [Hx|[]] [Hy|[]]. subst. discriminate.
Qed.

Lemma conserved_tests_sound : forall n f srcs sinks ord,
  (conservedb n f srcs sinks = true -> conserved n f srcs sinks) /\
  (forwardb n f ord = true -> acyclic n f).
Proof. intros. split; [apply conservedb_conserved|apply forwardb_acyclic]. Qed.
