(* Tests regenerated from enspara/cluster/util.py (find_cluster_centers, compute_batches,
   ClusterResult.partition) plugged into code-shaped skeletons give the models of C10. *)
From Coq Require Import List ZArith QArith Bool Arith.
From EV Require Import KcGuardBase ClusterGen Cluster PartitionSkel Partition.
Import ListNotations.

Theorem gen_square_is_model lens : gen_square lens = square lens.
Proof. reflexivity. Qed.

Theorem gen_batches_is_model bs lens : forall i cur_sz cur done,
  cb_loop_skel gen_cb_fits bs lens i cur_sz cur done = cb_loop bs lens i cur_sz cur done.
Proof.
  induction lens as [|l r IH]; intros i cur_sz cur done; cbn [cb_loop_skel cb_loop]; [reflexivity|].
  unfold gen_cb_fits. destruct (cur_sz + l <? bs)%Z; apply IH.
Qed.

Theorem gen_center_finder_is_model c l : forall best,
  argmin_label_skel gen_fcc_member gen_fcc_better c best l = argmin_label c best l.
Proof.
  induction l as [|x r IH]; intros best; cbn [argmin_label_skel argmin_label]; [reflexivity|].
  unfold gen_fcc_member, gen_fcc_better, cmp_q_lt. fold (Qlt_b (dist x)).
  destruct (Nat.eqb (lab x) c); [|apply IH].
  destruct best as [b|]; [|apply IH].
  change (negb (Qle_bool (dist b) (dist x))) with (Qlt_b (dist x) (dist b)).
  destruct (Qlt_b (dist x) (dist b)); apply IH.
Qed.
