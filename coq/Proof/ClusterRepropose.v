(* C09: proposing a frame that already is a medoid (the current medoid of cluster cid, or the
   medoid of another cluster) is rejected and leaves the whole state untouched. *)
From Coq Require Import List ZArith QArith Bool Arith Lia Lqa.
From EV Require Import Cluster ClusterBase ClusterInv ClusterPam.
Import ListNotations.

Section Repropose.
  Variable D : nat -> nat -> Q.
  Hypothesis D_self : forall f, D f f == 0.
  Hypothesis D_pos : forall c f, c <> f -> 0 < D c f.

  Theorem medoid_proposal_is_noop n s cid p :
    Inv D n s -> (cid < length (fst s))%nat -> In p (fst s) -> pam_update D s cid p = s.
  Proof.
    intros HI Hcid Hin. unfold pam_update.
    qlt_cases (sumsq (map (pam_frame D cid p (replace_nth cid p (fst s))) (snd s))) (sumsq (snd s)) E; [exfalso|reflexivity].
    pose proof HI as [_ [_ [_ [_ [Hfr _]]]]]. rewrite Forall_forall in Hfr.
    assert (Hle : sumsq (snd s) <= sumsq (map (pam_frame D cid p (replace_nth cid p (fst s))) (snd s))).
    { apply sumsq_le_map. intros x Hx. split.
      - apply (frame_ok_nonneg D D_self D_pos (fst s)). apply Hfr. exact Hx.
      - apply (pam_frame_no_gain D); [exact Hcid|exact Hin|apply Hfr; exact Hx]. }
    lra.
  Qed.

  (* in particular re-proposing the current medoid of the cluster being updated *)
  Corollary current_medoid_proposal_is_noop n s cid :
    Inv D n s -> (cid < length (fst s))%nat -> pam_update D s cid (ctr (fst s) cid) = s.
  Proof.
    intros HI Hcid. apply (medoid_proposal_is_noop n); [exact HI|exact Hcid|].
    unfold ctr. apply nth_In. exact Hcid.
  Qed.

  (* a whole sweep of such proposals is the identity *)
  Theorem medoid_sweep_is_noop n : forall props cid s,
    Inv D n s -> (cid + length props <= length (fst s))%nat -> Forall (fun p => In p (fst s)) props ->
    pam_sweep_from D cid props s = s.
  Proof.
    induction props as [|p props IH]; intros cid s HI Hk Hp; cbn [pam_sweep_from]; [reflexivity|].
    cbn [length] in Hk. inversion Hp as [|? ? Hp1 Hp2]; subst.
    rewrite (medoid_proposal_is_noop n s cid p HI ltac:(lia) Hp1).
    apply IH; [exact HI|lia|exact Hp2].
  Qed.
End Repropose.
