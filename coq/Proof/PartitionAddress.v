(* C10: the pieces returned by partition_list and the pairs returned by partition_indices address
   the same frames; the split is the only one with the given row lengths. *)
From Coq Require Import List ZArith Lia Arith.
From EV Require Import PySlice PySliceLemmas PartitionBase PartitionGen Cluster ClusterBase Partition PartitionProofs.
Import ListNotations.
Open Scope Z_scope.

Definition zlens {A} (rows : list (list A)) : list Z := map (fun r => Z.of_nat (length r)) rows.

Lemma zsum_zlens {A} (rows : list (list A)) : zsum (zlens rows) = Z.of_nat (length (concat rows)).
Proof.
  induction rows as [|r rows IH]; cbn [zlens map zsum fold_right concat]; [reflexivity|].
  rewrite app_length. unfold zlens, zsum in IH. rewrite IH. lia.
Qed.

Lemma firstn_zlens {A} t (rows : list (list A)) : firstn t (zlens rows) = zlens (firstn t rows).
Proof. unfold zlens. apply firstn_map. Qed.

(* element k of row t is element (total length of rows before t) + k of the concatenation *)
Lemma concat_nth {A} (d : A) : forall (rows : list (list A)) (t k : nat),
  (t < length rows)%nat -> (k < length (nth t rows []))%nat ->
  nth k (nth t rows []) d = nth (length (concat (firstn t rows)) + k) (concat rows) d.
Proof.
  induction rows as [|r rows IH]; intros t k Ht Hk; [cbn in Ht; lia|].
  destruct t as [|t]; cbn [nth firstn concat length] in *.
  - cbn [Nat.add]. rewrite app_nth1 by exact Hk. reflexivity.
  - rewrite app_length. rewrite app_nth2 by lia.
    replace (length r + length (concat (firstn t rows)) + k - length r)%nat
      with (length (concat (firstn t rows)) + k)%nat by lia.
    apply IH; [lia|exact Hk].
Qed.

(* the (trajectory, frame) pair reads, in the split pieces, the value the flat index read *)
Theorem pair_reads_flat_value {A} (d : A) (rows : list (list A)) (t : nat) (f : Z) :
  (t < length rows)%nat -> 0 <= f < nth t (zlens rows) 0 ->
  nth (Z.to_nat f) (nth t rows []) d = nth (Z.to_nat (flat_of (zlens rows) t f)) (concat rows) d.
Proof.
  intros Ht Hf. unfold flat_of. rewrite firstn_zlens, zsum_zlens.
  assert (Hlen : nth t (zlens rows) 0 = Z.of_nat (length (nth t rows []))).
  { unfold zlens. change 0 with ((fun r : list A => Z.of_nat (length r)) []). apply map_nth. }
  rewrite Hlen in Hf.
  replace (Z.to_nat (Z.of_nat (length (concat (firstn t rows))) + f))
    with (length (concat (firstn t rows)) + Z.to_nat f)%nat by lia.
  apply concat_nth; [exact Ht|lia].
Qed.

(* end to end on the generated functions: split the flat array l by lens, convert the flat index i;
   the pair addresses, in the split, exactly l[i] *)
Theorem partition_pair_addresses_same_value {A} (d : A) (l : list A) lens i :
  nonneg lens -> zsum lens = Z.of_nat (length l) -> 0 <= i < zsum lens ->
  exists rows t f, gen_partition_list l lens = Some rows /\
    gen_partition_indices [i] lens = [(Z.of_nat t, f)] /\
    (t < length rows)%nat /\ 0 <= f < Z.of_nat (length (nth t rows [])) /\
    nth (Z.to_nat f) (nth t rows []) d = nth (Z.to_nat i) l d.
Proof.
  intros Hn Hsum Hi.
  destruct (partition_list_concat l lens Hn Hsum) as [rows [Hr [Hc Hl]]].
  destruct (partition_indices_map lens [i] Hn ltac:(constructor; [exact Hi|constructor])) as [Hlen Hk].
  destruct (Hk 0%nat ltac:(cbn; lia)) as [t [f [Hp [Ht [Hf Hflat]]]]]. cbn [nth] in Hp, Hflat.
  exists rows, t, f. split; [exact Hr|]. split.
  - cbn [length] in Hlen. destruct (gen_partition_indices [i] lens) as [|x [|y r]]; cbn in Hlen; try lia.
    cbn [nth] in Hp. rewrite Hp. reflexivity.
  - fold (zlens rows) in Hl. assert (Htr : (t < length rows)%nat).
    { rewrite <- Hl in Ht. unfold zlens in Ht. rewrite map_length in Ht. exact Ht. }
    split; [exact Htr|]. rewrite <- Hl in Hf, Hflat.
    assert (Hlen' : nth t (zlens rows) 0 = Z.of_nat (length (nth t rows []))).
    { unfold zlens. change 0 with ((fun r : list A => Z.of_nat (length r)) []). apply map_nth. }
    split; [rewrite <- Hlen'; exact Hf|].
    rewrite (pair_reads_flat_value d rows t f Htr Hf), Hflat, Hc. reflexivity.
Qed.

(* the split is determined by the flat array and the lengths *)
Lemma app_eq_length {A} : forall (a a' b b' : list A), length a = length a' -> a ++ b = a' ++ b' -> a = a' /\ b = b'.
Proof.
  induction a as [|x a IH]; intros [|x' a'] b b' Hl H; cbn in Hl; try lia.
  - split; [reflexivity|exact H].
  - cbn in H. injection H as -> H. destruct (IH a' b b' ltac:(lia) H) as [-> ->]. split; reflexivity.
Qed.

Theorem split_unique {A} : forall (rows rows' : list (list A)),
  concat rows = concat rows' -> zlens rows = zlens rows' -> rows = rows'.
Proof.
  induction rows as [|r rows IH]; intros [|r' rows'] Hc Hl; cbn [zlens map] in Hl; try discriminate; [reflexivity|].
  injection Hl as Hr Hl. cbn [concat] in Hc.
  destruct (app_eq_length r r' (concat rows) (concat rows') ltac:(lia) Hc) as [-> Hc'].
  f_equal. apply IH; assumption.
Qed.

Theorem partition_list_is_the_only_split {A} (l : list A) lens rows rows' :
  gen_partition_list l lens = Some rows -> concat rows' = l -> zlens rows' = lens -> nonneg lens -> rows' = rows.
Proof.
  intros Hr Hc Hl Hn.
  assert (Hsum : zsum lens = Z.of_nat (length l)).
  { rewrite <- Hl, <- Hc. apply zsum_zlens. }
  destruct (partition_list_concat l lens Hn Hsum) as [rows0 [Hr0 [Hc0 Hl0]]].
  rewrite Hr in Hr0. injection Hr0 as <-.
  apply split_unique; [congruence|fold (zlens rows) in Hl0; congruence].
Qed.

(* labels and distances split with the same lengths have the same shape, row by row *)
Theorem partition_shapes_agree {A B} (asg : list A) (dst : list B) lens ra rd :
  gen_partition_list asg lens = Some ra -> gen_partition_list dst lens = Some rd -> nonneg lens ->
  map (@length A) ra = map (@length B) rd.
Proof.
  intros Ha Hd Hn.
  assert (Sa : zsum lens = Z.of_nat (length asg)).
  { destruct (Z.eq_dec (zsum lens) (Z.of_nat (length asg))) as [E|E]; [exact E|].
    rewrite (partition_list_rejects asg lens E) in Ha. discriminate. }
  assert (Sd : zsum lens = Z.of_nat (length dst)).
  { destruct (Z.eq_dec (zsum lens) (Z.of_nat (length dst))) as [E|E]; [exact E|].
    rewrite (partition_list_rejects dst lens E) in Hd. discriminate. }
  destruct (partition_list_concat asg lens Hn Sa) as [ra0 [Ha0 [_ La]]].
  destruct (partition_list_concat dst lens Hn Sd) as [rd0 [Hd0 [_ Ld]]].
  rewrite Ha in Ha0. injection Ha0 as <-. rewrite Hd in Hd0. injection Hd0 as <-.
  rewrite <- Ld in La. clear -La. revert rd La.
  induction ra as [|a ra IH]; intros [|b rd] H; cbn [map] in *; try discriminate; [reflexivity|].
  injection H as H1 H2. f_equal; [lia|apply IH; exact H2].
Qed.
