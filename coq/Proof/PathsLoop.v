(* C17 proofs, part 4: the two removal schemes and the paths loop. *)
From Coq Require Import List Arith QArith Qreduction Bool Lia Lqa Sorted.
From EV Require Import Paths PathsProofs PathsSearch PathsTop.
Import ListNotations.
Close Scope Q_scope.

Definition fle (f' f : fmat) : Prop := forall a b, (f' a b <= f a b)%Q.
Definition nonneg (f : fmat) : Prop := forall a b, (0 <= f a b)%Q.
Definition pos_edges (f : fmat) (p : list nat) : Prop :=
  Forall (fun e => (0 < f (fst e) (snd e))%Q) (edges p).

Lemma fle_refl : forall f, fle f f.
Proof. intros f a b. apply Qle_refl. Qed.

Lemma fle_trans : forall f g h, fle f g -> fle g h -> fle f h.
Proof. intros f g h H1 H2 a b. eapply Qle_trans; [apply H1|apply H2]. Qed.

(* ------------------------------------------------------------------ monotonicity in the matrix *)
Lemma walk_mono : forall n f' f w, fle f' f -> is_walk n f' w -> is_walk n f w.
Proof.
  intros n f' f w Hle [H1 [H2 H3]]. repeat split; try assumption.
  eapply Forall_impl; [|exact H3]. intros e He. simpl in *.
  eapply Qlt_le_trans; [exact He|apply Hle].
Qed.

Lemma bottleneck_mono : forall f' f w, fle f' f -> ele (bottleneck f' w) (bottleneck f w).
Proof.
  intros f' f w Hle. apply bottleneck_glb.
  assert (H : ele (bottleneck f' w) (bottleneck f' w)) by apply ele_refl.
  rewrite bottleneck_glb in H. eapply Forall_impl; [|exact H].
  intros e He. eapply ele_trans; [exact He|]. unfold eflux. apply ele_fin. apply Hle.
Qed.

Lemma valid_path_mono : forall n f' f srcs sinks p,
  fle f' f -> valid_path n f' srcs sinks p -> valid_path n f srcs sinks p.
Proof.
  intros n f' f srcs sinks p Hle [H1 H2]. split; [|exact H2]. eapply walk_mono; eassumption.
Qed.

(* the widest bottleneck is monotone in the matrix *)
Lemma top_path_mono : forall n f' f srcs sinks p fl p' q',
  fle f' f -> top_path n f srcs sinks = Ok (p, fl) -> top_path n f' srcs sinks = Ok (p', Fin q') ->
  ele (Fin q') fl.
Proof.
  intros n f' f srcs sinks p fl p' q' Hle H H'.
  destruct (top_path_sound _ _ _ _ _ _ H') as [H1 _].
  destruct H1 as [[Hw [_ [Hs Hk]]] Hb]; [discriminate|].
  eapply ele_trans; [apply Hb|].
  eapply ele_trans; [apply (bottleneck_mono f' f p' Hle)|].
  eapply top_path_optimal_lemma; [exact H|].
  split; [eapply walk_mono; eassumption|]. split; assumption.
Qed.

(* ------------------------------------------------------------------ the removal schemes *)
Lemma eqe_true : forall e a b, eqe e a b = true <-> e = (a, b).
Proof.
  intros [x y] a b. unfold eqe. simpl. rewrite andb_true_iff, !Nat.eqb_eq. split.
  - intros [H1 H2]. subst. reflexivity.
  - intro H. inversion H. split; reflexivity.
Qed.

Lemma on_path_true : forall es a b, on_path es a b = true <-> In (a, b) es.
Proof.
  intros es a b. unfold on_path. rewrite existsb_exists. split.
  - intros [e [He E]]. apply eqe_true in E. subst. exact He.
  - intro H. exists (a, b). split; [exact H|apply eqe_true; reflexivity].
Qed.

Lemma evals_nth : forall f es j, j < length es ->
  nth j (evals f es) 0%Q = f (fst (nth j es (0, 0))) (snd (nth j es (0, 0))).
Proof.
  intros f es j H. unfold evals.
  apply (nth_map_in (fun e : nat * nat => f (fst e) (snd e)) es j (0, 0) 0%Q H).
Qed.

Lemma evals_length : forall f es, length (evals f es) = length es.
Proof. intros. unfold evals. apply map_length. Qed.

(* the selected bottleneck edge lies on the path and carries the minimum *)
Lemma argmin_edge : forall f es, es <> [] ->
  let e := nth (argminQ (evals f es)) es (0, 0) in
  In e es /\ minQ (evals f es) = f (fst e) (snd e) /\
  forall e', In e' es -> (minQ (evals f es) <= f (fst e') (snd e'))%Q.
Proof.
  intros f es Hne e.
  assert (Hv : evals f es <> []) by (destruct es; simpl; congruence).
  destruct (argminQ_spec (evals f es) Hv) as [H1 H2]. rewrite evals_length in H1, H2.
  split; [apply nth_In; exact H1|]. split.
  - unfold minQ. apply evals_nth. exact H1.
  - intros e' He'. destruct (In_nth _ _ (0, 0) He') as [j [Hj Ej]].
    unfold minQ. specialize (H2 j Hj). rewrite (evals_nth f es j Hj) in H2. rewrite Ej in H2. exact H2.
Qed.

Lemma set0_fle : forall f e, (0 <= f (fst e) (snd e))%Q -> fle (set0 f e) f.
Proof.
  intros f e He a b. unfold set0. destruct (eqe e a b) eqn:E; [|apply Qle_refl].
  apply eqe_true in E. subst e. exact He.
Qed.

Lemma set0_nonneg : forall f e, nonneg f -> nonneg (set0 f e).
Proof.
  intros f e H a b. unfold set0. destruct (eqe e a b); [apply Qle_refl|apply H].
Qed.

Lemma remove_bottleneck_fle : forall f p, pos_edges f p -> edges p <> [] -> fle (remove_bottleneck f p) f.
Proof.
  intros f p Hpos Hne. unfold remove_bottleneck. apply set0_fle.
  destruct (argmin_edge f (edges p) Hne) as [Hin _].
  unfold pos_edges in Hpos. rewrite Forall_forall in Hpos. apply Qlt_le_weak. apply (Hpos _ Hin).
Qed.

Lemma remove_bottleneck_nonneg : forall f p, nonneg f -> nonneg (remove_bottleneck f p).
Proof. intros f p H. unfold remove_bottleneck. apply set0_nonneg. exact H. Qed.

(* the matrix after `net_flux[path[:-1], path[1:]] -= min` *)
Definition sub1 (f : fmat) (p : list nat) : fmat :=
  fun a b => if on_path (edges p) a b then Qred (f a b - minQ (evals f (edges p)))%Q else f a b.

Lemma subtract_path_eq : forall f p,
  subtract_path f p = set0 (sub1 f p) (nth (argminQ (evals (sub1 f p) (edges p))) (edges p) (0, 0)).
Proof. reflexivity. Qed.

Lemma sub1_on : forall f p a b, In (a, b) (edges p) ->
  (sub1 f p a b == f a b - minQ (evals f (edges p)))%Q.
Proof.
  intros f p a b H. unfold sub1. apply on_path_true in H. rewrite H. apply Qred_correct.
Qed.

Lemma sub1_off : forall f p a b, ~ In (a, b) (edges p) -> sub1 f p a b = f a b.
Proof.
  intros f p a b H. unfold sub1. destruct (on_path (edges p) a b) eqn:E; [|reflexivity].
  apply on_path_true in E. contradiction.
Qed.

Lemma min_nonneg : forall f p, pos_edges f p -> (0 <= minQ (evals f (edges p)))%Q.
Proof.
  intros f p Hpos. destruct (edges p) as [|e es] eqn:Ee.
  - unfold minQ. simpl. apply Qle_refl.
  - assert (Hne : edges p <> []) by (rewrite Ee; discriminate).
    destruct (argmin_edge f (edges p) Hne) as [Hin [Hm _]]. rewrite <- Ee. rewrite Hm.
    unfold pos_edges in Hpos. rewrite Forall_forall in Hpos. apply Qlt_le_weak. apply (Hpos _ Hin).
Qed.

Lemma sub1_fle : forall f p, pos_edges f p -> fle (sub1 f p) f.
Proof.
  intros f p Hpos a b. pose proof (min_nonneg f p Hpos) as Hm.
  destruct (on_path (edges p) a b) eqn:Eon;
    [assert (Hin : In (a, b) (edges p)) by (apply on_path_true; exact Eon)
    |assert (Hout : ~ In (a, b) (edges p)) by (intro C; apply on_path_true in C; congruence)].
  - rewrite (sub1_on f p a b Hin). lra.
  - rewrite (sub1_off f p a b Hout). apply Qle_refl.
Qed.

Lemma sub1_nonneg : forall f p, nonneg f -> edges p <> [] -> nonneg (sub1 f p).
Proof.
  intros f p Hn Hne a b.
  destruct (on_path (edges p) a b) eqn:Eon;
    [assert (Hin : In (a, b) (edges p)) by (apply on_path_true; exact Eon)
    |assert (Hout : ~ In (a, b) (edges p)) by (intro C; apply on_path_true in C; congruence)].
  - rewrite (sub1_on f p a b Hin).
    destruct (argmin_edge f (edges p) Hne) as [_ [_ Hmin]]. specialize (Hmin _ Hin). simpl in Hmin. lra.
  - rewrite (sub1_off f p a b Hout). apply Hn.
Qed.

Lemma subtract_path_fle : forall f p, nonneg f -> pos_edges f p -> edges p <> [] -> fle (subtract_path f p) f.
Proof.
  intros f p Hn Hpos Hne. rewrite subtract_path_eq.
  eapply fle_trans; [|apply sub1_fle; exact Hpos].
  apply set0_fle. apply sub1_nonneg; assumption.
Qed.

Lemma subtract_path_nonneg : forall f p, nonneg f -> edges p <> [] -> nonneg (subtract_path f p).
Proof.
  intros f p Hn Hne. rewrite subtract_path_eq. apply set0_nonneg. apply sub1_nonneg; assumption.
Qed.

(* every edge of the path loses at least the path's minimum *)
Lemma subtract_path_on : forall f p a b, nonneg f -> edges p <> [] -> In (a, b) (edges p) ->
  (subtract_path f p a b <= f a b - minQ (evals f (edges p)))%Q.
Proof.
  intros f p a b Hn Hne Hin. rewrite subtract_path_eq. unfold set0.
  destruct (eqe _ a b) eqn:E.
  - destruct (argmin_edge f (edges p) Hne) as [_ [_ Hmin]]. specialize (Hmin _ Hin). simpl in Hmin. lra.
  - rewrite (sub1_on f p a b Hin). apply Qle_refl.
Qed.

(* ------------------------------------------------------------------ sums *)
Lemma qsum_map_le : forall {A} (g h : A -> Q) l,
  (forall x, In x l -> (g x <= h x)%Q) -> (qsum (map g l) <= qsum (map h l))%Q.
Proof.
  intros A g h l. induction l as [|x r IH]; intro H; simpl.
  - apply Qle_refl.
  - assert (H1 : (g x <= h x)%Q) by (apply H; left; reflexivity).
    assert (H2 : (qsum (map g r) <= qsum (map h r))%Q) by (apply IH; intros y Hy; apply H; right; exact Hy).
    lra.
Qed.

Lemma qsum_map_le_drop : forall {A} (g h : A -> Q) l x0 m,
  In x0 l -> (g x0 <= h x0 - m)%Q -> (forall x, In x l -> (g x <= h x)%Q) ->
  (qsum (map g l) <= qsum (map h l) - m)%Q.
Proof.
  intros A g h l x0 m. induction l as [|x r IH]; intros Hin H0 H; simpl.
  - contradiction.
  - destruct Hin as [Hin|Hin].
    + subst x.
      assert (H2 : (qsum (map g r) <= qsum (map h r))%Q) by (apply qsum_map_le; intros y Hy; apply H; right; exact Hy).
      lra.
    + assert (H1 : (g x <= h x)%Q) by (apply H; left; reflexivity).
      assert (H2 : (qsum (map g r) <= qsum (map h r) - m)%Q).
      { apply IH; [exact Hin|exact H0|]. intros y Hy. apply H. right. exact Hy. }
      lra.
Qed.

Lemma qsum_nonneg : forall l, (forall x, In x l -> (0 <= x)%Q) -> (0 <= qsum l)%Q.
Proof.
  induction l as [|x r IH]; intro H; simpl.
  - apply Qle_refl.
  - assert (H1 : (0 <= x)%Q) by (apply H; left; reflexivity).
    assert (H2 : (0 <= qsum r)%Q) by (apply IH; intros y Hy; apply H; right; exact Hy). lra.
Qed.

Lemma total_flux_nonneg : forall n f srcs, nonneg f -> (0 <= total_flux n f srcs)%Q.
Proof.
  intros n f srcs Hn. unfold total_flux. apply qsum_nonneg. intros x Hx.
  apply in_map_iff in Hx. destruct Hx as [s [Es _]]. subst x. unfold rowsum. apply qsum_nonneg.
  intros y Hy. apply in_map_iff in Hy. destruct Hy as [j [Ej _]]. subst y. apply Hn.
Qed.

(* subtracting a pathway that starts in a source lowers the source outflow by its minimum *)
Lemma subtract_total : forall n f srcs p,
  nonneg f -> pos_edges f p -> Forall (fun v => v < n) p -> In (hd 0 p) srcs -> edges p <> [] ->
  (total_flux n (subtract_path f p) srcs <= total_flux n f srcs - minQ (evals f (edges p)))%Q.
Proof.
  intros n f srcs p Hn Hpos Hlt Hsrc Hne.
  destruct p as [|s0 [|x1 t]]; try (simpl in Hne; congruence).
  simpl in Hsrc.
  assert (Hx1 : x1 < n). { inversion Hlt as [|? ? _ H2]; subst. inversion H2; subst. assumption. }
  assert (He : In (s0, x1) (edges (s0 :: x1 :: t))) by (rewrite edges_cons2; left; reflexivity).
  pose proof (subtract_path_fle f _ Hn Hpos Hne) as Hle.
  unfold total_flux.
  apply qsum_map_le_drop with (x0 := s0); [exact Hsrc| |].
  - unfold rowsum. apply qsum_map_le_drop with (x0 := x1).
    + apply in_seq. lia.
    + apply subtract_path_on; assumption.
    + intros j _. apply Hle.
  - intros s _. unfold rowsum. apply qsum_map_le. intros j _. apply Hle.
Qed.

(* ------------------------------------------------------------------ the loop *)
(* trace remove n srcs sinks f ps qs : ps/qs are the successive top paths and fluxes of f, of f with
   the first path removed, ... *)
Inductive trace (remove : fmat -> list nat -> fmat) (n : nat) (srcs sinks : list nat)
  : fmat -> list (list nat) -> list Q -> Prop :=
| tr_nil : forall f, trace remove n srcs sinks f [] []
| tr_cons : forall f p q ps qs,
    top_path n f srcs sinks = Ok (p, Fin q) ->
    trace remove n srcs sinks (remove f p) ps qs ->
    trace remove n srcs sinks f (p :: ps) (q :: qs).

Lemma paths_loop_trace : forall remove n srcs sinks total npaths cutoff fuel f counter expl accp accf ps qs,
  paths_loop fuel remove n srcs sinks f total npaths cutoff counter expl accp accf = Ok (ps, qs) ->
  exists ps' qs', ps = rev accp ++ ps' /\ qs = rev accf ++ qs' /\
                  trace remove n srcs sinks f ps' qs' /\
                  (forall m, npaths = Some m -> counter < m -> counter + length ps' <= m).
Proof.
  intros remove n srcs sinks total npaths cutoff. induction fuel as [|k IH];
    intros f counter expl accp accf ps qs H; [discriminate|].
  cbn [paths_loop] in H.
  destruct (top_path n f srcs sinks) as [[p fl]| | |] eqn:Et; try discriminate.
  destruct fl as [|q|].
  - inversion H; subst. exists [], []. rewrite !app_nil_r. repeat split; try constructor.
    intros m _ Hm. simpl. lia.
  - destruct (reached_count npaths (S counter) || Qle_bool cutoff (Qred (expl + q / total))) eqn:Estop.
    + inversion H; subst. exists [p], [q]. simpl. repeat split.
      * apply tr_cons; [exact Et|constructor].
      * intros m _ Hm. lia.
    + apply IH in H. destruct H as [ps' [qs' [E1 [E2 [Htr Hcnt]]]]].
      exists (p :: ps'), (q :: qs'). simpl in E1, E2. rewrite <- app_assoc in E1, E2. simpl in E1, E2.
      repeat split; try assumption.
      * apply tr_cons; assumption.
      * intros m Em Hm. simpl. apply orb_false_iff in Estop. destruct Estop as [Erc _].
        unfold reached_count in Erc. rewrite Em in Erc. apply Nat.leb_gt in Erc.
        specialize (Hcnt m Em Erc). lia.
  - inversion H; subst. exists [], []. rewrite !app_nil_r. repeat split; try constructor.
    intros m _ Hm. simpl. lia.
Qed.

Lemma paths_trace : forall remove n f srcs sinks npaths cutoff ps qs,
  paths remove n f srcs sinks npaths cutoff = Ok (ps, qs) ->
  trace remove n srcs sinks f ps qs /\ (forall m, npaths = Some m -> 1 <= m -> length ps <= m).
Proof.
  intros remove n f srcs sinks npaths cutoff ps qs H. unfold paths in H.
  apply paths_loop_trace in H. destruct H as [ps' [qs' [E1 [E2 [Htr Hcnt]]]]].
  simpl in E1, E2. subst. split; [exact Htr|]. intros m Em Hm. specialize (Hcnt m Em). lia.
Qed.

Lemma trace_length : forall remove n srcs sinks f ps qs,
  trace remove n srcs sinks f ps qs -> length ps = length qs.
Proof. intros until 1. induction H; simpl; congruence. Qed.

(* what the removal schemes are used for in the loop: on a pathway just returned by top_path *)
Definition lowering (remove : fmat -> list nat -> fmat) : Prop :=
  forall f p, nonneg f -> pos_edges f p -> edges p <> [] ->
              fle (remove f p) f /\ nonneg (remove f p).

Lemma subtract_lowering : lowering subtract_path.
Proof.
  intros f p Hn Hpos Hne. split; [apply subtract_path_fle|apply subtract_path_nonneg]; assumption.
Qed.

Lemma bottleneck_lowering : lowering remove_bottleneck.
Proof.
  intros f p Hn Hpos Hne. split; [apply remove_bottleneck_fle|apply remove_bottleneck_nonneg]; assumption.
Qed.

Lemma top_path_edges : forall n f srcs sinks p q,
  top_path n f srcs sinks = Ok (p, Fin q) -> pos_edges f p /\ edges p <> [].
Proof.
  intros n f srcs sinks p q H. split.
  - destruct (top_path_valid_lemma _ _ _ _ _ _ H) as [[_ [_ Hpos]] _]. exact Hpos.
  - destruct (top_path_flux_lemma _ _ _ _ _ _ H) as [_ [[e [Hin _]] _]].
    intro C. rewrite C in Hin. contradiction.
Qed.

(* every returned pathway is a pathway of the caller's matrix *)
Lemma trace_valid : forall remove n srcs sinks f0, lowering remove ->
  forall f ps qs, trace remove n srcs sinks f ps qs -> nonneg f -> fle f f0 ->
  Forall (valid_path n f0 srcs sinks) ps.
Proof.
  intros remove n srcs sinks f0 Hlow f ps qs H. induction H as [f|f p q ps qs Ht Htr IH]; intros Hn Hle.
  - constructor.
  - destruct (top_path_edges _ _ _ _ _ _ Ht) as [Hpos Hne].
    destruct (Hlow f p Hn Hpos Hne) as [L1 L2].
    constructor.
    + eapply valid_path_mono; [exact Hle|]. eapply top_path_valid_lemma. exact Ht.
    + apply IH; [exact L2|]. eapply fle_trans; eassumption.
Qed.

(* successive fluxes never increase *)
Lemma trace_antitone : forall remove n srcs sinks, lowering remove ->
  forall f ps qs, trace remove n srcs sinks f ps qs -> nonneg f ->
  Sorted (fun a b => (b <= a)%Q) qs.
Proof.
  intros remove n srcs sinks Hlow f ps qs H. induction H as [f|f p q ps qs Ht Htr IH]; intro Hn.
  - constructor.
  - destruct (top_path_edges _ _ _ _ _ _ Ht) as [Hpos Hne].
    destruct (Hlow f p Hn Hpos Hne) as [L1 L2].
    constructor; [apply IH; exact L2|].
    inversion Htr as [|f' p' q' ps' qs' Ht' _]; subst; constructor.
    apply ele_fin. eapply top_path_mono; eassumption.
Qed.

(* subtract scheme: the fluxes add up to at most the source outflow *)
Lemma trace_subtract_sum : forall n srcs sinks f ps qs,
  trace subtract_path n srcs sinks f ps qs -> nonneg f ->
  (qsum qs <= total_flux n f srcs)%Q.
Proof.
  intros n srcs sinks f ps qs H. induction H as [f|f p q ps qs Ht Htr IH]; intro Hn.
  - simpl. apply total_flux_nonneg. exact Hn.
  - destruct (top_path_edges _ _ _ _ _ _ Ht) as [Hpos Hne].
    destruct (top_path_valid_lemma _ _ _ _ _ _ Ht) as [[_ [Hlt _]] [_ [Hsrc _]]].
    destruct (top_path_flux_lemma _ _ _ _ _ _ Ht) as [Hall _].
    pose proof (subtract_total n f srcs p Hn Hpos Hlt Hsrc Hne) as Htot.
    destruct (argmin_edge f (edges p) Hne) as [Hin [Hm _]].
    specialize (Hall _ Hin). rewrite <- Hm in Hall.
    specialize (IH (subtract_path_nonneg f p Hn Hne)).
    simpl. lra.
Qed.

(* ------------------------------------------------------------------ statements about `paths` *)
Lemma paths_residuals_lemma : forall remove n f srcs sinks npaths cutoff ps qs,
  paths remove n f srcs sinks npaths cutoff = Ok (ps, qs) ->
  trace remove n srcs sinks f ps qs /\ length ps = length qs.
Proof.
  intros remove n f srcs sinks npaths cutoff ps qs H.
  destruct (paths_trace _ _ _ _ _ _ _ _ _ H) as [Htr _]. split; [exact Htr|].
  eapply trace_length. exact Htr.
Qed.

Lemma num_paths_lemma : forall remove n f srcs sinks m cutoff ps qs,
  1 <= m -> paths remove n f srcs sinks (Some m) cutoff = Ok (ps, qs) -> length ps <= m.
Proof.
  intros remove n f srcs sinks m cutoff ps qs Hm H.
  destruct (paths_trace _ _ _ _ _ _ _ _ _ H) as [_ Hc]. apply Hc; [reflexivity|exact Hm].
Qed.

Lemma paths_valid_lemma : forall remove, lowering remove ->
  forall n f srcs sinks npaths cutoff ps qs,
  nonneg f -> paths remove n f srcs sinks npaths cutoff = Ok (ps, qs) ->
  Forall (valid_path n f srcs sinks) ps.
Proof.
  intros remove Hlow n f srcs sinks npaths cutoff ps qs Hn H.
  destruct (paths_trace _ _ _ _ _ _ _ _ _ H) as [Htr _].
  eapply trace_valid; [exact Hlow|exact Htr|exact Hn|apply fle_refl].
Qed.

Lemma paths_antitone_lemma : forall remove, lowering remove ->
  forall n f srcs sinks npaths cutoff ps qs,
  nonneg f -> paths remove n f srcs sinks npaths cutoff = Ok (ps, qs) ->
  Sorted (fun a b => (b <= a)%Q) qs.
Proof.
  intros remove Hlow n f srcs sinks npaths cutoff ps qs Hn H.
  destruct (paths_trace _ _ _ _ _ _ _ _ _ H) as [Htr _].
  eapply trace_antitone; [exact Hlow|exact Htr|exact Hn].
Qed.

Lemma subtract_sum_lemma : forall n f srcs sinks npaths cutoff ps qs,
  nonneg f -> paths subtract_path n f srcs sinks npaths cutoff = Ok (ps, qs) ->
  (qsum qs <= total_flux n f srcs)%Q.
Proof.
  intros n f srcs sinks npaths cutoff ps qs Hn H.
  destruct (paths_trace _ _ _ _ _ _ _ _ _ H) as [Htr _].
  eapply trace_subtract_sum; [exact Htr|exact Hn].
Qed.

(* F2: s->a 3/2, a->b->t 1,1, a->c->t 1,1 *)
Definition f2_graph : fmat :=
  of_lists [[0; 3#2; 0; 0; 0]; [0; 0; 1; 1; 0]; [0; 0; 0; 0; 1]; [0; 0; 0; 0; 1]; [0; 0; 0; 0; 0]]%Q.

Lemma of_lists_nonneg : forall M,
  forallb (forallb (fun x => Qle_bool 0 x)) M = true -> nonneg (of_lists M).
Proof.
  intros M H a b. unfold of_lists. rewrite forallb_forall in H.
  destruct (lt_dec a (length M)) as [Ha|Ha].
  - assert (Hr : forallb (fun x => Qle_bool 0 x) (nth a M []) = true) by (apply H; apply nth_In; exact Ha).
    rewrite forallb_forall in Hr. destruct (lt_dec b (length (nth a M []))) as [Hb|Hb].
    + apply Qle_bool_iff. apply Hr. apply nth_In. exact Hb.
    + rewrite nth_overflow by lia. apply Qle_refl.
  - rewrite (nth_overflow M) by lia. destruct b; simpl; apply Qle_refl.
Qed.

Lemma bottleneck_sum_refuted_lemma :
  exists n f srcs sinks npaths cutoff ps qs,
    paths remove_bottleneck n f srcs sinks npaths cutoff = Ok (ps, qs) /\
    nonneg f /\ (total_flux n f srcs < qsum qs)%Q.
Proof.
  exists 5, f2_graph, [0], [4], None, (9 # 10)%Q, [[0; 1; 2; 4]; [0; 1; 3; 4]], [1; 1]%Q.
  split; [vm_compute; reflexivity|]. split.
  - apply of_lists_nonneg. vm_compute. reflexivity.
  - vm_compute. reflexivity.
Qed.

(* the six-state graph of test_paths *)
Definition ex_graph : fmat :=
  of_lists [[0; 3; 3; 0; 0; 0]; [0; 0; 0; 3; 0; 0]; [0; 0; 0; 1; 2; 0];
            [0; 0; 0; 0; 0; 4]; [0; 0; 0; 0; 0; 2]; [0; 0; 0; 0; 0; 0]]%Q.

(* F2 also occurs on an acyclic conserved flow with two sources: 0->2 2, 3->1 3, 3->2 4, 2->1 3/2,
   2->4 9/2, 1->4 5/2, 1->5 2, 5->4 2; sources 3 and 0, sink 4; outflow 9, pathway fluxes 4, 5/2, 2, 2 *)
Definition f2_conserved_graph : fmat :=
  of_lists [[0; 0; 2; 0; 0; 0]; [0; 0; 0; 0; 5#2; 2]; [0; 3#2; 0; 0; 9#2; 0];
            [0; 3; 4; 0; 0; 0]; [0; 0; 0; 0; 0; 0]; [0; 0; 0; 0; 2; 0]]%Q.

Lemma bottleneck_sum_refuted_conserved_lemma :
  exists n f srcs sinks npaths cutoff ps qs ord,
    paths remove_bottleneck n f srcs sinks npaths cutoff = Ok (ps, qs) /\
    nonneg f /\ conservedb n f srcs sinks = true /\ forwardb n f ord = true /\
    (total_flux n f srcs < qsum qs)%Q.
Proof.
  exists 6, f2_conserved_graph, [3; 0], [4], None, (999 # 1000)%Q,
         [[3; 2; 4]; [3; 1; 4]; [0; 2; 4]; [3; 1; 5; 4]], [4; 5 # 2; 2; 2]%Q, [0; 3; 2; 1; 5; 4].
  split; [vm_compute; reflexivity|]. split; [apply of_lists_nonneg; vm_compute; reflexivity|].
  split; [vm_compute; reflexivity|]. split; vm_compute; reflexivity.
Qed.
