(* C18: shape of the table the joint-count kernel returns, its cells and its marginals.
   nat/Z only (no real numbers are used here). *)
From Coq Require Import List ZArith Bool Arith Lia Permutation.
From EV Require Import JointCounts Info JointCountsProofs.
Import ListNotations.
Local Open Scope nat_scope.

(* ------------------------------------------------------------------ the shape never changes *)
Definition shape4 (jc : tbl4) : list (list (list nat)) := map (map (map (@length nat))) jc.

Lemma map_upd_inv {A B} (g : A -> B) (f : A -> A) i l :
  (forall x, g (f x) = g x) -> map g (upd i f l) = map g l.
Proof.
  intros H. revert i; induction l as [|x r IH]; intros [|i]; simpl; auto.
  - rewrite H. reflexivity.
  - rewrite IH. reflexivity.
Qed.

Lemma shape4_incr4 jc a b i j : shape4 (incr4 jc a b i j) = shape4 jc.
Proof.
  unfold shape4, incr4. apply map_upd_inv. intros x. apply map_upd_inv. intros y.
  apply map_upd_inv. intros z. apply length_upd.
Qed.

Lemma shape4_run X Y sched : forall jc0, shape4 (run X Y sched jc0) = shape4 jc0.
Proof.
  unfold run. induction sched as [|e s IH]; intros jc0; simpl; auto.
  rewrite IH. destruct e as [[a b] t]. unfold step. apply shape4_incr4.
Qed.

Lemma nth_map_nil {A B} (f : A -> B) (l : list (list A)) k :
  nth k (map (map f) l) [] = map f (nth k l []).
Proof. exact (map_nth (map f) l [] k). Qed.

Lemma sub2_lengths jc a b : map (@length nat) (sub2 jc a b) = nth b (nth a (shape4 jc) []) [].
Proof. unfold sub2, shape4. rewrite nth_map_nil, nth_map_nil. reflexivity. Qed.

Lemma map_repeat' {A B} (f : A -> B) x n : map f (repeat x n) = repeat (f x) n.
Proof. induction n as [|n IH]; simpl; congruence. Qed.

Lemma bincount_lengths sched X Y na nb jc a b :
  matrix_bincount2d_sched sched X Y na nb = Some jc -> a < width X -> b < width Y ->
  map (@length nat) (sub2 jc a b) = repeat (Z.to_nat nb) (Z.to_nat na).
Proof.
  intros E Ha Hb. apply bincount_some in E. destruct E as (_ & _ & _ & ->).
  rewrite sub2_lengths, shape4_run, <- sub2_lengths.
  unfold sub2, zeros4. rewrite (nth_repeat _ _ _ a Ha), (nth_repeat _ _ _ b Hb).
  unfold zeros2. rewrite map_repeat', repeat_length. reflexivity.
Qed.

Lemma valid_side_pos X n : valid_side X n = true -> (0 < n)%Z.
Proof.
  intros H. apply valid_side_spec in H. destruct H as (_ & Hne & Hall).
  destruct (concat X) as [|v r]; [congruence|]. specialize (Hall v (or_introl eq_refl)). lia.
Qed.

Lemma valid_side_nonempty X n : valid_side X n = true -> 0 < length X.
Proof.
  intros H. apply valid_side_spec in H. destruct H as (_ & Hne & _).
  destruct X; [exfalso; apply Hne; reflexivity|simpl; lia].
Qed.

Lemma shape_of_lengths (H : tbl2) n m :
  0 < n -> map (@length nat) H = repeat m n -> length H = n /\ width2 H = m /\ rect2 H = true.
Proof.
  intros Hn E.
  assert (Hl : length H = n) by (rewrite <- (map_length (@length nat)), E; apply repeat_length).
  assert (Hrows : forall r, In r H -> length r = m).
  { intros r Hr. apply (in_map (@length nat)) in Hr. rewrite E in Hr. apply repeat_spec in Hr. exact Hr. }
  assert (Hw : width2 H = m).
  { destruct H as [|r0 H']; [simpl in Hl; lia|]. simpl. apply Hrows. left; reflexivity. }
  split; [exact Hl|]. split; [exact Hw|].
  unfold rect2. apply forallb_forall. intros r Hr. rewrite Hw. apply Nat.eqb_eq. apply Hrows; exact Hr.
Qed.

(* The table for feature pair (a, b) is rectangular, n_a x n_b, under every schedule. *)
Theorem jc_table_shape sched X Y na nb jc a b :
  matrix_bincount2d_sched sched X Y na nb = Some jc -> a < width X -> b < width Y ->
  length (sub2 jc a b) = Z.to_nat na /\ width2 (sub2 jc a b) = Z.to_nat nb /\
  rect2 (sub2 jc a b) = true.
Proof.
  intros E Ha Hb. pose proof (bincount_some _ _ _ _ _ _ E) as (_ & Hvx & _ & _).
  apply shape_of_lengths.
  - apply valid_side_pos in Hvx. lia.
  - apply (bincount_lengths sched X Y); assumption.
Qed.

(* ... and its cell (u, v) is the exact count *)
Theorem jc_table_cell sched X Y na nb jc a b u v :
  schedule_ok sched -> matrix_bincount2d_sched sched X Y na nb = Some jc ->
  a < width X -> b < width Y -> u < Z.to_nat na -> v < Z.to_nat nb ->
  get2 (sub2 jc a b) u v = count_frames X Y a b (Z.of_nat u) (Z.of_nat v).
Proof.
  intros Hs E Ha Hb Hu Hv.
  rewrite <- (jc_exact_sched sched X Y na nb jc a b (Z.of_nat u) (Z.of_nat v) Hs E Ha Hb) by lia.
  rewrite !Nat2Z.id. reflexivity.
Qed.

(* ------------------------------------------------------------------ sums over an index range *)
Lemma sumn_map_plus {A} (f g : A -> nat) l :
  sumn (map (fun v => f v + g v) l) = sumn (map f l) + sumn (map g l).
Proof. induction l as [|x r IH]; simpl; [reflexivity|rewrite IH; lia]. Qed.

Lemma sumn_map_zero {A} (f : A -> nat) l : (forall v, In v l -> f v = 0) -> sumn (map f l) = 0.
Proof.
  induction l as [|x r IH]; intros H; simpl; [reflexivity|].
  rewrite (H x (or_introl eq_refl)), IH; [reflexivity|]. intros v Hv. apply H. right. exact Hv.
Qed.

Lemma sumn_map_single k l :
  NoDup l -> In k l -> sumn (map (fun v => if k =? v then 1 else 0) l) = 1.
Proof.
  induction l as [|x r IH]; intros Hnd Hin; [contradiction|].
  inversion Hnd as [|? ? Hnotin Hnd']; subst. simpl.
  destruct (Nat.eqb_spec k x) as [->|Hne].
  - rewrite sumn_map_zero; [reflexivity|]. intros v Hv.
    destruct (Nat.eqb_spec x v) as [->|_]; [contradiction|reflexivity].
  - destruct Hin as [Heq|Hin]; [congruence|]. rewrite IH by assumption. reflexivity.
Qed.

(* the frames satisfying p, split by the value g takes on them *)
Lemma sumn_cnt_partition {A} (p : A -> bool) (g : A -> nat) (L : list A) l :
  NoDup l -> (forall x, In x L -> p x = true -> In (g x) l) ->
  sumn (map (fun v => cnt (fun x => p x && (g x =? v)) L) l) = cnt p L.
Proof.
  intros Hnd. induction L as [|x r IH]; intros Hin.
  - simpl. apply sumn_map_zero. intros; reflexivity.
  - cbn [cnt]. rewrite sumn_map_plus, IH by (intros y Hy; apply Hin; right; exact Hy). f_equal.
    destruct (p x) eqn:Ep; cbn [andb].
    + apply sumn_map_single; [exact Hnd|apply Hin; [left; reflexivity|exact Ep]].
    + apply sumn_map_zero. intros; reflexivity.
Qed.

Lemma seq_nth_id {A} (L : list A) d : map (fun v => nth v L d) (seq 0 (length L)) = L.
Proof.
  induction L as [|x r IH]; simpl; [reflexivity|]. f_equal.
  rewrite <- seq_shift, map_map. exact IH.
Qed.

Lemma map_seq_nth' {A B} (f : A -> B) (L : list A) d :
  map (fun u => f (nth u L d)) (seq 0 (length L)) = map f L.
Proof. rewrite <- (map_map (fun u => nth u L d) f), seq_nth_id. reflexivity. Qed.

Lemma rowsum_cells H u :
  rect2 H = true -> u < length H ->
  rowsum H u = sumn (map (fun v => get2 H u v) (seq 0 (width2 H))).
Proof.
  intros Hr Hu. unfold rowsum, get2.
  assert (Hl : length (nth u H []) = width2 H).
  { unfold rect2 in Hr. rewrite forallb_forall in Hr. apply Nat.eqb_eq, Hr, nth_In. exact Hu. }
  rewrite <- Hl, seq_nth_id. reflexivity.
Qed.

Lemma colsum_cells H v : colsum H v = sumn (map (fun u => get2 H u v) (seq 0 (length H))).
Proof.
  unfold colsum, get2. f_equal. symmetry.
  exact (map_seq_nth' (fun row => nth v row 0) H []).
Qed.

Lemma total_rows H : total H = sumn (map (fun u => rowsum H u) (seq 0 (length H))).
Proof.
  unfold total, rowsum. f_equal. symmetry. exact (map_seq_nth' sumn H []).
Qed.

Lemma cnt_true {A} (l : list A) : cnt (fun _ => true) l = length l.
Proof. induction l as [|x r IH]; simpl; [reflexivity|rewrite IH; reflexivity]. Qed.

(* ------------------------------------------------------------------ marginals of the table *)
(* number of frames in which feature a is in state i *)
Definition feature_count (X : list (list Z)) (a : nat) (i : Z) : nat :=
  cnt (fun x => (nth a x 0 =? i)%Z) X.

Lemma feature_count_frames X a i :
  cnt (fun t => (cell X t a =? i)%Z) (seq 0 (length X)) = feature_count X a i.
Proof. exact (cnt_seq_nth (fun x => (nth a x 0 =? i)%Z) X []). Qed.

Lemma to_nat_eqb z v : (0 <= z)%Z -> (z =? Z.of_nat v)%Z = (Z.to_nat z =? v).
Proof.
  intros Hz. destruct (Z.eqb_spec z (Z.of_nat v)) as [->|Hne]; symmetry.
  - rewrite Nat2Z.id. apply Nat.eqb_refl.
  - apply Nat.eqb_neq. lia.
Qed.

(* summing the table along the second state axis gives the counts of the first feature ... *)
Theorem jc_row_marginal sched X Y na nb jc a b u :
  schedule_ok sched -> matrix_bincount2d_sched sched X Y na nb = Some jc ->
  a < width X -> b < width Y -> u < Z.to_nat na ->
  rowsum (sub2 jc a b) u = feature_count X a (Z.of_nat u).
Proof.
  intros Hs E Ha Hb Hu.
  destruct (jc_table_shape _ _ _ _ _ _ a b E Ha Hb) as (Hl & Hw & Hr).
  pose proof (bincount_some _ _ _ _ _ _ E) as (Hlen & Hvx & Hvy & _).
  rewrite rowsum_cells by (try assumption; lia). rewrite Hw.
  rewrite (map_ext_in _ (fun v => cnt (fun t => (cell X t a =? Z.of_nat u)%Z
                                                && (Z.to_nat (cell Y t b) =? v)) (seq 0 (length X)))).
  - rewrite (sumn_cnt_partition (fun t => (cell X t a =? Z.of_nat u)%Z) (fun t => Z.to_nat (cell Y t b))).
    + apply feature_count_frames.
    + apply seq_NoDup.
    + intros t Ht _. apply in_seq in Ht. apply in_seq.
      pose proof (cell_valid Y nb t b Hvy ltac:(lia) Hb). lia.
  - intros v Hv. apply in_seq in Hv.
    rewrite (jc_table_cell sched X Y na nb jc a b u v) by (try assumption; lia).
    unfold count_frames. apply cnt_ext. intros t Ht. apply in_seq in Ht. f_equal.
    apply to_nat_eqb. pose proof (cell_valid Y nb t b Hvy ltac:(lia) Hb). lia.
Qed.

(* ... along the first state axis those of the second feature ... *)
Theorem jc_col_marginal sched X Y na nb jc a b v :
  schedule_ok sched -> matrix_bincount2d_sched sched X Y na nb = Some jc ->
  a < width X -> b < width Y -> v < Z.to_nat nb ->
  colsum (sub2 jc a b) v = feature_count Y b (Z.of_nat v).
Proof.
  intros Hs E Ha Hb Hv.
  destruct (jc_table_shape _ _ _ _ _ _ a b E Ha Hb) as (Hl & Hw & Hr).
  pose proof (bincount_some _ _ _ _ _ _ E) as (Hlen & Hvx & Hvy & _).
  rewrite colsum_cells, Hl.
  rewrite (map_ext_in _ (fun u => cnt (fun t => (cell Y t b =? Z.of_nat v)%Z
                                                && (Z.to_nat (cell X t a) =? u)) (seq 0 (length X)))).
  - rewrite (sumn_cnt_partition (fun t => (cell Y t b =? Z.of_nat v)%Z) (fun t => Z.to_nat (cell X t a))).
    + rewrite Hlen. apply feature_count_frames.
    + apply seq_NoDup.
    + intros t Ht _. apply in_seq in Ht. apply in_seq.
      pose proof (cell_valid X na t a Hvx ltac:(lia) Ha). lia.
  - intros u Hu. apply in_seq in Hu.
    rewrite (jc_table_cell sched X Y na nb jc a b u v) by (try assumption; lia).
    unfold count_frames. apply cnt_ext. intros t Ht. apply in_seq in Ht.
    rewrite andb_comm. f_equal.
    apply to_nat_eqb. pose proof (cell_valid X na t a Hvx ltac:(lia) Ha). lia.
Qed.

(* ... and all cells together count every frame once *)
Theorem jc_table_total sched X Y na nb jc a b :
  schedule_ok sched -> matrix_bincount2d_sched sched X Y na nb = Some jc ->
  a < width X -> b < width Y -> total (sub2 jc a b) = length X.
Proof.
  intros Hs E Ha Hb.
  destruct (jc_table_shape _ _ _ _ _ _ a b E Ha Hb) as (Hl & Hw & Hr).
  pose proof (bincount_some _ _ _ _ _ _ E) as (Hlen & Hvx & Hvy & _).
  rewrite total_rows, Hl.
  rewrite (map_ext_in _ (fun u => cnt (fun t => true && (Z.to_nat (cell X t a) =? u)) (seq 0 (length X)))).
  - rewrite (sumn_cnt_partition (fun _ => true) (fun t => Z.to_nat (cell X t a))).
    + rewrite cnt_true. apply seq_length.
    + apply seq_NoDup.
    + intros t Ht _. apply in_seq in Ht. apply in_seq.
      pose proof (cell_valid X na t a Hvx ltac:(lia) Ha). lia.
  - intros u Hu. apply in_seq in Hu.
    rewrite (jc_row_marginal sched X Y na nb jc a b u) by (try assumption; lia).
    rewrite <- feature_count_frames. apply cnt_ext. intros t Ht. apply in_seq in Ht. cbn [andb].
    apply to_nat_eqb. pose proof (cell_valid X na t a Hvx ltac:(lia) Ha). lia.
Qed.

(* ------------------------------------------------------------------ the joint_counts wrapper *)
Lemma joint_counts_self_inv X nx ny jc :
  joint_counts X None nx ny = Some jc ->
  exists n, default_n nx X = Some n /\ matrix_bincount2d X X n n = Some jc.
Proof.
  unfold joint_counts. destruct (default_n nx X) as [n|]; [|discriminate].
  intros E. exists n. split; [reflexivity|exact E].
Qed.

Lemma joint_counts_two_inv X Y nx ny jc :
  joint_counts X (Some Y) nx ny = Some jc ->
  exists n m, default_n nx X = Some n /\ default_n ny Y = Some m /\ matrix_bincount2d X Y n m = Some jc.
Proof.
  unfold joint_counts. destruct (default_n nx X) as [n|]; [|discriminate].
  destruct (default_n ny Y) as [m|]; [|discriminate].
  intros E. exists n, m. auto.
Qed.
