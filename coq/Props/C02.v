(* C02 — k-centers picks farthest points, never widens the radius, stops exactly on cue,
   the triangle-inequality shortcut changes nothing, and the result is a 2-approximation. *)
From Coq Require Import List ZArith QArith.
From EV Require Import KcGuardBase KcGuardGen KcArgs KcGuardProofs ClusterGen ClusterSkel ClusterGenProofs Cluster ClusterCase ClusterBase ClusterInv ClusterPam ClusterKC ClusterTop ClusterExample ClusterVirt.
Import ListNotations.

(* starts from the first frame ... *)
Theorem c02_cold_first_center_is_frame_0 : forall D nclu cutoff ti n,
  exists ext, fst (kcenters_cold D nclu cutoff ti n) = 0%nat :: ext.
Proof. exact cold_first_center. Qed.
Print Assumptions c02_cold_first_center_is_frame_0.

(* ... or from the supplied initial centres, which are kept in order *)
Theorem c02_warm_initial_centers_kept : forall D nclu cutoff ti init n,
  exists ext, fst (kcenters_warm D nclu cutoff ti init n) = init ++ ext.
Proof. exact warm_centers_kept. Qed.
Print Assumptions c02_warm_initial_centers_kept.

(* the run is a sequence of guarded iterations (the while loop), each of which appends a frame
   whose current distance to the chosen centres is the largest of all frames *)
Theorem c02_run_is_guarded_iterations : forall D nclu cutoff ti fuel s,
  steps D nclu cutoff ti s (kc_loop D fuel nclu cutoff ti s).
Proof. exact kc_loop_steps. Qed.
Print Assumptions c02_run_is_guarded_iterations.

Theorem c02_each_iteration_takes_a_farthest_frame : forall D n s ti, Inv D n s ->
  exists m, In m (snd s) /\ (forall x, In x (snd s) -> dist x <= dist m) /\ dist m = maxdist (snd s) /\
            fst (kc_iter D ti s) = fst s ++ [fid m].
Proof. exact kc_iter_greedy. Qed.
Print Assumptions c02_each_iteration_takes_a_farthest_frame.

Theorem c02_iterations_keep_consistency : forall D, (forall f, D f f == 0) -> (forall c f, c <> f -> 0 < D c f) ->
  forall nclu cutoff ti n s s', ti_ok D ti -> 0 <= cutoff -> steps D nclu cutoff ti s s' -> Inv D n s -> Inv D n s'.
Proof. exact steps_inv. Qed.
Print Assumptions c02_iterations_keep_consistency.

(* np.argmax: the first frame attaining the maximum *)
Theorem c02_argmax_is_first_maximum : forall l best,
  argmax_from best l = best \/
  exists l1 l2, l = l1 ++ argmax_from best l :: l2 /\ dist best < dist (argmax_from best l) /\
                forall x, In x l1 -> dist x < dist (argmax_from best l).
Proof. exact argmax_from_first. Qed.
Print Assumptions c02_argmax_is_first_maximum.

(* the covering radius never grows as centres are added *)
Theorem c02_radius_never_grows : forall D nclu cutoff ti s s',
  steps D nclu cutoff ti s s' -> maxdist (snd s') <= maxdist (snd s).
Proof. exact steps_radius_antitone. Qed.
Print Assumptions c02_radius_never_grows.

(* stops exactly: every iteration ran with the guard true, and at the end the guard is false, i.e.
   the requested number of centres is reached or the radius is no longer above the cutoff *)
Theorem c02_cold_stops_exactly : forall D, (forall f, D f f == 0) -> (forall c f, c <> f -> 0 < D c f) ->
  forall nclu cutoff ti n, ti_ok D ti -> 0 <= cutoff -> (0 < n)%nat ->
  steps D nclu cutoff ti (kc_first D n) (kcenters_cold D nclu cutoff ti n) /\
  kc_guard nclu cutoff (kcenters_cold D nclu cutoff ti n) = false.
Proof. exact cold_stops_exactly. Qed.
Print Assumptions c02_cold_stops_exactly.

Theorem c02_warm_stops_exactly : forall D, (forall f, D f f == 0) -> (forall c f, c <> f -> 0 < D c f) ->
  forall nclu cutoff ti init n, ti_ok D ti -> 0 <= cutoff -> init_ok n init ->
  steps D nclu cutoff ti (nearest_state D init n) (kcenters_warm D nclu cutoff ti init n) /\
  kc_guard nclu cutoff (kcenters_warm D nclu cutoff ti init n) = false.
Proof. exact warm_stops_exactly. Qed.
Print Assumptions c02_warm_stops_exactly.

Theorem c02_guard_false_means : forall nclu cutoff s,
  kc_guard nclu cutoff s = false <->
  (exists k, nclu = Some k /\ (k <= length (fst s))%nat) \/ maxdist (snd s) <= cutoff.
Proof. exact guard_false_meaning. Qed.
Print Assumptions c02_guard_false_means.

(* the guard of the model's loop IS the test of the source's while loop (Gen/KcGuardGen.v is
   regenerated from enspara/cluster/kcenters.py on every run: `<` vs `<=`, `and` vs `or` matter) *)
Theorem c02_model_guard_is_source_while_test : forall nclu cutoff (s : st),
  gen_guard (length (fst s)) nclu (maxdist (snd s)) cutoff = kc_guard nclu cutoff s.
Proof. exact gen_guard_is_model_guard. Qed.
Print Assumptions c02_model_guard_is_source_while_test.

(* normalisation of the stopping criteria as translated from the source: "either, both" *)
Theorem c02_stopping_criteria_normalisation : forall nc dc,
  effective nc dc =
  match nc, dc with
  | NcNone, DcNone => None
  | NcNone, DcVal r => Some (None, r)
  | NcInf, DcNone => Some (None, 0)
  | NcInf, DcVal r => if Qeq_bool r 0 then None else Some (None, r)
  | NcInt k, DcNone => Some (Some k, 0)
  | NcInt k, DcVal r => Some (Some k, r)
  end.
Proof. exact effective_spec. Qed.
Print Assumptions c02_stopping_criteria_normalisation.

(* the shortcut's recompute test (distances > cc_dists[assignments] / 2) as regenerated from kcenters.py *)
Theorem c02_source_shortcut_test_is_model : forall D ctrs c k x,
  kc_update_ti_skel D gen_ti_recompute gen_kc_improves ctrs c k x = kc_update_ti D ctrs c k x.
Proof. exact gen_kc_update_ti_is_model. Qed.
Print Assumptions c02_source_shortcut_test_is_model.

(* the triangle-inequality shortcut returns the same centres, labels and distances *)
Theorem c02_shortcut_same_result_cold : forall D, (forall f, D f f == 0) -> (forall c f, c <> f -> 0 < D c f) ->
  forall nclu cutoff n, metric_sym D -> metric_tri D -> 0 <= cutoff -> (0 < n)%nat ->
  kcenters_cold D nclu cutoff true n = kcenters_cold D nclu cutoff false n.
Proof. exact ti_same_result_cold. Qed.
Print Assumptions c02_shortcut_same_result_cold.

Theorem c02_shortcut_same_result_warm : forall D, (forall f, D f f == 0) -> (forall c f, c <> f -> 0 < D c f) ->
  forall nclu cutoff init n, metric_sym D -> metric_tri D -> 0 <= cutoff -> init_ok n init ->
  kcenters_warm D nclu cutoff true init n = kcenters_warm D nclu cutoff false init n.
Proof. exact ti_same_result_warm. Qed.
Print Assumptions c02_shortcut_same_result_warm.

(* ... also when the supplied initial centres are NOT frames of the data (points of the metric space with an id
   outside 0..n-1: centroids, centres of an earlier clustering), are repeated, or attract no frame: the shortcut
   measures from the centre objects themselves (kc_update_ti reads D c (nth (lab x) ctrs); source: cc_dists =
   _center_distances(distance_method, centers, new_center)), so only per-frame consistency is needed *)
Theorem c02_shortcut_same_result_any_initial_centers : forall D nclu cutoff init n,
  metric_sym D -> metric_tri D -> init <> [] ->
  kcenters_warm D nclu cutoff true init n = kcenters_warm D nclu cutoff false init n.
Proof. exact ti_same_result_warm_any. Qed.
Print Assumptions c02_shortcut_same_result_any_initial_centers.

(* and every frame then carries the label and the distance of a nearest centre object of the final list *)
Theorem c02_any_initial_centers_labels_distances_consistent : forall D nclu cutoff ti init n,
  ti_ok D ti -> init <> [] ->
  Forall (frame_ok D (fst (kcenters_warm D nclu cutoff ti init n))) (snd (kcenters_warm D nclu cutoff ti init n)).
Proof. exact warm_any_frames_ok. Qed.
Print Assumptions c02_any_initial_centers_labels_distances_consistent.

(* Gonzalez: the final radius is at most twice the radius of ANY set of at most that many centres *)
Theorem c02_two_approx_cold : forall D, (forall f, D f f == 0) -> (forall c f, c <> f -> 0 < D c f) ->
  forall nclu cutoff ti n Sc rho, metric_sym D -> metric_tri D -> 0 <= cutoff -> (0 < n)%nat ->
  let r := kcenters_cold D nclu cutoff ti n in
  (length Sc <= length (fst r))%nat -> covers D Sc rho n -> maxdist (snd r) <= (2#1) * rho.
Proof. exact two_approx_cold. Qed.
Print Assumptions c02_two_approx_cold.

Theorem c02_two_approx_one_initial_center : forall D, (forall f, D f f == 0) -> (forall c f, c <> f -> 0 < D c f) ->
  forall nclu cutoff ti c n Sc rho, metric_sym D -> metric_tri D -> 0 <= cutoff -> (c < n)%nat ->
  let r := kcenters_warm D nclu cutoff ti [c] n in
  (length Sc <= length (fst r))%nat -> covers D Sc rho n -> maxdist (snd r) <= (2#1) * rho.
Proof. exact two_approx_one_init. Qed.
Print Assumptions c02_two_approx_one_initial_center.

(* With two or more supplied initial centres the 2-approximation clause is FALSE (finding F1):
   points 0, 1, 100 with initial centres {0, 1}: radius 99, optimum for two centres 1. *)
Theorem c02_two_approx_two_initial_centers_refuted :
  exists (D : nat -> nat -> Q) (init Sc : list nat) (n : nat) (rho : Q),
    (forall f, D f f == 0) /\ (forall c f, c <> f -> 0 < D c f) /\ metric_sym D /\ metric_tri D /\
    init_ok n init /\ covers D Sc rho n /\
    let r := kcenters_warm D (Some 2%nat) 0 false init n in
    (length Sc <= length (fst r))%nat /\ ~ maxdist (snd r) <= (2#1) * rho.
Proof. exact two_approx_warm_refuted. Qed.
Print Assumptions c02_two_approx_two_initial_centers_refuted.

Example c02_example :
  st_show (kcenters_cold (Dline pos_id) None (3#2) false 9) = ([0; 8; 4; 2; 6]%nat, [0; 0; 3; 2; 2; 2; 4; 1; 1]%nat, [0; 1; 0; 1; 0; 1; 0; 1; 0])
  /\ st_show (kcenters_cold (Dline pos_id) None (2#1) true 9) = ([0; 8; 4]%nat, [0; 0; 0; 2; 2; 2; 1; 1; 1]%nat, [0; 1; 2; 1; 0; 1; 2; 1; 0]).
Proof. vm_compute. split; reflexivity. Qed.
Print Assumptions c02_example.

(* a supplied centre that is not a frame: points 0..8 on a line are the data, the point with id 9 (position 9) is the
   supplied centre; both settings of the shortcut give centres [9; 0; 4], the same labels and distances *)
Example c02_example_non_frame_initial_center :
  st_show (kcenters_warm (Dline pos_id) (Some 3%nat) 0 true [9%nat] 9) = ([9; 0; 4]%nat, [1; 1; 1; 2; 2; 2; 2; 0; 0]%nat, [0; 1; 2; 1; 0; 1; 2; 2; 1])
  /\ kcenters_warm (Dline pos_id) (Some 3%nat) 0 false [9%nat] 9 = kcenters_warm (Dline pos_id) (Some 3%nat) 0 true [9%nat] 9.
Proof. vm_compute. split; reflexivity. Qed.
Print Assumptions c02_example_non_frame_initial_center.
