(* C20 — rotamer assignment is a correct hysteresis state machine.
   get_gates / is_buffered_transition / the tests and updates of _rotamers are regenerated from
   enspara/geometry/rotamer.py on every run (Gen/RotamerGen.v); the specification is Model/Rotamer.v. *)
From Coq Require Import List ZArith QArith Sorted.
From EV Require Import RotamerBase RotamerGen Rotamer RotamerProofs TransitionsMore RotamerPointwise.
From EV Require Import DisorderBase DisorderGen DisorderGenProofs.
Import ListNotations.

(* For the library's boundary sets (phi [0,180,360], shifted psi [0,160,360], chi [0,120,240,360]),
   every valid state, every angle in [0,360) off the gate values and EVERY buffer width the code
   accepts (0 <= b < 360/n_basins): the exit test fires exactly when the angle is outside the
   current basin widened by b on both sides, wrap-around included. *)
Theorem c20_transition_iff_exit : forall hb n bmax s a b,
  lib_set hb n bmax -> state_ok n s -> angle_ok a -> buffer_ok bmax b -> off_gates hb b s a ->
  is_buffered_transition s a hb b = negb (in_widened hb b s a).
Proof. exact transition_iff_exit. Qed.
Print Assumptions c20_transition_iff_exit.

(* The whole assignment equals the specification automaton: first frame binned, afterwards the
   state changes only on leaving the widened basin, and then becomes the basin of the new angle. *)
Theorem c20_run_is_hysteresis_automaton : forall hb n bmax b angles,
  lib_set hb n bmax -> buffer_ok bmax b -> angles_ok hb n b angles ->
  gen_rotamers angles hb b = spec_run hb b angles.
Proof. exact run_eq_spec. Qed.
Print Assumptions c20_run_is_hysteresis_automaton.

Theorem c20_states_valid : forall hb n bmax b angles sts,
  lib_set hb n bmax -> buffer_ok bmax b -> angles_ok hb n b angles ->
  gen_rotamers angles hb b = Some sts -> Forall (state_ok n) sts /\ length sts = length angles.
Proof. exact states_valid. Qed.
Print Assumptions c20_states_valid.

Theorem c20_zero_buffer_is_binning : forall hb n bmax b angles,
  lib_set hb n bmax -> (b == 0)%Q -> angles_ok hb n b angles -> angles <> [] ->
  gen_rotamers angles hb b = Some (map (basin hb) angles).
Proof. exact zero_buffer_is_binning. Qed.
Print Assumptions c20_zero_buffer_is_binning.

Theorem c20_basin_contains_angle : forall hb n bmax a,
  lib_set hb n bmax -> angle_ok a -> state_ok n (basin hb a).
Proof. exact basin_range. Qed.
Print Assumptions c20_basin_contains_angle.

(* Transition bookkeeping: frame k is reported exactly when frames k and k+1 differ, in increasing
   order, one output row per trajectory. *)
Theorem c20_transitions_iff : forall row k,
  In k (transitions row) <->
  exists x y, nth_error row k = Some x /\ nth_error row (S k) = Some y /\ x <> y.
Proof. exact transitions_iff. Qed.
Print Assumptions c20_transitions_iff.

Theorem c20_transitions_increasing : forall row, StronglySorted lt (transitions row).
Proof. exact transitions_increasing. Qed.
Print Assumptions c20_transitions_increasing.

Theorem c20_transitions_per_trajectory : forall rows,
  length (transitions2 rows) = length rows /\
  forall i, nth i (transitions2 rows) [] = transitions (nth i rows []).
Proof. exact transitions_per_trajectory. Qed.
Print Assumptions c20_transitions_per_trajectory.

(* Non-vacuity: a wide buffer on the phi set (the former defect D15) and a chi run through the seam. *)
(* ---- what the reported frames say about the state sequence between them *)

(* a reported frame has its successor inside the same trajectory; never more reports than adjacent pairs *)
Theorem c20_transition_frames_in_range : forall row k, In k (transitions row) -> (S k < length row)%nat.
Proof. exact transitions_bound. Qed.
Print Assumptions c20_transition_frames_in_range.

Theorem c20_transition_count_bound : forall row, (length (transitions row) <= pred (length row))%nat.
Proof. exact transitions_length. Qed.
Print Assumptions c20_transition_count_bound.

(* the state sequence is a step function whose jumps are exactly the reported frames: two frames in
   different states have a reported frame between them, and with none reported the states agree *)
Theorem c20_state_changes_only_at_transitions : forall row d i j,
  (i <= j)%nat -> (j < length row)%nat -> nth i row d <> nth j row d ->
  exists k, (i <= k < j)%nat /\ In k (transitions row).
Proof. exact state_changes_only_at_transitions. Qed.
Print Assumptions c20_state_changes_only_at_transitions.

Theorem c20_no_transition_same_state : forall row d j i,
  (i <= j)%nat -> (j < length row)%nat -> (forall k, (i <= k < j)%nat -> ~ In k (transitions row)) ->
  nth i row d = nth j row d.
Proof. exact no_transition_same_state. Qed.
Print Assumptions c20_no_transition_same_state.

Theorem c20_nothing_reported_iff_constant : forall row d,
  transitions row = [] <-> forall i j, (i < length row)%nat -> (j < length row)%nat -> nth i row d = nth j row d.
Proof. exact transitions_nil_iff_constant. Qed.
Print Assumptions c20_nothing_reported_iff_constant.

(* ---- the property statement read frame by frame, on the translated code: the first frame gets
   the basin containing its angle; afterwards the state changes only when the angle leaves the
   current basin widened by the buffer (wrap-around included), and then becomes the basin of the
   new angle *)
Theorem c20_rotamers_frame_by_frame : forall hb n bmax b angles sts d dq,
  lib_set hb n bmax -> buffer_ok bmax b -> angles_ok hb n b angles ->
  gen_rotamers angles hb b = Some sts ->
  nth 0 sts d = basin hb (nth 0 angles dq) /\
  forall t, (S t < length angles)%nat ->
    nth (S t) sts d = if in_widened hb b (nth t sts d) (nth (S t) angles dq)
                      then nth t sts d else basin hb (nth (S t) angles dq).
Proof. exact rotamers_frame_by_frame. Qed.
Print Assumptions c20_rotamers_frame_by_frame.

Example c20_example :
  gen_rotamers [10#1; 300#1; 100#1; 200#1] hb_phi (100#1) = Some [0; 0; 0; 0]%Z /\
  gen_rotamers [350#1; 5#1; 130#1; 110#1; 100#1; 250#1] hb_chi (15#1) = Some [2; 2; 1; 1; 0; 2]%Z /\
  gen_rotamers [10#1] hb_phi (180#1) = None.
Proof. vm_compute. repeat split; reflexivity. Qed.
Print Assumptions c20_example.

(* ---- round 3: disorder.transitions itself, regenerated from enspara/cards/disorder.py on every run
   (translator/tr_disorder.py -> Gen/DisorderGen.v over the vocabulary of Base/DisorderBase.v:
   Python slices, element-wise subtraction, `!= 0` mask, np.where / ra.where, np.bincount with
   minlength, RaggedArray(flat, lengths=...)).  `Some` = no exception is raised. *)

(* The translated 1-D branch (d = a[1:] - a[:-1]; np.where(d != 0)[0]) equals the specification,
   for every row (lengths 0 and 1 included). *)
Theorem c20_gen_transitions1_is_spec : forall row, gen_transitions1 row = Some (transitions row).
Proof. exact gen_transitions1_eq. Qed.
Print Assumptions c20_gen_transitions1_is_spec.

(* The translated 2-D branch (row-wise differences, ra.where, bincount of the row indices with
   minlength = number of rows, RaggedArray of the column indices) equals the specification for every
   list of rows: rows of different lengths (RaggedArray input), empty rows, no rows, rows without
   any transition (trailing or all of them) included; the RaggedArray construction never fails. *)
Theorem c20_gen_transitions2_is_spec : forall rows, gen_transitions2 rows = Some (transitions2 rows).
Proof. exact gen_transitions2_eq. Qed.
Print Assumptions c20_gen_transitions2_is_spec.

(* The translated branch test `len(assignments.shape) == 1` sends 1-D input to the 1-D branch and
   2-D / ragged input to the other one. *)
Theorem c20_gen_transitions_dispatch_1d : forall row, gen_transitions (Arr1 row) = TT1 (transitions row).
Proof. exact gen_transitions_1d. Qed.
Print Assumptions c20_gen_transitions_dispatch_1d.

Theorem c20_gen_transitions_dispatch_2d : forall rows, gen_transitions (Arr2 rows) = TT2 (transitions2 rows).
Proof. exact gen_transitions_2d. Qed.
Print Assumptions c20_gen_transitions_dispatch_2d.

(* End to end for the translated code, 1-D: frame n is reported iff row[n] <> row[n+1]; ascending. *)
Theorem c20_gen_transitions1_reports : forall row,
  exists tt, gen_transitions1 row = Some tt /\
    (forall k, In k tt <->
       exists x y, nth_error row k = Some x /\ nth_error row (S k) = Some y /\ x <> y) /\
    StronglySorted lt tt.
Proof. exact gen_transitions1_reports. Qed.
Print Assumptions c20_gen_transitions1_reports.

(* End to end for the translated code, 2-D / ragged: one output row per trajectory; in row i frame n
   is reported iff rows[i][n] <> rows[i][n+1]; ascending within each row. *)
Theorem c20_gen_transitions2_reports : forall rows,
  exists tts, gen_transitions2 rows = Some tts /\ length tts = length rows /\
    forall i,
      (forall k, In k (nth i tts []) <->
         exists x y, nth_error (nth i rows []) k = Some x /\
                     nth_error (nth i rows []) (S k) = Some y /\ x <> y) /\
      StronglySorted lt (nth i tts []).
Proof. exact gen_transitions2_reports. Qed.
Print Assumptions c20_gen_transitions2_reports.

(* Non-vacuity: ragged rows, a row of length 1, an empty row, trailing rows without transitions
   (the former defects 595eb51 / c85597b), and input without any transition. *)
Example c20_gen_example :
  gen_transitions (Arr2 [[0; 1; 1; 2]; [5]; []; [3; 3; 3]; [1; 0]]%Z) = TT2 [[0; 2]; []; []; []; [0]] /\
  gen_transitions (Arr2 [[0; 0]; [0; 0]]%Z) = TT2 [[]; []] /\
  gen_transitions (Arr1 [2; 2; 0; 0; 1]%Z) = TT1 [1; 3] /\
  gen_transitions (Arr1 []) = TT1 [].
Proof. vm_compute. repeat split; reflexivity. Qed.
Print Assumptions c20_gen_example.
