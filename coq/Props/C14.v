(* C14 -- MPI-striped clustering and reductions equal their serial counterparts.
   Property theorems only; model: Model/Mpi.v (over Model/Cluster.v); proofs: Proof/MpiBase.v, MpiIndex.v,
   MpiKc.v, MpiProofs.v.  World size P >= 1 arbitrary, trajectory t on rank t mod P, any length vector.
   Collectives are functions of the vector of per-rank contributions (MPI semantics, trusted), so a single
   model execution covers every arrival order of the ranks. *)
From Coq Require Import List ZArith QArith Permutation.
From EV Require Import Cluster Mpi MpiBase MpiIndex MpiKc MpiProofs MpiPam.
Import ListNotations.

(* ---- striped file loading: ranks load keys r, r+P, ...; together exactly all keys, each once *)
Theorem c14_striped_keys_partition : forall {A} P (keys : list A), (1 <= P)%nat ->
  Permutation (concat (map (fun r => keys_of P r keys) (seq 0 P))) keys.
Proof. exact (fun A => @stripes_perm A). Qed.
Print Assumptions c14_striped_keys_partition.

(* ---- the local arrays hold every frame of the global array exactly once *)
Theorem c14_scatter_partition : forall {A} P lens (g : list A), (1 <= P)%nat -> length g = sum_nat lens ->
  Permutation (concat (scatter P lens g)) g.
Proof. exact (fun A => @scatter_perm A). Qed.
Print Assumptions c14_scatter_partition.

(* ---- striped gathers: assemble_striped_ragged_array of the local pieces is the global array
        (every rank owns >= 1 trajectory, as the code requires) *)
Theorem c14_assemble_split : forall {A} (fill : A) P lens (g : list A),
  (1 <= P)%nat -> (P <= length lens)%nat -> length g = sum_nat lens ->
  assemble fill P lens (scatter P lens g) = Some g.
Proof. exact (fun A => @assemble_split A). Qed.
Print Assumptions c14_assemble_split.

(* ---- local-to-global index conversion: ctr_ids_mpi and convert_local_indices are mutually inverse and
        land in range, for every world size and every length vector (stripe_bijection) *)
Theorem c14_global_to_local_then_back : forall P lens g ri, (1 <= P)%nat ->
  ctr_ids_mpi P lens g = Some ri -> convert_local P lens ri = Some g /\ (fst ri < P)%nat.
Proof. exact ctr_ids_mpi_convert. Qed.
Print Assumptions c14_global_to_local_then_back.

Theorem c14_global_to_local_total : forall P lens g, (1 <= P)%nat -> (g < sum_nat lens)%nat ->
  exists ri, ctr_ids_mpi P lens g = Some ri.
Proof. exact ctr_ids_mpi_total. Qed.
Print Assumptions c14_global_to_local_total.

Theorem c14_local_to_global_then_back : forall P lens r i g, (1 <= P)%nat -> (r < P)%nat ->
  convert_local P lens (r, i) = Some g -> ctr_ids_mpi P lens g = Some (r, i).
Proof. exact convert_ctr_ids. Qed.
Print Assumptions c14_local_to_global_then_back.

Theorem c14_local_to_global_in_range : forall P lens r i g, (1 <= P)%nat -> (r < P)%nat ->
  convert_local P lens (r, i) = Some g -> (g < sum_nat lens)%nat.
Proof. exact convert_local_range. Qed.
Print Assumptions c14_local_to_global_in_range.

(* ---- random element choice: the broadcast draw g in [0, total) is mapped bijectively onto the valid
        (owner rank, local index) pairs, so a uniform draw is a uniform element (randind_bijection) *)
Theorem c14_randind_total : forall ns g, (g < sum_nat ns)%nat ->
  exists r i, randind ns g = Some (r, i) /\ (r < length ns)%nat /\ (i < nth r ns 0)%nat.
Proof. exact randind_total. Qed.
Print Assumptions c14_randind_total.

Theorem c14_randind_injective : forall ns g g' ri, randind ns g = Some ri -> randind ns g' = Some ri -> g = g'.
Proof. exact randind_inj. Qed.
Print Assumptions c14_randind_injective.

Theorem c14_randind_surjective : forall ns r i, (r < length ns)%nat -> (i < nth r ns 0)%nat ->
  exists g, (g < sum_nat ns)%nat /\ randind ns g = Some (r, i).
Proof. exact randind_surj. Qed.
Print Assumptions c14_randind_surjective.

(* ---- striped maximum: allreduce(MAX) of the local maxima equals the serial maximum (ties or not) *)
Theorem c14_striped_max : forall P lens (g : list fr), (1 <= P)%nat -> length g = sum_nat lens ->
  Forall (fun loc => loc <> []) (scatter P lens g) ->
  exists v, striped_max (map (map dist) (scatter P lens g)) = Some v /\ v == maxdist g.
Proof. exact striped_max_scatter. Qed.
Print Assumptions c14_striped_max.

(* ---- striped mean: sum of local sums / sum of local lengths is the mean of the whole array, exactly *)
Theorem c14_striped_mean_exact : forall P lens g, (1 <= P)%nat -> length g = sum_nat lens ->
  striped_mean (scatter P lens g) == mean g.
Proof. exact striped_mean_exact. Qed.
Print Assumptions c14_striped_mean_exact.

(* ---- distributed k-centers, one iteration: when the farthest frame m of the global state is unique,
        the gathered local maxima elect its owner, the owner's local argmax is m, and the new distributed
        state is the scatter of the serial iteration's state *)
Theorem c14_kc_iter_mpi_refines : forall D P lens, (1 <= P)%nat -> forall ti cp cids g m,
  length g = sum_nat lens -> nonempty_locals P lens g -> length cp = length cids -> umax m g ->
  exists owner index,
    (owner < P)%nat /\ nth_error (local_of P owner lens g) index = Some m /\
    kc_iter_mpi D ti (mkds cp cids (scatter P lens g)) =
      Some (mkds (cp ++ [(owner, index)]) (fst (kc_iter D ti (cids, g)))
                 (scatter P lens (snd (kc_iter D ti (cids, g))))).
Proof. exact kc_iter_mpi_refines. Qed.
Print Assumptions c14_kc_iter_mpi_refines.

(* ---- the whole loop from any consistent state (same stopping point: the guard uses striped_max) *)
Theorem c14_kc_loop_mpi_refines : forall D P lens, (1 <= P)%nat -> forall fuel nclu cutoff ti s cp,
  fids_ok lens (snd s) -> nonempty_locals P lens (snd s) -> ctrs_ok P lens cp (fst s) ->
  tie_free_run D fuel nclu cutoff ti s ->
  exists cp',
    kc_loop_mpi D fuel nclu cutoff ti (mkds cp (fst s) (scatter P lens (snd s))) =
      Some (mkds cp' (fst (kc_loop D fuel nclu cutoff ti s)) (scatter P lens (snd (kc_loop D fuel nclu cutoff ti s)))) /\
    ctrs_ok P lens cp' (fst (kc_loop D fuel nclu cutoff ti s)).
Proof. exact kc_loop_mpi_refines. Qed.
Print Assumptions c14_kc_loop_mpi_refines.

(* ---- kc_mpi_refines_serial: distributed k-centers followed by the reassembly routines yields the same
        centres (as global frame indices), labels and distances as the serial algorithm, for tie-free data,
        every world size P <= number of trajectories, every length vector with non-empty trajectories *)
Theorem c14_kc_mpi_equals_serial : forall D P lens nclu cutoff ti L rest,
  (1 <= P)%nat -> (P <= length lens)%nat -> lens = L :: rest -> (1 <= L)%nat ->
  nonempty_locals P lens (seq 0 (sum_nat lens)) ->
  tie_free_run D (S (sum_nat lens)) nclu cutoff ti (kc_first D (sum_nat lens)) ->
  exists ds, kcenters_mpi D P lens nclu cutoff ti = Some ds /\
    let s' := kcenters_cold D nclu cutoff ti (sum_nat lens) in
    map (convert_local P lens) (dctr ds) = map Some (fst s') /\
    assemble 0%nat P lens (map (map lab) (dloc ds)) = Some (labels s') /\
    assemble 0%Q P lens (map (map dist) (dloc ds)) = Some (dists s').
Proof. exact kc_mpi_assembled_equals_serial. Qed.
Print Assumptions c14_kc_mpi_equals_serial.

(* ---- distributed k-medoids stage: one PAM proposal (r, i) under MPI -- the frame Bcast from its owner,
        the per-frame three-way reassignment on every rank, the striped mean-square cost and the accept test --
        is exactly the serial PAM step on the proposal's global frame; hence every invariant of the serial
        stage (C01, C09) carries over to the reassembled distributed state (no tie-freeness needed) *)
Theorem c14_pam_update_mpi_refines : forall D P lens, (1 <= P)%nat -> forall cp cids g cid r i m,
  length g = sum_nat lens -> (0 < length g)%nat -> (r < P)%nat ->
  nth_error (local_of P r lens g) i = Some m ->
  let s' := pam_update D (cids, g) cid (fid m) in
  let accept := Qlt_b (sumsq (map (pam_frame D cid (fid m) (replace_nth cid (fid m) cids)) g)) (sumsq g) in
  pam_update_mpi D (mkds cp cids (scatter P lens g)) cid (r, i) =
    Some (mkds (if accept then replace_nth cid (r, i) cp else cp) (fst s') (scatter P lens (snd s'))).
Proof. exact pam_update_mpi_refines. Qed.
Print Assumptions c14_pam_update_mpi_refines.

Theorem c14_pam_update_mpi_centres : forall P lens cp cids g cid r i m,
  fids_ok lens g -> ctrs_ok P lens cp cids ->
  nth_error (local_of P r lens g) i = Some m ->
  ctrs_ok P lens (replace_nth cid (r, i) cp) (replace_nth cid (fid m) cids).
Proof. exact pam_update_mpi_ctrs_ok. Qed.
Print Assumptions c14_pam_update_mpi_centres.

(* ---- the hypotheses are satisfiable: 3 frames at 0, 10, 3 on a line, trajectories of lengths 2 and 1 on
        2 ranks, k = 2: the run is tie-free, every rank owns a frame, and both runs give centres [0;1] *)
Definition exM : list (list Q) := [[0; 10#1; 3#1]; [10#1; 0; 7#1]; [3#1; 7#1; 0]].

Example c14_example_hypotheses :
  nonempty_locals 2 [2%nat; 1%nat] (seq 0 3) /\
  tie_free_run (Dm exM) 4 (Some 2%nat) 0 false (kc_first (Dm exM) 3).
Proof.
  split.
  - unfold nonempty_locals. vm_compute. repeat constructor; discriminate.
  - vm_compute. split; [|exact I].
    exists (mkfr 1 0 (10#1)), [mkfr 0 0 0], [mkfr 2 0 (3#1)]. split; [reflexivity|].
    repeat constructor.
Qed.
Print Assumptions c14_example_hypotheses.

Example c14_example_run :
  option_map (fun ds => (dctr ds, map (map lab) (dloc ds))) (kcenters_mpi (Dm exM) 2 [2%nat; 1%nat] (Some 2%nat) 0 false)
    = Some ([(0%nat, 0%nat); (0%nat, 1%nat)], [[0%nat; 1%nat]; [0%nat]]) /\
  fst (kcenters_cold (Dm exM) (Some 2%nat) 0 false 3) = [0%nat; 1%nat] /\
  map (convert_local 2 [2%nat; 1%nat]) [(0%nat, 0%nat); (0%nat, 1%nat)] = [Some 0%nat; Some 1%nat].
Proof. vm_compute. repeat split. Qed.
Print Assumptions c14_example_run.
