(* C14 -- MPI-striped clustering and reductions equal their serial counterparts (model: Model/Mpi.v). *)
From Coq Require Import List ZArith QArith Permutation.
From EV Require Import Cluster Mpi MpiBase.
Import ListNotations.

(* striped keys: ranks load keys r, r+P, ...; together exactly all keys, each once *)
Theorem c14_striped_keys_partition : forall {A} P (keys : list A), (1 <= P)%nat ->
  Permutation (concat (map (fun r => keys_of P r keys) (seq 0 P))) keys.
Proof. exact (fun A => @stripes_perm A). Qed.
Print Assumptions c14_striped_keys_partition.
