(* C14 -- MPI-striped clustering and reductions equal their serial counterparts.
   Property theorems only; model: Model/Mpi.v (over Model/Cluster.v); proofs: Proof/MpiBase.v, MpiIndex.v,
   MpiKc.v, MpiProofs.v, MpiPam.v, MpiInv.v (round 2: C01's invariant on the assembled state), MpiWarm.v
   (round 2: MPI warm start).  World size P >= 1 arbitrary, trajectory t on rank t mod P, any length vector.
   Collectives are functions of the vector of per-rank contributions (MPI semantics, trusted), so a single
   model execution covers every arrival order of the ranks. *)
From Coq Require Import List ZArith QArith Permutation Lia.
From EV Require Import Cluster ClusterBase ClusterInv ClusterPam ClusterTop ClusterExample.
From EV Require Import Mpi MpiBase MpiIndex MpiKc MpiProofs MpiPam MpiInv MpiWarm.
Import ListNotations.

(* ---- striped file loading: ranks load keys r, r+P, ...; together exactly all keys, each once *)
Theorem c14_striped_keys_partition : forall {A} P (keys : list A), (1 <= P)%nat ->
  Permutation (concat (map (fun r => keys_of P r keys) (seq 0 P))) keys.
Proof. exact (fun A => @stripes_perm A). Qed.
Print Assumptions c14_striped_keys_partition.

(* ---- the local arrays hold every frame of the global array exactly once *)
Theorem c14_scatter_partition : forall {A} P lens (g : list A), (1 <= P)%nat -> length g = sum_nat lens ->
  Permutation (concat (scatter P lens g)) g.
Proof. exact (fun A => @scatter_perm A). Qed.
Print Assumptions c14_scatter_partition.

(* ---- striped gathers: assemble_striped_ragged_array of the local pieces is the global array
        (every rank owns >= 1 trajectory, as the code requires) *)
Theorem c14_assemble_split : forall {A} (fill : A) P lens (g : list A),
  (1 <= P)%nat -> (P <= length lens)%nat -> length g = sum_nat lens ->
  assemble fill P lens (scatter P lens g) = Some g.
Proof. exact (fun A => @assemble_split A). Qed.
Print Assumptions c14_assemble_split.

(* ---- local-to-global index conversion: ctr_ids_mpi and convert_local_indices are mutually inverse and
        land in range, for every world size and every length vector (stripe_bijection) *)
Theorem c14_global_to_local_then_back : forall P lens g ri, (1 <= P)%nat ->
  ctr_ids_mpi P lens g = Some ri -> convert_local P lens ri = Some g /\ (fst ri < P)%nat.
Proof. exact ctr_ids_mpi_convert. Qed.
Print Assumptions c14_global_to_local_then_back.

Theorem c14_global_to_local_total : forall P lens g, (1 <= P)%nat -> (g < sum_nat lens)%nat ->
  exists ri, ctr_ids_mpi P lens g = Some ri.
Proof. exact ctr_ids_mpi_total. Qed.
Print Assumptions c14_global_to_local_total.

Theorem c14_local_to_global_then_back : forall P lens r i g, (1 <= P)%nat -> (r < P)%nat ->
  convert_local P lens (r, i) = Some g -> ctr_ids_mpi P lens g = Some (r, i).
Proof. exact convert_ctr_ids. Qed.
Print Assumptions c14_local_to_global_then_back.

Theorem c14_local_to_global_in_range : forall P lens r i g, (1 <= P)%nat -> (r < P)%nat ->
  convert_local P lens (r, i) = Some g -> (g < sum_nat lens)%nat.
Proof. exact convert_local_range. Qed.
Print Assumptions c14_local_to_global_in_range.

(* ---- random element choice: the broadcast draw g in [0, total) is mapped bijectively onto the valid
        (owner rank, local index) pairs, so a uniform draw is a uniform element (randind_bijection) *)
Theorem c14_randind_total : forall ns g, (g < sum_nat ns)%nat ->
  exists r i, randind ns g = Some (r, i) /\ (r < length ns)%nat /\ (i < nth r ns 0)%nat.
Proof. exact randind_total. Qed.
Print Assumptions c14_randind_total.

Theorem c14_randind_injective : forall ns g g' ri, randind ns g = Some ri -> randind ns g' = Some ri -> g = g'.
Proof. exact randind_inj. Qed.
Print Assumptions c14_randind_injective.

Theorem c14_randind_surjective : forall ns r i, (r < length ns)%nat -> (i < nth r ns 0)%nat ->
  exists g, (g < sum_nat ns)%nat /\ randind ns g = Some (r, i).
Proof. exact randind_surj. Qed.
Print Assumptions c14_randind_surjective.

(* ---- striped maximum: allreduce(MAX) of the local maxima equals the serial maximum (ties or not) *)
Theorem c14_striped_max : forall P lens (g : list fr), (1 <= P)%nat -> length g = sum_nat lens ->
  Forall (fun loc => loc <> []) (scatter P lens g) ->
  exists v, striped_max (map (map dist) (scatter P lens g)) = Some v /\ v == maxdist g.
Proof. exact striped_max_scatter. Qed.
Print Assumptions c14_striped_max.

(* ---- striped mean: sum of local sums / sum of local lengths is the mean of the whole array, exactly *)
Theorem c14_striped_mean_exact : forall P lens g, (1 <= P)%nat -> length g = sum_nat lens ->
  striped_mean (scatter P lens g) == mean g.
Proof. exact striped_mean_exact. Qed.
Print Assumptions c14_striped_mean_exact.

(* ---- distributed k-centers, one iteration: when the farthest frame m of the global state is unique,
        the gathered local maxima elect its owner, the owner's local argmax is m, and the new distributed
        state is the scatter of the serial iteration's state *)
Theorem c14_kc_iter_mpi_refines : forall D P lens, (1 <= P)%nat -> forall ti cp cids g m,
  length g = sum_nat lens -> nonempty_locals P lens g -> length cp = length cids -> umax m g ->
  exists owner index,
    (owner < P)%nat /\ nth_error (local_of P owner lens g) index = Some m /\
    kc_iter_mpi D ti (mkds cp cids (scatter P lens g)) =
      Some (mkds (cp ++ [(owner, index)]) (fst (kc_iter D ti (cids, g)))
                 (scatter P lens (snd (kc_iter D ti (cids, g))))).
Proof. exact kc_iter_mpi_refines. Qed.
Print Assumptions c14_kc_iter_mpi_refines.

(* ---- the whole loop from any consistent state (same stopping point: the guard uses striped_max) *)
Theorem c14_kc_loop_mpi_refines : forall D P lens, (1 <= P)%nat -> forall fuel nclu cutoff ti s cp,
  fids_ok lens (snd s) -> nonempty_locals P lens (snd s) -> ctrs_ok P lens cp (fst s) ->
  tie_free_run D fuel nclu cutoff ti s ->
  exists cp',
    kc_loop_mpi D fuel nclu cutoff ti (mkds cp (fst s) (scatter P lens (snd s))) =
      Some (mkds cp' (fst (kc_loop D fuel nclu cutoff ti s)) (scatter P lens (snd (kc_loop D fuel nclu cutoff ti s)))) /\
    ctrs_ok P lens cp' (fst (kc_loop D fuel nclu cutoff ti s)).
Proof. exact kc_loop_mpi_refines. Qed.
Print Assumptions c14_kc_loop_mpi_refines.

(* ---- kc_mpi_refines_serial: distributed k-centers followed by the reassembly routines yields the same
        centres (as global frame indices), labels and distances as the serial algorithm, for tie-free data,
        every world size P <= number of trajectories, every length vector with non-empty trajectories *)
Theorem c14_kc_mpi_equals_serial : forall D P lens nclu cutoff ti L rest,
  (1 <= P)%nat -> (P <= length lens)%nat -> lens = L :: rest -> (1 <= L)%nat ->
  nonempty_locals P lens (seq 0 (sum_nat lens)) ->
  tie_free_run D (S (sum_nat lens)) nclu cutoff ti (kc_first D (sum_nat lens)) ->
  exists ds, kcenters_mpi D P lens nclu cutoff ti = Some ds /\
    let s' := kcenters_cold D nclu cutoff ti (sum_nat lens) in
    map (convert_local P lens) (dctr ds) = map Some (fst s') /\
    assemble 0%nat P lens (map (map lab) (dloc ds)) = Some (labels s') /\
    assemble 0%Q P lens (map (map dist) (dloc ds)) = Some (dists s').
Proof. exact kc_mpi_assembled_equals_serial. Qed.
Print Assumptions c14_kc_mpi_equals_serial.

(* ---- distributed k-medoids stage: one PAM proposal (r, i) under MPI -- the frame Bcast from its owner,
        the per-frame three-way reassignment on every rank, the striped mean-square cost and the accept test --
        is exactly the serial PAM step on the proposal's global frame; hence every invariant of the serial
        stage (C01, C09) carries over to the reassembled distributed state (no tie-freeness needed) *)
Theorem c14_pam_update_mpi_refines : forall D P lens, (1 <= P)%nat -> forall cp cids g cid r i m,
  length g = sum_nat lens -> (0 < length g)%nat -> (r < P)%nat ->
  nth_error (local_of P r lens g) i = Some m ->
  let s' := pam_update D (cids, g) cid (fid m) in
  let accept := Qlt_b (sumsq (map (pam_frame D cid (fid m) (replace_nth cid (fid m) cids)) g)) (sumsq g) in
  pam_update_mpi D (mkds cp cids (scatter P lens g)) cid (r, i) =
    Some (mkds (if accept then replace_nth cid (r, i) cp else cp) (fst s') (scatter P lens (snd s'))).
Proof. exact pam_update_mpi_refines. Qed.
Print Assumptions c14_pam_update_mpi_refines.

Theorem c14_pam_update_mpi_centres : forall P lens cp cids g cid r i m,
  fids_ok lens g -> ctrs_ok P lens cp cids ->
  nth_error (local_of P r lens g) i = Some m ->
  ctrs_ok P lens (replace_nth cid (r, i) cp) (replace_nth cid (fid m) cids).
Proof. exact pam_update_mpi_ctrs_ok. Qed.
Print Assumptions c14_pam_update_mpi_centres.

(* ---- the hypotheses are satisfiable: 3 frames at 0, 10, 3 on a line, trajectories of lengths 2 and 1 on
        2 ranks, k = 2: the run is tie-free, every rank owns a frame, and both runs give centres [0;1] *)
Definition exM : list (list Q) := [[0; 10#1; 3#1]; [10#1; 0; 7#1]; [3#1; 7#1; 0]].

Example c14_example_hypotheses :
  nonempty_locals 2 [2%nat; 1%nat] (seq 0 3) /\
  tie_free_run (Dm exM) 4 (Some 2%nat) 0 false (kc_first (Dm exM) 3).
Proof.
  split.
  - unfold nonempty_locals. vm_compute. repeat constructor; discriminate.
  - vm_compute. split; [|exact I].
    exists (mkfr 1 0 (10#1)), [mkfr 0 0 0], [mkfr 2 0 (3#1)]. split; [reflexivity|].
    repeat constructor.
Qed.
Print Assumptions c14_example_hypotheses.

Example c14_example_run :
  option_map (fun ds => (dctr ds, map (map lab) (dloc ds))) (kcenters_mpi (Dm exM) 2 [2%nat; 1%nat] (Some 2%nat) 0 false)
    = Some ([(0%nat, 0%nat); (0%nat, 1%nat)], [[0%nat; 1%nat]; [0%nat]]) /\
  fst (kcenters_cold (Dm exM) (Some 2%nat) 0 false 3) = [0%nat; 1%nat] /\
  map (convert_local 2 [2%nat; 1%nat]) [(0%nat, 0%nat); (0%nat, 1%nat)] = [Some 0%nat; Some 1%nat].
Proof. vm_compute. repeat split. Qed.
Print Assumptions c14_example_run.

(* ======================================================================================= round 2
   "the distributed k-medoids stage satisfies the same invariants as the serial one".
   Inv is C01's consistency invariant (Proof/ClusterInv.v; spelt out by c01_invariant_meaning): centres are
   distinct frames; every label is in [0,k); every distance is the metric distance to the assigned centre; no
   centre is strictly closer; every centre frame carries its own label at distance 0.
   "distinct points": zero self-distance, positive distance between different frames.
   `assembled P lens ds g` = what every rank holds after the library's reassembly routines: *)
Theorem c14_assembled_meaning : forall P lens ds g, assembled P lens ds g <->
  (map (convert_local P lens) (dctr ds) = map Some (dcid ds) /\
   assemble 0%nat P lens (map (map lab) (dloc ds)) = Some (map lab g) /\
   assemble 0%Q P lens (map (map dist) (dloc ds)) = Some (map dist g) /\
   assemble 0%nat P lens (map (map fid) (dloc ds)) = Some (seq 0 (sum_nat lens))).
Proof. exact assembled_meaning. Qed.
Print Assumptions c14_assembled_meaning.

(* a proposal (cluster id, (owner rank, local index)) is in range *)
Theorem c14_step_in_range_meaning : forall P lens k cid r i, step_in_range P lens k (cid, (r, i)) <->
  ((cid < k)%nat /\ (r < P)%nat /\ (i < length (local_ids P r lens))%nat).
Proof. exact step_in_range_meaning. Qed.
Print Assumptions c14_step_in_range_meaning.

(* ---- k-medoids stage, explicit proposals: from ANY consistent distributed state (local arrays = the scatter of
        a state satisfying Inv, centre pairs naming its centres), ANY number of distributed PAM steps with ANY
        in-range proposals runs without error, and the state assembled from the ranks satisfies Inv, has the
        same number of centres, and its cost (sum of squares, and the code's own striped mean of squares)
        is not larger; ties allowed; every world size 1 <= P <= number of trajectories *)
Theorem c14_pam_steps_mpi_inv : forall D P lens,
  (forall f, D f f == 0) /\ (forall c f, c <> f -> 0 < D c f) -> (1 <= P)%nat -> (P <= length lens)%nat ->
  forall cp cids g steps,
  Inv D (sum_nat lens) (cids, g) -> ctrs_ok P lens cp cids ->
  Forall (step_in_range P lens (length cids)) steps ->
  exists ds' g', pam_steps_mpi D steps (mkds cp cids (scatter P lens g)) = Some ds' /\
    assembled P lens ds' g' /\ Inv D (sum_nat lens) (dcid ds', g') /\
    length (dcid ds') = length cids /\ length (dctr ds') = length cp /\
    sumsq g' <= sumsq g /\ sq_cost (dloc ds') <= sq_cost (scatter P lens g).
Proof. exact pam_steps_mpi_inv. Qed.
Print Assumptions c14_pam_steps_mpi_inv.

(* ---- k-medoids stage as the code runs it: sweeps over cid = 0..k-1 whose proposals come from rank 0's draws
        through randind over the per-rank member lists (None = a draw outside [0, members), which
        RandomState.randint never returns) *)
Theorem c14_kmedoids_mpi_inv : forall D P lens,
  (forall f, D f f == 0) /\ (forall c f, c <> f -> 0 < D c f) -> (1 <= P)%nat -> (P <= length lens)%nat ->
  forall cp cids g sweeps ds',
  Inv D (sum_nat lens) (cids, g) -> ctrs_ok P lens cp cids ->
  Forall (fun s => (length s <= length cids)%nat) sweeps ->
  kmedoids_mpi D sweeps (mkds cp cids (scatter P lens g)) = Some ds' ->
  exists g', assembled P lens ds' g' /\ Inv D (sum_nat lens) (dcid ds', g') /\
    length (dcid ds') = length cids /\ length (dctr ds') = length cp /\
    sumsq g' <= sumsq g /\ sq_cost (dloc ds') <= sq_cost (scatter P lens g).
Proof. exact kmedoids_mpi_inv. Qed.
Print Assumptions c14_kmedoids_mpi_inv.

(* ---- distributed k-centers, tie-free data: the assembled result is the serial result and satisfies Inv
        (refinement + C01's kcenters_cold_inv); with the triangle shortcut the metric must be symmetric and
        satisfy the triangle inequality (ti_ok) *)
Theorem c14_kc_mpi_inv : forall D P lens nclu cutoff ti L rest,
  (forall f, D f f == 0) /\ (forall c f, c <> f -> 0 < D c f) ->
  (1 <= P)%nat -> (P <= length lens)%nat -> lens = L :: rest -> (1 <= L)%nat ->
  ti_ok D ti -> 0 <= cutoff ->
  nonempty_locals P lens (seq 0 (sum_nat lens)) ->
  tie_free_run D (S (sum_nat lens)) nclu cutoff ti (kc_first D (sum_nat lens)) ->
  exists ds, kcenters_mpi D P lens nclu cutoff ti = Some ds /\
    let s' := kcenters_cold D nclu cutoff ti (sum_nat lens) in
    dcid ds = fst s' /\ rep D P lens ds (snd s') /\ assembled P lens ds (snd s') /\
    Inv D (sum_nat lens) (dcid ds, snd s').
Proof. exact kc_mpi_inv. Qed.
Print Assumptions c14_kc_mpi_inv.

(* ---- k-hybrid under MPI = distributed k-centers, then the distributed k-medoids stage: the assembled result
        satisfies Inv, has as many centres as k-centers found, and costs no more than the k-centers result *)
Theorem c14_hybrid_mpi_inv : forall D P lens nclu cutoff L rest sweeps ds',
  (forall f, D f f == 0) /\ (forall c f, c <> f -> 0 < D c f) ->
  (1 <= P)%nat -> (P <= length lens)%nat -> lens = L :: rest -> (1 <= L)%nat -> 0 <= cutoff ->
  nonempty_locals P lens (seq 0 (sum_nat lens)) ->
  tie_free_run D (S (sum_nat lens)) nclu cutoff false (kc_first D (sum_nat lens)) ->
  let s0 := kcenters_cold D nclu cutoff false (sum_nat lens) in
  Forall (fun s => (length s <= length (fst s0))%nat) sweeps ->
  hybrid_mpi D P lens nclu cutoff sweeps = Some ds' ->
  exists g', assembled P lens ds' g' /\ Inv D (sum_nat lens) (dcid ds', g') /\
    length (dcid ds') = length (fst s0) /\ sumsq g' <= sumsq (snd s0).
Proof. exact hybrid_mpi_inv. Qed.
Print Assumptions c14_hybrid_mpi_inv.

(* ---- the round-2 hypotheses are satisfiable: points at 0, 10, 3, 4 on a line, two trajectories of two frames on
        two ranks, k = 2; the hybrid run accepts a swap (medoid 0 moves from frame 0 to frame 2, owned by rank 1) *)
Example c14_example_hybrid :
  ((forall f, Dline pos4 f f == 0) /\ (forall c f, c <> f -> 0 < Dline pos4 c f)) /\
  nonempty_locals 2 [2%nat; 2%nat] (seq 0 4) /\
  tie_free_run (Dline pos4) 5 (Some 2%nat) 0 false (kc_first (Dline pos4) 4) /\
  option_map (fun ds => (dctr ds, dcid ds, map (map lab) (dloc ds), map (map dist) (dloc ds)))
             (hybrid_mpi (Dline pos4) 2 [2%nat; 2%nat] (Some 2%nat) 0 [[2%nat; 0%nat]; [1%nat; 0%nat]])
    = Some ([(1%nat, 0%nat); (0%nat, 1%nat)], [2%nat; 1%nat], [[0%nat; 1%nat]; [0%nat; 0%nat]], [[3#1; 0]; [0; 1#1]]).
Proof.
  split; [exact pos4_metric|]. split; [|split].
  - unfold nonempty_locals. vm_compute. repeat constructor; discriminate.
  - vm_compute. split; [|exact I].
    exists (mkfr 1 0 (10#1)), [mkfr 0 0 0], [mkfr 2 0 (3#1); mkfr 3 0 (4#1)]. split; [reflexivity|].
    repeat constructor.
  - vm_compute. reflexivity.
Qed.
Print Assumptions c14_example_hybrid.

(* ---- MPI warm start (kcenters(init_centers = frames, mpi_mode=True)): on ANY consistent state the centre pairs
        the ranks agree on (per label: first rank holding a frame of minimal distance, that rank's first such
        frame) convert to exactly the centre list, in order -- the distributed form of
        c01_center_finder_recovers_centers; ties in the data allowed *)
Theorem c14_warm_pairs_name_centres : forall D, (forall c f, c <> f -> 0 < D c f) ->
  forall P lens, (1 <= P)%nat -> forall cs g, Inv D (sum_nat lens) (cs, g) ->
  map (convert_local P lens) (warm_ctr_pairs (length cs) (scatter P lens g)) = map Some cs.
Proof. exact warm_pairs_ok. Qed.
Print Assumptions c14_warm_pairs_name_centres.

(* ---- the whole warm-started distributed run, tie-free data, init = non-empty list of distinct frames: it
        yields after reassembly the serial warm-started result (centres as global ids, labels, distances), which
        satisfies Inv and keeps the supplied centres as the first centres *)
Theorem c14_kc_warm_mpi_equals_serial : forall D P lens init nclu cutoff ti,
  (forall f, D f f == 0) /\ (forall c f, c <> f -> 0 < D c f) ->
  (1 <= P)%nat -> (P <= length lens)%nat -> init_ok (sum_nat lens) init ->
  ti_ok D ti -> 0 <= cutoff ->
  nonempty_locals P lens (seq 0 (sum_nat lens)) ->
  tie_free_run D (S (sum_nat lens)) nclu cutoff ti (nearest_state D init (sum_nat lens)) ->
  exists ds, kcenters_warm_mpi D P lens init nclu cutoff ti = Some ds /\
    let s' := kcenters_warm D nclu cutoff ti init (sum_nat lens) in
    dcid ds = fst s' /\ assembled P lens ds (snd s') /\ Inv D (sum_nat lens) (dcid ds, snd s') /\
    (exists ext, dcid ds = init ++ ext).
Proof. exact warm_mpi_assembled_equals_serial. Qed.
Print Assumptions c14_kc_warm_mpi_equals_serial.

(* ---- satisfiable: the four points above, initial centres = frames 3 and 1 (owned by ranks 1 and 0), k = 3 *)
Example c14_example_warm :
  init_ok 4 [3%nat; 1%nat] /\
  tie_free_run (Dline pos4) 5 (Some 3%nat) 0 false (nearest_state (Dline pos4) [3%nat; 1%nat] 4) /\
  option_map (fun ds => (dctr ds, dcid ds, map (map lab) (dloc ds), map (map dist) (dloc ds)))
             (kcenters_warm_mpi (Dline pos4) 2 [2%nat; 2%nat] [3%nat; 1%nat] (Some 3%nat) 0 false)
    = Some ([(1%nat, 1%nat); (0%nat, 1%nat); (0%nat, 0%nat)], [3%nat; 1%nat; 0%nat],
            [[2%nat; 1%nat]; [0%nat; 0%nat]], [[0; 0]; [1#1; 0]]) /\
  fst (kcenters_warm (Dline pos4) (Some 3%nat) 0 false [3%nat; 1%nat] 4) = [3%nat; 1%nat; 0%nat].
Proof.
  split; [|split; [|split]].
  - split; [discriminate|]. split.
    + constructor; [intros [H|[]]; discriminate|]. constructor; [intros []|constructor].
    + intros c [<-|[<-|[]]]; lia.
  - vm_compute. split; [|exact I].
    exists (mkfr 0 0 (4#1)), [], [mkfr 1 1 0; mkfr 2 0 (1#1); mkfr 3 0 0]. split; [reflexivity|].
    repeat constructor.
  - vm_compute. reflexivity.
  - vm_compute. reflexivity.
Qed.
Print Assumptions c14_example_warm.

(* ==================================================================================================
   Round 3: the index arithmetic and the decision logic of the MPI layer are REGENERATED from the current
   source by translator/tr_mpi.py (Gen/MpiGen.v: enspara/mpi/ops.py, kcenters.py:_kcenters_iteration_mpi and
   the mpi_mode branches of kcenters, kmedoids.py:ctr_ids_mpi / _msq / _propose_new_center_amongst / the MPI
   branches of _kmedoids_pam_update) over the vocabulary Base/MpiGenBase.v (Python slices through Base/PySlice.v,
   RaggedArray as rows, collectives as functions of the per-rank contributions).  Proof/MpiGenProofs.v proves
   the generated definitions equal to the definitions of Model/Mpi.v, so the theorems above speak about what
   the code says now; an edit of a stride, offset, owner test, tie-break, reduction or keyword either is
   rejected by the translator or breaks one of the equalities below. *)
From EV Require Import MpiGenBase MpiSlice MpiGen MpiGenProofs.

(* ---- x[rank::size] of the source (CPython slice semantics, Base/PySlice.v) is the model's stripe *)
Theorem c14_gen_slice_is_stripe : forall {A} (l : list A) r P, (1 <= P)%nat ->
  nslice l (Some r) None (Some P) = every P r l.
Proof. exact (fun A => @nslice_every A). Qed.
Print Assumptions c14_gen_slice_is_stripe.

(* ---- x[rank::size] = news of the source is the model's put_every (as many items as slots, else ValueError) *)
Theorem c14_gen_slice_assign_is_put : forall {A} (l news : list A) r P, (1 <= P)%nat -> (r < P)%nat ->
  nput_slice l (Some r) None (Some P) news
  = if Nat.eqb (length (every P r l)) (length news) then Some (put_every P r news l) else None.
Proof. exact (fun A => @nput_slice_every A). Qed.
Print Assumptions c14_gen_slice_assign_is_put.

(* ---- ops.convert_local_indices *)
Theorem c14_gen_convert_local : forall P lens r i, (1 <= P)%nat ->
  gen_cli_one P lens r i = convert_local P lens (r, i).
Proof. exact gen_cli_one_is_model. Qed.
Print Assumptions c14_gen_convert_local.

(* ---- ops.assemble_striped_array *)
Theorem c14_gen_assemble_striped_array : forall P locals, (1 <= P)%nat -> length locals = P ->
  gen_assemble_striped_array P locals = assemble_flat P locals.
Proof. exact gen_assemble_striped_array_is_model. Qed.
Print Assumptions c14_gen_assemble_striped_array.

(* ---- ops.assemble_striped_ragged_array: both branches (several rows / one row), every failure mode *)
Theorem c14_gen_assemble_striped_ragged_array : forall {A} (fill : A) P lens locals, (1 <= P)%nat -> length locals = P ->
  gen_assemble_striped_ragged_array fill P lens locals = assemble fill P lens locals.
Proof. exact (fun A => @gen_assemble_striped_ragged_array_is_model A). Qed.
Print Assumptions c14_gen_assemble_striped_ragged_array.

(* ---- ops.striped_array_max / striped_array_mean *)
Theorem c14_gen_striped_array_max : forall locals, gen_striped_array_max locals = striped_max locals.
Proof. exact gen_striped_array_max_is_model. Qed.
Print Assumptions c14_gen_striped_array_max.

Theorem c14_gen_striped_array_mean : forall P locals, (1 <= P)%nat -> length locals = P ->
  exists v, gen_striped_array_mean P locals = Some v /\ v == striped_mean locals.
Proof. exact gen_striped_array_mean_is_model. Qed.
Print Assumptions c14_gen_striped_array_mean.

(* ---- ops.distribute_frame: every rank receives the owner's frame world_index (owner test, root of the Bcast,
        rejection of owner_rank >= size; the other ranks only need one frame to shape their buffer) *)
Theorem c14_gen_distribute_frame : forall {A} size (datas : list (list A)) world_index owner_rank,
  length datas = size -> Forall (fun d => d <> []) datas ->
  gen_distribute_frame size datas world_index owner_rank = nth_error (nth owner_rank datas []) world_index.
Proof. exact (fun A => @gen_distribute_frame_spec A). Qed.
Print Assumptions c14_gen_distribute_frame.

(* ---- ops.randind: the cumulative-length search, and who draws / broadcasts *)
Theorem c14_gen_randind : forall ns g, gen_randind (length ns) ns g = randind ns g.
Proof. exact gen_randind_is_model. Qed.
Print Assumptions c14_gen_randind.

Theorem c14_gen_randind_draw : gen_randind_drawer = gen_randind_root /\ forall ns, gen_randind_bound ns = sum_nat ns.
Proof. exact gen_randind_draw_is_broadcast. Qed.
Print Assumptions c14_gen_randind_draw.

(* ---- kcenters._kcenters_iteration_mpi: global argmax over the gathered local maxima (first maximum wins on both
        levels), owner broadcast, masks, new label, appended pair *)
Theorem c14_gen_kc_iter_mpi : forall D ti ds, dctr ds <> [] -> gen_kc_iter_mpi D ti ds = kc_iter_mpi D ti ds.
Proof. exact gen_kc_iter_mpi_is_model. Qed.
Print Assumptions c14_gen_kc_iter_mpi.

Theorem c14_gen_kc_cold : forall {A} (ids : list (list A)), Forall (fun d => d <> []) ids ->
  gen_kci_cold (@nil (nat * nat)) = true /\
  gen_kci_new_center (length ids) ids gen_kci_cold_owner gen_kci_cold_index = nth_error (nth 0%nat ids []) 0%nat /\
  gen_kci_pair gen_kci_cold_owner gen_kci_cold_index = (0%nat, 0%nat).
Proof. exact (fun A => @gen_kc_cold_is_model A). Qed.
Print Assumptions c14_gen_kc_cold.

(* ---- kcenters in mpi_mode: the stopping test reads the allreduced maximum; the whole loop *)
Theorem c14_gen_kc_guard_mpi : forall nclu cutoff ds, gen_kc_guard_mpi nclu cutoff ds = kc_guard_mpi nclu cutoff ds.
Proof. exact gen_kc_guard_mpi_is_model. Qed.
Print Assumptions c14_gen_kc_guard_mpi.

Theorem c14_gen_kc_loop_mpi : forall D fuel nclu cutoff ti ds, dctr ds <> [] ->
  gen_kc_loop_mpi D fuel nclu cutoff ti ds = kc_loop_mpi D fuel nclu cutoff ti ds.
Proof. exact gen_kc_loop_mpi_is_model. Qed.
Print Assumptions c14_gen_kc_loop_mpi.

(* ---- kmedoids.ctr_ids_mpi, both input forms *)
Theorem c14_gen_ctr_ids_pair : forall P lens tf, (1 <= P)%nat -> gen_cim_pair P lens tf = ctr_pair_mpi P lens tf.
Proof. exact gen_cim_pair_is_model. Qed.
Print Assumptions c14_gen_ctr_ids_pair.

Theorem c14_gen_ctr_ids_flat : forall P lens g, (1 <= P)%nat -> gen_ctr_ids_mpi_flat P lens g = ctr_ids_mpi P lens g.
Proof. exact gen_ctr_ids_mpi_flat_is_model. Qed.
Print Assumptions c14_gen_ctr_ids_flat.

(* ---- kmedoids._propose_new_center_amongst (MPI branch) and the MPI PAM step *)
Theorem c14_gen_propose_mpi : forall ds cid g,
  gen_propose_mpi (length (dloc ds)) (map (members_from cid 0) (dloc ds)) g = propose_mpi ds cid g.
Proof. exact gen_propose_mpi_is_model. Qed.
Print Assumptions c14_gen_propose_mpi.

Theorem c14_gen_proposal_frame : forall {A} size (Xs : list (list A)) r idx i,
  gen_prop_frame size Xs r idx i = gen_pam_proposal_frame size Xs (gen_prop_ind r idx i) /\
  gen_pam_medoid_coord size Xs r i = gen_pam_proposal_frame size Xs (r, i).
Proof. exact (fun A => @gen_prop_frame_is_pair A). Qed.
Print Assumptions c14_gen_proposal_frame.

Theorem c14_gen_pam_update_mpi : forall D ds cid prop, Forall (fun d => d <> []) (dloc ds) -> dloc ds <> [] ->
  gen_pam_update_mpi D ds cid prop = pam_update_mpi D ds cid prop.
Proof. exact gen_pam_update_mpi_is_model. Qed.
Print Assumptions c14_gen_pam_update_mpi.

(* ---- the property's clauses restated on the regenerated definitions *)
Theorem c14_gen_kc_mpi_equals_serial : forall D P lens nclu cutoff ti L rest,
  (1 <= P)%nat -> (P <= length lens)%nat -> lens = L :: rest -> (1 <= L)%nat ->
  nonempty_locals P lens (seq 0 (sum_nat lens)) ->
  tie_free_run D (S (sum_nat lens)) nclu cutoff ti (kc_first D (sum_nat lens)) ->
  exists ds, gen_kcenters_mpi D P lens nclu cutoff ti = Some ds /\
    let s' := kcenters_cold D nclu cutoff ti (sum_nat lens) in
    gen_convert_local_indices P lens (dctr ds) = Some (fst s') /\
    gen_assemble_striped_ragged_array 0%nat P lens (map (map lab) (dloc ds)) = Some (labels s') /\
    gen_assemble_striped_ragged_array 0%Q P lens (map (map dist) (dloc ds)) = Some (dists s').
Proof. exact gen_kc_mpi_equals_serial. Qed.
Print Assumptions c14_gen_kc_mpi_equals_serial.

Theorem c14_gen_assemble_scatter : forall {A} (fill : A) P lens (g : list A), (1 <= P)%nat -> (P <= length lens)%nat ->
  length g = sum_nat lens -> gen_assemble_striped_ragged_array fill P lens (scatter P lens g) = Some g.
Proof. exact (fun A => @gen_assemble_scatter A). Qed.
Print Assumptions c14_gen_assemble_scatter.

Theorem c14_gen_global_to_local_then_back : forall P lens g ri, (1 <= P)%nat ->
  gen_ctr_ids_mpi_flat P lens g = Some ri -> gen_cli_one P lens (fst ri) (snd ri) = Some g /\ (fst ri < P)%nat.
Proof. exact gen_global_to_local_then_back. Qed.
Print Assumptions c14_gen_global_to_local_then_back.

Theorem c14_gen_local_to_global_then_back : forall P lens r i g, (1 <= P)%nat -> (r < P)%nat ->
  gen_cli_one P lens r i = Some g -> gen_ctr_ids_mpi_flat P lens g = Some (r, i) /\ (g < sum_nat lens)%nat.
Proof. exact gen_local_to_global_then_back. Qed.
Print Assumptions c14_gen_local_to_global_then_back.

Theorem c14_gen_randind_bijection : forall ns,
  (forall g, (g < sum_nat ns)%nat -> exists r i, gen_randind (length ns) ns g = Some (r, i) /\ (r < length ns)%nat /\ (i < nth r ns 0)%nat) /\
  (forall g g' ri, gen_randind (length ns) ns g = Some ri -> gen_randind (length ns) ns g' = Some ri -> g = g') /\
  (forall r i, (r < length ns)%nat -> (i < nth r ns 0)%nat -> exists g, (g < sum_nat ns)%nat /\ gen_randind (length ns) ns g = Some (r, i)).
Proof. exact gen_randind_bijection. Qed.
Print Assumptions c14_gen_randind_bijection.

Theorem c14_gen_striped_reductions_serial : forall P lens (g : list fr), (1 <= P)%nat -> length g = sum_nat lens ->
  Forall (fun loc => loc <> []) (scatter P lens g) ->
  (exists v, gen_striped_array_max (map (map dist) (scatter P lens g)) = Some v /\ v == maxdist g) /\
  (exists w, gen_striped_array_mean P (scatter P lens (map dist g)) = Some w /\ w == mean (map dist g)).
Proof. exact gen_striped_reductions_serial. Qed.
Print Assumptions c14_gen_striped_reductions_serial.

(* a concrete run of the regenerated definitions: 3 ranks, trajectories of lengths 2,1,3,2 *)
Example c14_example_gen :
  gen_convert_local_indices 3 [2;1;3;2]%nat [(0,3); (1,0); (2,2)]%nat = Some [7; 2; 5]%nat /\
  gen_assemble_striped_ragged_array 0%nat 3 [2;1;3;2]%nat [[10;11;16;17]; [12]; [13;14;15]]%nat = Some [10;11;12;13;14;15;16;17]%nat /\
  gen_assemble_striped_array 3 [[2;2]; [1]; [3]]%nat = Some [2;1;3;2]%nat /\
  map (gen_randind 2 [2;2]%nat) [0;1;2;3]%nat = [Some (0,0); Some (1,0); Some (0,1); Some (1,1)]%nat /\
  gen_ctr_ids_mpi_flat 3 [2;1;3;2]%nat 7 = Some (0, 3)%nat /\
  gen_kci_choice [[1;5;5]; [5;2]; [7;7;0]] = Some (2, 0)%nat /\
  gen_distribute_frame 3 [[1;2]; [3]; [4;5;6]]%nat 1 2 = Some 5%nat.
Proof. vm_compute. repeat split; reflexivity. Qed.
Print Assumptions c14_example_gen.
