(* C03 — transition counts equal the exact number of lagged state pairs.
   Property theorems only; proofs live in Proof/CountsProofs.v.  The definitions gen_start_states /
   gen_end_states are regenerated from enspara/msm/transition_matrices.py on every run. *)
From Coq Require Import List ZArith Permutation.
From EV Require Import PySlice CountsGen Counts CountsProofs CountsStrided.
Import ListNotations.
Open Scope Z_scope.

(* The pairs taken from one trajectory by the translated slices are exactly: pair k starts at frame
   k*step (step = 1 sliding, lag otherwise) of the -1-stripped trajectory and ends lag frames later. *)
Theorem c03_pairs_are_lagged_pairs : forall sliding lag t,
  1 <= lag -> traj_pairs sliding lag t = spec_pairs sliding lag (strip t).
Proof. exact traj_pairs_spec. Qed.
Print Assumptions c03_pairs_are_lagged_pairs.

(* ... and those positions are exactly the legal ones: every pair lies inside its trajectory, *)
Theorem c03_pairs_inside_trajectory : forall sliding lag n k,
  1 <= lag -> (k < npairs sliding lag n)%nat ->
  0 <= Z.of_nat k * wstep sliding lag /\ Z.of_nat k * wstep sliding lag + lag < Z.of_nat n.
Proof. exact npairs_in_range. Qed.
Print Assumptions c03_pairs_inside_trajectory.

(* under the sliding window there is one pair per frame position with a partner, *)
Theorem c03_sliding_pair_count : forall lag n, 1 <= lag -> npairs true lag n = Z.to_nat (Z.of_nat n - lag).
Proof. exact npairs_sliding. Qed.
Print Assumptions c03_sliding_pair_count.

(* without it exactly the multiples of lag whose partner exists. *)
Theorem c03_strided_positions : forall lag n k,
  1 <= lag -> ((k < npairs false lag n)%nat <-> Z.of_nat k * lag + lag < Z.of_nat n).
Proof. exact npairs_strided_iff. Qed.
Print Assumptions c03_strided_positions.

Theorem c03_stacked_rows_same_length : forall sliding lag a,
  1 <= lag -> length (gen_start_states a lag sliding) = length (gen_end_states a lag sliding).
Proof. exact gen_lengths_equal. Qed.
Print Assumptions c03_stacked_rows_same_length.

(* Entry (i,j) of the returned matrix is the number of extracted pairs with states (i,j); *)
Theorem c03_entry_is_pair_count : forall sliding lag maxn trjs M (i j : nat),
  counts_matrix sliding lag maxn trjs = Some M ->
  (i < Z.to_nat (n_states maxn trjs))%nat -> (j < Z.to_nat (n_states maxn trjs))%nat ->
  nth j (nth i M []) 0%nat = count_pair (all_pairs sliding lag trjs) (Z.of_nat i) (Z.of_nat j).
Proof. exact counts_entry. Qed.
Print Assumptions c03_entry_is_pair_count.

Theorem c03_cell_counts_positions : forall sliding lag a i j,
  count_pair (spec_pairs sliding lag a) i j =
  length (filter (fun k => (nth (Z.to_nat (Z.of_nat k * wstep sliding lag)) a 0 =? i) &&
                           (nth (Z.to_nat (Z.of_nat k * wstep sliding lag + lag)) a 0 =? j))%bool
                 (seq 0 (npairs sliding lag (length a)))).
Proof. exact count_pair_spec_positions. Qed.
Print Assumptions c03_cell_counts_positions.

(* the matrix is square with the requested / observed number of states; *)
Theorem c03_square : forall sliding lag maxn trjs M,
  counts_matrix sliding lag maxn trjs = Some M ->
  length M = Z.to_nat (n_states maxn trjs) /\
  forall row, In row M -> length row = Z.to_nat (n_states maxn trjs).
Proof. exact counts_shape. Qed.
Print Assumptions c03_square.

(* its total is the number of pairs, which under the sliding window is sum_t max(0, len_t - lag); *)
Theorem c03_total : forall sliding lag maxn trjs M,
  counts_matrix sliding lag maxn trjs = Some M -> matrix_total M = length (all_pairs sliding lag trjs).
Proof. exact counts_total. Qed.
Print Assumptions c03_total.

Theorem c03_total_sliding : forall lag trjs, 1 <= lag ->
  length (all_pairs true lag trjs) =
  fold_right (fun t acc => (Z.to_nat (Z.of_nat (length (strip t)) - lag) + acc)%nat) 0%nat trjs.
Proof. exact total_pairs_sliding. Qed.
Print Assumptions c03_total_sliding.

(* pairs are taken per trajectory (no pair spans two trajectories) and counts are additive; *)
Theorem c03_additive : forall sliding lag A B i j,
  count_pair (all_pairs sliding lag (A ++ B)) i j =
  (count_pair (all_pairs sliding lag A) i j + count_pair (all_pairs sliding lag B) i j)%nat.
Proof. exact counts_additive. Qed.
Print Assumptions c03_additive.

(* any reordering of the trajectories gives the same counts; *)
Theorem c03_order_independent : forall sliding lag A B i j,
  Permutation A B -> count_pair (all_pairs sliding lag A) i j = count_pair (all_pairs sliding lag B) i j.
Proof. exact counts_perm. Qed.
Print Assumptions c03_order_independent.

(* trailing -1 padding (to any rectangle) is ignored. *)
Theorem c03_padding_ignored : forall sliding lag trjs (pad : list Z -> nat),
  all_pairs sliding lag (map (fun t => t ++ repeat (-1) (pad t)) trjs) = all_pairs sliding lag trjs.
Proof. exact all_pairs_padded. Qed.
Print Assumptions c03_padding_ignored.

(* the validation, the -1 mask and the inferred state count as regenerated from assigns_to_counts *)
Theorem c03_source_mask_and_state_count : forall x m lag,
  gen_keep x = negb (x =? -1) /\ gen_infer_n_states m = m + 1 /\ (gen_lag_invalid lag = true <-> lag < 1).
Proof. intros x m lag. split; [apply gen_keep_spec|]. split; [apply gen_infer_spec|apply gen_lag_invalid_spec]. Qed.
Print Assumptions c03_source_mask_and_state_count.

Theorem c03_public_function_rejects_lag_below_one : forall sliding lag maxn trjs,
  assigns_to_counts sliding lag maxn trjs = if lag <? 1 then None else counts_matrix sliding lag maxn trjs.
Proof. exact assigns_to_counts_spec. Qed.
Print Assumptions c03_public_function_rejects_lag_below_one.

(* Non-vacuity: a concrete non-trivial run of the model. *)
(* ---- sliding window off: closed forms.  A trajectory of n assigned frames gives floor((n-1)/lag)
   pairs; the matrix total is the sum of that over trajectories; with lag 1 the two window modes
   coincide; the strided window never yields more pairs than the sliding one. *)
Theorem c03_strided_pair_count : forall lag n, 1 <= lag -> npairs false lag n = Z.to_nat ((Z.of_nat n - 1) / lag).
Proof. exact npairs_strided_closed. Qed.
Print Assumptions c03_strided_pair_count.

Theorem c03_total_strided : forall lag trjs, 1 <= lag ->
  length (all_pairs false lag trjs) =
  fold_right (fun t acc => (Z.to_nat ((Z.of_nat (length (strip t)) - 1) / lag) + acc)%nat) 0%nat trjs.
Proof. exact total_pairs_strided. Qed.
Print Assumptions c03_total_strided.

Theorem c03_lag_one_modes_coincide : forall sliding n, npairs sliding 1 n = Z.to_nat (Z.of_nat n - 1).
Proof. exact npairs_lag1. Qed.
Print Assumptions c03_lag_one_modes_coincide.

Theorem c03_strided_le_sliding : forall lag n, 1 <= lag -> (npairs false lag n <= npairs true lag n)%nat.
Proof. exact npairs_strided_le_sliding. Qed.
Print Assumptions c03_strided_le_sliding.

Example c03_example :
  counts_matrix false 2 None [[0; 1; 1; 0; 1; -1; -1]; [1]; [1; 0; 0]] = Some [[0; 1]; [1; 1]]%nat
  /\ counts_matrix true 2 (Some 3) [[0; 1; 1; 0; 1]; [1]; [1; 0; 0]] = Some [[0; 1; 0]; [2; 1; 0]; [0; 0; 0]]%nat.
Proof. vm_compute. split; reflexivity. Qed.
Print Assumptions c03_example.
