From Coq Require Import List ZArith.
From EV Require Import PySlice CountsGen Counts.
Theorem placeholder_c03 : True. Proof. exact I. Qed.
Print Assumptions placeholder_c03.
