(* C09 — k-medoids refinement never worsens the cost and keeps centres in the data.
   cost = sum of squared frame-to-centre distances (the code compares means over the same n > 0). *)
From Coq Require Import List ZArith QArith.
From EV Require Import Cluster ClusterCase ClusterBase ClusterInv ClusterPam ClusterKC ClusterTop ClusterExample KcGuardBase ClusterGen ClusterSkel ClusterGenProofs ClusterPamHistory ClusterPropose ClusterRepropose.
Import ListNotations.

(* a proposal is accepted iff it strictly lowers the cost; a rejected proposal leaves the state
   (distances, labels, medoid indices) untouched as a whole *)
Theorem c09_update_accept_iff_cost_drops : forall D s cid p,
  (sumsq (snd (pam_update D s cid p)) < sumsq (snd s) /\ pam_update D s cid p <> s) \/ pam_update D s cid p = s.
Proof. exact pam_update_cost. Qed.
Print Assumptions c09_update_accept_iff_cost_drops.

Theorem c09_update_keeps_k : forall D s cid p, length (fst (pam_update D s cid p)) = length (fst s).
Proof. exact pam_update_k. Qed.
Print Assumptions c09_update_keeps_k.

(* any number of sweeps, any proposals, from any consistent state (cold start, warm start, the
   k-centers result): the cost does not increase, k is kept, the state stays consistent -- in
   particular every centre is a frame index < n (c01_invariant_meaning) *)
Theorem c09_sweeps_never_worsen : forall D, (forall f, D f f == 0) -> (forall c f, c <> f -> 0 < D c f) ->
  forall n sweeps s, Inv D n s -> sweeps_ok n (length (fst s)) sweeps ->
  Inv D n (kmedoids D s sweeps) /\ length (fst (kmedoids D s sweeps)) = length (fst s) /\
  sumsq (snd (kmedoids D s sweeps)) <= sumsq (snd s).
Proof. exact kmedoids_inv. Qed.
Print Assumptions c09_sweeps_never_worsen.

Theorem c09_one_sweep_never_worsens : forall D, (forall f, D f f == 0) -> (forall c f, c <> f -> 0 < D c f) ->
  forall n props cid s, Inv D n s -> (cid + length props <= length (fst s))%nat -> Forall (fun p => (p < n)%nat) props ->
  Inv D n (pam_sweep_from D cid props s) /\
  length (fst (pam_sweep_from D cid props s)) = length (fst s) /\
  sumsq (snd (pam_sweep_from D cid props s)) <= sumsq (snd s).
Proof. exact pam_sweep_from_inv. Qed.
Print Assumptions c09_one_sweep_never_worsens.

(* k-hybrid is never worse than the k-centers solution it starts from, with the same k *)
Theorem c09_hybrid_le_kcenters : forall D, (forall f, D f f == 0) -> (forall c f, c <> f -> 0 < D c f) ->
  forall nclu cutoff n sweeps, 0 <= cutoff -> (0 < n)%nat ->
  sweeps_ok n (length (fst (kcenters_cold D nclu cutoff false n))) sweeps ->
  sumsq (snd (hybrid_cold D nclu cutoff n sweeps)) <= sumsq (snd (kcenters_cold D nclu cutoff false n)) /\
  length (fst (hybrid_cold D nclu cutoff n sweeps)) = length (fst (kcenters_cold D nclu cutoff false n)).
Proof. exact hybrid_le_kcenters. Qed.
Print Assumptions c09_hybrid_le_kcenters.

(* a proposal that already is a medoid cannot lower any distance, hence is rejected *)
Theorem c09_medoid_proposal_no_gain : forall D cs cid p x, (cid < length cs)%nat -> In p cs -> frame_ok D cs x ->
  dist x <= dist (pam_frame D cid p (replace_nth cid p cs) x).
Proof. exact pam_frame_no_gain. Qed.
Print Assumptions c09_medoid_proposal_no_gain.

(* the accept test as regenerated from kmedoids.py: strictly lower cost, with distances, labels,
   medoid coordinates and medoid index replaced together (the translator pins those statements) *)
Theorem c09_source_accept_test_is_model : forall a b, gen_accept a b = Qlt_b a b.
Proof. exact gen_accept_is_model. Qed.
Print Assumptions c09_source_accept_test_is_model.

Theorem c09_mean_lt_iff_sum_lt : forall (a b : Q) (n : positive),
  a / inject_Z (Z.pos n) < b / inject_Z (Z.pos n) <-> a < b.
Proof. exact mean_lt_iff_sum_lt. Qed.
Print Assumptions c09_mean_lt_iff_sum_lt.

(* ---- the cost along the whole history of a run (no hypothesis on the supplied state) *)

(* a run -- any number of sweeps, any proposals, from ANY state -- either committed nothing at all
   (labels, distances and medoid indices are the initial ones) or ended strictly cheaper *)
Theorem c09_run_same_or_strictly_lower : forall D sweeps s,
  kmedoids D s sweeps = s \/ sumsq (snd (kmedoids D s sweeps)) < sumsq (snd s).
Proof. exact kmedoids_same_or_lower. Qed.
Print Assumptions c09_run_same_or_strictly_lower.

(* the cost read after every prefix of the sweep history is a non-increasing chain *)
Theorem c09_history_monotone : forall D s1 s2 s,
  sumsq (snd (kmedoids D s (s1 ++ s2))) <= sumsq (snd (kmedoids D s s1)) /\
  sumsq (snd (kmedoids D s s1)) <= sumsq (snd s).
Proof. exact kmedoids_history_monotone. Qed.
Print Assumptions c09_history_monotone.

(* ... and inside one sweep, proposal by proposal *)
Theorem c09_sweep_history_monotone : forall D p1 p2 cid s,
  sumsq (snd (pam_sweep_from D cid (p1 ++ p2) s)) <= sumsq (snd (pam_sweep_from D cid p1 s)) /\
  sumsq (snd (pam_sweep_from D cid p1 s)) <= sumsq (snd s).
Proof. exact pam_sweep_history_monotone. Qed.
Print Assumptions c09_sweep_history_monotone.

(* a run that ends at the initial cost rejected every proposal: every intermediate state was the
   initial state (a candidate is never committed in part) *)
Theorem c09_equal_cost_nothing_committed : forall D s1 s2 s,
  sumsq (snd (kmedoids D s (s1 ++ s2))) == sumsq (snd s) -> kmedoids D s s1 = s.
Proof. exact kmedoids_equal_cost_prefix_unchanged. Qed.
Print Assumptions c09_equal_cost_nothing_committed.

(* one decision touches no medoid but the one being updated *)
Theorem c09_update_touches_one_medoid : forall D s cid p t, cid <> t ->
  nth t (fst (pam_update D s cid p)) 0%nat = nth t (fst s) 0%nat.
Proof. exact pam_update_other_centre. Qed.
Print Assumptions c09_update_touches_one_medoid.

(* frames keep identity and order through a decision *)
Theorem c09_update_keeps_frames : forall D s cid p, fst s <> [] ->
  map fid (snd (pam_update D s cid p)) = map fid (snd s).
Proof. exact pam_update_fids. Qed.
Print Assumptions c09_update_keeps_frames.

(* the number of clusters along the whole history, from any state *)
Theorem c09_run_keeps_k : forall D sweeps s, length (fst (kmedoids D s sweeps)) = length (fst s).
Proof. exact kmedoids_k. Qed.
Print Assumptions c09_run_keeps_k.

(* k-hybrid returns exactly the k-centers solution, or a strictly cheaper one *)
Theorem c09_hybrid_same_or_strictly_better : forall D nclu cutoff n sweeps,
  hybrid_cold D nclu cutoff n sweeps = kcenters_cold D nclu cutoff false n \/
  sumsq (snd (hybrid_cold D nclu cutoff n sweeps)) < sumsq (snd (kcenters_cold D nclu cutoff false n)).
Proof. exact hybrid_same_or_better. Qed.
Print Assumptions c09_hybrid_same_or_strictly_better.

(* non-vacuity: on the example run the first sweep lowers the cost 10 -> 4 and the second is
   rejected whole, so the chain is 10 >= 4 >= 4 and the strict branch is the one taken *)
Example c09_history_example :
  sumsq (snd (kmedoids (Dline pos_id) (kcenters_cold (Dline pos_id) (Some 2%nat) 0 false 6) [[1; 4]]%nat)) == 4
  /\ kmedoids (Dline pos_id) (kmedoids (Dline pos_id) (kcenters_cold (Dline pos_id) (Some 2%nat) 0 false 6) [[1; 4]]%nat) [[0; 3]]%nat
     = kmedoids (Dline pos_id) (kcenters_cold (Dline pos_id) (Some 2%nat) 0 false 6) [[1; 4]]%nat.
Proof. vm_compute. split; reflexivity. Qed.
Print Assumptions c09_history_example.

(* ---- the code's own proposals: drawn from the frames currently labelled cid.  Under the
   invariant that set is never empty (random_state.choice cannot fail) and holds frame indices
   only, so sweeps driven by ANY generator (a chooser per sweep) keep the guarantees *)
Theorem c09_members_never_empty : forall D n s cid, Inv D n s -> (cid < length (fst s))%nat -> members s cid <> [].
Proof. exact members_nonempty. Qed.
Print Assumptions c09_members_never_empty.

Theorem c09_members_are_frames_with_that_label : forall (s : st) cid p, In p (members s cid) ->
  exists x, In x (snd s) /\ fid x = p /\ lab x = cid.
Proof. exact members_have_label. Qed.
Print Assumptions c09_members_are_frames_with_that_label.

Theorem c09_random_sweeps_never_worsen : forall D, (forall f, D f f == 0) -> (forall c f, c <> f -> 0 < D c f) ->
  forall n chs, Forall chooser_ok chs -> forall s, Inv D n s ->
  Inv D n (run_choose D chs s) /\ length (fst (run_choose D chs s)) = length (fst s) /\
  sumsq (snd (run_choose D chs s)) <= sumsq (snd s).
Proof. exact run_choose_inv. Qed.
Print Assumptions c09_random_sweeps_never_worsen.

(* ---- proposing a frame that already is a medoid -- the current medoid of the cluster being
   updated (the code does not exclude it: "TODO: make it impossible to choose the current center")
   or another cluster's medoid -- is rejected and leaves labels, distances and medoids untouched *)
Theorem c09_medoid_proposal_is_noop : forall D, (forall f, D f f == 0) -> (forall c f, c <> f -> 0 < D c f) ->
  forall n s cid p, Inv D n s -> (cid < length (fst s))%nat -> In p (fst s) -> pam_update D s cid p = s.
Proof. exact medoid_proposal_is_noop. Qed.
Print Assumptions c09_medoid_proposal_is_noop.

Theorem c09_current_medoid_proposal_is_noop : forall D, (forall f, D f f == 0) -> (forall c f, c <> f -> 0 < D c f) ->
  forall n s cid, Inv D n s -> (cid < length (fst s))%nat -> pam_update D s cid (ctr (fst s) cid) = s.
Proof. exact current_medoid_proposal_is_noop. Qed.
Print Assumptions c09_current_medoid_proposal_is_noop.

Theorem c09_sweep_of_medoid_proposals_is_identity : forall D, (forall f, D f f == 0) -> (forall c f, c <> f -> 0 < D c f) ->
  forall n props cid s, Inv D n s -> (cid + length props <= length (fst s))%nat ->
  Forall (fun p => In p (fst s)) props -> pam_sweep_from D cid props s = s.
Proof. exact medoid_sweep_is_noop. Qed.
Print Assumptions c09_sweep_of_medoid_proposals_is_identity.

Example c09_example :
  st_show (hybrid_cold (Dline pos_id) (Some 2%nat) 0 6 [[1; 4]; [0; 3]]%nat) = ([1; 4]%nat, [0; 0; 0; 1; 1; 1]%nat, [1; 0; 1; 1; 0; 1])
  /\ sumsq (snd (hybrid_cold (Dline pos_id) (Some 2%nat) 0 6 [[1; 4]; [0; 3]]%nat)) == 4
  /\ sumsq (snd (kcenters_cold (Dline pos_id) (Some 2%nat) 0 false 6)) == 10.
Proof. vm_compute. repeat split; reflexivity. Qed.
Print Assumptions c09_example.
