(* C09 — k-medoids refinement never worsens the cost and keeps centres in the data.
   cost = sum of squared frame-to-centre distances (the code compares means over the same n > 0). *)
From Coq Require Import List ZArith QArith.
From EV Require Import Cluster ClusterCase ClusterBase ClusterInv ClusterPam ClusterKC ClusterTop ClusterExample KcGuardBase ClusterGen ClusterSkel ClusterGenProofs.
Import ListNotations.

(* a proposal is accepted iff it strictly lowers the cost; a rejected proposal leaves the state
   (distances, labels, medoid indices) untouched as a whole *)
Theorem c09_update_accept_iff_cost_drops : forall D s cid p,
  (sumsq (snd (pam_update D s cid p)) < sumsq (snd s) /\ pam_update D s cid p <> s) \/ pam_update D s cid p = s.
Proof. exact pam_update_cost. Qed.
Print Assumptions c09_update_accept_iff_cost_drops.

Theorem c09_update_keeps_k : forall D s cid p, length (fst (pam_update D s cid p)) = length (fst s).
Proof. exact pam_update_k. Qed.
Print Assumptions c09_update_keeps_k.

(* any number of sweeps, any proposals, from any consistent state (cold start, warm start, the
   k-centers result): the cost does not increase, k is kept, the state stays consistent -- in
   particular every centre is a frame index < n (c01_invariant_meaning) *)
Theorem c09_sweeps_never_worsen : forall D, (forall f, D f f == 0) -> (forall c f, c <> f -> 0 < D c f) ->
  forall n sweeps s, Inv D n s -> sweeps_ok n (length (fst s)) sweeps ->
  Inv D n (kmedoids D s sweeps) /\ length (fst (kmedoids D s sweeps)) = length (fst s) /\
  sumsq (snd (kmedoids D s sweeps)) <= sumsq (snd s).
Proof. exact kmedoids_inv. Qed.
Print Assumptions c09_sweeps_never_worsen.

Theorem c09_one_sweep_never_worsens : forall D, (forall f, D f f == 0) -> (forall c f, c <> f -> 0 < D c f) ->
  forall n props cid s, Inv D n s -> (cid + length props <= length (fst s))%nat -> Forall (fun p => (p < n)%nat) props ->
  Inv D n (pam_sweep_from D cid props s) /\
  length (fst (pam_sweep_from D cid props s)) = length (fst s) /\
  sumsq (snd (pam_sweep_from D cid props s)) <= sumsq (snd s).
Proof. exact pam_sweep_from_inv. Qed.
Print Assumptions c09_one_sweep_never_worsens.

(* k-hybrid is never worse than the k-centers solution it starts from, with the same k *)
Theorem c09_hybrid_le_kcenters : forall D, (forall f, D f f == 0) -> (forall c f, c <> f -> 0 < D c f) ->
  forall nclu cutoff n sweeps, 0 <= cutoff -> (0 < n)%nat ->
  sweeps_ok n (length (fst (kcenters_cold D nclu cutoff false n))) sweeps ->
  sumsq (snd (hybrid_cold D nclu cutoff n sweeps)) <= sumsq (snd (kcenters_cold D nclu cutoff false n)) /\
  length (fst (hybrid_cold D nclu cutoff n sweeps)) = length (fst (kcenters_cold D nclu cutoff false n)).
Proof. exact hybrid_le_kcenters. Qed.
Print Assumptions c09_hybrid_le_kcenters.

(* a proposal that already is a medoid cannot lower any distance, hence is rejected *)
Theorem c09_medoid_proposal_no_gain : forall D cs cid p x, (cid < length cs)%nat -> In p cs -> frame_ok D cs x ->
  dist x <= dist (pam_frame D cid p (replace_nth cid p cs) x).
Proof. exact pam_frame_no_gain. Qed.
Print Assumptions c09_medoid_proposal_no_gain.

(* the accept test as regenerated from kmedoids.py: strictly lower cost, with distances, labels,
   medoid coordinates and medoid index replaced together (the translator pins those statements) *)
Theorem c09_source_accept_test_is_model : forall a b, gen_accept a b = Qlt_b a b.
Proof. exact gen_accept_is_model. Qed.
Print Assumptions c09_source_accept_test_is_model.

Theorem c09_mean_lt_iff_sum_lt : forall (a b : Q) (n : positive),
  a / inject_Z (Z.pos n) < b / inject_Z (Z.pos n) <-> a < b.
Proof. exact mean_lt_iff_sum_lt. Qed.
Print Assumptions c09_mean_lt_iff_sum_lt.

Example c09_example :
  st_show (hybrid_cold (Dline pos_id) (Some 2%nat) 0 6 [[1; 4]; [0; 3]]%nat) = ([1; 4]%nat, [0; 0; 0; 1; 1; 1]%nat, [1; 0; 1; 1; 0; 1])
  /\ sumsq (snd (hybrid_cold (Dline pos_id) (Some 2%nat) 0 6 [[1; 4]; [0; 3]]%nat)) == 4
  /\ sumsq (snd (kcenters_cold (Dline pos_id) (Some 2%nat) 0 false 6)) == 10.
Proof. vm_compute. repeat split; reflexivity. Qed.
Print Assumptions c09_example.
