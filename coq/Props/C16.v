(* C16 — MSM estimator equals its function pipeline, round-trips, has a sound spectrum.
   Property theorems only; proofs live in Proof/MsmProofs.v (configuration dataflow, inherited
   clauses), Proof/MsmSpectrum.v (eigenspectrum post-processing, propagation) and
   Proof/MsmReal.v (implied timescales over R).  Gen/MsmCfgGen.v (init, fit, config, load_init,
   imp_pipeline) is regenerated from enspara/msm/msm.py and enspara/msm/timescales.py on every run.
   Partial: the eigen-solver (its output is a hypothesis of the spectral theorems) and the file
   formats of save/load (checked by execution only) are trusted. *)
From Coq Require Import List ZArith QArith Bool Permutation Sorted Reals.
From EV Require Import MsmBase MsmCfgGen Msm MsmProofs MsmSpectrum MsmReal.
From EV Require Counts Trim Builders.
Import ListNotations.
Open Scope Q_scope.

(* ===== the estimator and its configuration =====

   "with the same lag time, sliding-window setting, state count and trimming choice": every
   constructor argument is the value of the attribute of the same name (defect D11: on the
   unrepaired tree the generated init has a_sliding_window := true and this is not provable). *)
Theorem c16_init_keeps_args : forall lag m trim sl maxn,
  let s := init lag m trim sl maxn in
  a_lag_time s = lag /\ a_method s = resolve_method m /\ a_trim s = trim /\
  a_sliding_window s = sl /\ a_max_n_states s = maxn.
Proof. exact init_keeps_args. Qed.
Print Assumptions c16_init_keeps_args.

(* a builder given by name is the builder function of that name *)
Theorem c16_method_by_name_or_function : forall lag n trim sl maxn,
  init lag (ByName n) trim sl maxn = init lag (ByCallable (builders_getattr n)) trim sl maxn.
Proof. exact method_by_name_or_function. Qed.
Print Assumptions c16_method_by_name_or_function.

(* each attribute reaches the call of fit that consumes it *)
Theorem c16_fit_uses_cfg : forall X self a,
  msm_fit X self a =
  pipeline X (a_lag_time self) (a_sliding_window self) (a_max_n_states self) (a_trim self) (a_method self) a.
Proof. exact fit_uses_cfg. Qed.
Print Assumptions c16_fit_uses_cfg.

(* "Fitting the MSM estimator yields the same counts, transition probabilities, populations and
   state mapping as composing the counting, trimming and builder functions" -- for all
   assignments, lag times, builders, trimming on/off, sliding window on/off, state counts;
   errors included (both sides None together) *)
Theorem c16_fit_eq_pipeline : forall X lag m trim sl maxn a,
  msm_estimator X lag m trim sl maxn a = pipeline X lag sl maxn trim (resolve_method m) a.
Proof. exact fit_eq_pipeline. Qed.
Print Assumptions c16_fit_eq_pipeline.

(* state mapping, trimming off: identity on the states of the count matrix (C11) *)
Theorem c16_mapping_identity_when_untrimmed : forall X lag sl maxn b a r res,
  pipeline X lag sl maxn false b a = Some (r, res) ->
  exists C, counts_fn a lag maxn sl = Some C /\
    Trim.tr_keep r = seq 0 (length C) /\
    Trim.tr_to_original r = combine (seq 0 (length C)) (seq 0 (length C)) /\
    Trim.tr_to_mapped r = combine (seq 0 (length C)) (seq 0 (length C)) /\
    call_builder X b C = Some res.
Proof. exact mapping_identity_when_untrimmed. Qed.
Print Assumptions c16_mapping_identity_when_untrimmed.

(* trimming on: mapping and counts are exactly trim_disconnected's (threshold 1, renumbering),
   whose properties are the theorems of C11 *)
Theorem c16_trimmed_fit_is_trim_disconnected : forall X lag sl maxn b a,
  pipeline X lag sl maxn true b a =
  match counts_fn a lag maxn sl with
  | None => None
  | Some C =>
      match Trim.trim_disconnected 1 C true coo with
      | None => None
      | Some r => option_map (fun res => (r, res)) (call_builder X b (Trim.tr_counts r))
      end
  end.
Proof. exact trimmed_fit_is_trim_disconnected. Qed.
Print Assumptions c16_trimmed_fit_is_trim_disconnected.

(* the counts the builder receives are the lagged pair counts of C03 for the estimator's own
   lag / window / state count *)
Theorem c16_fit_counts_entry : forall a lag maxn sl C (i j : nat),
  counts_fn a lag maxn sl = Some C ->
  (i < Z.to_nat (Counts.n_states maxn a))%nat -> (j < Z.to_nat (Counts.n_states maxn a))%nat ->
  (1 <= lag)%Z /\
  Trim.entry C i j = Z.of_nat (Counts.count_pair (Counts.all_pairs sl lag a) (Z.of_nat i) (Z.of_nat j)).
Proof. exact fit_counts_entry. Qed.
Print Assumptions c16_fit_counts_entry.

Theorem c16_fit_rejects_bad_lag : forall X lag m trim sl maxn a,
  (lag < 1)%Z -> msm_estimator X lag m trim sl maxn a = None.
Proof. exact fit_rejects_bad_lag. Qed.
Print Assumptions c16_fit_rejects_bad_lag.

(* ===== save / load =====
   "saving then loading it gives an equal model", configuration part: the config dict written by
   save, fed to the constructor by load, rebuilds the same attributes (on the tree before commit
   67421b8 config had no max_n_states key and this is not provable).  The numeric files are
   trusted formats, checked by execution. *)
Theorem c16_config_roundtrip : forall lag m trim sl maxn,
  load_init (config (init lag m trim sl maxn)) = Some (init lag m trim sl maxn).
Proof. exact config_roundtrip. Qed.
Print Assumptions c16_config_roundtrip.

Theorem c16_loaded_estimator_refits_identically : forall X lag m trim sl maxn a s',
  load_init (config (init lag m trim sl maxn)) = Some s' ->
  msm_fit X s' a = msm_estimator X lag m trim sl maxn a.
Proof. exact loaded_estimator_refits_identically. Qed.
Print Assumptions c16_loaded_estimator_refits_identically.

(* ===== spectrum =====
   "returns real eigenvalues in descending order": the returned values are the real parts of the
   solver's spectrum, sorted descending, cut to n_eigs *)
Theorem c16_eig_post_sorted : forall ne vals vecs ev V,
  eig_post ne vals vecs = Some (ev, V) ->
  StronglySorted desc ev /\
  exists full, Permutation full (map re vals) /\ StronglySorted desc full /\
               ev = firstn (n_take ne vals) full.
Proof. exact eig_post_sorted. Qed.
Print Assumptions c16_eig_post_sorted.

(* "with leading value one" *)
Theorem c16_eig_post_leading_one : forall ne vals vecs ev V,
  eig_post ne vals vecs = Some (ev, V) ->
  (exists z, In z vals /\ re z == 1) -> (forall z, In z vals -> re z <= 1) ->
  exists ev', ev = hd 0 ev :: ev' /\ hd 0 ev == 1.
Proof. exact eig_post_leading_one. Qed.
Print Assumptions c16_eig_post_leading_one.

(* normalisation of the first vector *)
Theorem c16_eig_post_first_sums_to_one : forall ne vals vecs ev V,
  eig_post ne vals vecs = Some (ev, V) -> exists v0 V', V = v0 :: V' /\ Builders.qsum v0 == 1.
Proof. exact eig_post_first_sums_to_one. Qed.
Print Assumptions c16_eig_post_first_sums_to_one.

(* "whose left eigenvector is the stationary distribution" -- conditional on the (trusted)
   solver returning left eigenpairs and on the spectrum of a stochastic matrix *)
Theorem c16_eig_post_stationary : forall T ne vals vecs ev V,
  eig_post ne vals vecs = Some (ev, V) ->
  (forall k, (k < length vals)%nat -> left_eig T (nth k vals c0) (nth k vecs [])) ->
  (exists z, In z vals /\ re z == 1) ->
  (forall z, In z vals -> re z <= 1) ->
  (forall z, In z vals -> re z == 1 -> im z == 0) ->
  exists pi V' ev',
    V = pi :: V' /\ ev = hd 0 ev :: ev' /\ hd 0 ev == 1 /\
    length pi = length T /\ Builders.qsum pi == 1 /\
    forall j, (j < length T)%nat -> Builders.vecmat pi T j == nth j pi 0.
Proof. exact eig_post_stationary. Qed.
Print Assumptions c16_eig_post_stationary.

Theorem c16_eig_post_rejects_small_n_eigs : forall k vals vecs,
  (k < 2)%Z -> eig_post (Some k) vals vecs = None.
Proof. exact eig_post_rejects_small_n_eigs. Qed.
Print Assumptions c16_eig_post_rejects_small_n_eigs.

(* ===== implied timescales =====
   the matrix whose spectrum is taken is the function pipeline's for that lag time *)
Theorem c16_imp_uses_pipeline : forall X b a lag ns sl trim,
  imp_tprobs X b a lag ns sl trim =
  option_map (fun r : fit_result => snd (fst (snd r))) (pipeline X lag sl (Some ns) trim b a).
Proof. exact imp_uses_pipeline. Qed.
Print Assumptions c16_imp_uses_pipeline.

(* "implied timescales equal minus the lag time over the log of the corresponding eigenvalue"
   (the stationary eigenvalue dropped); over R: uses the standard library's real-number axioms *)
Theorem c16_imp_times_nth : forall lag ev k, (S k < length ev)%nat ->
  nth k (imp_times lag ev) 0%R = (- lag / ln (nth (S k) ev 1))%R.
Proof. exact imp_times_nth. Qed.
Print Assumptions c16_imp_times_nth.

(* sign lemma: decaying modes have positive timescales *)
Theorem c16_imp_time_positive : forall lag lam, (0 < lag)%R -> (0 < lam < 1)%R -> (0 < imp_time lag lam)%R.
Proof. exact imp_time_positive. Qed.
Print Assumptions c16_imp_time_positive.

(* descending eigenvalues give descending timescales *)
Theorem c16_imp_time_monotone : forall lag l1 l2, (0 < lag)%R -> (0 < l1)%R -> (l1 < l2)%R -> (l2 < 1)%R ->
  (imp_time lag l1 < imp_time lag l2)%R.
Proof. exact imp_time_monotone. Qed.
Print Assumptions c16_imp_time_monotone.

Theorem c16_imp_time_inverts_decay : forall lag lam, (0 < lam < 1)%R ->
  exp (- lag / imp_time lag lam) = lam \/ lag = 0%R.
Proof. exact imp_time_inverts_decay. Qed.
Print Assumptions c16_imp_time_inverts_decay.

(* ===== propagation =====
   "propagating an ensemble n steps equals n multiplications by the transition matrix" *)
Theorem c16_propagate_power : forall T p n j,
  length p = length T -> (j < length T)%nat ->
  nth j (iterate T p n) 0 == Builders.vecmat p (mpow T n) j.
Proof. exact propagate_power. Qed.
Print Assumptions c16_propagate_power.

(* synthetic_ensemble(T, p0, n_steps): n_steps - 1 steps; row k of the output is p0 . T^k *)
Theorem c16_ensemble_is_power : forall T p0 n_steps p obs,
  ensemble T p0 n_steps = Some (p, obs) -> sq_ok T p0 = true ->
  let n := n_iter n_steps in
  length obs = S n /\
  (forall j, (j < length T)%nat -> nth j p 0 == Builders.vecmat p0 (mpow T n) j) /\
  (forall k j, (k <= n)%nat -> (j < length T)%nat ->
     nth j (nth k obs []) 0 == Builders.vecmat p0 (mpow T k) j).
Proof. exact ensemble_is_power. Qed.
Print Assumptions c16_ensemble_is_power.

Theorem c16_ensemble_steps : forall n_steps, (1 <= n_steps)%Z -> Z.of_nat (n_iter n_steps) = (n_steps - 1)%Z.
Proof. exact ensemble_steps. Qed.
Print Assumptions c16_ensemble_steps.

Theorem c16_ensemble_obs_is_dot : forall T p0 n_steps ob p series,
  ensemble_obs T p0 n_steps ob = Some (p, series) ->
  p = iterate T p0 (n_iter n_steps) /\
  length series = S (n_iter n_steps) /\
  forall k, (k <= n_iter n_steps)%nat -> nth k series 0 = dot (iterate T p0 k) ob.
Proof. exact ensemble_obs_is_dot. Qed.
Print Assumptions c16_ensemble_obs_is_dot.

Theorem c16_ensemble_rejects_misshaped : forall T p0 n_steps,
  sq_ok T p0 = false -> (2 <= n_steps)%Z -> ensemble T p0 n_steps = None.
Proof. exact ensemble_rejects_misshaped. Qed.
Print Assumptions c16_ensemble_rejects_misshaped.

(* a row-stochastic matrix conserves the ensemble's total probability *)
Theorem c16_step_conserves_total : forall T p,
  Builders.is_square T = true -> length p = length T ->
  (forall i, (i < length T)%nat -> Builders.qsum (Builders.row T i) == 1) ->
  Builders.qsum (step T p) == Builders.qsum p.
Proof. exact step_conserves_total. Qed.
Print Assumptions c16_step_conserves_total.

(* ===== non-vacuity ===== *)
(* a trimmed, strided fit (states 1,3 kept and renumbered 0,1), and a rejected lag time *)
Example c16_example_fit :
  option_map (fun r : fit_result => (Trim.tr_keep (fst r), Builders.result_red (Some (snd r))))
    (msm_estimator [] 2 (ByName Normalize) true false None [[0; 1; 1; 0; 1; 3; 3; 0; 1; 0]; [2; 2; 2]]%Z)
  = Some ([1; 3]%nat, Some ([[1; 1]; [1; 0]], [[1 # 2; 1 # 2]; [1; 0]], Some [2 # 3; 1 # 3]))
  /\ msm_estimator [] 0 (ByName Normalize) true false None [[0; 1]]%Z = None.
Proof. vm_compute. split; reflexivity. Qed.
Print Assumptions c16_example_fit.

(* the hypotheses of c16_eig_post_stationary hold for the 4-cycle (eigenvalues i, -1, 1, -i) *)
Example c16_example_spectrum_hypotheses :
  (forall k, (k < length cycle4_vals)%nat -> left_eig cycle4 (nth k cycle4_vals c0) (nth k cycle4_vecs [])) /\
  ((exists z, In z cycle4_vals /\ re z == 1) /\ (forall z, In z cycle4_vals -> re z <= 1) /\
   (forall z, In z cycle4_vals -> re z == 1 -> im z == 0)).
Proof. exact (conj cycle4_pairs cycle4_spectrum_facts). Qed.
Print Assumptions c16_example_spectrum_hypotheses.

Example c16_example_spectrum :
  option_map (fun r => (map Qred (fst r), Builders.mat_red (snd r))) (eig_post None cycle4_vals cycle4_vecs)
  = Some ([1; 0; 0; -1], [[1 # 4; 1 # 4; 1 # 4; 1 # 4]; [1; 0; -1; 0]; [1; 0; -1; 0]; [2; -2; 2; -2]]).
Proof. vm_compute. reflexivity. Qed.
Print Assumptions c16_example_spectrum.

Example c16_example_ensemble :
  ensemble [[1 # 2; 1 # 2]; [1 # 4; 3 # 4]] [1; 0] 3 =
    Some ([3 # 8; 5 # 8], [[1; 0]; [1 # 2; 1 # 2]; [3 # 8; 5 # 8]])
  /\ map (map Qred) (mpow [[1 # 2; 1 # 2]; [1 # 4; 3 # 4]] 2) = [[3 # 8; 5 # 8]; [5 # 16; 11 # 16]].
Proof. vm_compute. split; reflexivity. Qed.
Print Assumptions c16_example_ensemble.
