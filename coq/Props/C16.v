(* C16 — MSM estimator equals its function pipeline, round-trips, has a sound spectrum.
   Property theorems only; proofs live in Proof/MsmProofs.v (configuration dataflow, inherited
   clauses), Proof/MsmSpectrum.v (eigenspectrum post-processing, propagation) and
   Proof/MsmReal.v (implied timescales over R).  Gen/MsmCfgGen.v (init, fit, config, load_init,
   imp_pipeline) is regenerated from enspara/msm/msm.py and enspara/msm/timescales.py on every run.
   Partial: the eigen-solver (its output is a hypothesis of the spectral theorems) and the file
   formats of save/load (checked by execution only) are trusted. *)
From Coq Require Import List ZArith QArith Bool Permutation Sorted Reals.
From EV Require Import MsmBase MsmCfgGen Msm MsmProofs MsmSpectrum MsmReal.
From EV Require Counts Trim Builders.
Import ListNotations.
Open Scope Q_scope.

(* ===== the estimator and its configuration =====

   "with the same lag time, sliding-window setting, state count and trimming choice": every
   constructor argument is the value of the attribute of the same name (defect D11: on the
   unrepaired tree the generated init has a_sliding_window := true and this is not provable). *)
Theorem c16_init_keeps_args : forall lag m trim sl maxn,
  let s := init lag m trim sl maxn in
  a_lag_time s = lag /\ a_method s = resolve_method m /\ a_trim s = trim /\
  a_sliding_window s = sl /\ a_max_n_states s = maxn.
Proof. exact init_keeps_args. Qed.
Print Assumptions c16_init_keeps_args.

(* a builder given by name is the builder function of that name *)
Theorem c16_method_by_name_or_function : forall lag n trim sl maxn,
  init lag (ByName n) trim sl maxn = init lag (ByCallable (builders_getattr n)) trim sl maxn.
Proof. exact method_by_name_or_function. Qed.
Print Assumptions c16_method_by_name_or_function.

(* each attribute reaches the call of fit that consumes it *)
Theorem c16_fit_uses_cfg : forall X self a,
  msm_fit X self a =
  pipeline X (a_lag_time self) (a_sliding_window self) (a_max_n_states self) (a_trim self) (a_method self) a.
Proof. exact fit_uses_cfg. Qed.
Print Assumptions c16_fit_uses_cfg.

(* "Fitting the MSM estimator yields the same counts, transition probabilities, populations and
   state mapping as composing the counting, trimming and builder functions" -- for all
   assignments, lag times, builders, trimming on/off, sliding window on/off, state counts;
   errors included (both sides None together) *)
Theorem c16_fit_eq_pipeline : forall X lag m trim sl maxn a,
  msm_estimator X lag m trim sl maxn a = pipeline X lag sl maxn trim (resolve_method m) a.
Proof. exact fit_eq_pipeline. Qed.
Print Assumptions c16_fit_eq_pipeline.

(* state mapping, trimming off: identity on the states of the count matrix (C11) *)
Theorem c16_mapping_identity_when_untrimmed : forall X lag sl maxn b a r res,
  pipeline X lag sl maxn false b a = Some (r, res) ->
  exists C, counts_fn a lag maxn sl = Some C /\
    Trim.tr_keep r = seq 0 (length C) /\
    Trim.tr_to_original r = combine (seq 0 (length C)) (seq 0 (length C)) /\
    Trim.tr_to_mapped r = combine (seq 0 (length C)) (seq 0 (length C)) /\
    call_builder X b C = Some res.
Proof. exact mapping_identity_when_untrimmed. Qed.
Print Assumptions c16_mapping_identity_when_untrimmed.

(* trimming on: mapping and counts are exactly trim_disconnected's (threshold 1, renumbering),
   whose properties are the theorems of C11 *)
Theorem c16_trimmed_fit_is_trim_disconnected : forall X lag sl maxn b a,
  pipeline X lag sl maxn true b a =
  match counts_fn a lag maxn sl with
  | None => None
  | Some C =>
      match Trim.trim_disconnected 1 C true coo with
      | None => None
      | Some r => option_map (fun res => (r, res)) (call_builder X b (Trim.tr_counts r))
      end
  end.
Proof. exact trimmed_fit_is_trim_disconnected. Qed.
Print Assumptions c16_trimmed_fit_is_trim_disconnected.

(* the counts the builder receives are the lagged pair counts of C03 for the estimator's own
   lag / window / state count *)
Theorem c16_fit_counts_entry : forall a lag maxn sl C (i j : nat),
  counts_fn a lag maxn sl = Some C ->
  (i < Z.to_nat (Counts.n_states maxn a))%nat -> (j < Z.to_nat (Counts.n_states maxn a))%nat ->
  (1 <= lag)%Z /\
  Trim.entry C i j = Z.of_nat (Counts.count_pair (Counts.all_pairs sl lag a) (Z.of_nat i) (Z.of_nat j)).
Proof. exact fit_counts_entry. Qed.
Print Assumptions c16_fit_counts_entry.

Theorem c16_fit_rejects_bad_lag : forall X lag m trim sl maxn a,
  (lag < 1)%Z -> msm_estimator X lag m trim sl maxn a = None.
Proof. exact fit_rejects_bad_lag. Qed.
Print Assumptions c16_fit_rejects_bad_lag.

(* ===== save / load =====
   "saving then loading it gives an equal model", configuration part: the config dict written by
   save, fed to the constructor by load, rebuilds the same attributes (on the tree before commit
   67421b8 config had no max_n_states key and this is not provable).  The numeric files are
   trusted formats, checked by execution. *)
Theorem c16_config_roundtrip : forall lag m trim sl maxn,
  load_init (config (init lag m trim sl maxn)) = Some (init lag m trim sl maxn).
Proof. exact config_roundtrip. Qed.
Print Assumptions c16_config_roundtrip.

Theorem c16_loaded_estimator_refits_identically : forall X lag m trim sl maxn a s',
  load_init (config (init lag m trim sl maxn)) = Some s' ->
  msm_fit X s' a = msm_estimator X lag m trim sl maxn a.
Proof. exact loaded_estimator_refits_identically. Qed.
Print Assumptions c16_loaded_estimator_refits_identically.

(* ===== spectrum =====
   "returns real eigenvalues in descending order": the returned values are the real parts of the
   solver's spectrum, sorted descending, cut to n_eigs *)
Theorem c16_eig_post_sorted : forall ne vals vecs ev V,
  eig_post ne vals vecs = Some (ev, V) ->
  StronglySorted desc ev /\
  exists full, Permutation full (map re vals) /\ StronglySorted desc full /\
               ev = firstn (n_take ne vals) full.
Proof. exact eig_post_sorted. Qed.
Print Assumptions c16_eig_post_sorted.

(* "with leading value one" *)
Theorem c16_eig_post_leading_one : forall ne vals vecs ev V,
  eig_post ne vals vecs = Some (ev, V) ->
  (exists z, In z vals /\ re z == 1) -> (forall z, In z vals -> re z <= 1) ->
  exists ev', ev = hd 0 ev :: ev' /\ hd 0 ev == 1.
Proof. exact eig_post_leading_one. Qed.
Print Assumptions c16_eig_post_leading_one.

(* normalisation of the first vector *)
Theorem c16_eig_post_first_sums_to_one : forall ne vals vecs ev V,
  eig_post ne vals vecs = Some (ev, V) -> exists v0 V', V = v0 :: V' /\ Builders.qsum v0 == 1.
Proof. exact eig_post_first_sums_to_one. Qed.
Print Assumptions c16_eig_post_first_sums_to_one.

(* "whose left eigenvector is the stationary distribution" -- conditional on the (trusted)
   solver returning left eigenpairs and on the spectrum of a stochastic matrix *)
Theorem c16_eig_post_stationary : forall T ne vals vecs ev V,
  eig_post ne vals vecs = Some (ev, V) ->
  (forall k, (k < length vals)%nat -> left_eig T (nth k vals c0) (nth k vecs [])) ->
  (exists z, In z vals /\ re z == 1) ->
  (forall z, In z vals -> re z <= 1) ->
  (forall z, In z vals -> re z == 1 -> im z == 0) ->
  exists pi V' ev',
    V = pi :: V' /\ ev = hd 0 ev :: ev' /\ hd 0 ev == 1 /\
    length pi = length T /\ Builders.qsum pi == 1 /\
    forall j, (j < length T)%nat -> Builders.vecmat pi T j == nth j pi 0.
Proof. exact eig_post_stationary. Qed.
Print Assumptions c16_eig_post_stationary.

Theorem c16_eig_post_rejects_small_n_eigs : forall k vals vecs,
  (k < 2)%Z -> eig_post (Some k) vals vecs = None.
Proof. exact eig_post_rejects_small_n_eigs. Qed.
Print Assumptions c16_eig_post_rejects_small_n_eigs.

(* ===== implied timescales =====
   the matrix whose spectrum is taken is the function pipeline's for that lag time *)
Theorem c16_imp_uses_pipeline : forall X b a lag ns sl trim,
  imp_tprobs X b a lag ns sl trim =
  option_map (fun r : fit_result => snd (fst (snd r))) (pipeline X lag sl (Some ns) trim b a).
Proof. exact imp_uses_pipeline. Qed.
Print Assumptions c16_imp_uses_pipeline.

(* "implied timescales equal minus the lag time over the log of the corresponding eigenvalue"
   (the stationary eigenvalue dropped); over R: uses the standard library's real-number axioms *)
Theorem c16_imp_times_nth : forall lag ev k, (S k < length ev)%nat ->
  nth k (imp_times lag ev) 0%R = (- lag / ln (nth (S k) ev 1))%R.
Proof. exact imp_times_nth. Qed.
Print Assumptions c16_imp_times_nth.

(* sign lemma: decaying modes have positive timescales *)
Theorem c16_imp_time_positive : forall lag lam, (0 < lag)%R -> (0 < lam < 1)%R -> (0 < imp_time lag lam)%R.
Proof. exact imp_time_positive. Qed.
Print Assumptions c16_imp_time_positive.

(* descending eigenvalues give descending timescales *)
Theorem c16_imp_time_monotone : forall lag l1 l2, (0 < lag)%R -> (0 < l1)%R -> (l1 < l2)%R -> (l2 < 1)%R ->
  (imp_time lag l1 < imp_time lag l2)%R.
Proof. exact imp_time_monotone. Qed.
Print Assumptions c16_imp_time_monotone.

Theorem c16_imp_time_inverts_decay : forall lag lam, (0 < lam < 1)%R ->
  exp (- lag / imp_time lag lam) = lam \/ lag = 0%R.
Proof. exact imp_time_inverts_decay. Qed.
Print Assumptions c16_imp_time_inverts_decay.

(* ===== propagation =====
   "propagating an ensemble n steps equals n multiplications by the transition matrix" *)
Theorem c16_propagate_power : forall T p n j,
  length p = length T -> (j < length T)%nat ->
  nth j (iterate T p n) 0 == Builders.vecmat p (mpow T n) j.
Proof. exact propagate_power. Qed.
Print Assumptions c16_propagate_power.

(* synthetic_ensemble(T, p0, n_steps): n_steps - 1 steps; row k of the output is p0 . T^k *)
Theorem c16_ensemble_is_power : forall T p0 n_steps p obs,
  ensemble T p0 n_steps = Some (p, obs) -> sq_ok T p0 = true ->
  let n := n_iter n_steps in
  length obs = S n /\
  (forall j, (j < length T)%nat -> nth j p 0 == Builders.vecmat p0 (mpow T n) j) /\
  (forall k j, (k <= n)%nat -> (j < length T)%nat ->
     nth j (nth k obs []) 0 == Builders.vecmat p0 (mpow T k) j).
Proof. exact ensemble_is_power. Qed.
Print Assumptions c16_ensemble_is_power.

Theorem c16_ensemble_steps : forall n_steps, (1 <= n_steps)%Z -> Z.of_nat (n_iter n_steps) = (n_steps - 1)%Z.
Proof. exact ensemble_steps. Qed.
Print Assumptions c16_ensemble_steps.

Theorem c16_ensemble_obs_is_dot : forall T p0 n_steps ob p series,
  ensemble_obs T p0 n_steps ob = Some (p, series) ->
  p = iterate T p0 (n_iter n_steps) /\
  length series = S (n_iter n_steps) /\
  forall k, (k <= n_iter n_steps)%nat -> nth k series 0 = dot (iterate T p0 k) ob.
Proof. exact ensemble_obs_is_dot. Qed.
Print Assumptions c16_ensemble_obs_is_dot.

Theorem c16_ensemble_rejects_misshaped : forall T p0 n_steps,
  sq_ok T p0 = false -> (2 <= n_steps)%Z -> ensemble T p0 n_steps = None.
Proof. exact ensemble_rejects_misshaped. Qed.
Print Assumptions c16_ensemble_rejects_misshaped.

(* a row-stochastic matrix conserves the ensemble's total probability *)
Theorem c16_step_conserves_total : forall T p,
  Builders.is_square T = true -> length p = length T ->
  (forall i, (i < length T)%nat -> Builders.qsum (Builders.row T i) == 1) ->
  Builders.qsum (step T p) == Builders.qsum p.
Proof. exact step_conserves_total. Qed.
Print Assumptions c16_step_conserves_total.

(* ===== non-vacuity ===== *)
(* a trimmed, strided fit (states 1,3 kept and renumbered 0,1), and a rejected lag time *)
Example c16_example_fit :
  option_map (fun r : fit_result => (Trim.tr_keep (fst r), Builders.result_red (Some (snd r))))
    (msm_estimator [] 2 (ByName Normalize) true false None [[0; 1; 1; 0; 1; 3; 3; 0; 1; 0]; [2; 2; 2]]%Z)
  = Some ([1; 3]%nat, Some ([[1; 1]; [1; 0]], [[1 # 2; 1 # 2]; [1; 0]], Some [2 # 3; 1 # 3]))
  /\ msm_estimator [] 0 (ByName Normalize) true false None [[0; 1]]%Z = None.
Proof. vm_compute. split; reflexivity. Qed.
Print Assumptions c16_example_fit.

(* the hypotheses of c16_eig_post_stationary hold for the 4-cycle (eigenvalues i, -1, 1, -i) *)
Example c16_example_spectrum_hypotheses :
  (forall k, (k < length cycle4_vals)%nat -> left_eig cycle4 (nth k cycle4_vals c0) (nth k cycle4_vecs [])) /\
  ((exists z, In z cycle4_vals /\ re z == 1) /\ (forall z, In z cycle4_vals -> re z <= 1) /\
   (forall z, In z cycle4_vals -> re z == 1 -> im z == 0)).
Proof. exact (conj cycle4_pairs cycle4_spectrum_facts). Qed.
Print Assumptions c16_example_spectrum_hypotheses.

Example c16_example_spectrum :
  option_map (fun r => (map Qred (fst r), Builders.mat_red (snd r))) (eig_post None cycle4_vals cycle4_vecs)
  = Some ([1; 0; 0; -1], [[1 # 4; 1 # 4; 1 # 4; 1 # 4]; [1; 0; -1; 0]; [1; 0; -1; 0]; [2; -2; 2; -2]]).
Proof. vm_compute. reflexivity. Qed.
Print Assumptions c16_example_spectrum.

Example c16_example_ensemble :
  ensemble [[1 # 2; 1 # 2]; [1 # 4; 3 # 4]] [1; 0] 3 =
    Some ([3 # 8; 5 # 8], [[1; 0]; [1 # 2; 1 # 2]; [3 # 8; 5 # 8]])
  /\ map (map Qred) (mpow [[1 # 2; 1 # 2]; [1 # 4; 3 # 4]] 2) = [[3 # 8; 5 # 8]; [5 # 16; 11 # 16]].
Proof. vm_compute. split; reflexivity. Qed.
Print Assumptions c16_example_ensemble.

(* ===================================================================================================
   Round 3: the parts of the model that were tied to the source by correspondence only are now
   regenerated from /repo (translator/tr_spectrum.py -> Gen/MsmSpecGen.v, Gen/MsmAuxGen.v) and proved
   equal to the model, so the theorems above apply to what the source says now.
   =================================================================================================== *)
From EV Require Import MsmSpecBase MsmSpecGen MsmSpecGenProofs.
From EV Require Import MsmAuxBase MsmAuxGen MsmIO MsmAuxGenProofs.

(* ===== spectrum: eigenspectrum as written =====
   order = np.argsort(-np.real(vals)) is the model's descending order (ties keep solver order) *)
Theorem c16_gen_argsort_is_descending_order : forall vals,
  np_argsort (np_neg (np_real vals)) = order vals.
Proof. exact argsort_neg_real_is_order. Qed.
Print Assumptions c16_gen_argsort_is_descending_order.

(* the post-processing statements of eigenspectrum (reorder values and columns, vecs[:, 0] /=
   vecs[:, 0].sum(), slice to n_eigs, real parts) = eig_post, for every n_eigs that passes the guard *)
Theorem c16_gen_post_is_model : forall k vals vecs, (2 <= k)%Z ->
  gen_post k vals vecs = eig_post (Some k) vals vecs.
Proof. exact gen_post_model. Qed.
Print Assumptions c16_gen_post_is_model.

(* the whole function: n_eigs guard (None -> T.shape[0]; < 2 -> ValueError), the solver call, the
   post-processing; `run` is the trusted eigen-solver and (vals, vecs) its answer to the call the
   source makes *)
Theorem c16_gen_eigenspectrum_is_model : forall Mx (ops : mx_ops Mx) run T ne left maxiter tol vals vecs,
  (forall k, gen_n_eigs ops T ne = Some k -> run (gen_solver ops T k left maxiter tol) = (vals, vecs)) ->
  (ne = None -> (Z.of_nat (length vals) <= mx_shape0 ops T)%Z) ->
  gen_eigenspectrum ops run T ne left maxiter tol = eig_post ne vals vecs.
Proof. exact gen_eigenspectrum_model. Qed.
Print Assumptions c16_gen_eigenspectrum_is_model.

(* "real eigenvalues in descending order", for the generated function *)
Theorem c16_gen_eigenspectrum_sorted : forall Mx (ops : mx_ops Mx) run T ne left maxiter tol vals vecs,
  (forall k, gen_n_eigs ops T ne = Some k -> run (gen_solver ops T k left maxiter tol) = (vals, vecs)) ->
  (ne = None -> (Z.of_nat (length vals) <= mx_shape0 ops T)%Z) ->
  forall ev V, gen_eigenspectrum ops run T ne left maxiter tol = Some (ev, V) ->
  StronglySorted desc ev /\
  exists full, Permutation full (map re vals) /\ StronglySorted desc full /\ ev = firstn (n_take ne vals) full.
Proof. exact gen_eigenspectrum_sorted. Qed.
Print Assumptions c16_gen_eigenspectrum_sorted.

(* the first returned vector sums to one, for the generated function *)
Theorem c16_gen_eigenspectrum_first_sums_to_one : forall Mx (ops : mx_ops Mx) run T ne left maxiter tol vals vecs,
  (forall k, gen_n_eigs ops T ne = Some k -> run (gen_solver ops T k left maxiter tol) = (vals, vecs)) ->
  (ne = None -> (Z.of_nat (length vals) <= mx_shape0 ops T)%Z) ->
  forall ev V, gen_eigenspectrum ops run T ne left maxiter tol = Some (ev, V) ->
  exists v0 V', V = v0 :: V' /\ Builders.qsum v0 == 1.
Proof. exact gen_eigenspectrum_first_sums_to_one. Qed.
Print Assumptions c16_gen_eigenspectrum_first_sums_to_one.

(* "leading value one whose left eigenvector is the stationary distribution", for the generated
   function (conditional on the solver returning left eigenpairs of a stochastic matrix) *)
Theorem c16_gen_eigenspectrum_stationary : forall Mx (ops : mx_ops Mx) run T ne left maxiter tol vals vecs,
  (forall k, gen_n_eigs ops T ne = Some k -> run (gen_solver ops T k left maxiter tol) = (vals, vecs)) ->
  (ne = None -> (Z.of_nat (length vals) <= mx_shape0 ops T)%Z) ->
  forall Tm ev V, gen_eigenspectrum ops run T ne left maxiter tol = Some (ev, V) ->
  (forall k, (k < length vals)%nat -> left_eig Tm (nth k vals c0) (nth k vecs [])) ->
  (exists z, In z vals /\ re z == 1) ->
  (forall z, In z vals -> re z <= 1) ->
  (forall z, In z vals -> re z == 1 -> im z == 0) ->
  exists pi V' ev',
    V = pi :: V' /\ ev = hd 0 ev :: ev' /\ hd 0 ev == 1 /\
    length pi = length Tm /\ Builders.qsum pi == 1 /\
    forall j, (j < length Tm)%nat -> Builders.vecmat pi Tm j == nth j pi 0.
Proof. exact gen_eigenspectrum_stationary. Qed.
Print Assumptions c16_gen_eigenspectrum_stationary.

Theorem c16_gen_n_eigs_rejects_small : forall Mx (ops : mx_ops Mx) T k, (k < 2)%Z -> gen_n_eigs ops T (Some k) = None.
Proof. exact gen_n_eigs_rejects. Qed.
Print Assumptions c16_gen_n_eigs_rejects_small.

(* which solver: the transpose for left eigenvectors; LAPACK on the densified matrix unless the input
   is sparse with >= 1000 rows, then ARPACK (largest real part, caller's maxiter / tol, seeded v0) *)
Theorem c16_gen_solver_decision : forall Mx (ops : mx_ops Mx) (T : Mx) k (left : bool) maxiter tol,
  (forall M, mx_issparse ops (mx_toarray ops M) = false) ->
  let T' := if left then mx_T ops T else T in
  gen_solver ops T k left maxiter tol =
  if uses_arpack (mx_shape0 ops T') (mx_issparse ops T')
  then CallEigs (mx_tocsr ops T') k LR maxiter tol (V0SeededUniform 0 (mx_shape0 ops T'))
  else CallEig (if mx_issparse ops T' then mx_toarray ops T' else T').
Proof. exact gen_solver_decision. Qed.
Print Assumptions c16_gen_solver_decision.

(* ===== implied timescales: calc_imp_times / implied_timescales as written =====
   the eigenspectrum call: n_eigs = n_times + 1, left eigenvectors, default maxiter / tol *)
Theorem c16_gen_imp_eig_call : forall Mx V (eig : Mx -> option Z -> bool -> Z -> Q -> V) T n_times,
  gen_imp_eig_call eig T n_times = eig T (Some (imp_n_eigs n_times)) true eig_default_maxiter eig_default_tol.
Proof. exact gen_imp_eig_call_model. Qed.
Print Assumptions c16_gen_imp_eig_call.

(* the formula statement `-lag_time / np.log(e_vals[1:])` is MsmReal.imp_times (over R) *)
Theorem c16_gen_imp_formula_is_model : forall (lag : Z) (e_vals : list R),
  gen_imp_formula lag e_vals = imp_times (IZR lag) e_vals.
Proof. exact gen_imp_formula_model. Qed.
Print Assumptions c16_gen_imp_formula_is_model.

(* "implied timescales equal minus the lag time over the log of the corresponding eigenvalue", the
   stationary eigenvalue dropped, no absolute value -- for the generated formula *)
Theorem c16_gen_imp_formula_nth : forall (lag : Z) ev k, (S k < length ev)%nat ->
  nth k (gen_imp_formula lag ev) 0%R = (- IZR lag / ln (nth (S k) ev 1))%R.
Proof. exact gen_imp_formula_nth. Qed.
Print Assumptions c16_gen_imp_formula_nth.

(* implied_timescales: one calc_imp_times call per lag time, in order, with n_states = max + 1, the
   model's n_times (None -> n_states div 10 + 1, capped at n_states - 1) and the caller's method /
   sliding_window / trim *)
Theorem c16_gen_implied_timescales_is_model : forall A Mth R (amax : A -> Z)
    (calc : A -> Z -> Z -> Z -> Mth -> bool -> bool -> R) a lags m nt sl trim,
  gen_implied_timescales amax calc a lags m nt sl trim =
  map (fun t => calc a t (amax a + 1)%Z (imp_n_times (amax a + 1)%Z nt) m sl trim) lags.
Proof. exact gen_implied_timescales_model. Qed.
Print Assumptions c16_gen_implied_timescales_is_model.

Theorem c16_imp_n_times_capped : forall ns nt, (imp_n_times ns nt <= ns - 1)%Z.
Proof. exact imp_n_times_capped. Qed.
Print Assumptions c16_imp_n_times_capped.

(* ===== propagation: synthetic_ensemble as written ===== *)
Theorem c16_gen_ensemble_is_model : forall sp T p0 n_steps,
  gen_ensemble sp T p0 n_steps = ensemble T p0 n_steps.
Proof. exact gen_ensemble_model. Qed.
Print Assumptions c16_gen_ensemble_is_model.

Theorem c16_gen_ensemble_obs_is_model : forall sp T p0 n_steps ob,
  gen_ensemble_obs sp T p0 n_steps ob = ensemble_obs T p0 n_steps ob.
Proof. exact gen_ensemble_obs_model. Qed.
Print Assumptions c16_gen_ensemble_obs_is_model.

(* ===== save / load: the attribute <-> file table as written =====
   the tables read off MSM.save / MSM.load are the model's *)
Theorem c16_gen_io_tables_are_model :
  gen_default_fnames = default_fnames /\ gen_save_table = save_table /\ gen_load_table = load_table /\
  gen_manifest_save = manifest_name /\ gen_manifest_load = manifest_name.
Proof. exact gen_tables_model. Qed.
Print Assumptions c16_gen_io_tables_are_model.

Theorem c16_gen_io_tables_ok :
  tables_ok gen_default_fnames gen_manifest_save gen_manifest_load gen_save_table gen_load_table = true.
Proof. exact gen_tables_ok. Qed.
Print Assumptions c16_gen_io_tables_ok.

(* what tables_ok guarantees for any tables: each attribute written once and read once through the
   same manifest key by a reader for the writer's format, every float64 kept exactly *)
Theorem c16_io_tables_ok_sound : forall names ms ml sv ld,
  tables_ok names ms ml sv ld = true ->
  ms = ml /\
  forall a, exists s l,
    In s sv /\ In l ld /\ sv_attr s = a /\ ld_attr l = a /\
    (forall s', In s' sv -> sv_attr s' = a -> s' = s) /\
    (forall l', In l' ld -> ld_attr l' = a -> l' = l) /\
    sv_key s = ld_key l /\ compatible (sv_writer s) (ld_reader l) = true /\
    exact_writer (sv_writer s) = true /\ mode_ok (sv_writer s) (sv_mode s) = true /\
    exists f, lookup (sv_key s) names = Some f.
Proof. exact tables_ok_sound. Qed.
Print Assumptions c16_io_tables_ok_sound.

(* "a serialisation that loses precision": the probabilities are written with >= 17 significant digits *)
Theorem c16_tprobs_precision : forall s, In s gen_save_table -> sv_attr s = A_tprobs_ ->
  exists p, sv_writer s = W_mmwrite (Some p) /\ (17 <= p)%Z.
Proof. exact tprobs_precision. Qed.
Print Assumptions c16_tprobs_precision.

(* non-vacuity: the generated eigenspectrum on the 4-cycle (dense, all eigenvalues) *)
Example c16_example_gen_spectrum :
  option_map (fun r => (map Qred (fst r), Builders.mat_red (snd r)))
    (gen_eigenspectrum lmx_ops (fun _ => (cycle4_vals, cycle4_vecs)) (true, cycle4) None true 100000 (1 # 10))
  = Some ([1; 0; 0; -1], [[1 # 4; 1 # 4; 1 # 4; 1 # 4]; [1; 0; -1; 0]; [1; 0; -1; 0]; [2; -2; 2; -2]])
  /\ is_call_eig (gen_solver lmx_ops (true, cycle4) 4 true 100000 (1 # 10)) = true
  /\ (forall M, mx_issparse lmx_ops (mx_toarray lmx_ops M) = false).
Proof. split; [vm_compute; reflexivity|split; [vm_compute; reflexivity|intro M; reflexivity]]. Qed.
Print Assumptions c16_example_gen_spectrum.

Example c16_example_gen_ensemble :
  gen_ensemble false [[1 # 2; 1 # 2]; [1 # 4; 3 # 4]] [1; 0] 3 =
    Some ([3 # 8; 5 # 8], [[1; 0]; [1 # 2; 1 # 2]; [3 # 8; 5 # 8]])
  /\ gen_ensemble true [[1 # 2; 1 # 2]; [1 # 4; 3 # 4]] [1; 0; 0] 2 = None.
Proof. vm_compute. split; reflexivity. Qed.
Print Assumptions c16_example_gen_ensemble.
