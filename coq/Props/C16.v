(* C16 — MSM estimator equals its function pipeline, round-trips, has a sound spectrum.
   Property theorems only; proofs live in Proof/MsmProofs.v (configuration dataflow, inherited
   clauses), Proof/MsmSpectrum.v (eigenspectrum post-processing, propagation) and
   Proof/MsmReal.v (implied timescales over R).  Gen/MsmCfgGen.v (init, fit, config, load_init,
   imp_pipeline) is regenerated from enspara/msm/msm.py and enspara/msm/timescales.py on every run. *)
From Coq Require Import List ZArith QArith Bool.
From EV Require Import MsmBase MsmCfgGen Msm MsmProofs.
From EV Require Counts Trim Builders.
Import ListNotations.

(* "with the same lag time, sliding-window setting, state count and trimming choice": every
   constructor argument is the value of the attribute of the same name (defect D11: on the
   unrepaired tree the generated init has a_sliding_window := true and this is not provable). *)
Theorem c16_init_keeps_args : forall lag m trim sl maxn,
  let s := init lag m trim sl maxn in
  a_lag_time s = lag /\ a_method s = resolve_method m /\ a_trim s = trim /\
  a_sliding_window s = sl /\ a_max_n_states s = maxn.
Proof. exact init_keeps_args. Qed.
Print Assumptions c16_init_keeps_args.

(* each attribute reaches the call of fit that consumes it *)
Theorem c16_fit_uses_cfg : forall X self a,
  msm_fit X self a =
  pipeline X (a_lag_time self) (a_sliding_window self) (a_max_n_states self) (a_trim self) (a_method self) a.
Proof. exact fit_uses_cfg. Qed.
Print Assumptions c16_fit_uses_cfg.

(* "Fitting the MSM estimator yields the same counts, transition probabilities, populations and
   state mapping as composing the counting, trimming and builder functions" *)
Theorem c16_fit_eq_pipeline : forall X lag m trim sl maxn a,
  msm_estimator X lag m trim sl maxn a = pipeline X lag sl maxn trim (resolve_method m) a.
Proof. exact fit_eq_pipeline. Qed.
Print Assumptions c16_fit_eq_pipeline.

Example c16_example_fit :
  option_map (fun r : fit_result => (Trim.tr_keep (fst r), fst (fst (snd r))))
    (msm_estimator [] 2 (ByName Normalize) true false None [[0; 1; 1; 0; 1; 3; 3; 0; 1; 0]; [2; 2; 2]]%Z)
  = Some ([0; 1]%nat, [[0; 1]; [0; 1]]%Q)
  /\ msm_estimator [] 0 (ByName Normalize) true false None [[0; 1]]%Z = None.
Proof. vm_compute. split; reflexivity. Qed.
Print Assumptions c16_example_fit.
