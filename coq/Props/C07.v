(* C07 — committors and mean first-passage times satisfy their first-step equations.
   Property theorems only; proofs live in Proof/TPTProofs.v; the model of enspara/tpt/core.py is
   Model/TPT.v.  The model's linear solver is unverified: every theorem below is about whatever
   passes the model's certificate check, i.e. about *any* solution of the code-shaped system
   (rows and columns of absorbing states masked in I - T, right-hand sides as the code builds them).
   Definitions used in the statements:
     committor_eqs n T src snk q := for i < n: i in src -> q i == 0; i in snk -> q i == 1;
                                    otherwise q i == sum_j T i j * q j
     mfpt_eqs n T snk lag t     := for i < n: i in snk -> t i == 0;
                                    otherwise t i == lag + sum_j T i j * t j
     stochastic n T             := rows sum to 1, entries >= 0
     reaches n T A i            := i reaches the set A along transitions of positive probability
                                    (true for every i when T is irreducible and A is non-empty)
     stationary_dist n T pi     := pi T == pi and sum pi == 1.
   "Dense and sparse inputs give the same values and the inputs are not modified" is about NumPy /
   SciPy containers, which the model does not have: that clause is checked by the correspondence
   harness (harness/props/c07.py) on every generated case, not by a theorem. *)
From Coq Require Import List QArith Bool.
From EV Require Import TPT TPTProofs.
Import ListNotations.
Open Scope Q_scope.

(* Clause "forward committors are 0 on sources, 1 on sinks and equal the transition-weighted
   average of their neighbours' committors at every other state" — for any matrix (stochastic or
   not, reversible or not), any duplicate-free sink list disjoint from the sources. *)
Theorem c07_committor_first_step : forall n T src snk q,
  committors n T src snk = Some q ->
  NoDup snk -> (forall i, In i src -> ~ In i snk) ->
  length q = n /\ committor_eqs n (mget T) src snk (vget q).
Proof. exact committor_system_sound. Qed.
Print Assumptions c07_committor_first_step.

(* The same clause for *any* solution B of the system the code hands to spsolve:
   (I-Q) B = R with I-Q = ImQ T (src ++ snk), R = T[:, sinks] with sink rows 1 and source rows 0;
   the result is the row sum of B with the sinks pinned to 1. *)
Theorem c07_committor_any_solution : forall n (T : nat -> nat -> Q) src snk (B : nat -> nat -> Q),
  (forall i k, (i < n)%nat -> (k < length snk)%nat ->
     sumq n (fun j => ImQ T (src ++ snk) i j * B j k) == Rhs T src snk i k) ->
  NoDup snk -> (forall i, In i src -> ~ In i snk) -> (forall i, In i snk -> (i < n)%nat) ->
  committor_eqs n T src snk (comm_of snk B).
Proof. exact committor_system_sound_fn. Qed.
Print Assumptions c07_committor_any_solution.

(* Clause "lie in [0, 1]" (discrete maximum principle): row-stochastic matrix in which every state
   reaches a source or a sink. *)
Theorem c07_committor_bounds : forall n T src snk q,
  committors n T src snk = Some q ->
  NoDup snk -> (forall i, In i src -> ~ In i snk) ->
  stochastic n (mget T) -> (forall i, (i < n)%nat -> reaches n (mget T) (src ++ snk) i) ->
  forall i, (i < n)%nat -> 0 <= vget q i /\ vget q i <= 1.
Proof. exact committor_bounds. Qed.
Print Assumptions c07_committor_bounds.

(* The first-step equations determine the committor: the model's output is the only solution. *)
Theorem c07_committor_unique : forall n T src snk q q',
  committors n T src snk = Some q ->
  NoDup snk -> (forall i, In i src -> ~ In i snk) ->
  stochastic n (mget T) -> (forall i, (i < n)%nat -> reaches n (mget T) (src ++ snk) i) ->
  committor_eqs n (mget T) src snk q' ->
  forall i, (i < n)%nat -> vget q i == q' i.
Proof. exact committor_unique. Qed.
Print Assumptions c07_committor_unique.

(* Error clause: a state index outside the matrix is rejected (IndexError in the code). *)
Theorem c07_committor_index_error : forall n T src snk i,
  In i (src ++ snk) -> (n <= i)%nat -> committors n T src snk = None.
Proof. exact committors_index_error. Qed.
Print Assumptions c07_committor_index_error.

(* Clause "mean first-passage times to a sink set are 0 on the sinks and equal one lag time plus the
   transition-weighted average of the neighbours' times elsewhere". *)
Theorem c07_mfpt_sinks_first_step : forall n T snk lag t,
  mfpts_sinks n T snk lag = Some t ->
  length t = n /\ mfpt_eqs n (mget T) snk lag (vget t).
Proof. exact mfpt_sink_sound. Qed.
Print Assumptions c07_mfpt_sinks_first_step.

Theorem c07_mfpt_sinks_index_error : forall n T snk lag i,
  In i snk -> (n <= i)%nat -> mfpts_sinks n T snk lag = None.
Proof. exact mfpt_sink_index_error. Qed.
Print Assumptions c07_mfpt_sinks_index_error.

(* Clause "scales linearly with the lag time" (sink sets). *)
Theorem c07_mfpt_sinks_lag_linear : forall n T snk lag t,
  mfpts_sinks n T snk lag = Some t ->
  exists t1, mfpts_sinks n T snk 1 = Some t1 /\
             forall i, (i < n)%nat -> vget t i == lag * vget t1 i.
Proof. exact mfpt_sink_lag_linear. Qed.
Print Assumptions c07_mfpt_sinks_lag_linear.

(* All-pairs table lag * (diag Z - Z) / W with Z = (I - T + W)^-1 (Kemeny-Snell): when the supplied
   populations are the stationary distribution and rows of T sum to 1, every column j satisfies the
   first-step equations of the sink set {j}: m_jj = 0, m_ij = lag + sum_k T_ik m_kj. *)
Theorem c07_mfpt_all_first_step : forall n T pi lag M,
  mfpts_all n T pi lag = Some M ->
  (forall i, (i < n)%nat -> sumq n (mget T i) == 1) ->
  stationary_dist n (mget T) (vget pi) ->
  forall j, (j < n)%nat -> mfpt_eqs n (mget T) [j] lag (fun i => mget M i j).
Proof. exact mfpt_all_sound. Qed.
Print Assumptions c07_mfpt_all_first_step.

(* The same with populations=None (the model's stand-in for eq_probs is checked to be stationary). *)
Theorem c07_mfpt_all_default_first_step : forall n T lag M,
  mfpts_all_default n T lag = Some M ->
  (forall i, (i < n)%nat -> sumq n (mget T i) == 1) ->
  forall j, (j < n)%nat -> mfpt_eqs n (mget T) [j] lag (fun i => mget M i j).
Proof. exact mfpt_all_default_sound. Qed.
Print Assumptions c07_mfpt_all_default_first_step.

(* Clause "the all-pairs table agrees column by column with the single-sink computation":
   stochastic matrix in which every state reaches j (any irreducible matrix). *)
Theorem c07_mfpt_all_column_agrees : forall n T pi lag M j t,
  mfpts_all n T pi lag = Some M -> mfpts_sinks n T [j] lag = Some t ->
  stochastic n (mget T) -> stationary_dist n (mget T) (vget pi) ->
  (j < n)%nat -> (forall i, (i < n)%nat -> reaches n (mget T) [j] i) ->
  forall i, (i < n)%nat -> mget M i j == vget t i.
Proof. exact mfpt_all_column_agrees. Qed.
Print Assumptions c07_mfpt_all_column_agrees.

(* Clause "scales linearly with the lag time" (all-pairs table). *)
Theorem c07_mfpt_all_lag_linear : forall n T pi lag M,
  mfpts_all n T pi lag = Some M ->
  exists M1, mfpts_all n T pi 1 = Some M1 /\
             forall i j, (i < n)%nat -> (j < n)%nat -> mget M i j == lag * mget M1 i j.
Proof. exact mfpt_all_lag_linear. Qed.
Print Assumptions c07_mfpt_all_lag_linear.

(* The first-step equations have a single solution (used for the column agreement; also says that
   the values of the property are determined by its equations). *)
Theorem c07_first_step_unique : forall n T A,
  stochastic n T -> (forall i, (i < n)%nat -> reaches n T A i) ->
  forall (b x y : nat -> Q),
  (forall i, (i < n)%nat -> In i A -> x i == y i) ->
  (forall i, (i < n)%nat -> ~ In i A -> x i == b i + sumq n (fun j => T i j * x j)) ->
  (forall i, (i < n)%nat -> ~ In i A -> y i == b i + sumq n (fun j => T i j * y j)) ->
  forall i, (i < n)%nat -> x i == y i.
Proof. exact first_step_unique. Qed.
Print Assumptions c07_first_step_unique.

(* "Ergodic matrix, non-empty sets" gives the reachability hypothesis used above: in an irreducible
   chain every state reaches every non-empty set. *)
Theorem c07_irreducible_reaches : forall n T,
  (forall i j, (i < n)%nat -> (j < n)%nat -> reaches n T [j] i) ->
  forall A a, In a A -> (a < n)%nat -> forall i, (i < n)%nat -> reaches n T A i.
Proof. exact irreducible_reaches. Qed.
Print Assumptions c07_irreducible_reaches.

(* ---- Non-vacuity: a non-reversible irreducible 4-state chain with zeros, one source, two sinks,
   meets every hypothesis above, and the model produces values. *)
Definition ex_T : mat :=
  [[1#2; 1#4; 1#4; 0]; [1#4; 1#2; 1#4; 0]; [0; 1#4; 1#2; 1#4]; [1#4; 0; 1#4; 1#2]].

Example c07_example_committor :
  committors 4 ex_T [0%nat] [2%nat; 3%nat] = Some [0; 1#2; 1; 1] /\
  NoDup [2%nat; 3%nat] /\ (forall i, In i [0%nat] -> ~ In i [2%nat; 3%nat]) /\
  stochastic 4 (mget ex_T) /\
  (forall i, (i < 4)%nat -> reaches 4 (mget ex_T) ([0%nat] ++ [2%nat; 3%nat]) i).
Proof.
  split; [vm_compute; reflexivity|].
  split; [apply nodupb_sound; vm_compute; reflexivity|].
  split; [apply disjointb_sound; vm_compute; reflexivity|].
  split; [apply stochasticb_sound; vm_compute; reflexivity|].
  apply all_reachb_sound; vm_compute; reflexivity.
Qed.
Print Assumptions c07_example_committor.

Example c07_example_mfpt :
  stationary 4 ex_T = Some [2#9; 5#18; 1#3; 1#6] /\
  option_map (fun M => qll_eq M [[0; 12; 10; 30]; [15; 0; 10; 30]; [20; 14; 0; 20]; [15; 18; 10; 0]])
             (mfpts_all_default 4 ex_T (5#2)) = Some true /\
  option_map (fun t => ql_eq t [12; 0; 14; 18]) (mfpts_sinks 4 ex_T [1%nat] (5#2)) = Some true /\
  stochastic 4 (mget ex_T) /\
  (forall i, (i < 4)%nat -> reaches 4 (mget ex_T) [1%nat] i).
Proof.
  split; [vm_compute; reflexivity|].
  split; [vm_compute; reflexivity|].
  split; [vm_compute; reflexivity|].
  split; [apply stochasticb_sound; vm_compute; reflexivity|].
  apply all_reachb_sound; vm_compute; reflexivity.
Qed.
Print Assumptions c07_example_mfpt.
