(* C07 — committors and mean first-passage times satisfy their first-step equations.
   Property theorems only; proofs live in Proof/TPTProofs.v; the model of enspara/tpt/core.py is
   Model/TPT.v.  The model's linear solver is unverified: every theorem below is about whatever
   passes the model's certificate check, i.e. about *any* solution of the code-shaped system
   (rows and columns of absorbing states masked in I - T, right-hand sides as the code builds them).
   Definitions used in the statements:
     committor_eqs n T src snk q := for i < n: i in src -> q i == 0; i in snk -> q i == 1;
                                    otherwise q i == sum_j T i j * q j
     mfpt_eqs n T snk lag t     := for i < n: i in snk -> t i == 0;
                                    otherwise t i == lag + sum_j T i j * t j
     stochastic n T             := rows sum to 1, entries >= 0
     reaches n T A i            := i reaches the set A along transitions of positive probability
                                    (true for every i when T is irreducible and A is non-empty)
     stationary_dist n T pi     := pi T == pi and sum pi == 1.
   "Dense and sparse inputs give the same values and the inputs are not modified" is about NumPy /
   SciPy containers, which the model does not have: that clause is checked by the correspondence
   harness (harness/props/c07.py) on every generated case, not by a theorem. *)
From Coq Require Import List QArith Bool Lia.
From EV Require Import TPT TPTProofs TptBase TptGen TPTGen TptGenProofs TPTExist TPTStationary TPTTop.
Import ListNotations.
Open Scope Q_scope.

(* Clause "forward committors are 0 on sources, 1 on sinks and equal the transition-weighted
   average of their neighbours' committors at every other state" — for any matrix (stochastic or
   not, reversible or not), any duplicate-free sink list disjoint from the sources. *)
Theorem c07_committor_first_step : forall n T src snk q,
  committors n T src snk = Some q ->
  NoDup snk -> (forall i, In i src -> ~ In i snk) ->
  length q = n /\ committor_eqs n (mget T) src snk (vget q).
Proof. exact committor_system_sound. Qed.
Print Assumptions c07_committor_first_step.

(* The same clause for *any* solution B of the system the code hands to spsolve:
   (I-Q) B = R with I-Q = ImQ T (src ++ snk), R = T[:, sinks] with sink rows 1 and source rows 0;
   the result is the row sum of B with the sinks pinned to 1. *)
Theorem c07_committor_any_solution : forall n (T : nat -> nat -> Q) src snk (B : nat -> nat -> Q),
  (forall i k, (i < n)%nat -> (k < length snk)%nat ->
     sumq n (fun j => ImQ T (src ++ snk) i j * B j k) == Rhs T src snk i k) ->
  NoDup snk -> (forall i, In i src -> ~ In i snk) -> (forall i, In i snk -> (i < n)%nat) ->
  committor_eqs n T src snk (comm_of snk B).
Proof. exact committor_system_sound_fn. Qed.
Print Assumptions c07_committor_any_solution.

(* Clause "lie in [0, 1]" (discrete maximum principle): row-stochastic matrix in which every state
   reaches a source or a sink. *)
Theorem c07_committor_bounds : forall n T src snk q,
  committors n T src snk = Some q ->
  NoDup snk -> (forall i, In i src -> ~ In i snk) ->
  stochastic n (mget T) -> (forall i, (i < n)%nat -> reaches n (mget T) (src ++ snk) i) ->
  forall i, (i < n)%nat -> 0 <= vget q i /\ vget q i <= 1.
Proof. exact committor_bounds. Qed.
Print Assumptions c07_committor_bounds.

(* The first-step equations determine the committor: the model's output is the only solution. *)
Theorem c07_committor_unique : forall n T src snk q q',
  committors n T src snk = Some q ->
  NoDup snk -> (forall i, In i src -> ~ In i snk) ->
  stochastic n (mget T) -> (forall i, (i < n)%nat -> reaches n (mget T) (src ++ snk) i) ->
  committor_eqs n (mget T) src snk q' ->
  forall i, (i < n)%nat -> vget q i == q' i.
Proof. exact committor_unique. Qed.
Print Assumptions c07_committor_unique.

(* Error clause: a state index outside the matrix is rejected (IndexError in the code). *)
Theorem c07_committor_index_error : forall n T src snk i,
  In i (src ++ snk) -> (n <= i)%nat -> committors n T src snk = None.
Proof. exact committors_index_error. Qed.
Print Assumptions c07_committor_index_error.

(* Clause "mean first-passage times to a sink set are 0 on the sinks and equal one lag time plus the
   transition-weighted average of the neighbours' times elsewhere". *)
Theorem c07_mfpt_sinks_first_step : forall n T snk lag t,
  mfpts_sinks n T snk lag = Some t ->
  length t = n /\ mfpt_eqs n (mget T) snk lag (vget t).
Proof. exact mfpt_sink_sound. Qed.
Print Assumptions c07_mfpt_sinks_first_step.

Theorem c07_mfpt_sinks_index_error : forall n T snk lag i,
  In i snk -> (n <= i)%nat -> mfpts_sinks n T snk lag = None.
Proof. exact mfpt_sink_index_error. Qed.
Print Assumptions c07_mfpt_sinks_index_error.

(* Clause "scales linearly with the lag time" (sink sets). *)
Theorem c07_mfpt_sinks_lag_linear : forall n T snk lag t,
  mfpts_sinks n T snk lag = Some t ->
  exists t1, mfpts_sinks n T snk 1 = Some t1 /\
             forall i, (i < n)%nat -> vget t i == lag * vget t1 i.
Proof. exact mfpt_sink_lag_linear. Qed.
Print Assumptions c07_mfpt_sinks_lag_linear.

(* All-pairs table lag * (diag Z - Z) / W with Z = (I - T + W)^-1 (Kemeny-Snell): when the supplied
   populations are the stationary distribution and rows of T sum to 1, every column j satisfies the
   first-step equations of the sink set {j}: m_jj = 0, m_ij = lag + sum_k T_ik m_kj. *)
Theorem c07_mfpt_all_first_step : forall n T pi lag M,
  mfpts_all n T pi lag = Some M ->
  (forall i, (i < n)%nat -> sumq n (mget T i) == 1) ->
  stationary_dist n (mget T) (vget pi) ->
  forall j, (j < n)%nat -> mfpt_eqs n (mget T) [j] lag (fun i => mget M i j).
Proof. exact mfpt_all_sound. Qed.
Print Assumptions c07_mfpt_all_first_step.

(* The same with populations=None (the model's stand-in for eq_probs is checked to be stationary). *)
Theorem c07_mfpt_all_default_first_step : forall n T lag M,
  mfpts_all_default n T lag = Some M ->
  (forall i, (i < n)%nat -> sumq n (mget T i) == 1) ->
  forall j, (j < n)%nat -> mfpt_eqs n (mget T) [j] lag (fun i => mget M i j).
Proof. exact mfpt_all_default_sound. Qed.
Print Assumptions c07_mfpt_all_default_first_step.

(* Clause "the all-pairs table agrees column by column with the single-sink computation":
   stochastic matrix in which every state reaches j (any irreducible matrix). *)
Theorem c07_mfpt_all_column_agrees : forall n T pi lag M j t,
  mfpts_all n T pi lag = Some M -> mfpts_sinks n T [j] lag = Some t ->
  stochastic n (mget T) -> stationary_dist n (mget T) (vget pi) ->
  (j < n)%nat -> (forall i, (i < n)%nat -> reaches n (mget T) [j] i) ->
  forall i, (i < n)%nat -> mget M i j == vget t i.
Proof. exact mfpt_all_column_agrees. Qed.
Print Assumptions c07_mfpt_all_column_agrees.

(* Clause "scales linearly with the lag time" (all-pairs table). *)
Theorem c07_mfpt_all_lag_linear : forall n T pi lag M,
  mfpts_all n T pi lag = Some M ->
  exists M1, mfpts_all n T pi 1 = Some M1 /\
             forall i j, (i < n)%nat -> (j < n)%nat -> mget M i j == lag * mget M1 i j.
Proof. exact mfpt_all_lag_linear. Qed.
Print Assumptions c07_mfpt_all_lag_linear.

(* The first-step equations have a single solution (used for the column agreement; also says that
   the values of the property are determined by its equations). *)
Theorem c07_first_step_unique : forall n T A,
  stochastic n T -> (forall i, (i < n)%nat -> reaches n T A i) ->
  forall (b x y : nat -> Q),
  (forall i, (i < n)%nat -> In i A -> x i == y i) ->
  (forall i, (i < n)%nat -> ~ In i A -> x i == b i + sumq n (fun j => T i j * x j)) ->
  (forall i, (i < n)%nat -> ~ In i A -> y i == b i + sumq n (fun j => T i j * y j)) ->
  forall i, (i < n)%nat -> x i == y i.
Proof. exact first_step_unique. Qed.
Print Assumptions c07_first_step_unique.

(* "Ergodic matrix, non-empty sets" gives the reachability hypothesis used above: in an irreducible
   chain every state reaches every non-empty set. *)
Theorem c07_irreducible_reaches : forall n T,
  (forall i j, (i < n)%nat -> (j < n)%nat -> reaches n T [j] i) ->
  forall A a, In a A -> (a < n)%nat -> forall i, (i < n)%nat -> reaches n T A i.
Proof. exact irreducible_reaches. Qed.
Print Assumptions c07_irreducible_reaches.

(* ---- Non-vacuity: a non-reversible irreducible 4-state chain with zeros, one source, two sinks,
   meets every hypothesis above, and the model produces values. *)
Definition ex_T : mat :=
  [[1#2; 1#4; 1#4; 0]; [1#4; 1#2; 1#4; 0]; [0; 1#4; 1#2; 1#4]; [1#4; 0; 1#4; 1#2]].

Example c07_example_committor :
  committors 4 ex_T [0%nat] [2%nat; 3%nat] = Some [0; 1#2; 1; 1] /\
  NoDup [2%nat; 3%nat] /\ (forall i, In i [0%nat] -> ~ In i [2%nat; 3%nat]) /\
  stochastic 4 (mget ex_T) /\
  (forall i, (i < 4)%nat -> reaches 4 (mget ex_T) ([0%nat] ++ [2%nat; 3%nat]) i).
Proof.
  split; [vm_compute; reflexivity|].
  split; [apply nodupb_sound; vm_compute; reflexivity|].
  split; [apply disjointb_sound; vm_compute; reflexivity|].
  split; [apply stochasticb_sound; vm_compute; reflexivity|].
  apply all_reachb_sound; vm_compute; reflexivity.
Qed.
Print Assumptions c07_example_committor.

Example c07_example_mfpt :
  stationary 4 ex_T = Some [2#9; 5#18; 1#3; 1#6] /\
  option_map (fun M => qll_eq M [[0; 12; 10; 30]; [15; 0; 10; 30]; [20; 14; 0; 20]; [15; 18; 10; 0]])
             (mfpts_all_default 4 ex_T (5#2)) = Some true /\
  option_map (fun t => ql_eq t [12; 0; 14; 18]) (mfpts_sinks 4 ex_T [1%nat] (5#2)) = Some true /\
  stochastic 4 (mget ex_T) /\
  (forall i, (i < 4)%nat -> reaches 4 (mget ex_T) [1%nat] i).
Proof.
  split; [vm_compute; reflexivity|].
  split; [vm_compute; reflexivity|].
  split; [vm_compute; reflexivity|].
  split; [apply stochasticb_sound; vm_compute; reflexivity|].
  apply all_reachb_sound; vm_compute; reflexivity.
Qed.
Print Assumptions c07_example_mfpt.

(* ======================================================================================
   Round 2 (a): the system-building statements regenerated from the CURRENT enspara/tpt/core.py.
   translator/tr_tpt.py (fail-closed) rewrites _I_m_Q, committors and both branches of mfpts into
   Gen/TptGen.v over the array vocabulary of Base/TptBase.v; Model/TPTGen.v adds the input guards.
   The theorems below say the regenerated definitions ARE the hand-written model the theorems above
   are about (row and column masking and the unit diagonal of I - Q; T[:, sinks], R[sinks] = 1 then
   R[sources] = 0; the sum over sink columns; the final pin; c[sinks] = 0; the lag factor;
   inv(I - T + W) and lagtime * (diag Z - Z) / W with NumPy's broadcasting). *)

(* _I_m_Q as the source builds it = the model's masked I - T, cell by cell *)
Theorem c07_gen_I_m_Q_is_model : forall (T : nat -> nat -> Q) (A : list nat) (n i j : nat),
  gen_I_m_Q T A n i j = ImQ T A i j.
Proof. exact gen_I_m_Q_eq. Qed.
Print Assumptions c07_gen_I_m_Q_is_model.

Theorem c07_gen_committors_is_model : forall n T src snk,
  committors_g n T src snk = committors n T src snk.
Proof. exact gen_committors_eq. Qed.
Print Assumptions c07_gen_committors_is_model.

Theorem c07_gen_mfpts_sinks_is_model : forall n T snk lag,
  mfpts_sinks_g n T snk lag = mfpts_sinks n T snk lag.
Proof. exact gen_mfpts_sinks_eq. Qed.
Print Assumptions c07_gen_mfpts_sinks_is_model.

Theorem c07_gen_mfpts_all_is_model : forall n T pi lag,
  mfpts_all_g n T pi lag = mfpts_all n T pi lag.
Proof. exact gen_mfpts_all_eq. Qed.
Print Assumptions c07_gen_mfpts_all_is_model.

Theorem c07_gen_mfpts_all_default_is_model : forall n T lag,
  mfpts_all_default_g n T lag = mfpts_all_default n T lag.
Proof. exact gen_mfpts_all_default_eq. Qed.
Print Assumptions c07_gen_mfpts_all_default_is_model.

(* the first-step clauses stated directly on the regenerated definitions *)
Theorem c07_gen_committor_first_step : forall n T src snk q,
  committors_g n T src snk = Some q ->
  NoDup snk -> (forall i, In i src -> ~ In i snk) ->
  length q = n /\ committor_eqs n (mget T) src snk (vget q).
Proof. exact gen_committor_first_step. Qed.
Print Assumptions c07_gen_committor_first_step.

Theorem c07_gen_mfpt_sinks_first_step : forall n T snk lag t,
  mfpts_sinks_g n T snk lag = Some t ->
  length t = n /\ mfpt_eqs n (mget T) snk lag (vget t).
Proof. exact gen_mfpt_sinks_first_step. Qed.
Print Assumptions c07_gen_mfpt_sinks_first_step.

Theorem c07_gen_mfpt_all_first_step : forall n T pi lag M,
  mfpts_all_g n T pi lag = Some M ->
  (forall i, (i < n)%nat -> sumq n (mget T i) == 1) ->
  stationary_dist n (mget T) (vget pi) ->
  forall j, (j < n)%nat -> mfpt_eqs n (mget T) [j] lag (fun i => mget M i j).
Proof. exact gen_mfpt_all_first_step. Qed.
Print Assumptions c07_gen_mfpt_all_first_step.

(* ======================================================================================
   Round 2 (b): existence.  The model's Gauss-Jordan (Model/TPT.v: gj / solve) is now verified:
   whatever it returns solves the system, and it returns a solution whenever the matrix has a
   trivial kernel; the code's systems have a trivial kernel for a row-stochastic T in which every
   state reaches an absorbing one.  So "the model returned Some" in the theorems above is no longer
   a hypothesis one has to check per case: it is a theorem for all inputs inside the quantifier.
     injective n A := forall v, (forall i < n, sum_j A i j * v j == 0) -> forall j < n, v j == 0 *)

Theorem c07_solver_sound : forall n m A R X, solve n m A R = Some X ->
  forall i k, (i < n)%nat -> (k < m)%nat -> sumq n (fun j => A i j * mget X j k) == R i k.
Proof. exact solve_sound. Qed.
Print Assumptions c07_solver_sound.

Theorem c07_solver_total : forall n m A R, injective n A -> exists X, solve_checked n m A R = Some X.
Proof. exact solve_checked_total. Qed.
Print Assumptions c07_solver_total.

(* (I - Q) of the code has a trivial kernel: every state reaches the absorbing set *)
Theorem c07_I_m_Q_injective : forall n T A, stochastic n T ->
  (forall i, (i < n)%nat -> reaches n T A i) -> injective n (ImQ T A).
Proof. exact ImQ_injective. Qed.
Print Assumptions c07_I_m_Q_injective.

(* hence (I - Q) X = b has a solution for EVERY right-hand side b (any number of columns) *)
Theorem c07_I_m_Q_system_solvable : forall n m T A (b : nat -> nat -> Q), stochastic n T ->
  (forall i, (i < n)%nat -> reaches n T A i) ->
  exists X, forall i k, (i < n)%nat -> (k < m)%nat ->
    sumq n (fun j => ImQ T A i j * mget X j k) == b i k.
Proof. exact ImQ_system_solvable. Qed.
Print Assumptions c07_I_m_Q_system_solvable.

(* committors is total on the property's domain (neither NoDup nor disjointness is needed for this) *)
Theorem c07_committors_exist : forall n T src snk,
  wfb n T = true -> idxb n src = true -> idxb n snk = true -> stochastic n (mget T) ->
  (forall i, (i < n)%nat -> reaches n (mget T) (src ++ snk) i) ->
  exists q, committors n T src snk = Some q.
Proof. exact committors_total. Qed.
Print Assumptions c07_committors_exist.

Theorem c07_mfpts_sinks_exist : forall n T snk lag,
  wfb n T = true -> idxb n snk = true -> stochastic n (mget T) ->
  (forall i, (i < n)%nat -> reaches n (mget T) snk i) ->
  exists t, mfpts_sinks n T snk lag = Some t.
Proof. exact mfpts_sinks_total. Qed.
Print Assumptions c07_mfpts_sinks_exist.

(* I - T + W is invertible when W's rows are a stationary distribution and some state is reached by all
   (no aperiodicity needed): the all-pairs table exists whenever the populations are non-zero *)
Theorem c07_fundamental_injective : forall n T pi j0, stochastic n T -> stationary_dist n T pi ->
  (j0 < n)%nat -> (forall i, (i < n)%nat -> reaches n T [j0] i) -> injective n (fund T pi).
Proof. exact fund_injective. Qed.
Print Assumptions c07_fundamental_injective.

Theorem c07_mfpts_all_exist : forall n T pi lag j0,
  wfb n T = true -> length pi = n -> (forall j, (j < n)%nat -> ~ vget pi j == 0) ->
  stochastic n (mget T) -> stationary_dist n (mget T) (vget pi) -> (j0 < n)%nat ->
  (forall i, (i < n)%nat -> reaches n (mget T) [j0] i) ->
  exists M, mfpts_all n T pi lag = Some M.
Proof. exact mfpts_all_total. Qed.
Print Assumptions c07_mfpts_all_exist.

(* the same on the regenerated definitions *)
Theorem c07_gen_committors_exist : forall n T src snk,
  wfb n T = true -> idxb n src = true -> idxb n snk = true -> stochastic n (mget T) ->
  (forall i, (i < n)%nat -> reaches n (mget T) (src ++ snk) i) ->
  exists q, committors_g n T src snk = Some q.
Proof. exact gen_committors_total. Qed.
Print Assumptions c07_gen_committors_exist.

Theorem c07_gen_mfpts_sinks_exist : forall n T snk lag,
  wfb n T = true -> idxb n snk = true -> stochastic n (mget T) ->
  (forall i, (i < n)%nat -> reaches n (mget T) snk i) ->
  exists t, mfpts_sinks_g n T snk lag = Some t.
Proof. exact gen_mfpts_sinks_total. Qed.
Print Assumptions c07_gen_mfpts_sinks_exist.

(* Non-vacuity for round 2: the regenerated definitions compute on the example chain, and the example
   meets the hypotheses of the existence theorems. *)
Example c07_example_gen :
  committors_g 4 ex_T [0%nat] [2%nat; 3%nat] = Some [0; 1#2; 1; 1] /\
  option_map (fun t => ql_eq t [12; 0; 14; 18]) (mfpts_sinks_g 4 ex_T [1%nat] (5#2)) = Some true /\
  option_map (fun M => qll_eq M [[0; 12; 10; 30]; [15; 0; 10; 30]; [20; 14; 0; 20]; [15; 18; 10; 0]])
             (mfpts_all_default_g 4 ex_T (5#2)) = Some true /\
  wfb 4 ex_T = true /\ idxb 4 [0%nat] = true /\ idxb 4 [2%nat; 3%nat] = true.
Proof. repeat split; vm_compute; reflexivity. Qed.
Print Assumptions c07_example_gen.

(* ======================================================================================
   Round 2 (c): the populations=None path and the property end to end.
     irreducible n T := forall i j < n, reaches n T [j] i     (periodic chains included) *)

(* a square system with trivial kernel has a transpose with trivial kernel (used to pass from the
   harmonic functions of T to its stationary vectors) *)
Theorem c07_transpose_injective : forall n M, injective n M -> injective n (fun i j => M j i).
Proof. exact transpose_injective. Qed.
Print Assumptions c07_transpose_injective.

(* the model's stand-in for eq_probs returns a vector for every irreducible stochastic matrix *)
Theorem c07_stationary_exists : forall n T, (0 < n)%nat -> wfb n T = true -> stochastic n (mget T) ->
  irreducible n (mget T) -> exists pi, stationary n T = Some pi.
Proof. exact stationary_total. Qed.
Print Assumptions c07_stationary_exists.

(* the stationary distribution is unique and strictly positive (so W has no zero to divide by) *)
Theorem c07_stationary_unique : forall n T p p', (0 < n)%nat -> stochastic n T -> irreducible n T ->
  stationary_dist n T p -> stationary_dist n T p' -> forall j, (j < n)%nat -> p j == p' j.
Proof. exact stationary_unique. Qed.
Print Assumptions c07_stationary_unique.

Theorem c07_stationary_positive : forall n T pi, (0 < n)%nat -> stochastic n T -> irreducible n T ->
  stationary_dist n T pi -> forall j, (j < n)%nat -> 0 < pi j.
Proof. exact stationary_positive. Qed.
Print Assumptions c07_stationary_positive.

Theorem c07_mfpts_all_default_exist : forall n T lag, (0 < n)%nat -> wfb n T = true ->
  stochastic n (mget T) -> irreducible n (mget T) -> exists M, mfpts_all_default n T lag = Some M.
Proof. exact mfpts_all_default_total. Qed.
Print Assumptions c07_mfpts_all_default_exist.

(* THE PROPERTY, committor clause, end to end on the regenerated definitions: for an ergodic matrix and
   disjoint source / sink sets with valid indices (at least one of them non-empty), committors returns q,
   q is 0 on sources, 1 on sinks, the T-weighted average of its neighbours elsewhere, and lies in [0, 1]. *)
Theorem c07_ergodic_committors : forall n T src snk a,
  wfb n T = true -> idxb n src = true -> idxb n snk = true ->
  stochastic n (mget T) -> irreducible n (mget T) ->
  In a (src ++ snk) -> NoDup snk -> (forall i, In i src -> ~ In i snk) ->
  exists q, committors_g n T src snk = Some q /\ length q = n /\
            committor_eqs n (mget T) src snk (vget q) /\
            forall i, (i < n)%nat -> 0 <= vget q i /\ vget q i <= 1.
Proof. exact ergodic_committors. Qed.
Print Assumptions c07_ergodic_committors.

(* mean first-passage times to a non-empty sink set, end to end *)
Theorem c07_ergodic_mfpts_sinks : forall n T snk lag a,
  wfb n T = true -> idxb n snk = true -> stochastic n (mget T) -> irreducible n (mget T) -> In a snk ->
  exists t, mfpts_sinks_g n T snk lag = Some t /\ length t = n /\ mfpt_eqs n (mget T) snk lag (vget t).
Proof. exact ergodic_mfpts_sinks. Qed.
Print Assumptions c07_ergodic_mfpts_sinks.

(* the all-pairs table with populations=None, end to end: it exists, every column satisfies the first-step
   equations of its single sink, and equals what the single-sink computation returns (which exists) *)
Theorem c07_ergodic_mfpts_all : forall n T lag,
  (0 < n)%nat -> wfb n T = true -> stochastic n (mget T) -> irreducible n (mget T) ->
  exists M, mfpts_all_default_g n T lag = Some M /\
    (forall j, (j < n)%nat -> mfpt_eqs n (mget T) [j] lag (fun i => mget M i j)) /\
    (forall j, (j < n)%nat -> exists t, mfpts_sinks_g n T [j] lag = Some t /\
                                        forall i, (i < n)%nat -> mget M i j == vget t i).
Proof. exact ergodic_mfpts_all. Qed.
Print Assumptions c07_ergodic_mfpts_all.

(* Non-vacuity: a PERIODIC irreducible chain (the 3-cycle with a two-state class: period 3) meets the
   hypotheses of the end-to-end theorems, and the regenerated definitions compute its table. *)
Definition ex_P : mat := [[0; 0; 1; 0]; [0; 0; 1; 0]; [0; 0; 0; 1]; [1#2; 1#2; 0; 0]].
Example c07_example_periodic :
  wfb 4 ex_P = true /\ stochastic 4 (mget ex_P) /\ irreducible 4 (mget ex_P) /\
  stationary 4 ex_P = Some [1#6; 1#6; 1#3; 1#3] /\
  option_map (fun M => qll_eq M [[0; 6; 1; 2]; [6; 0; 1; 2]; [5; 5; 0; 1]; [4; 4; 2; 0]])
             (mfpts_all_default_g 4 ex_P 1) = Some true.
Proof.
  split; [vm_compute; reflexivity|].
  split; [apply stochasticb_sound; vm_compute; reflexivity|].
  split.
  - intros i j Hi Hj.
    assert (Hall : forallb (fun j0 => all_reachb 4 (mget ex_P) [j0]) (seq 0 4) = true) by (vm_compute; reflexivity).
    rewrite forallb_forall in Hall. apply all_reachb_sound; [|exact Hi]. apply Hall. apply in_seq. lia.
  - split; vm_compute; reflexivity.
Qed.
Print Assumptions c07_example_periodic.
