(* C13 -- distance kernels (enspara/geometry/libdist.pyx) are exact for every dtype, memory layout
   and thread count; malformed input is rejected before the kernels run.
   Property theorems only; proofs live in Proof/DistProofs.v and Base/PFor.v.  gen_prepare /
   gen_check_is_2d / gen_check_is_1d are regenerated from the .pyx on every run
   (Gen/DistValidGen.v).  PARTIAL by nature: a data race or an out-of-bounds access of the compiled
   code is a runtime fact; what is proved is that the modelled loops (each iteration touches cell i
   of `out` only) are schedule independent and that accepted shapes keep every index in bounds. *)
From Coq Require Import List ZArith QArith Permutation.
From EV Require Import PFor DistBase DistValidGen Dist DistProofs.
Import ListNotations.
Open Scope Z_scope.

(* clause "2-norm / 1-norm / fraction of differing coordinates per row ... whatever the memory
   layout ... and whether a caller-supplied output buffer is used": an accepted call returns, per
   row x of the LOGICAL matrix denoted by the view X, sum (x_j-y_j)^2 (the harness checks that the
   returned double is its correctly rounded square root), sum |x_j-y_j|, resp. #{j | x_j <> y_j}
   (divided by the width by the harness). *)
Theorem c13_kernel_spec : forall mt X y out cells,
    out_wf out -> distance_ideal mt X y out = DOk cells -> cells = spec mt (rows X) (vec y).
Proof. exact distance_ideal_spec. Qed.
Print Assumptions c13_kernel_spec.

(* clause "memory layout (C-ordered, Fortran-ordered, strided view)": array objects denoting the
   same logical data give the same result *)
Theorem c13_layout_indep : forall mt X X' y y' out out' cells cells',
    out_wf out -> out_wf out' -> rows X = rows X' -> vec y = vec y' ->
    distance_ideal mt X y out = DOk cells -> distance_ideal mt X' y' out' = DOk cells' ->
    cells = cells'.
Proof. exact layout_indep. Qed.
Print Assumptions c13_layout_indep.

Theorem c13_transposed_view_denotes_transpose : forall a i j, get2 (transpose2 a) i j = get2 a j i.
Proof. exact get2_transpose2. Qed.
Print Assumptions c13_transposed_view_denotes_transpose.

Theorem c13_sliced_view_denotes_slice : forall a r0 rs nr c0 cs nc i j,
    0 <= r0 + Z.of_nat i * rs -> 0 <= c0 + Z.of_nat j * cs ->
    get2 (slice2 a r0 rs nr c0 cs nc) i j =
    get2 a (Z.to_nat (r0 + Z.of_nat i * rs)) (Z.to_nat (c0 + Z.of_nat j * cs)).
Proof. exact get2_slice2. Qed.
Print Assumptions c13_sliced_view_denotes_slice.

(* clause "number of OpenMP threads": (a) generic parallel-for theorem -- iterations partitioned
   into any number of chunks, the threads' read-modify-write streams interleaved arbitrarily *)
Theorem c13_pfor_interleaving_indep : forall (A : Type) (prog : nat -> list (A -> A)) chunks n l (o : list A),
    Permutation (concat chunks) (seq 0 n) ->
    Interleave (map (sched_ops prog) chunks) l ->
    run_ops l o = run_ops (sched_ops prog (seq 0 n)) o.
Proof. exact (@pfor_interleaving_indep). Qed.
Print Assumptions c13_pfor_interleaving_indep.

(* (b) the two-loop kernels (euclidean, manhattan), any arithmetic, barrier between the loops *)
Theorem c13_two_loops_any_interleaving : forall (A : Type) (zero : A) step X y m n ch1 ch2 l1 l2 (out : list A),
    length out = n ->
    Permutation (concat ch1) (seq 0 n) -> Interleave (map (sched_ops (zero_prog zero)) ch1) l1 ->
    Permutation (concat ch2) (seq 0 n) -> Interleave (map (sched_ops (acc_prog step X y m)) ch2) l2 ->
    run_ops l2 (run_ops l1 out) = map (row_value zero step X y m) (seq 0 n).
Proof. exact (@two_loops_interleaving_indep). Qed.
Print Assumptions c13_two_loops_any_interleaving.

(* (c) the one-loop kernel (hamming) *)
Theorem c13_one_loop_any_interleaving : forall (A : Type) (zero : A) step X y m n ch l (out : list A),
    length out = n ->
    Permutation (concat ch) (seq 0 n) -> Interleave (map (sched_ops (ham_prog zero step X y m)) ch) l ->
    run_ops l out = map (row_value zero step X y m) (seq 0 n).
Proof. exact (@one_loop_interleaving_indep). Qed.
Print Assumptions c13_one_loop_any_interleaving.

(* (d) a whole call under any iteration order gives what the sequential call gives *)
Theorem c13_call_schedule_indep : forall (A : Type) (zero : A) step mt X y out sched (cells : list A),
    out_wf out ->
    (forall n, Permutation (fst (sched n)) (seq 0 n) /\ Permutation (snd (sched n)) (seq 0 n)) ->
    distance_sched zero step mt X y out sched = DOk cells ->
    distance zero step mt X y out = DOk cells.
Proof. exact distance_schedule_indep. Qed.
Print Assumptions c13_call_schedule_indep.

(* clause "caller-supplied output buffer (which then holds the result)" *)
Theorem c13_out_buffer_holds_result : forall mt X y o (c : list Z) cells,
    out_wf (Some (o, c)) -> distance_ideal mt X y (Some (o, c)) = DOk cells ->
    distance_ideal mt X y None = DOk cells /\ length cells = length c.
Proof. exact out_buffer_holds_result. Qed.
Print Assumptions c13_out_buffer_holds_result.

(* clause "exact for every dtype": in the repaired code (operands converted to double first) no
   operation of a row leaves the range where IEEE double arithmetic is exact, provided
   |values| <= Bv <= 2^52 and width * (2Bv)^2 (euclidean) / width * 2Bv (manhattan) <= 2^53;
   this covers int8, int16 fully, and int32/int64/float data within the stated bound *)
Theorem c13_double_arithmetic_exact : forall mt Bv X y m i,
    0 <= Bv -> 2 * Bv <= B53 -> Z.of_nat m * term_bound mt Bv <= B53 ->
    (forall j, (j < m)%nat -> Z.abs (get2 X i j) <= Bv /\ Z.abs (get1 y j) <= Bv) ->
    row_value (Some 0) (step_mach mt) X y m i = Some (row_value 0 (step_ideal mt) X y m i).
Proof. exact row_value_mach_exact. Qed.
Print Assumptions c13_double_arithmetic_exact.

(* FINDING (defect D9, repaired in /repo e7defaa): with the difference taken in the element type,
   as the code did, the kernel specification is false for int32 and int64 *)
Theorem c13_old_int32_arithmetic_refuted :
  exists a b, in_range I32 a /\ in_range I32 b /\
              step_old I32 Euclid a b 0 <> step_ideal Euclid a b 0 /\
              step_old I32 Manhattan a b 0 <> step_ideal Manhattan a b 0 /\
              step_old I32 Euclid a b 0 = 4.
Proof. exact old_kernel_spec_refuted_int32. Qed.
Print Assumptions c13_old_int32_arithmetic_refuted.

Theorem c13_old_int64_arithmetic_refuted :
  exists a b, in_range I64 a /\ in_range I64 b /\ step_old I64 Euclid a b 0 < 0.
Proof. exact old_kernel_spec_refuted_int64. Qed.
Print Assumptions c13_old_int64_arithmetic_refuted.

(* clause "inputs of the wrong rank, mismatched width or unsupported buffer type raise an error":
   exact characterisation of what the translated validation accepts ... *)
Theorem c13_validation_accepts_iff : forall X y out,
    (forall e, gen_prepare X y out <> VErr e) <-> accepted X y out.
Proof. exact prepare_accepts_iff. Qed.
Print Assumptions c13_validation_accepts_iff.

(* ... and the error clauses one by one *)
Theorem c13_rejects_wrong_rank_X : forall X y out, rank X <> 2 -> gen_prepare X y out = VErr DataInvalid.
Proof. exact rejects_wrong_rank_X. Qed.
Print Assumptions c13_rejects_wrong_rank_X.

Theorem c13_rejects_wrong_rank_y : forall X y out, rank y <> 1 -> exists e, gen_prepare X y out = VErr e.
Proof. exact rejects_wrong_rank_y. Qed.
Print Assumptions c13_rejects_wrong_rank_y.

Theorem c13_rejects_width_mismatch : forall X y out u v,
    shape_at X 1 = Some u -> shape_at y 0 = Some v -> u <> v -> exists e, gen_prepare X y out = VErr e.
Proof. exact rejects_width_mismatch. Qed.
Print Assumptions c13_rejects_width_mismatch.

Theorem c13_rejects_bad_out : forall X y o,
    is_f64 o = false \/ rank o <> 1 \/ shape_at o 0 <> shape_at X 0 ->
    exists e, gen_prepare X y (Some o) = VErr e.
Proof. exact rejects_bad_out. Qed.
Print Assumptions c13_rejects_bad_out.

(* clause "... rather than reading or writing out of bounds": after acceptance every X[i,j], y[j]
   and out[i] the loops touch (i < len(out), j < len(y): the loop bounds of the kernels) lies
   inside its buffer, for array objects whose views lie inside their buffers *)
Theorem c13_valid_implies_in_bounds : forall (A : Type) (zero : A) step mt X y out sched (cells : list A),
    out_wf out -> view_ok2 X -> view_ok1 y ->
    distance_sched zero step mt X y out sched = DOk cells ->
    exists r, gen_prepare (obj X) (obj y) (option_map fst out) = r /\
    forall i j, (i < length (cells_of zero r out))%nat -> (j < dim y 0)%nat ->
      0 <= addr2 X i j < Z.of_nat (length (buf X)) /\
      0 <= addr1 y j < Z.of_nat (length (buf y)) /\
      (i < length (cells_of zero r out))%nat.
Proof. exact valid_implies_in_bounds. Qed.
Print Assumptions c13_valid_implies_in_bounds.

(* ---- the hypotheses are satisfiable: a Fortran-ordered int32 3x2 matrix, a reversed (negative
   stride) target, a caller-supplied buffer holding garbage *)
Definition exX : ndarr := f_array I32 3 2 [1; 4; -2; 0; 3; 7].          (* rows [1;0] [4;3] [-2;7] *)
Definition exy : ndarr := {| buf := [3; 1]; dt := I32; shp := [2]; off := 1; strd := [-1] |}.  (* [1;3] *)
Definition exout : option (aobj * list Z) := Some ({| shape := [3]; adt := F64 |}, [9; 9; 9]).

Example c13_example_call :
  out_wf exout /\ rows exX = [[1; 0]; [4; 3]; [-2; 7]] /\ vec exy = [1; 3] /\
  view_ok2b exX = true /\ view_ok1b exy = true /\
  distance_ideal Euclid exX exy exout = DOk [9; 9; 25] /\
  distance_ideal Manhattan exX exy None = DOk [3; 3; 7] /\
  distance_mach Euclid exX exy None = DOk [Some 9; Some 9; Some 25] /\
  rows (c_array I32 3 2 [1; 0; 4; 3; -2; 7]) = rows exX.
Proof. vm_compute. repeat split; reflexivity. Qed.
Print Assumptions c13_example_call.

(* two threads (iterations {0,2} and {1}) whose micro-operations interleave *)
Example c13_example_interleaving :
  let prog := acc_prog (step_ideal Manhattan) exX exy 2 in
  exists l, Interleave (map (sched_ops prog) [[2; 0]; [1]]%nat) l /\
            Permutation (concat [[2; 0]; [1]]%nat) (seq 0 3) /\
            run_ops l [0; 0; 0] = [3; 3; 7].
Proof.
  intros prog.
  exists [(2%nat, nth 0 (prog 2%nat) id); (1%nat, nth 0 (prog 1%nat) id); (2%nat, nth 1 (prog 2%nat) id);
          (0%nat, nth 0 (prog 0%nat) id); (1%nat, nth 1 (prog 1%nat) id); (0%nat, nth 1 (prog 0%nat) id)].
  split; [|split].
  - apply (il_step [] _ _ [_]). apply (il_step [_] _ _ []). apply (il_step [] _ _ [_]).
    apply (il_step [] _ _ [_]). apply (il_step [_] _ _ []). apply (il_step [] _ _ [_]).
    apply il_nil. repeat constructor.
  - apply perm_trans with [0; 2; 1]%nat; [apply perm_swap|]. apply perm_skip. apply perm_swap.
  - vm_compute. reflexivity.
Qed.
Print Assumptions c13_example_interleaving.

(* rejected inputs exist for every error clause *)
Example c13_example_rejections :
  gen_prepare {| shape := [3]; adt := I32 |} {| shape := [3]; adt := I32 |} None = VErr DataInvalid /\
  gen_prepare {| shape := [2; 3]; adt := I32 |} {| shape := [2]; adt := I32 |} None = VErr DataInvalid /\
  gen_prepare {| shape := [2; 3]; adt := I32 |} {| shape := [3]; adt := I32 |}
              (Some {| shape := [2]; adt := F32 |}) = VErr DataInvalid /\
  gen_prepare {| shape := [2; 3]; adt := I32 |} {| shape := [3]; adt := I32 |}
              (Some {| shape := []; adt := F64 |}) = VErr IndexErr /\
  distance_ideal Euclid (c_array U8 1 1 [1]) {| buf := [1]; dt := U8; shp := [1]; off := 0; strd := [1] |} None
    = DErr TypeErr.
Proof. vm_compute. repeat split; reflexivity. Qed.
Print Assumptions c13_example_rejections.
