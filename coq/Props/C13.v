(* C13 -- distance kernels (enspara/geometry/libdist.pyx) are exact for every dtype, memory layout
   and thread count; malformed input is rejected before the kernels run.
   Property theorems only; proofs live in Proof/DistProofs.v and Base/PFor.v.  gen_prepare /
   gen_check_is_2d / gen_check_is_1d are regenerated from the .pyx on every run
   (Gen/DistValidGen.v).  PARTIAL by nature: a data race or an out-of-bounds access of the compiled
   code is a runtime fact; what is proved is that the modelled loops (each iteration touches cell i
   of `out` only) are schedule independent and that accepted shapes keep every index in bounds. *)
From Coq Require Import List ZArith QArith Permutation.
From EV Require Import PFor DistBase DistValidGen Dist DistProofs.
Import ListNotations.
Open Scope Z_scope.

(* clause "2-norm / 1-norm / fraction of differing coordinates per row ... whatever the memory
   layout ... and whether a caller-supplied output buffer is used": an accepted call returns, per
   row x of the LOGICAL matrix denoted by the view X, sum (x_j-y_j)^2 (the harness checks that the
   returned double is its correctly rounded square root), sum |x_j-y_j|, resp. #{j | x_j <> y_j}
   (divided by the width by the harness). *)
Theorem c13_kernel_spec : forall mt X y out cells,
    out_wf out -> distance_ideal mt X y out = DOk cells -> cells = spec mt (rows X) (vec y).
Proof. exact distance_ideal_spec. Qed.
Print Assumptions c13_kernel_spec.

(* clause "memory layout (C-ordered, Fortran-ordered, strided view)": array objects denoting the
   same logical data give the same result *)
Theorem c13_layout_indep : forall mt X X' y y' out out' cells cells',
    out_wf out -> out_wf out' -> rows X = rows X' -> vec y = vec y' ->
    distance_ideal mt X y out = DOk cells -> distance_ideal mt X' y' out' = DOk cells' ->
    cells = cells'.
Proof. exact layout_indep. Qed.
Print Assumptions c13_layout_indep.

Theorem c13_transposed_view_denotes_transpose : forall a i j, get2 (transpose2 a) i j = get2 a j i.
Proof. exact get2_transpose2. Qed.
Print Assumptions c13_transposed_view_denotes_transpose.

Theorem c13_sliced_view_denotes_slice : forall a r0 rs nr c0 cs nc i j,
    0 <= r0 + Z.of_nat i * rs -> 0 <= c0 + Z.of_nat j * cs ->
    get2 (slice2 a r0 rs nr c0 cs nc) i j =
    get2 a (Z.to_nat (r0 + Z.of_nat i * rs)) (Z.to_nat (c0 + Z.of_nat j * cs)).
Proof. exact get2_slice2. Qed.
Print Assumptions c13_sliced_view_denotes_slice.

(* clause "number of OpenMP threads": (a) generic parallel-for theorem -- iterations partitioned
   into any number of chunks, the threads' read-modify-write streams interleaved arbitrarily *)
Theorem c13_pfor_interleaving_indep : forall (A : Type) (prog : nat -> list (A -> A)) chunks n l (o : list A),
    Permutation (concat chunks) (seq 0 n) ->
    Interleave (map (sched_ops prog) chunks) l ->
    run_ops l o = run_ops (sched_ops prog (seq 0 n)) o.
Proof. exact (@pfor_interleaving_indep). Qed.
Print Assumptions c13_pfor_interleaving_indep.

(* (b) the two-loop kernels (euclidean, manhattan), any arithmetic, barrier between the loops *)
Theorem c13_two_loops_any_interleaving : forall (A : Type) (zero : A) step X y m n ch1 ch2 l1 l2 (out : list A),
    length out = n ->
    Permutation (concat ch1) (seq 0 n) -> Interleave (map (sched_ops (zero_prog zero)) ch1) l1 ->
    Permutation (concat ch2) (seq 0 n) -> Interleave (map (sched_ops (acc_prog step X y m)) ch2) l2 ->
    run_ops l2 (run_ops l1 out) = map (row_value zero step X y m) (seq 0 n).
Proof. exact (@two_loops_interleaving_indep). Qed.
Print Assumptions c13_two_loops_any_interleaving.

(* (c) the one-loop kernel (hamming) *)
Theorem c13_one_loop_any_interleaving : forall (A : Type) (zero : A) step X y m n ch l (out : list A),
    length out = n ->
    Permutation (concat ch) (seq 0 n) -> Interleave (map (sched_ops (ham_prog zero step X y m)) ch) l ->
    run_ops l out = map (row_value zero step X y m) (seq 0 n).
Proof. exact (@one_loop_interleaving_indep). Qed.
Print Assumptions c13_one_loop_any_interleaving.

(* (d) a whole call under any iteration order gives what the sequential call gives *)
Theorem c13_call_schedule_indep : forall (A : Type) (zero : A) step mt X y out sched (cells : list A),
    out_wf out ->
    (forall n, Permutation (fst (sched n)) (seq 0 n) /\ Permutation (snd (sched n)) (seq 0 n)) ->
    distance_sched zero step mt X y out sched = DOk cells ->
    distance zero step mt X y out = DOk cells.
Proof. exact distance_schedule_indep. Qed.
Print Assumptions c13_call_schedule_indep.

(* clause "caller-supplied output buffer (which then holds the result)" *)
Theorem c13_out_buffer_holds_result : forall mt X y o (c : list Z) cells,
    out_wf (Some (o, c)) -> distance_ideal mt X y (Some (o, c)) = DOk cells ->
    distance_ideal mt X y None = DOk cells /\ length cells = length c.
Proof. exact out_buffer_holds_result. Qed.
Print Assumptions c13_out_buffer_holds_result.

(* clause "exact for every dtype": in the repaired code (operands converted to double first) no
   operation of a row leaves the range where IEEE double arithmetic is exact, provided
   |values| <= Bv <= 2^52 and width * (2Bv)^2 (euclidean) / width * 2Bv (manhattan) <= 2^53;
   this covers int8, int16 fully, and int32/int64/float data within the stated bound *)
Theorem c13_double_arithmetic_exact : forall mt Bv X y m i,
    0 <= Bv -> 2 * Bv <= B53 -> Z.of_nat m * term_bound mt Bv <= B53 ->
    (forall j, (j < m)%nat -> Z.abs (get2 X i j) <= Bv /\ Z.abs (get1 y j) <= Bv) ->
    row_value (Some 0) (step_mach mt) X y m i = Some (row_value 0 (step_ideal mt) X y m i).
Proof. exact row_value_mach_exact. Qed.
Print Assumptions c13_double_arithmetic_exact.

(* FINDING (defect D9, repaired in /repo e7defaa): with the difference taken in the element type,
   as the code did, the kernel specification is false for int32 and int64 *)
Theorem c13_old_int32_arithmetic_refuted :
  exists a b, in_range I32 a /\ in_range I32 b /\
              step_old I32 Euclid a b 0 <> step_ideal Euclid a b 0 /\
              step_old I32 Manhattan a b 0 <> step_ideal Manhattan a b 0 /\
              step_old I32 Euclid a b 0 = 4.
Proof. exact old_kernel_spec_refuted_int32. Qed.
Print Assumptions c13_old_int32_arithmetic_refuted.

Theorem c13_old_int64_arithmetic_refuted :
  exists a b, in_range I64 a /\ in_range I64 b /\ step_old I64 Euclid a b 0 < 0.
Proof. exact old_kernel_spec_refuted_int64. Qed.
Print Assumptions c13_old_int64_arithmetic_refuted.

(* clause "inputs of the wrong rank, mismatched width or unsupported buffer type raise an error":
   exact characterisation of what the translated validation accepts ... *)
Theorem c13_validation_accepts_iff : forall X y out,
    (forall e, gen_prepare X y out <> VErr e) <-> accepted X y out.
Proof. exact prepare_accepts_iff. Qed.
Print Assumptions c13_validation_accepts_iff.

(* ... and the error clauses one by one *)
Theorem c13_rejects_wrong_rank_X : forall X y out, rank X <> 2 -> gen_prepare X y out = VErr DataInvalid.
Proof. exact rejects_wrong_rank_X. Qed.
Print Assumptions c13_rejects_wrong_rank_X.

Theorem c13_rejects_wrong_rank_y : forall X y out, rank y <> 1 -> exists e, gen_prepare X y out = VErr e.
Proof. exact rejects_wrong_rank_y. Qed.
Print Assumptions c13_rejects_wrong_rank_y.

Theorem c13_rejects_width_mismatch : forall X y out u v,
    shape_at X 1 = Some u -> shape_at y 0 = Some v -> u <> v -> exists e, gen_prepare X y out = VErr e.
Proof. exact rejects_width_mismatch. Qed.
Print Assumptions c13_rejects_width_mismatch.

Theorem c13_rejects_bad_out : forall X y o,
    is_f64 o = false \/ rank o <> 1 \/ shape_at o 0 <> shape_at X 0 ->
    exists e, gen_prepare X y (Some o) = VErr e.
Proof. exact rejects_bad_out. Qed.
Print Assumptions c13_rejects_bad_out.

(* clause "... rather than reading or writing out of bounds": after acceptance every X[i,j], y[j]
   and out[i] the loops touch (i < len(out), j < len(y): the loop bounds of the kernels) lies
   inside its buffer, for array objects whose views lie inside their buffers *)
Theorem c13_valid_implies_in_bounds : forall (A : Type) (zero : A) step mt X y out sched (cells : list A),
    out_wf out -> view_ok2 X -> view_ok1 y ->
    distance_sched zero step mt X y out sched = DOk cells ->
    exists r, gen_prepare (obj X) (obj y) (option_map fst out) = r /\
    forall i j, (i < length (cells_of zero r out))%nat -> (j < dim y 0)%nat ->
      0 <= addr2 X i j < Z.of_nat (length (buf X)) /\
      0 <= addr1 y j < Z.of_nat (length (buf y)) /\
      (i < length (cells_of zero r out))%nat.
Proof. exact valid_implies_in_bounds. Qed.
Print Assumptions c13_valid_implies_in_bounds.

(* ---- the hypotheses are satisfiable: a Fortran-ordered int32 3x2 matrix, a reversed (negative
   stride) target, a caller-supplied buffer holding garbage *)
Definition exX : ndarr := f_array I32 3 2 [1; 4; -2; 0; 3; 7].          (* rows [1;0] [4;3] [-2;7] *)
Definition exy : ndarr := {| buf := [3; 1]; dt := I32; shp := [2]; off := 1; strd := [-1] |}.  (* [1;3] *)
Definition exout : option (aobj * list Z) := Some ({| shape := [3]; adt := F64 |}, [9; 9; 9]).

Example c13_example_call :
  out_wf exout /\ rows exX = [[1; 0]; [4; 3]; [-2; 7]] /\ vec exy = [1; 3] /\
  view_ok2b exX = true /\ view_ok1b exy = true /\
  distance_ideal Euclid exX exy exout = DOk [9; 9; 25] /\
  distance_ideal Manhattan exX exy None = DOk [3; 3; 7] /\
  distance_mach Euclid exX exy None = DOk [Some 9; Some 9; Some 25] /\
  rows (c_array I32 3 2 [1; 0; 4; 3; -2; 7]) = rows exX.
Proof. vm_compute. repeat split; reflexivity. Qed.
Print Assumptions c13_example_call.

(* two threads (iterations {0,2} and {1}) whose micro-operations interleave *)
Example c13_example_interleaving :
  let prog := acc_prog (step_ideal Manhattan) exX exy 2 in
  exists l, Interleave (map (sched_ops prog) [[2; 0]; [1]]%nat) l /\
            Permutation (concat [[2; 0]; [1]]%nat) (seq 0 3) /\
            run_ops l [0; 0; 0] = [3; 3; 7].
Proof.
  intros prog.
  exists [(2%nat, nth 0 (prog 2%nat) id); (1%nat, nth 0 (prog 1%nat) id); (2%nat, nth 1 (prog 2%nat) id);
          (0%nat, nth 0 (prog 0%nat) id); (1%nat, nth 1 (prog 1%nat) id); (0%nat, nth 1 (prog 0%nat) id)].
  split; [|split].
  - apply (il_step [] _ _ [_]). apply (il_step [_] _ _ []). apply (il_step [] _ _ [_]).
    apply (il_step [] _ _ [_]). apply (il_step [_] _ _ []). apply (il_step [] _ _ [_]).
    apply il_nil. repeat constructor.
  - apply perm_trans with [0; 2; 1]%nat; [apply perm_swap|]. apply perm_skip. apply perm_swap.
  - vm_compute. reflexivity.
Qed.
Print Assumptions c13_example_interleaving.

(* rejected inputs exist for every error clause *)
Example c13_example_rejections :
  gen_prepare {| shape := [3]; adt := I32 |} {| shape := [3]; adt := I32 |} None = VErr DataInvalid /\
  gen_prepare {| shape := [2; 3]; adt := I32 |} {| shape := [2]; adt := I32 |} None = VErr DataInvalid /\
  gen_prepare {| shape := [2; 3]; adt := I32 |} {| shape := [3]; adt := I32 |}
              (Some {| shape := [2]; adt := F32 |}) = VErr DataInvalid /\
  gen_prepare {| shape := [2; 3]; adt := I32 |} {| shape := [3]; adt := I32 |}
              (Some {| shape := []; adt := F64 |}) = VErr IndexErr /\
  distance_ideal Euclid (c_array U8 1 1 [1]) {| buf := [1]; dt := U8; shp := [1]; off := 0; strd := [1] |} None
    = DErr TypeErr.
Proof. vm_compute. repeat split; reflexivity. Qed.
Print Assumptions c13_example_rejections.

(* ======================================================================================
   Round 2: the kernels themselves are regenerated from the CURRENT libdist.pyx
   (translator/tr_distkern.py -> Gen/DistKernGen.v: gen_euclidean, gen_manhattan, gen_hamming as
   lists of prange phases of statements `out[k] = E(out)`, gen_public, gen_supports) and
   cluster/util.py:_get_distance_method (gen_get_distance_method).  Proofs: Proof/DistKernGenProofs.v. *)
From Coq Require Import String.
From EV Require Import DistKernBase DistKernGen DistKernGenProofs.
Open Scope string_scope.
Open Scope list_scope.
Open Scope Z_scope.

(* mechanism "prange over samples; each iteration writes only out[i]": every statement of every
   prange iteration i of every generated kernel assigns cell i and its right-hand side reads no
   other cell of `out` *)
Theorem c13_gen_statements_stay_on_own_cell : forall (A : Type) (ar : arith A) X y m mt k,
    phase_own ar (ph_of k (gen_public ar mt X y m)).
Proof. exact (@gen_phases_own). Qed.
Print Assumptions c13_gen_statements_stay_on_own_cell.

(* ... in the vocabulary of Base/PFor.v: the iteration bodies satisfy own_cell_only and are
   step_body's (write their own cell only) *)
Theorem c13_gen_own_cell_only : forall (A : Type) (ar : arith A) X y m mt k,
    own_cell_only (a_lit ar 0) (iter_body ar (ph_of k (gen_public ar mt X y m))).
Proof. exact gen_own_cell_only. Qed.
Print Assumptions c13_gen_own_cell_only.

Theorem c13_gen_iteration_writes_own_cell : forall (A : Type) (ar : arith A) X y m mt k i (o : list A),
    exec_stmts (ph_of k (gen_public ar mt X y m) i) o =
    step_body (iter_body ar (ph_of k (gen_public ar mt X y m))) o i.
Proof. exact gen_iteration_writes_own_cell. Qed.
Print Assumptions c13_gen_iteration_writes_own_cell.

(* clause "number of OpenMP threads", on the generated text, statement granularity *)
Theorem c13_gen_phase_any_interleaving : forall (A : Type) (ar : arith A) X y m mt k chunks n l (o : list A),
    Permutation (List.concat chunks) (seq 0 n) ->
    Interleave (map (flat_map (ph_of k (gen_public ar mt X y m))) chunks) l ->
    exec_stmts l o = run_phase (ph_of k (gen_public ar mt X y m)) (seq 0 n) o.
Proof. exact gen_phase_any_interleaving. Qed.
Print Assumptions c13_gen_phase_any_interleaving.

(* the generated kernels ARE the model's loop phases (Model/Dist.v), any arithmetic, any order of
   the iterations of each prange: _euclidean = zeroing prange; accumulating prange; sqrt prange *)
Theorem c13_gen_euclidean_is_model : forall (A : Type) (ar : arith A) X y m s1 s2 s3 (out : list A),
    run_phases (gen_euclidean ar X y m) [s1; s2; s3] out =
    run_ops (sched_ops (post_prog (gpost ar Euclid m)) s3)
            (kernel_two_loops (a_lit ar 0) (gstep ar Euclid) X y m s1 s2 out).
Proof. exact (@gen_euclidean_run). Qed.
Print Assumptions c13_gen_euclidean_is_model.

(* _manhattan = zeroing prange; accumulating prange *)
Theorem c13_gen_manhattan_is_model : forall (A : Type) (ar : arith A) X y m s1 s2 (out : list A),
    run_phases (gen_manhattan ar X y m) [s1; s2] out =
    kernel_two_loops (a_lit ar 0) (gstep ar Manhattan) X y m s1 s2 out.
Proof. exact (@gen_manhattan_run). Qed.
Print Assumptions c13_gen_manhattan_is_model.

(* _hamming = one prange: zero; accumulate; divide by n_features *)
Theorem c13_gen_hamming_is_model : forall (A : Type) (ar : arith A) X y m s (out : list A),
    run_phases (gen_hamming ar X y m) [s] out =
    run_ops (sched_ops (fun i => ham_prog (a_lit ar 0) (gstep ar Hamming) X y m i ++
                                 post_prog (gpost ar Hamming m) i) s) out.
Proof. exact (@gen_hamming_run). Qed.
Print Assumptions c13_gen_hamming_is_model.

(* the accumulation statement of the generated text is the model's step (difference in double,
   square / abs / != test), in ideal and in exact-double arithmetic *)
Theorem c13_gen_step_is_ideal_step : forall sq dv mt x yv acc,
    gstep (ar_ideal sq dv) mt x yv acc = step_ideal mt x yv acc.
Proof. exact gstep_ideal. Qed.
Print Assumptions c13_gen_step_is_ideal_step.

Theorem c13_gen_row_is_mach_row : forall sq dv mt X y m i,
    row_value (a_lit (ar_mach sq dv) 0) (gstep (ar_mach sq dv) mt) X y m i =
    row_value (Some 0) (step_mach mt) X y m i.
Proof. exact row_value_gstep_mach. Qed.
Print Assumptions c13_gen_row_is_mach_row.

(* value left in cell i by the generated kernel, any arithmetic, any schedule of every prange *)
Theorem c13_gen_kernel_value : forall (A : Type) (ar : arith A) X y m mt n s1 s2 s3 (out : list A),
    List.length out = n ->
    Permutation s1 (seq 0 n) -> Permutation s2 (seq 0 n) -> Permutation s3 (seq 0 n) ->
    run_phases (gen_public ar mt X y m) (scheds mt s1 s2 s3) out =
    map (fun i => gpost ar mt m (row_value (a_lit ar 0) (gstep ar mt) X y m i)) (seq 0 n).
Proof. exact (@gen_kernel_value). Qed.
Print Assumptions c13_gen_kernel_value.

(* clause 1 end to end on generated text only: generated validation accepts => the generated
   kernel, run on the buffer the validation hands over (fresh or the caller's), leaves
   sqrt / id / (. / width) of the specification norm of every row, whatever the schedule *)
Theorem c13_gen_call_ideal : forall sq dv mt X y out cells s1 s2 s3,
    out_wf out -> distance_ideal mt X y out = DOk cells ->
    Permutation s1 (seq 0 (dim X 0)) -> Permutation s2 (seq 0 (dim X 0)) ->
    Permutation s3 (seq 0 (dim X 0)) ->
    run_phases (gen_public (ar_ideal sq dv) mt X y (dim y 0)) (scheds mt s1 s2 s3)
               (cells_of 0 (gen_prepare (obj X) (obj y) (option_map fst out)) out) =
    map (gpost (ar_ideal sq dv) mt (dim y 0)) (spec mt (rows X) (vec y)) /\
    cells = spec mt (rows X) (vec y).
Proof. exact gen_call_ideal. Qed.
Print Assumptions c13_gen_call_ideal.

(* clause "exact for every dtype" on the generated text: within the magnitude bound no operation
   of the generated kernel rounds *)
Theorem c13_gen_kernel_double_exact : forall sq dv mt Bv X y m n s1 s2 s3 (out : list (option Z)),
    List.length out = n ->
    Permutation s1 (seq 0 n) -> Permutation s2 (seq 0 n) -> Permutation s3 (seq 0 n) ->
    0 <= Bv -> 2 * Bv <= B53 -> Z.of_nat m * term_bound mt Bv <= B53 ->
    (forall i j, (i < n)%nat -> (j < m)%nat -> Z.abs (get2 X i j) <= Bv /\ Z.abs (get1 y j) <= Bv) ->
    run_phases (gen_public (ar_mach sq dv) mt X y m) (scheds mt s1 s2 s3) out =
    map (fun i => gpost (ar_mach sq dv) mt m (Some (row_value 0 (step_ideal mt) X y m i))) (seq 0 n).
Proof. exact gen_kernel_mach_exact. Qed.
Print Assumptions c13_gen_kernel_double_exact.

(* "every supported element type": the fused types of the .pyx are the model's dispatch table *)
Theorem c13_gen_supports_is_model : forall mt d, gen_supports mt d = supports mt d.
Proof. exact gen_supports_is_model. Qed.
Print Assumptions c13_gen_supports_is_model.

(* mechanism "metric names map to kernels" (cluster/util.py:_get_distance_method, translated) *)
Theorem c13_metric_names_map_to_kernels : forall s,
    method_kernel (gen_get_distance_method (MStr s)) =
    if String.eqb s "euclidean" then Some Euclid
    else if String.eqb s "cityblock" || String.eqb s "manhattan" then Some Manhattan
    else None.
Proof. exact get_distance_method_kernels. Qed.
Print Assumptions c13_metric_names_map_to_kernels.

Theorem c13_metric_callable_is_returned : gen_get_distance_method MCallable = RSelf.
Proof. exact get_distance_method_callable. Qed.
Print Assumptions c13_metric_callable_is_returned.

Theorem c13_metric_unknown_is_rejected : forall s,
    ~ In s ("rmsd" :: "manhattan" :: gen_msmbuilder_libdistance_metrics) ->
    gen_get_distance_method (MStr s) = RImproperlyConfigured.
Proof. exact get_distance_method_unknown_string. Qed.
Print Assumptions c13_metric_unknown_is_rejected.

(* ---- the generated kernels run on the example call above (Fortran-ordered X, reversed y),
   prange iterations in scrambled orders, integer square root / percentage for sqrt and division *)
Example c13_example_generated_kernels :
  let ar := ar_ideal Z.sqrt (fun a n => 100 * a / n) in
  run_phases (gen_public ar Euclid exX exy 2) [[2; 0; 1]; [1; 2; 0]; [0; 2; 1]]%nat [9; 9; 9] = [3; 3; 5] /\
  run_phases (gen_public ar Manhattan exX exy 2) [[2; 0; 1]; [1; 2; 0]]%nat [9; 9; 9] = [3; 3; 7] /\
  run_phases (gen_public ar Hamming exX exy 2) [[1; 0; 2]]%nat [9; 9; 9] = [50; 50; 100] /\
  run_phases (gen_public (ar_mach (option_map Z.sqrt) (fun a n => option_map (fun v => v / n) a))
                         Euclid exX exy 2) [[2; 0; 1]; [1; 2; 0]; [0; 2; 1]]%nat [None; None; None]
    = [Some 3; Some 3; Some 5] /\
  method_kernel (gen_get_distance_method (MStr "cityblock")) = Some Manhattan /\
  gen_get_distance_method (MStr "hamming") = RLibdistance /\
  gen_get_distance_method (MStr "rmsd") = RAttr "md" "rmsd" /\
  gen_get_distance_method (MStr "no-such-metric") = RImproperlyConfigured.
Proof. vm_compute. repeat split; reflexivity. Qed.
Print Assumptions c13_example_generated_kernels.
