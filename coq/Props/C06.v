(* C06 -- ragged-array writes keep all views coherent over any operation history.
   Property theorems only; proofs live in Proof/RaggedOpsProofs.v.  The model (Model/RaggedOps.v) keeps
   the three slots of the class (_data, _array, lengths) = (data, rows, lens) and follows the code's
   writers along their two routes; `step_s` / `run_s` are the same operations on a plain list of rows.
   The model is tied to enspara/ra/ra.py by the correspondence harness (harness/props/c06.py), which
   compares all three slots after every operation of generated histories.
   Aliasing clauses (copy never aliases, operators return new objects) are heap facts outside a pure
   model; they are runtime checks of the harness. *)
From Coq Require Import List ZArith.
From EV Require Import PySlice RaggedOps RaggedOpsProofs.
Import ListNotations.
Open Scope nat_scope.

(* Both constructors (nested rows; flat data + lengths) establish the invariant
   Coh s := rows s = partition (data s) (lens s) /\ sum (lens s) = length (data s). *)
Theorem c06_constructor_from_rows_coherent : forall rs : list (list Z), Coh (of_rows rs) /\ rows (of_rows rs) = rs.
Proof. intros rs. split; [apply coh_of_rows|apply of_rows_rows]. Qed.
Print Assumptions c06_constructor_from_rows_coherent.

Theorem c06_constructor_from_flat_coherent : forall (d : list Z) ls s, of_flat d ls = Ok s -> Coh s.
Proof. exact (@coh_of_flat Z). Qed.
Print Assumptions c06_constructor_from_flat_coherent.

(* Every writer (row / rows / row-slice assignment, 2-D, pair, mask assignment, augmented assignment,
   append) re-synchronises the three slots. *)
Theorem c06_every_write_keeps_slots_coherent : forall s o s', Coh s -> step s o = Ok s' -> Coh s'.
Proof. exact step_coh. Qed.
Print Assumptions c06_every_write_keeps_slots_coherent.

(* ... hence so does every finite history, rejected operations included. *)
Theorem c06_history_keeps_slots_coherent : forall ops s, Coh s -> Coh (run s ops).
Proof. exact run_coh. Qed.
Print Assumptions c06_history_keeps_slots_coherent.

(* One write on the object is the same write on the list of its rows, error for error. *)
Theorem c06_write_refines_list_of_rows : forall s o, Coh s -> step_s (rows s) o = res_map rows (step s o).
Proof. exact step_refines. Qed.
Print Assumptions c06_write_refines_list_of_rows.

(* A rejected write leaves all three slots as they were. *)
Theorem c06_rejected_write_changes_nothing : forall s o e, step s o = Err e -> apply s o = s.
Proof. exact apply_rejected. Qed.
Print Assumptions c06_rejected_write_changes_nothing.

(* Any history applied to the object equals the same history applied to the list-of-rows model. *)
Theorem c06_history_refines_list_of_rows : forall ops s, Coh s -> rows (run s ops) = run_s (rows s) ops.
Proof. exact run_refines. Qed.
Print Assumptions c06_history_refines_list_of_rows.

(* After any history every view agrees with the model: rows, flat data, lengths, starts ... *)
Theorem c06_all_views_agree_after_history : forall ops s, Coh s ->
  let rs := run_s (rows s) ops in
  rows (run s ops) = rs /\ data (run s ops) = concat rs /\ lens (run s ops) = map (@length Z) rs /\
  starts (lens (run s ops)) = starts (map (@length Z) rs).
Proof. exact run_views. Qed.
Print Assumptions c06_all_views_agree_after_history.

(* ... and the whole object is the constructor applied to the model's rows, so every observation
   (comparisons, arithmetic, reductions, element reads) is a function of those rows alone. *)
Theorem c06_object_determined_by_model_rows : forall ops s, Coh s -> run s ops = of_rows (run_s (rows s) ops).
Proof. exact run_canonical. Qed.
Print Assumptions c06_object_determined_by_model_rows.

Theorem c06_observations_agree_after_history : forall ops s q, Coh s ->
  observe (run s ops) q = observe (of_rows (run_s (rows s) ops)) q.
Proof. exact observe_after_run. Qed.
Print Assumptions c06_observations_agree_after_history.

(* a[r, c] read through the flat data is column c of row r (negative wrap, IndexError outside). *)
Theorem c06_element_read_is_row_read : forall s rc, Coh s ->
  get_elem s rc = match cell (map (@length Z) (rows s)) rc with
                  | None => Err EIndex
                  | Some c => Ok (get2 (rows s) c)
                  end.
Proof. exact get_elem_refines. Qed.
Print Assumptions c06_element_read_is_row_read.

(* Unary / scalar operators (comparisons, arithmetic, ~): element-wise, row structure kept, result coherent. *)
Theorem c06_scalar_operator_structure : forall (A B : Type) (f : A -> B) (s : st A), Coh s ->
  Coh (map_op f s) /\ lens (map_op f s) = lens s /\ data (map_op f s) = map f (data s) /\
  rows (map_op f s) = map (map f) (rows s).
Proof. exact (@map_op_structure). Qed.
Print Assumptions c06_scalar_operator_structure.

(* Operators between two ragged arrays: element-wise on the flat data, lengths of the left operand kept. *)
Theorem c06_binary_operator_structure : forall (A B C : Type) (f : A -> B -> C) (s : st A) (t : st B) u, Coh s ->
  zip_op f s t = Ok u ->
  Coh u /\ lens u = lens s /\
  data u = map (fun p => f (fst p) (snd p)) (combine (data s) (data t)) /\
  length (data u) = length (data s).
Proof. exact (@zip_op_structure). Qed.
Print Assumptions c06_binary_operator_structure.

(* Cell writes (tuple / mask assignment) never change the row structure and leave unselected cells alone. *)
Theorem c06_cell_write_keeps_lengths : forall s cs v s', assign_cells s cs v = Ok s' -> lens s' = lens s.
Proof. exact routeB_lens. Qed.
Print Assumptions c06_cell_write_keeps_lengths.

Theorem c06_cell_write_leaves_other_cells : forall s cs v s' cells j,
  assign_cells s cs v = Ok s' -> resolve (lens s) cs = Ok cells ->
  ~ In j (map (flat_of (lens s)) cells) -> nth j (data s') 0%Z = nth j (data s) 0%Z.
Proof. exact routeB_untouched. Qed.
Print Assumptions c06_cell_write_leaves_other_cells.

(* What the list-of-rows model itself means for a cell write: row lengths are kept, cells outside the
   selection keep their value, and the k-th value lands in the k-th selected cell unless the same cell is
   selected again later (NumPy: last write wins). *)
Theorem c06_model_cell_write_keeps_row_lengths : forall cells vals rs,
  map (@length Z) (write_cells rs cells vals) = map (@length Z) rs.
Proof. exact write_cells_lengths. Qed.
Print Assumptions c06_model_cell_write_keeps_row_lengths.

Theorem c06_model_cell_write_leaves_other_cells : forall cells vals rs rc',
  ~ In rc' cells -> get2 (write_cells rs cells vals) rc' = get2 rs rc'.
Proof. exact write_cells_get_other. Qed.
Print Assumptions c06_model_cell_write_leaves_other_cells.

Theorem c06_model_cell_write_stores_value : forall cells vals rs k rc v,
  nth_error cells k = Some rc -> nth_error vals k = Some v ->
  ~ In rc (skipn (S k) cells) ->
  (forall rc0, In rc0 cells -> fst rc0 < length rs /\ snd rc0 < nth (fst rc0) (map (@length Z) rs) 0) ->
  get2 (write_cells rs cells vals) rc = v.
Proof. exact write_cells_get_written. Qed.
Print Assumptions c06_model_cell_write_stores_value.

(* Non-vacuity: a concrete history mixing both routes, a rejected write and an append. *)
Example c06_example :
  let s0 := of_rows [[0; 1; 2]; [3; 4]; [5; 6; 7; 8]]%Z in
  let ops := [ Set2D (RSlice None None (Some (-1)%Z)) (CSlice None None (Some (-2)%Z)) (BCells (CVec [1; 2; 3; 4; 5]%Z));
               SetRows (RSlice (Some 0%Z) None (Some 2%Z)) (RRows [[9; 9]; [7]]%Z);
               SetRow 1%Z (CScalar 7%Z);
               AugMask [[true; false]; [false; true]; [true]] BMul 2%Z;
               Append [[1; 1; 1]]%Z;
               Set2D (RList [(-1)%Z]) (CInt 3%Z) (BCells (CScalar 0%Z)) ] in
  Coh s0 /\
  run s0 ops = of_rows [[18; 9]; [3; 6]; [14]; [1; 1; 1]]%Z /\
  run_s (rows s0) ops = [[18; 9]; [3; 6]; [14]; [1; 1; 1]]%Z /\
  step (run s0 (firstn 2 ops)) (SetRow 1%Z (CScalar 7%Z)) = Err EReject /\
  observe (run s0 ops) (OCmp CGt 5%Z) = VRA [1; 1; 0; 1; 1; 0; 0; 0]%Z [[1; 1]; [0; 1]; [1]; [0; 0; 0]]%Z [2; 2; 1; 3].
Proof. vm_compute. repeat split; reflexivity. Qed.
Print Assumptions c06_example.

(* ================================================================== round 2: the write path regenerated from the source
   translator/tr_ragged_ops.py walks the CURRENT enspara/ra/ra.py and emits Gen/RaOpsGen.v: for each index form of
   __setitem__ the statements that touch the object, the append branches, the constructor's slot sources per input
   class, the operator calls, the starts / size definitions in effect.  Model/RaggedOpsGen.v gives each emitted
   statement the meaning "assign exactly that slot"; the theorems below tie the result to Model/RaggedOps.v. *)
From EV Require Import RaBase RaGen RaOpsBase RaOpsGen RaggedOpsGen RaOpsGenProofs.
Open Scope nat_scope.

(* Every writer re-synchronises: each of the 11 branches of the current __setitem__ ends with both
   representations current (a branch that writes _data and skips the rebuild of _array, or the reverse,
   has no flag: skipped_rebuild_has_no_flag). *)
Theorem c06_gen_every_setitem_branch_resyncs : forall k : ikind, resync gen_setitem_path k = true.
Proof. exact gen_every_branch_resyncs. Qed.
Print Assumptions c06_gen_every_setitem_branch_resyncs.

(* ... and the flag means what it says, for ANY table of branches: flagged branches keep the slots coherent. *)
Theorem c06_gen_resync_flag_is_sound : forall (paths : ikind -> list weff) o s s',
  Coh s -> resync paths (kind_of o) = true -> run_setitem paths o s = Ok s' -> Coh s'.
Proof. exact resync_sound. Qed.
Print Assumptions c06_gen_resync_flag_is_sound.

(* The dispatch of the current source: a[int] / a[slice] / a[list] / a[ndarray] write (a copy of) the row view and
   re-run the constructor; a[int, slice] writes the row view in place and re-runs the constructor; every other
   tuple form writes the flat data and rebuilds the row view; a mask is turned into pairs by where(). *)
Theorem c06_gen_setitem_dispatch :
  (forall k, In k [KInt; KSlice; KList; KArr] -> gen_setitem_path k = [WRowCopy; WCtorCopy]) /\
  gen_setitem_path KIntSl = [WRowInPlace; WCtorView] /\
  (forall k, In k [KSlSl; KSlInt; KSlList; KListSl; KPair] -> gen_setitem_path k = [WFlat; WRebuild]) /\
  gen_setitem_path KMask = [WWhere].
Proof. exact gen_dispatch. Qed.
Print Assumptions c06_gen_setitem_dispatch.

(* The flat offsets written (regenerated _handle_negative_indices / _convert_from_2d arithmetic called with
   lengths=self.lengths, starts=self.starts, starts regenerated from the property in effect) are the model's
   start_of ls r + c, defined on exactly the cells the model accepts. *)
Theorem c06_gen_flat_offset_is_model_offset : forall (ls : list nat) (r c : Z),
  gen_w_offset (zl ls) r c = option_map (fun rc => Z.of_nat (flat_of ls rc)) (cell ls (r, c)).
Proof. exact gen_w_offset_spec. Qed.
Print Assumptions c06_gen_flat_offset_is_model_offset.

(* Every write, executed statement by statement as the current source orders them, is the model's step
   (so all the round-1 theorems about step / run hold of the regenerated structure).  Side condition: an
   append to an array without data is an append to an array without rows (every row non-empty). *)
Theorem c06_gen_write_is_model_write : forall s o,
  (forall vs, o = Append vs -> data s = [] -> lens s = [] /\ vs <> []) -> gen_step s o = step s o.
Proof. exact gen_step_refines. Qed.
Print Assumptions c06_gen_write_is_model_write.

Theorem c06_gen_write_keeps_slots_coherent : forall s o s', Coh s -> gen_step s o = Ok s' ->
  (forall vs, o = Append vs -> data s = [] -> lens s = [] /\ vs <> []) -> Coh s'.
Proof. exact gen_step_coherent. Qed.
Print Assumptions c06_gen_write_keeps_slots_coherent.

(* append assigns every slot the class has (no cached attribute survives it) and rebuilds the row view last. *)
Theorem c06_gen_append_resets_every_slot :
  gen_slots = [SData; SArray; SLengths] /\
  covers (path_writes gen_append_path) gen_slots = true /\
  covers (path_writes gen_append_empty_path) gen_slots = true /\
  append_resync gen_append_path = true /\ append_resync gen_append_empty_path = true.
Proof. split; [exact gen_slots_are_the_three|exact gen_append_resets_every_slot]. Qed.
Print Assumptions c06_gen_append_resets_every_slot.

(* The constructor: copy defaults to True, under that default no branch (nor try/except fall-back) takes the flat
   data from the caller without copying, and the regenerated branches are the model's two constructors. *)
Theorem c06_gen_constructor_copies_by_default :
  gen_ctor_copy_default = true /\
  forallb (path_fresh gen_ctor_copy_default)
    [gen_ctor_nested; gen_ctor_flat1; gen_ctor_given_rect; gen_ctor_given_ragged; gen_ctor_empty; gen_ctor_fallbacks] = true.
Proof. exact gen_ctor_copies_by_default. Qed.
Print Assumptions c06_gen_constructor_copies_by_default.

Theorem c06_gen_constructor_is_model_constructor : forall (rs : list (list Z)) (d : list Z) (ls : list nat),
  gen_of_rows rs = Ok (of_rows rs) /\ gen_of_flat d ls = of_flat d ls /\
  exec_ctor gen_ctor_flat1 [] d [] blank = Ok (of_rows [d]).
Proof. intros rs d ls. split; [apply gen_of_rows_spec|split; [apply gen_of_flat_spec|apply gen_one_row_spec]]. Qed.
Print Assumptions c06_gen_constructor_is_model_constructor.

(* map_operator / __invert__ map over the flat data of a NEW object with the same lengths; each of the 23
   operator methods hands its own name to map_operator. *)
Theorem c06_gen_operators_are_map_op : forall (f : Z -> Z) (s : st Z), Coh s ->
  exec_opcall gen_map_operator_call f s = Ok (map_op f s) /\ exec_opcall gen_invert_call f s = Ok (map_op f s).
Proof. exact (@gen_map_operator_spec Z Z). Qed.
Print Assumptions c06_gen_operators_are_map_op.

Theorem c06_gen_operators_return_new_objects :
  oc_new_object gen_map_operator_call = true /\ oc_new_object gen_invert_call = true /\
  oc_copy_arg gen_map_operator_call = None /\ oc_copy_arg gen_invert_call = None /\
  optable_ok gen_operator_table = true /\ length gen_operator_table = 23.
Proof. exact gen_operators_return_new_objects. Qed.
Print Assumptions c06_gen_operators_return_new_objects.

(* starts (the definition in effect, a function of lengths alone) and size (both definitions) are the model's. *)
Theorem c06_gen_starts_is_model_starts : forall ls : list nat, ls <> [] -> gen_ops_starts (zl ls) = zl (starts ls).
Proof. exact gen_ops_starts_spec. Qed.
Print Assumptions c06_gen_starts_is_model_starts.

Theorem c06_gen_size_is_data_length : forall s : st Z,
  In gen_size_in_effect gen_size_defs /\ forall d, In d gen_size_defs -> den_size d s = length (data s).
Proof. exact (@gen_size_spec Z). Qed.
Print Assumptions c06_gen_size_is_data_length.

(* Non-vacuity: the history of c06_example through the regenerated structure; a branch table that skips the rebuild
   on 2-D slice assignment leaves the slots out of step on a rectangular array. *)
Example c06_gen_example :
  let s0 := of_rows [[0; 1; 2]; [3; 4]; [5; 6; 7; 8]]%Z in
  let ops := [ Set2D (RSlice None None (Some (-1)%Z)) (CSlice None None (Some (-2)%Z)) (BCells (CVec [1; 2; 3; 4; 5]%Z));
               SetRows (RSlice (Some 0%Z) None (Some 2%Z)) (RRows [[9; 9]; [7]]%Z);
               AugMask [[true; false]; [false; true]; [true]] BMul 2%Z;
               Append [[1; 1; 1]]%Z;
               Set2D (RList [(-1)%Z]) (CInt 2%Z) (BCells (CScalar 0%Z)) ] in
  let gen_apply s o := match gen_step s o with Ok s' => s' | Err _ => s end in
  let bad k := match k with KSlSl => [WFlat] | _ => gen_setitem_path k end in
  fold_left gen_apply ops s0 = of_rows [[18; 9]; [3; 6]; [14]; [1; 1; 0]]%Z /\
  fold_left gen_apply ops s0 = run s0 ops /\
  resync bad KSlSl = false /\
  run_setitem bad (Set2D (RSlice None None None) (CSlice (Some 0%Z) (Some 1%Z) None) (BCells (CScalar 7%Z)))
              (of_rows [[1; 2]; [3; 4]]%Z) = Ok (mkst [7; 2; 7; 4]%Z [[1; 2]; [3; 4]]%Z [2; 2]).
Proof. vm_compute. repeat split; reflexivity. Qed.
Print Assumptions c06_gen_example.

(* Observe, append, observe again: starts is recomputed from the extended lengths (nothing cached survives the
   append), the offsets read before the append are a prefix of those read after it, and the first appended row
   starts where the old flat data ended. *)
Theorem c06_starts_fresh_after_append : forall s vs s', Coh s -> step s (Append vs) = Ok s' ->
  observe s' OStarts = VNats (starts (lens s ++ map (@length Z) vs)) /\
  firstn (length (lens s)) (starts (lens s')) = starts (lens s) /\
  nth (length (lens s)) (starts (lens s')) 0 = length (data s).
Proof. exact starts_after_append. Qed.
Print Assumptions c06_starts_fresh_after_append.
