(* C04 — every transition-matrix builder returns a valid, stationary and (where promised)
   reversible model.  Property theorems only; proofs live in Proof/BuildersProofs.v.
   Model: Model/Builders.v (normalize_builder, transpose_builder, mle_builder = guard + post-iteration
   step of builders.mle, apply_prior, row_normalize; exact arithmetic over Q).
   A builder result is (counts, probabilities, populations-or-None); None = the input is rejected.
   vecmat pi T j is entry j of the row vector pi*T; pops X = rowsum X / sum X. *)
From Coq Require Import List QArith.
From EV Require Import Builders BuildersProofs BuildersUnique BuildersBase BuildersGen BuildersGenProofs.
Import ListNotations.
Open Scope Q_scope.

(* ---- clause: rows are probability distributions for every state with outgoing counts
        (row normalisation with the zero-row guard: other rows stay zero) *)
Theorem c04_rownorm_stochastic : forall C i,
  nonneg_row (row C i) ->
  let r' := row (row_normalize C) i in
  length r' = length (row C i) /\
  nonneg_row r' /\
  (0 < qsum (row C i) -> qsum r' == 1) /\
  (~ 0 < qsum (row C i) -> forall x, In x r' -> x == 0).
Proof. exact rownorm_stochastic. Qed.
Print Assumptions c04_rownorm_stochastic.

(* ---- clause: the row-normalised matrix equals counts divided by row totals *)
Theorem c04_rownorm_def : forall C i j,
  0 < qsum (row C i) -> ent (row_normalize C) i j * qsum (row C i) == ent C i j.
Proof. exact rownorm_def. Qed.
Print Assumptions c04_rownorm_def.

(* ---- normalize: returned counts are C + prior (prior counts are added before estimation) *)
Theorem c04_normalize_counts : forall C p eq C' T opi,
  normalize_builder C p eq = Some (C', T, opi) ->
  forall i j, (i < length C)%nat -> (j < length C)%nat -> ent C' i j == ent C i j + prior_ent p i j.
Proof. exact normalize_counts. Qed.
Print Assumptions c04_normalize_counts.

(* ---- normalize: T is square, non-negative, each row with outgoing counts sums to one, rows without
        stay zero, and T_ij * rowsum_i(C+prior) = (C+prior)_ij *)
Theorem c04_normalize_stochastic : forall C p eq C' T opi,
  normalize_builder C p eq = Some (C', T, opi) -> nonneg_mat C -> nonneg_prior p ->
  length T = length C /\
  forall i, (i < length C)%nat ->
    length (row T i) = length C /\ nonneg_row (row T i) /\
    (0 < qsum (row C' i) -> qsum (row T i) == 1) /\
    (~ 0 < qsum (row C' i) -> forall x, In x (row T i) -> x == 0) /\
    (forall j, 0 < qsum (row C' i) -> ent T i j * qsum (row C' i) == ent C' i j).
Proof. exact normalize_stochastic. Qed.
Print Assumptions c04_normalize_stochastic.

(* ---- normalize, populations requested: the returned vector is a probability vector that is
        stationary under T.  (The model computes it by exact elimination and returns it only after
        checking it; the code uses LAPACK, compared numerically - see c04_partial note below.) *)
Theorem c04_normalize_pi_stationary : forall C p C' T pi,
  normalize_builder C p true = Some (C', T, Some pi) ->
  length pi = length C /\
  (forall j, (j < length C)%nat -> vecmat pi T j == nth j pi 0) /\
  qsum pi == 1 /\ (forall x, In x pi -> 0 <= x).
Proof. exact normalize_pi_stationary. Qed.
Print Assumptions c04_normalize_pi_stationary.

(* ---- populations are not computed when not asked for *)
Theorem c04_normalize_no_pi_when_off : forall C p C' T opi,
  normalize_builder C p false = Some (C', T, opi) -> opi = None.
Proof. exact normalize_no_pi_when_off. Qed.
Print Assumptions c04_normalize_no_pi_when_off.

(* ---- transpose: returned counts are the symmetrisation ((C+prior) + (C+prior)^T)/2 *)
Theorem c04_transpose_counts : forall C p eq C' T opi,
  transpose_builder C p eq = Some (C', T, opi) ->
  forall i j, (i < length C)%nat -> (j < length C)%nat ->
  ent C' i j == ((ent C i j + prior_ent p i j) + (ent C j i + prior_ent p j i)) / 2.
Proof. exact transpose_counts. Qed.
Print Assumptions c04_transpose_counts.

(* ---- transpose: T is square, non-negative, rows with (symmetrised) counts sum to one, and
        T_ij * rowsum_i(C') = C'_ij *)
Theorem c04_transpose_stochastic : forall C p eq C' T opi,
  transpose_builder C p eq = Some (C', T, opi) -> nonneg_mat C -> nonneg_prior p ->
  length T = length C /\
  forall i, (i < length C)%nat ->
    length (row T i) = length C /\ nonneg_row (row T i) /\
    (0 < qsum (row C' i) -> qsum (row T i) == 1) /\
    (forall j, (j < length C)%nat -> 0 < qsum (row C' i) -> ent T i j * qsum (row C' i) == ent C' i j).
Proof. exact transpose_stochastic. Qed.
Print Assumptions c04_transpose_stochastic.

(* ---- transpose: the populations are a probability vector ... *)
Theorem c04_transpose_pi_prob : forall C p C' T pi,
  transpose_builder C p true = Some (C', T, Some pi) -> nonneg_mat C -> nonneg_prior p ->
  length pi = length C /\ (forall i, 0 <= nth i pi 0) /\ (0 < total C' -> qsum pi == 1).
Proof. exact transpose_pi_prob. Qed.
Print Assumptions c04_transpose_pi_prob.

(* ---- ... in detailed balance with T ... *)
Theorem c04_transpose_detailed_balance : forall C p C' T pi,
  transpose_builder C p true = Some (C', T, Some pi) -> nonneg_mat C -> nonneg_prior p ->
  forall i j, (i < length C)%nat -> (j < length C)%nat ->
  nth i pi 0 * ent T i j == nth j pi 0 * ent T j i.
Proof. exact transpose_detailed_balance. Qed.
Print Assumptions c04_transpose_detailed_balance.

(* ---- ... and stationary under T (no connectivity assumption needed) *)
Theorem c04_transpose_stationary : forall C p C' T pi,
  transpose_builder C p true = Some (C', T, Some pi) -> nonneg_mat C -> nonneg_prior p ->
  forall j, (j < length C)%nat -> vecmat pi T j == nth j pi 0.
Proof. exact transpose_stationary. Qed.
Print Assumptions c04_transpose_stationary.

(* ---- detailed balance + row sums one (or zero population) => stationarity, for any pair *)
Theorem c04_db_stationary : forall (T : mat) (pi : list Q) j,
  let n := length T in
  (forall i, (i < n)%nat -> nth i pi 0 * ent T i j == nth j pi 0 * ent T j i) ->
  (qsum (map (fun k => ent T j k) (seq 0 n)) == 1 \/ nth j pi 0 == 0) ->
  vecmat pi T j == nth j pi 0.
Proof. exact db_stationary. Qed.
Print Assumptions c04_db_stationary.

(* ---- maximum likelihood, post-iteration step: ANY symmetric non-negative X with positive row sums
        gives a stochastic T = X/rowsum X and a probability vector pi = rowsum X/sum X that are in
        detailed balance and stationary *)
Theorem c04_sym_X_reversible : forall X T pi,
  mle_post X = Some (T, pi) -> nonneg_mat X ->
  (forall i j, (i < length X)%nat -> (j < length X)%nat -> ent X i j == ent X j i) ->
  let n := length X in
  length T = n /\ length pi = n /\
  (forall i, (i < n)%nat -> length (row T i) = n /\ nonneg_row (row T i) /\ qsum (row T i) == 1) /\
  (forall i, 0 <= nth i pi 0) /\
  ((0 < n)%nat -> qsum pi == 1) /\
  (forall i j, (i < n)%nat -> (j < n)%nat -> nth i pi 0 * ent T i j == nth j pi 0 * ent T j i) /\
  (forall j, (j < n)%nat -> vecmat pi T j == nth j pi 0).
Proof. exact sym_X_reversible. Qed.
Print Assumptions c04_sym_X_reversible.

(* ---- mle builder (guard + post-iteration step; X is whatever symmetric matrix the iteration of
        property C12 ended with): returned counts are C + prior, every state has outgoing counts,
        and (T, pi) is stochastic, reversible and stationary *)
Theorem c04_mle_builder_sound : forall C p eq X C' T opi,
  mle_builder C p eq X = Some (C', T, opi) -> nonneg_mat X ->
  (forall i j, (i < length X)%nat -> (j < length X)%nat -> ent X i j == ent X j i) ->
  let n := length X in
  (forall i j, (i < length C)%nat -> (j < length C)%nat -> ent C' i j == ent C i j + prior_ent p i j) /\
  (forall i, (i < length C)%nat -> 0 < qsum (row C' i)) /\
  length T = n /\
  (forall i, (i < n)%nat -> length (row T i) = n /\ nonneg_row (row T i) /\ qsum (row T i) == 1) /\
  exists pi, (opi = if eq then Some pi else None) /\ length pi = n /\
    (forall i, 0 <= nth i pi 0) /\ ((0 < n)%nat -> qsum pi == 1) /\
    (forall i j, (i < n)%nat -> (j < n)%nat -> nth i pi 0 * ent T i j == nth j pi 0 * ent T j i) /\
    (forall j, (j < n)%nat -> vecmat pi T j == nth j pi 0).
Proof. exact mle_builder_sound. Qed.
Print Assumptions c04_mle_builder_sound.

(* ---- prior counts are added before estimation: builder (C, prior) = builder (C + prior, no prior) *)
Theorem c04_prior_before_estimation_normalize : forall C p eq C1,
  apply_prior C p = Some C1 -> normalize_builder C p eq = normalize_builder C1 NoPrior eq.
Proof. exact prior_before_estimation_normalize. Qed.
Print Assumptions c04_prior_before_estimation_normalize.

Theorem c04_prior_before_estimation_transpose : forall C p eq C1,
  apply_prior C p = Some C1 -> transpose_builder C p eq = transpose_builder C1 NoPrior eq.
Proof. exact prior_before_estimation_transpose. Qed.
Print Assumptions c04_prior_before_estimation_transpose.

Theorem c04_prior_before_estimation_mle : forall C p eq X C1,
  apply_prior C p = Some C1 -> mle_builder C p eq X = mle_builder C1 NoPrior eq X.
Proof. exact prior_before_estimation_mle. Qed.
Print Assumptions c04_prior_before_estimation_mle.

(* ---- C + prior is entry-wise addition and keeps counts non-negative *)
Theorem c04_prior_entrywise : forall C p C1 i j,
  apply_prior C p = Some C1 -> (i < length C)%nat -> (j < length C)%nat ->
  ent C1 i j == ent C i j + prior_ent p i j.
Proof. exact apply_prior_ent. Qed.
Print Assumptions c04_prior_entrywise.

(* ---- rejected inputs (not totalised away): exactly non-square counts or a prior matrix of another
        shape are rejected by every builder; mle additionally rejects a state without outgoing counts *)
Theorem c04_rejected_shapes : forall C p,
  apply_prior C p = None <->
  is_square C = false \/ exists P, p = PMat P /\ (is_square P = false \/ length P <> length C).
Proof. exact apply_prior_none_iff. Qed.
Print Assumptions c04_rejected_shapes.

Theorem c04_builders_reject_bad_shape : forall C p eq X,
  apply_prior C p = None ->
  normalize_builder C p eq = None /\ transpose_builder C p eq = None /\ mle_builder C p eq X = None.
Proof. exact builders_reject_bad_shape. Qed.
Print Assumptions c04_builders_reject_bad_shape.

Theorem c04_mle_rejects_no_outgoing : forall C p eq X C1,
  apply_prior C p = Some C1 -> rows_positive C1 = false -> mle_builder C p eq X = None.
Proof. exact mle_builder_rejects_no_outgoing. Qed.
Print Assumptions c04_mle_rejects_no_outgoing.

(* ---- why the eigen-solver's populations must be the model's: an irreducible (strongly connected)
        row-stochastic non-negative matrix has at most one stationary vector of given total mass.
        reaches T i j := a path i -> ... -> j along positive entries of T; irreducible T := all pairs.
        sumn n f := f 0 + ... + f (n-1). *)
Theorem c04_stationary_unique : forall (T : mat) (pi rho : list Q),
  let n := length T in
  (forall i j, (i < n)%nat -> (j < n)%nat -> 0 <= ent T i j) ->
  (forall i, (i < n)%nat -> sumn n (fun j => ent T i j) == 1) ->
  irreducible T ->
  (forall j, (j < n)%nat -> vecmat pi T j == nth j pi 0) ->
  (forall j, (j < n)%nat -> vecmat rho T j == nth j rho 0) ->
  sumn n (fun i => nth i pi 0) == sumn n (fun i => nth i rho 0) ->
  forall i, (i < n)%nat -> nth i pi 0 == nth i rho 0.
Proof. exact stationary_unique. Qed.
Print Assumptions c04_stationary_unique.

(* ---- normalize on strongly connected counts in which every state has outgoing counts: every
        stationary probability vector of the returned T equals the returned populations *)
Theorem c04_normalize_pi_unique : forall C p C' T pi rho,
  normalize_builder C p true = Some (C', T, Some pi) -> nonneg_mat C -> nonneg_prior p ->
  (forall i, (i < length C)%nat -> 0 < qsum (row C' i)) ->
  irreducible T ->
  (forall j, (j < length C)%nat -> vecmat rho T j == nth j rho 0) ->
  sumn (length C) (fun i => nth i rho 0) == 1 ->
  forall i, (i < length C)%nat -> nth i rho 0 == nth i pi 0.
Proof. exact normalize_pi_unique. Qed.
Print Assumptions c04_normalize_pi_unique.

(* NOT theorems (checked on the real code by the harness instead): that LAPACK's eigenvector is a
   stationary vector to within rounding (its output is compared at 1e-9 with the model's exact
   populations on every generated case); container types, "caller's matrix unchanged" and
   dense/sparse agreement (heap / scipy facts); the iteration inside mle (property C12). *)

(* Non-vacuity: concrete non-trivial inputs meet the hypotheses and exercise every builder. *)
Example c04_example_normalize :
  normalize_builder [[5; 2; 1]; [1; 4; 0]; [2; 1; 6]] NoPrior true =
    Some ([[5; 2; 1]; [1; 4; 0]; [2; 1; 6]],
          [[5 # 8; 2 # 8; 1 # 8]; [1 # 5; 4 # 5; 0 # 5]; [2 # 9; 1 # 9; 6 # 9]],
          Some [6 # 17; 35 # 68; 9 # 68]).
Proof. vm_compute. reflexivity. Qed.
Print Assumptions c04_example_normalize.

Example c04_example_transpose :
  exists C' T pi,
    transpose_builder [[5; 2; 1]; [1; 4; 0]; [2; 1; 6]] (PScalar (1 # 2)) true = Some (C', T, Some pi) /\
    ent C' 0 1 == 2 /\ ent T 1 2 == 2 # 15 /\ nth 0 pi 0 == 19 # 53.
Proof. eexists _, _, _. split; [vm_compute; reflexivity|]. vm_compute. repeat split; reflexivity. Qed.
Print Assumptions c04_example_transpose.

Example c04_example_mle :
  let X := [[10; 3; 3]; [3; 8; 1]; [3; 1; 12]] in
  (forall i j, (i < 3)%nat -> (j < 3)%nat -> ent X i j == ent X j i) /\
  exists T pi, mle_builder [[5; 2; 1]; [1; 4; 0]; [2; 1; 6]] (PMat [[0; 1; 0]; [0; 0; 1]; [1; 0; 0]]) false X
                 = Some ([[5; 3; 1]; [1; 4; 1]; [3; 1; 6]], T, None) /\
               mle_post X = Some (T, pi) /\ nth 1 pi 0 == 12 # 44 /\
  mle_builder [[5; 2; 1]; [0; 0; 0]; [2; 1; 6]] NoPrior true X = None.
Proof.
  split.
  - intros i j Hi Hj.
    destruct i as [|[|[|i]]]; destruct j as [|[|[|j]]]; try (exfalso; Lia.lia); vm_compute; reflexivity.
  - eexists _, _. split; [vm_compute; reflexivity|]. split; [vm_compute; reflexivity|].
    split; vm_compute; reflexivity.
Qed.
Print Assumptions c04_example_mle.

(* the irreducibility hypothesis is satisfiable: the T of c04_example_normalize (which has a zero entry) *)
Example c04_example_irreducible : irreducible (row_normalize [[5; 2; 1]; [1; 4; 0]; [2; 1; 6]]).
Proof. exact T3_irreducible. Qed.
Print Assumptions c04_example_irreducible.

(* ==== Round 2: the model is tied to the source by translation.  Gen/BuildersGen.v is regenerated by
   translator/tr_builders.py from the CURRENT enspara/msm/builders.py (_apply_prior_counts,
   _row_normalize, normalize, transpose, mle, prologue/guards/final step of _prinz_mle_py) and
   transition_matrices.eq_probs, statement by statement, over the array vocabulary of
   Base/BuildersBase.v (an array = container kind + numbers).  gen_result r = the numbers of a
   generated builder's result (None if it raises); kinds r = the container kinds of its counts and
   probabilities.  The theorems hold for every container kind except np.matrix input. *)

(* ---- _apply_prior_counts as written (try C + prior / except NotImplementedError: densify; recast
        np.matrix) ADDS the prior (number or matrix) to the counts, and rejects what the model rejects *)
Theorem c04_gen_apply_prior : forall C p,
  is_square (a_val C) = true -> a_kind C <> KMat ->
  gen_apply_prior_counts C p
  = match apply_prior (a_val C) p with
    | Some C1 => Ok (mkarr (prior_kind (a_kind C) p) C1)
    | None => Err
    end.
Proof. exact gen_apply_prior_eq. Qed.
Print Assumptions c04_gen_apply_prior.

(* ---- _row_normalize as written: both the sparse branch (diag(inv_weights) . C_csr) and the dense branch
        (C * inv_weights[:, None]), with row sums over axis 1 and the weights > 0 guard, compute the
        model's row_normalize; the result is a fresh matrix of the caller's sparse type / an ndarray *)
Theorem c04_gen_row_normalize : forall C,
  gen_row_normalize C = Ok (mkarr (rownorm_kind (a_kind C)) (row_normalize (a_val C))).
Proof. exact gen_row_normalize_eq. Qed.
Print Assumptions c04_gen_row_normalize.

(* ---- normalize as written (prior first, then _row_normalize of the result, eq_probs called on the
        probabilities themselves) is the model's normalize_builder, for dense and every sparse input *)
Theorem c04_gen_normalize : forall C p eq,
  is_square (a_val C) = true -> a_kind C <> KMat ->
  gen_result (gen_normalize (gen_eq_probs exact_eig) C p eq) = normalize_builder (a_val C) p eq.
Proof. exact gen_normalize_full_eq. Qed.
Print Assumptions c04_gen_normalize.

(* ---- transpose as written (prior first; C + C.T in CSR or dense; row-normalise the SYMMETRISED
        counts; populations = its row sums over its total; counts halved) is the model's transpose_builder *)
Theorem c04_gen_transpose : forall C p eq,
  is_square (a_val C) = true -> a_kind C <> KMat ->
  gen_result (gen_transpose C p eq) = transpose_builder (a_val C) p eq.
Proof. exact gen_transpose_eq. Qed.
Print Assumptions c04_gen_transpose.

(* ---- mle as written (prior first, densify, _prinz_mle_py with its two guards, T = X / rowsum X and
        pi = X_rs / sum X_rs, the two closing asserts) is the model's mle_builder, when the iteration
        (property C12) ends with a square matrix X with positive row sums and X_rs = its row sums *)
Theorem c04_gen_mle : forall X C p eq,
  is_square (a_val C) = true -> a_kind C <> KMat ->
  is_square X = true -> X <> [] -> rows_positive X = true ->
  gen_result (gen_mle (gen_prinz_mle_py (loop_gives X)) C p eq) = mle_builder (a_val C) p eq X.
Proof. exact gen_mle_eq. Qed.
Print Assumptions c04_gen_mle.

(* ---- clause "outputs come back in the container type that was passed in (adding prior counts to a
        sparse matrix legitimately densifies it)": counts and probabilities have the kind
        prior_kind (input kind) prior = the input kind, or ndarray when a non-zero number / an ndarray
        was added to a sparse matrix -- never np.matrix *)
Theorem c04_gen_transpose_kinds : forall C p eq r,
  is_square (a_val C) = true -> a_kind C <> KMat -> gen_transpose C p eq = Ok r ->
  kinds (Ok r) = Some (prior_kind (a_kind C) p, prior_kind (a_kind C) p).
Proof. exact gen_transpose_kinds. Qed.
Print Assumptions c04_gen_transpose_kinds.

Theorem c04_gen_normalize_kinds : forall eqp C p eq r,
  is_square (a_val C) = true -> a_kind C <> KMat -> gen_normalize eqp C p eq = Ok r ->
  kinds (Ok r) = Some (prior_kind (a_kind C) p, rownorm_kind (prior_kind (a_kind C) p)).
Proof. exact gen_normalize_kinds. Qed.
Print Assumptions c04_gen_normalize_kinds.

Theorem c04_gen_mle_kinds : forall prinz C p eq r,
  is_square (a_val C) = true -> a_kind C <> KMat -> gen_mle prinz C p eq = Ok r ->
  kinds (Ok r) = Some (prior_kind (a_kind C) p, prior_kind (a_kind C) p).
Proof. exact gen_mle_kinds. Qed.
Print Assumptions c04_gen_mle_kinds.

Theorem c04_prior_kind_never_npmatrix : forall k p, k <> KMat -> prior_kind k p <> KMat.
Proof. exact prior_kind_not_mat. Qed.
Print Assumptions c04_prior_kind_never_npmatrix.

(* ---- eq_probs as written guards the eigen-solver: for sparse T the vector is handed on only if
        |pi T - pi| <= 1e-8 entry-wise, otherwise the dense solver is asked (repo fix fba1408); the solver's
        answers are a vector, ArpackNoConvergence (sparse T only) or any other failure (Base/BuildersBase.v) *)
Theorem c04_eq_probs_guard : forall eig T pi,
  gen_eq_probs eig T = Ok pi ->
  (is_sparse T = false /\ eig T = EigVec pi) \/
  (is_sparse T = true /\ eig T = EigVec pi /\ v_allclose2 atol8 (v_matmul pi T) pi = true) \/
  (is_sparse T = true /\ eig (a_toarray T) = EigVec pi).
Proof. exact gen_eq_probs_guard. Qed.
Print Assumptions c04_eq_probs_guard.

(* the same, literally as stated before the ArpackNoConvergence handler existed (a solver that answers
   with a vector or fails) *)
Theorem c04_eq_probs_guard_total : forall (eig : arr -> option (list Q)) T pi,
  gen_eq_probs (fun A => ans_of_opt (eig A)) T = Ok pi ->
  (is_sparse T = false /\ eig T = Some pi) \/
  (is_sparse T = true /\ eig T = Some pi /\ v_allclose2 atol8 (v_matmul pi T) pi = true) \/
  (is_sparse T = true /\ eig (a_toarray T) = Some pi).
Proof. exact gen_eq_probs_guard_total. Qed.
Print Assumptions c04_eq_probs_guard_total.

(* ---- eq_probs as written, case by case (repo fix: try / except scipy.sparse.linalg.ArpackNoConvergence
        around the first eigenspectrum call).  Sparse T: ARPACK's vector if it passes the test; the dense
        solver's answer on T.toarray() if ARPACK's vector fails the test OR ARPACK gave up; every other
        failure of the solver is raised.  Dense T: the solver's answer -- no handler, no guard *)
Theorem c04_eq_probs_spec : forall eig T,
  gen_eq_probs eig T =
  if is_sparse T then
    match eig T with
    | EigVec v => if v_allclose2 atol8 (v_matmul v T) v then Ok v else dense_ans eig T
    | EigNoConv => dense_ans eig T
    | EigFail => Err
    end
  else match eig T with EigVec v => Ok v | _ => Err end.
Proof. exact gen_eq_probs_spec. Qed.
Print Assumptions c04_eq_probs_spec.

Theorem c04_eq_probs_noconv_falls_back : forall eig T,
  is_sparse T = true -> eig T = EigNoConv -> gen_eq_probs eig T = dense_ans eig T.
Proof. exact gen_eq_probs_noconv. Qed.
Print Assumptions c04_eq_probs_noconv_falls_back.

Theorem c04_eq_probs_nonstationary_falls_back : forall eig T v,
  is_sparse T = true -> eig T = EigVec v -> v_allclose2 atol8 (v_matmul v T) v = false ->
  gen_eq_probs eig T = dense_ans eig T.
Proof. exact gen_eq_probs_nonstationary. Qed.
Print Assumptions c04_eq_probs_nonstationary_falls_back.

Theorem c04_eq_probs_dense_unchanged : forall eig T,
  is_sparse T = false -> gen_eq_probs eig T = match eig T with EigVec v => Ok v | _ => Err end.
Proof. exact gen_eq_probs_dense. Qed.
Print Assumptions c04_eq_probs_dense_unchanged.

(* the handler catches ArpackNoConvergence only *)
Theorem c04_eq_probs_other_failures_raised : forall eig T, eig T = EigFail -> gen_eq_probs eig T = Err.
Proof. exact gen_eq_probs_fail. Qed.
Print Assumptions c04_eq_probs_other_failures_raised.

(* ---- ArpackNoConvergence never leaves eq_probs, nor normalize; populations are returned for a sparse T
        whenever the dense solver has an answer and ARPACK answers or gives up *)
Theorem c04_eq_probs_never_noconv : forall eig T, gen_eq_probs eig T <> NoConv.
Proof. exact gen_eq_probs_never_noconv. Qed.
Print Assumptions c04_eq_probs_never_noconv.

Theorem c04_eq_probs_returns : forall eig T w,
  is_sparse T = true -> eig (a_toarray T) = EigVec w -> eig T <> EigFail ->
  exists pi, gen_eq_probs eig T = Ok pi.
Proof. exact gen_eq_probs_returns. Qed.
Print Assumptions c04_eq_probs_returns.

Theorem c04_gen_normalize_never_noconv : forall eig C p eq, gen_normalize (gen_eq_probs eig) C p eq <> NoConv.
Proof. exact gen_normalize_never_noconv. Qed.
Print Assumptions c04_gen_normalize_never_noconv.

Theorem c04_gen_normalize_returns : forall eig C p C1 w,
  is_square (a_val C) = true -> a_kind C <> KMat ->
  apply_prior (a_val C) p = Some C1 ->
  let T := mkarr (rownorm_kind (prior_kind (a_kind C) p)) (row_normalize C1) in
  eig (a_toarray T) = EigVec w -> eig T <> EigFail ->
  exists pi, gen_normalize (gen_eq_probs eig) C p true = Ok (mkarr (prior_kind (a_kind C) p) C1, T, Some pi).
Proof. exact gen_normalize_returns. Qed.
Print Assumptions c04_gen_normalize_returns.

(* ---- hence: if the dense solver returns stationary probability vectors, eq_probs' answer is stationary
        to 1e-8 per entry WHATEVER the sparse solver (ARPACK) returned *)
Theorem c04_eq_probs_sound_whatever_arpack : forall eig T pi,
  (forall D v, is_sparse D = false -> eig D = EigVec v -> is_stationary_b (a_val D) v = true) ->
  gen_eq_probs eig T = Ok pi ->
  v_allclose2 atol8 (v_matmul pi T) pi = true.
Proof. exact gen_eq_probs_sound. Qed.
Print Assumptions c04_eq_probs_sound_whatever_arpack.

(* ---- end to end on the translated source: transpose as written returns the symmetrised counts and a
        (T, populations) pair in detailed balance and stationary, for dense and every sparse input *)
Theorem c04_gen_transpose_reversible : forall C p C' T pi,
  is_square (a_val C) = true -> a_kind C <> KMat -> nonneg_mat (a_val C) -> nonneg_prior p ->
  gen_transpose C p true = Ok (C', T, Some pi) ->
  let n := length (a_val C) in
  (forall i j, (i < n)%nat -> (j < n)%nat -> ent (a_val C') i j
     == ((ent (a_val C) i j + prior_ent p i j) + (ent (a_val C) j i + prior_ent p j i)) / 2) /\
  (forall i j, (i < n)%nat -> (j < n)%nat -> nth i pi 0 * ent (a_val T) i j == nth j pi 0 * ent (a_val T) j i) /\
  (forall j, (j < n)%nat -> vecmat pi (a_val T) j == nth j pi 0).
Proof. exact gen_transpose_reversible. Qed.
Print Assumptions c04_gen_transpose_reversible.

(* ---- normalize as written, eigen-solvers abstract: the returned populations satisfy
        |pi T - pi| <= 1e-8 entry-wise whatever ARPACK returned, if the dense solver's vectors are stationary *)
Theorem c04_gen_normalize_pi_sound : forall eig C p C' T pi,
  (forall D v, is_sparse D = false -> eig D = EigVec v -> is_stationary_b (a_val D) v = true) ->
  gen_normalize (gen_eq_probs eig) C p true = Ok (C', T, Some pi) ->
  v_allclose2 atol8 (v_matmul pi T) pi = true.
Proof. exact gen_normalize_pi_sound. Qed.
Print Assumptions c04_gen_normalize_pi_sound.

(* Non-vacuity of round 2: the generated builders run on a sparse (coo_matrix) input *)
Example c04_example_gen_transpose :
  exists C' T pi,
    gen_transpose (mkarr (KSp false Coo) [[5; 2; 1]; [1; 4; 0]; [2; 1; 6]]) (PScalar (1 # 2)) true = Ok (C', T, Some pi) /\
    a_kind C' = KArr /\ a_kind T = KArr /\ ent (a_val C') 0 1 == 2 /\ ent (a_val T) 1 2 == 2 # 15 /\ nth 0 pi 0 == 19 # 53.
Proof. eexists _, _, _. split; [vm_compute; reflexivity|]. vm_compute. repeat split; reflexivity. Qed.
Print Assumptions c04_example_gen_transpose.

Example c04_example_gen_kinds :
  kinds (gen_transpose (mkarr (KSp true Coo) [[5; 2; 1]; [1; 4; 0]; [2; 1; 6]]) NoPrior false) = Some (KSp true Coo, KSp true Coo) /\
  kinds (gen_normalize exact_eqp (mkarr (KSp false Dia) [[5; 2; 1]; [1; 4; 0]; [2; 1; 6]]) (PScalar 0) false)
    = Some (KSp false Dia, KSp false Dia) /\
  is_square [[10; 3; 3]; [3; 8; 1]; [3; 1; 12]] = true /\ rows_positive [[10; 3; 3]; [3; 8; 1]; [3; 1; 12]] = true.
Proof. vm_compute. repeat split; reflexivity. Qed.
Print Assumptions c04_example_gen_kinds.

(* Non-vacuity of the ArpackNoConvergence clause: a solver that gives up on every sparse matrix and is
   exact on dense ones; normalize on a csr_matrix then returns the exact stationary vector (6/17, 35/68, 9/68) *)
Definition giving_up_eig (T : arr) : eig_ans := if is_sparse T then EigNoConv else exact_eig T.
Example c04_example_noconv :
  exists C' T pi,
    gen_normalize (gen_eq_probs giving_up_eig) (mkarr (KSp false Csr) [[5; 2; 1]; [1; 4; 0]; [2; 1; 6]]) NoPrior true
      = Ok (C', T, Some pi) /\
    a_kind T = KSp false Csr /\ giving_up_eig T = EigNoConv /\
    is_stationary_b (a_val T) pi = true.
Proof. eexists _, _, _. split; [vm_compute; reflexivity|]. vm_compute. repeat split; reflexivity. Qed.
Print Assumptions c04_example_noconv.
