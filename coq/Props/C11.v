(* C11 — ergodic trimming keeps exactly the heaviest strongly connected component.
   Property theorems only; proofs live in Proof/TrimProofs.v, the model in Model/Trim.v
   (trim_disconnected / TrimMapping of enspara/msm/transition_matrices.py, MSM.fit of msm/msm.py).

   Vocabulary: [edge thr C i j] = the count C[i,j] is non-zero and at or above the threshold (what is
   left after `thresholded_counts[counts < threshold] = 0`); [path E i j] = the reflexive-transitive
   closure of E; [mutual thr C i j] = path both ways; [weight C S] = sum over S of the ORIGINAL row
   sums; a result [r] carries the kept ids [tr_keep], the returned matrix [tr_counts], the two
   dictionaries of the TrimMapping in insertion order and the container kind. *)
From Coq Require Import List ZArith Sorted.
From EV Require Import Trim TrimProofs TrimBase TrimGen TrimView TrimGenProofs.
Import ListNotations.

(* "strongly connected ... with respect to counts at or above the threshold": the closure the model
   computes (Warshall) is exactly reachability along such counts, for every size of matrix. *)
Theorem c11_reach_correct : forall thr C i j,
  reach thr C i j = true <-> i < length C /\ path (edge thr C) i j.
Proof. exact reach_correct. Qed.
Print Assumptions c11_reach_correct.

Theorem c11_edge_is_count_at_or_above_threshold : forall thr C i j,
  edge thr C i j = true <->
  i < length C /\ j < length C /\ (thr <= entry C i j)%Z /\ entry C i j <> 0%Z.
Proof. exact edge_spec. Qed.
Print Assumptions c11_edge_is_count_at_or_above_threshold.

(* "keeps exactly the states of the strongly connected component ...": the kept ids are one whole
   mutual-reachability class (strong, not weak, connectivity: both directions are required) *)
Theorem c11_kept_is_a_strong_component : forall thr C ren cont r,
  trim_disconnected thr C ren cont = Some r ->
  exists s, s < length C /\ In s (tr_keep r) /\
    forall j, In j (tr_keep r) <-> j < length C /\ mutual thr C s j.
Proof. exact result_keep_is_scc. Qed.
Print Assumptions c11_kept_is_a_strong_component.

(* "... whose states carry the largest total count": no component (given as any duplicate-free list
   of its members) weighs more -- heaviest, not largest and not first *)
Theorem c11_kept_is_heaviest : forall thr C ren cont r,
  trim_disconnected thr C ren cont = Some r ->
  forall i S, i < length C -> NoDup S ->
  (forall j, In j S <-> j < length C /\ mutual thr C i j) ->
  (weight C S <= weight C (tr_keep r))%Z.
Proof. exact result_keep_heaviest. Qed.
Print Assumptions c11_kept_is_heaviest.

(* "the trimmed matrix is strongly connected" (renumbered variant, same threshold) *)
Theorem c11_trimmed_strongly_connected : forall thr C cont r,
  trim_disconnected thr C true cont = Some r ->
  forall a b, a < length (tr_counts r) -> b < length (tr_counts r) ->
  path (edge thr (tr_counts r)) a b.
Proof. exact trimmed_strongly_connected. Qed.
Print Assumptions c11_trimmed_strongly_connected.

(* the same for the in-place variant: kept states reach each other, removed states have no edge *)
Theorem c11_inplace_strongly_connected : forall thr C cont r,
  trim_disconnected thr C false cont = Some r ->
  (forall i j, In i (tr_keep r) -> In j (tr_keep r) -> path (edge thr (tr_counts r)) i j) /\
  (forall i j, edge thr (tr_counts r) i j = true -> In i (tr_keep r) /\ In j (tr_keep r)).
Proof. exact inplace_strongly_connected. Qed.
Print Assumptions c11_inplace_strongly_connected.

(* "keeps the original counts between kept states" *)
Theorem c11_counts_preserved : forall thr C cont r,
  trim_disconnected thr C true cont = Some r ->
  length (tr_counts r) = length (tr_keep r) /\
  (forall row, In row (tr_counts r) -> length row = length (tr_keep r)) /\
  forall a b, a < length (tr_keep r) -> b < length (tr_keep r) ->
    entry (tr_counts r) a b = entry C (nth a (tr_keep r) 0) (nth b (tr_keep r) 0).
Proof. exact trimmed_counts_preserved. Qed.
Print Assumptions c11_counts_preserved.

(* "... and has no counts on removed states" *)
Theorem c11_removed_are_zero : forall thr C cont r,
  trim_disconnected thr C false cont = Some r ->
  length (tr_counts r) = length C /\
  (forall i j, In i (tr_keep r) -> In j (tr_keep r) -> entry (tr_counts r) i j = entry C i j) /\
  (forall i j, ~ In i (tr_keep r) \/ ~ In j (tr_keep r) -> entry (tr_counts r) i j = 0%Z).
Proof. exact removed_are_zero. Qed.
Print Assumptions c11_removed_are_zero.

(* "The returned mapping is an order-preserving one-to-one correspondence between new and original
   state ids": new id k <-> k-th smallest kept id; to_mapped is the inverse dictionary; nothing else
   is mapped; increasing *)
Theorem c11_mapping_order_iso : forall thr C cont r,
  trim_disconnected thr C true cont = Some r ->
  let ks := tr_keep r in let m := length ks in
  tr_to_original r = combine (seq 0 m) ks /\
  tr_to_mapped r = combine ks (seq 0 m) /\
  (forall k, k < m -> dict_get (tr_to_original r) k = Some (nth k ks 0) /\
                      dict_get (tr_to_mapped r) (nth k ks 0) = Some k) /\
  (forall k, m <= k -> dict_get (tr_to_original r) k = None) /\
  (forall o, ~ In o ks -> dict_get (tr_to_mapped r) o = None) /\
  (forall k k', k < k' -> k' < m -> nth k ks 0 < nth k' ks 0).
Proof. exact mapping_order_iso. Qed.
Print Assumptions c11_mapping_order_iso.

Theorem c11_mapping_inplace_identity : forall thr C cont r,
  trim_disconnected thr C false cont = Some r ->
  tr_to_original r = combine (tr_keep r) (tr_keep r) /\
  tr_to_mapped r = combine (tr_keep r) (tr_keep r) /\
  StronglySorted lt (tr_keep r).
Proof. exact mapping_inplace_identity. Qed.
Print Assumptions c11_mapping_inplace_identity.

(* "the renumbered and in-place variants describe the same model" *)
Theorem c11_renumber_inplace_same_model : forall thr C cont r1 r2,
  trim_disconnected thr C true cont = Some r1 ->
  trim_disconnected thr C false cont = Some r2 ->
  tr_keep r1 = tr_keep r2 /\
  (forall a b, a < length (tr_keep r1) -> b < length (tr_keep r1) ->
     entry (tr_counts r1) a b = entry (tr_counts r2) (nth a (tr_keep r1) 0) (nth b (tr_keep r1) 0)) /\
  (forall k, k < length (tr_keep r1) ->
     exists o, dict_get (tr_to_original r1) k = Some o /\ dict_get (tr_to_original r2) o = Some o).
Proof. exact renumber_inplace_same_model. Qed.
Print Assumptions c11_renumber_inplace_same_model.

(* "dense and sparse inputs agree and keep their container type" *)
Theorem c11_container_kept : forall thr C ren cont r,
  trim_disconnected thr C ren cont = Some r -> tr_container r = cont.
Proof. exact container_kept. Qed.
Print Assumptions c11_container_kept.

Theorem c11_dense_sparse_agree : forall thr C ren f rd rs,
  trim_disconnected thr C ren Dense = Some rd ->
  trim_disconnected thr C ren (Sparse f) = Some rs ->
  tr_keep rd = tr_keep rs /\ tr_counts rd = tr_counts rs /\
  tr_to_original rd = tr_to_original rs /\ tr_to_mapped rd = tr_to_mapped rs.
Proof. exact dense_sparse_agree. Qed.
Print Assumptions c11_dense_sparse_agree.

(* "a model fitted with trimming reports the same mapping" (and without trimming the identity) *)
Theorem c11_msm_fit_reports_trim_mapping : forall C cont,
  msm_fit true C cont = trim_disconnected 1 C true cont.
Proof. exact msm_fit_trim. Qed.
Print Assumptions c11_msm_fit_reports_trim_mapping.

Theorem c11_msm_fit_without_trim_is_identity : forall C cont, exists r, msm_fit false C cont = Some r /\
  tr_counts r = C /\ tr_to_original r = combine (seq 0 (length C)) (seq 0 (length C)) /\
  tr_to_mapped r = combine (seq 0 (length C)) (seq 0 (length C)).
Proof. exact msm_fit_notrim. Qed.
Print Assumptions c11_msm_fit_without_trim_is_identity.

(* TrimMapping on its own, for any one-to-one list of (original, mapped) pairs in any order:
   to_original sends mapped ids to original ids and the derived to_mapped is exactly its inverse *)
Theorem c11_trim_mapping_inverse : forall ps, ps <> [] ->
  NoDup (map fst ps) -> NoDup (map snd ps) ->
  exists to_o to_m, trim_mapping ps = Some (to_o, to_m) /\
    (forall o t, dict_get to_o t = Some o <-> In (o, t) ps) /\
    (forall o t, dict_get to_m o = Some t <-> In (o, t) ps) /\
    (forall o t, dict_get to_o t = Some o <-> dict_get to_m o = Some t).
Proof. exact trim_mapping_inverse. Qed.
Print Assumptions c11_trim_mapping_inverse.

(* corollary of "the trimmed matrix is strongly connected": trimming it again removes nothing *)
Theorem c11_trimming_twice_changes_nothing : forall thr C cont r,
  trim_disconnected thr C true cont = Some r ->
  exists r', trim_disconnected thr (tr_counts r) true cont = Some r' /\
    tr_keep r' = seq 0 (length (tr_keep r)) /\
    forall a b, a < length (tr_keep r) -> b < length (tr_keep r) ->
      entry (tr_counts r') a b = entry (tr_counts r) a b.
Proof. exact trim_idempotent. Qed.
Print Assumptions c11_trimming_twice_changes_nothing.

(* guard of all the above: the code raises exactly on a matrix that is empty or not square *)
Theorem c11_rejects_exactly_malformed : forall thr C ren cont,
  trim_disconnected thr C ren cont = None <-> (square C = false \/ length C = 0).
Proof. exact trim_rejects. Qed.
Print Assumptions c11_rejects_exactly_malformed.

(* Meaning of the correspondence check: on equal maximum weights the property (and SciPy's label
   numbering) leaves the choice open, so the check accepts a kept set iff it is a whole component
   of maximum weight; when the maximum is attained once this forces the model's own answer. *)
Theorem c11_accepted_iff_heaviest_component : forall thr C ks,
  acceptable_keep thr C ks = true <->
  exists s, s < length C /\ ks = comp thr C s /\
            forall i, i < length C -> (weight C (comp thr C i) <= weight C ks)%Z.
Proof. exact acceptable_keep_spec. Qed.
Print Assumptions c11_accepted_iff_heaviest_component.

Theorem c11_check_forces_model_when_maximum_unique : forall thr C ren cont r,
  impl_agrees thr C ren cont (Some r) = true ->
  (forall i, i < length C -> ~ In i (keep_states thr C) ->
             (weight C (comp thr C i) < weight C (keep_states thr C))%Z) ->
  tr_keep r = keep_states thr C.
Proof. exact agrees_unique. Qed.
Print Assumptions c11_check_forces_model_when_maximum_unique.

(* Non-vacuity: states {0,2,4} form a 3-cycle (weight 9), {1,3} a 2-cycle (weight 13); 4->1 is a
   one-way bridge, 3->2 a sub-threshold count.  The smaller, heavier, later component is kept;
   malformed inputs are rejected. *)
Example c11_example :
  trim_disconnected 2 [[0;0;2;0;0];[0;0;0;7;0];[0;0;0;0;2];[0;5;1;0;0];[2;3;0;0;0]]%Z true (Sparse 2)
  = Some {| tr_keep := [1; 3]; tr_counts := [[0;7];[5;0]]%Z;
            tr_to_original := [(0,1);(1,3)]; tr_to_mapped := [(1,0);(3,1)];
            tr_container := Sparse 2 |}
  /\ trim_disconnected 2 [[0;0;2;0;0];[0;0;0;7;0];[0;0;0;0;2];[0;5;1;0;0];[2;3;0;0;0]]%Z false Dense
  = Some {| tr_keep := [1; 3];
            tr_counts := [[0;0;0;0;0];[0;0;0;7;0];[0;0;0;0;0];[0;5;0;0;0];[0;0;0;0;0]]%Z;
            tr_to_original := [(1,1);(3,3)]; tr_to_mapped := [(1,1);(3,3)];
            tr_container := Dense |}
  /\ trim_disconnected 1 []%Z true Dense = None
  /\ trim_disconnected 1 [[1;2;3];[0;1;1]]%Z true Dense = None.
Proof. exact trim_example. Qed.
Print Assumptions c11_example.

(* ======================================================================== round 2: tie to the source
   Gen/TrimGen.v is written by translator/tr_trim.py from the CURRENT text of trim_disconnected,
   TrimMapping (transition_matrices.py) and MSM.fit (msm.py) as a let-chain over the NumPy / SciPy /
   Python vocabulary of Base/TrimBase.v.  [gen_trim_disconnected inp thr ren] takes the input as the
   code gets it ([NdArray cells] or [SparseM format rows cols stored_entries], a cell possibly stored
   several times); [bind_gen] reads the returned (mapping, trimmed_counts) through the generated
   to_original slot / to_mapped property.  The theorems below say the generated code IS the model
   the theorems above are about. *)

(* every clause above transfers to the code as written: densification before thresholding, the
   `counts < threshold` mask, strong/directed components, weights = sums of ORIGINAL row sums,
   first arg-max, np.ix_ extraction / zeroing of rows and columns on a copy, the zip order of the
   mapping in both branches, and the restored container type *)
Theorem c11_generated_trim_is_the_model : forall inp thr ren,
  bind_gen (gen_trim_disconnected inp thr ren) = trim_disconnected thr (toarray inp) ren (py_type inp).
Proof. exact gen_trim_disconnected_model. Qed.
Print Assumptions c11_generated_trim_is_the_model.

(* "dense and sparse inputs agree": the threshold is applied to counts, never to stored entries *)
Theorem c11_generated_stored_entries_irrelevant : forall inp inp' thr ren,
  toarray inp = toarray inp' -> py_type inp = py_type inp' ->
  bind_gen (gen_trim_disconnected inp thr ren) = bind_gen (gen_trim_disconnected inp' thr ren).
Proof. exact gen_trim_stored_entries_irrelevant. Qed.
Print Assumptions c11_generated_stored_entries_irrelevant.

Theorem c11_generated_dense_sparse_agree : forall inp thr ren rd rs,
  bind_gen (gen_trim_disconnected (NdArray (toarray inp)) thr ren) = Some rd ->
  bind_gen (gen_trim_disconnected inp thr ren) = Some rs ->
  tr_keep rd = tr_keep rs /\ tr_counts rd = tr_counts rs /\
  tr_to_original rd = tr_to_original rs /\ tr_to_mapped rd = tr_to_mapped rs /\
  tr_container rs = py_type inp.
Proof. exact gen_trim_dense_sparse_agree. Qed.
Print Assumptions c11_generated_dense_sparse_agree.

(* TrimMapping as written (to_original stored, to_mapped derived on every read) is the model's *)
Theorem c11_generated_trim_mapping_is_the_model : forall ps,
  tm_view (gen_tm_init (PyList ps)) = trim_mapping ps.
Proof. exact gen_trim_mapping_model. Qed.
Print Assumptions c11_generated_trim_mapping_is_the_model.

(* the to_mapped setter stores the inverse in the only slot: reading back returns what was set *)
Theorem c11_generated_to_mapped_setter_roundtrip : forall self value,
  NoDup (map fst value) -> NoDup (map snd value) ->
  gen_tm_to_mapped (gen_tm_set_to_mapped self value) = Some value.
Proof. exact gen_to_mapped_setter. Qed.
Print Assumptions c11_generated_to_mapped_setter_roundtrip.

(* "a model fitted with trimming reports the same mapping": MSM.fit as written hands the counts to
   trim_disconnected with the source's arguments and stores its mapping (identity without trim) *)
Theorem c11_generated_fit_is_the_model : forall trim inp,
  bind_gen (gen_fit_trim trim inp) = msm_fit trim (toarray inp) (py_type inp).
Proof. exact gen_fit_trim_model. Qed.
Print Assumptions c11_generated_fit_is_the_model.

(* the kept ids the harness reads off the mapping are the model's kept ids *)
Theorem c11_keep_is_read_off_the_mapping : forall thr C ren cont r,
  trim_disconnected thr C ren cont = Some r -> tr_keep r = map snd (tr_to_original r).
Proof. exact keep_from_mapping. Qed.
Print Assumptions c11_keep_is_read_off_the_mapping.

(* the library call the generated code makes computes the model's closure and one label per class:
   two states get the same label iff they are mutually reachable *)
Theorem c11_generated_labels_are_strong_components : forall thr C i j,
  i < length C -> j < length C ->
  (cc_label (reach_mat thr C) (length C) i = cc_label (reach_mat thr C) (length C) j
   <-> mutual thr C i j).
Proof. exact labels_iff_mutual. Qed.
Print Assumptions c11_generated_labels_are_strong_components.

(* Non-vacuity on the generated code: split COO entries (unit entries below the threshold, their
   sums not), the one-way-bridge example, both error paths, TrimMapping on a list and on []. *)
Example c11_generated_example :
  bind_gen (gen_trim_disconnected
              (SparseM 2 3 3 [(0,1,1%Z); (1,0,1%Z); (0,1,1%Z); (2,2,1%Z); (1,0,1%Z); (1,2,1%Z)]) 2 true)
  = Some {| tr_keep := [0; 1]; tr_counts := [[0;2];[2;0]]%Z;
            tr_to_original := [(0,0);(1,1)]; tr_to_mapped := [(0,0);(1,1)];
            tr_container := Sparse 2 |}
  /\ bind_gen (gen_trim_disconnected
                 (NdArray [[0;0;2;0;0];[0;0;0;7;0];[0;0;0;0;2];[0;5;1;0;0];[2;3;0;0;0]]%Z) 2 false)
     = trim_disconnected 2 [[0;0;2;0;0];[0;0;0;7;0];[0;0;0;0;2];[0;5;1;0;0];[2;3;0;0;0]]%Z false Dense
  /\ gen_trim_disconnected (NdArray []) 1 true = None
  /\ gen_trim_disconnected (NdArray [[1;2;3];[0;1;1]]%Z) 1 true = None
  /\ tm_view (gen_tm_init (PyList [(5,0);(2,1)])) = Some ([(0,5);(1,2)], [(5,0);(2,1)])
  /\ tm_view (gen_tm_init (PyList [])) = None.
Proof. exact gen_trim_example. Qed.
Print Assumptions c11_generated_example.
