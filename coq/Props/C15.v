(* C15 — stored and bulk-loaded data come back bit-identical. *)
From Coq Require Import List ZArith.
From EV Require Import PySlice Store StoreProofs.
Import ListNotations.
Open Scope nat_scope.

Example c15_example :
  save_load [97] (Ra 1 [] [[[1%Z];[2%Z];[3%Z]];[[4%Z];[5%Z]];[[6%Z]]]) None 2
  = Some (LRa 1 [] [2; 1; 1] [[1%Z]; [3%Z]; [4%Z]; [6%Z]]).
Proof. vm_compute. reflexivity. Qed.
Print Assumptions c15_example.
