(* C15 — stored and bulk-loaded data come back bit-identical.
   Property theorems only; proofs live in Proof/StoreProofs.v, StoreLoadProofs.v, StoreRaProofs.v.
   Model (Model/Store.v): an HDF5 file is a finite list of named nodes; array items are carried as
   their bit patterns (integers), so equality below is bit identity.  Trusted, not proved: PyTables/HDF5
   returns the bytes it was given and lists nodes sorted by name; multiprocessing's shared buffer;
   mdtraj.  The claim is therefore "proof, partial". *)
From Coq Require Import List ZArith Permutation.
From EV Require Import PySlice Store StoreProofs StoreLoadProofs StoreRaProofs.
From EV Require Import StoreBase StoreGen StoreGenProofs.
Import ListNotations.
Open Scope nat_scope.

(* --- "row order relies on zero-padded key names sorting correctly for every row count" --- *)
(* keys_sorted: the names save gives to rows i < j < n compare (as Python strings) like i and j,
   for EVERY n: width len(str(n))+1, decimal digits, zfill. *)
Theorem c15_keys_sorted : forall tag n i j,
  i < j -> j < n -> lex_ltb (key tag (n_zeros n) i) (key tag (n_zeros n) j) = true.
Proof. exact keys_lt. Qed.
Print Assumptions c15_keys_sorted.

(* equal-width digit strings order exactly like the numbers they denote *)
Theorem c15_equal_width_decimals_order_like_numbers : forall a b,
  length a = length b -> Forall (fun d => d < 10) a -> Forall (fun d => d < 10) b ->
  (lex_ltb a b = true <-> val a < val b).
Proof. exact lex_ltb_val. Qed.
Print Assumptions c15_equal_width_decimals_order_like_numbers.

(* str(n) really is the decimal numeral of n *)
Theorem c15_decimal_numeral : forall n, val (digits n) = n /\ Forall (fun d => d < 10) (digits n).
Proof. exact (fun n => conj (digits_val n) (digits_lt10 n)). Qed.
Print Assumptions c15_decimal_numeral.

(* the sorted listing of the node names is the row order, whatever order the nodes are held in *)
Theorem c15_listing_is_row_order : forall tag n l,
  Permutation l (map (key tag (n_zeros n)) (seq 0 n)) ->
  sort_keys l = map (key tag (n_zeros n)) (seq 0 n).
Proof. exact listing_any_creation_order. Qed.
Print Assumptions c15_listing_is_row_order.

(* --- "saving ... and loading it back returns the same values, element type, row order and row
   lengths for any number of rows" --- *)
Theorem c15_roundtrip : forall tag dt tail rows f,
  save tag (Ra dt tail rows) = Some f -> rows <> [] ->
  loaded_rows (load f None 1) = Some rows /\ loaded_meta (load f None 1) = Some (dt, tail).
Proof. exact roundtrip_identity. Qed.
Print Assumptions c15_roundtrip.

(* the same without the row canonicalisation: two or more rows come back as a RaggedArray whose
   lengths are the row lengths and whose flat data is the concatenation of the rows *)
Theorem c15_roundtrip_ragged : forall tag dt tail rows f stride,
  save tag (Ra dt tail rows) = Some f -> (1 <= stride)%Z -> 2 <= length rows ->
  load f None stride
  = LRa dt tail (map (fun r => length (strided stride r)) rows) (concat (map (strided stride) rows)).
Proof. exact roundtrip_many. Qed.
Print Assumptions c15_roundtrip_ragged.

(* rectangular ndarray: one node, comes back as an ndarray (with the repaired stride, D10) *)
Theorem c15_roundtrip_ndarray : forall tag dt tail elems f stride,
  save tag (Nd dt tail elems) = Some f -> (1 <= stride)%Z ->
  load f None stride = LNd dt tail (strided stride elems).
Proof. exact roundtrip_ndarray. Qed.
Print Assumptions c15_roundtrip_ndarray.

(* the guard is exactly "no zero-length row / zero dimension" (PyTables refuses those) *)
Theorem c15_save_defined : forall tag dt tail rows,
  (forall r, In r rows -> r <> []) -> (forall d, In d tail -> d <> 0) ->
  exists f, save tag (Ra dt tail rows) = Some f.
Proof. exact save_ra_defined. Qed.
Print Assumptions c15_save_defined.

(* --- "loading with a stride or with a subset of rows equals slicing the full load" --- *)
(* stride_len: |r[::s]| = ceil(|r|/s), for every length / stride residue *)
Theorem c15_stride_len : forall (s : Z) (r : list elem),
  (1 <= s)%Z -> length (strided s r) = ceil_len (length r) s.
Proof. exact (@strided_length elem). Qed.
Print Assumptions c15_stride_len.

Theorem c15_stride_picks_every_sth : forall (d : elem) (s : Z) (r : list elem),
  (1 <= s)%Z ->
  strided s r = map (fun k => nth (Z.to_nat (Z.of_nat k * s)) r d) (seq 0 (ceil_len (length r) s)).
Proof. exact (@strided_spec elem). Qed.
Print Assumptions c15_stride_picks_every_sth.

Theorem c15_load_stride_eq_slice : forall tag dt tail rows f stride full,
  save tag (Ra dt tail rows) = Some f -> (1 <= stride)%Z -> rows <> [] ->
  loaded_rows (load f None 1) = Some full ->
  loaded_rows (load f None stride) = Some (map (strided stride) full).
Proof. exact load_stride_eq_slice. Qed.
Print Assumptions c15_load_stride_eq_slice.

(* the lengths the loader computes up front, (len + stride - 1) // stride, are the lengths of the
   slices it then reads *)
Theorem c15_reported_lengths_are_ceil : forall tag dt tail rows f stride,
  save tag (Ra dt tail rows) = Some f -> (1 <= stride)%Z -> 2 <= length rows ->
  exists data, load f None stride = LRa dt tail (map (fun r => ceil_len (length r) stride) rows) data.
Proof. exact lengths_are_ceil. Qed.
Print Assumptions c15_reported_lengths_are_ceil.

(* load_keys_subset: any non-empty list of row numbers (any order, repeats allowed) *)
Theorem c15_load_keys_subset : forall tag dt tail rows f idxs stride,
  save tag (Ra dt tail rows) = Some f -> (1 <= stride)%Z -> idxs <> [] ->
  (forall i, In i idxs -> i < length rows) ->
  let l := load f (Some (map (key tag (n_zeros (length rows))) idxs)) stride in
  loaded_rows l = Some (map (fun i => strided stride (nth i rows [])) idxs)
  /\ loaded_meta l = Some (dt, tail).
Proof. exact load_subset_rows. Qed.
Print Assumptions c15_load_keys_subset.

(* --- "each worker writing a disjoint, correctly offset window of a shared buffer" --- *)
(* windows_disjoint_cover: in file order the cells written are 0,1,...,total-1, each exactly once *)
Theorem c15_windows_disjoint_cover : forall (blocks : list (list elem)),
  map fst (flat_map job_writes (combine (offsets (map (@length elem) blocks)) blocks))
  = seq 0 (sum_nat (map (@length elem) blocks)).
Proof. exact windows_cover. Qed.
Print Assumptions c15_windows_disjoint_cover.

Theorem c15_windows_disjoint_intervals : forall lengths i j,
  i < j -> j < length lengths ->
  nth i (offsets lengths) 0 + nth i lengths 0 <= nth j (offsets lengths) 0
  /\ nth j (offsets lengths) 0 + nth j lengths 0 <= sum_nat lengths.
Proof. exact windows_disjoint. Qed.
Print Assumptions c15_windows_disjoint_intervals.

(* --- "independent of the number of worker processes and of which worker finishes first" --- *)
(* concat_order_indep: whole jobs completing in any order *)
Theorem c15_concat_order_indep : forall (blocks : list (list elem)) (z : elem) sched,
  Permutation sched (seq 0 (length blocks)) ->
  run_jobs (pick_jobs (combine (offsets (map (@length elem) blocks)) blocks) sched)
           (repeat z (sum_nat (map (@length elem) blocks)))
  = Some (concat blocks).
Proof. exact concat_order_indep. Qed.
Print Assumptions c15_concat_order_indep.

(* ... and the single-item writes of all workers landing in any interleaving whatsoever (this
   covers every number of processes and every assignment of jobs to processes) *)
Theorem c15_concat_interleaving_indep : forall (blocks : list (list elem)) (z : elem) ws,
  Permutation ws (flat_map job_writes (combine (offsets (map (@length elem) blocks)) blocks)) ->
  apply_writes ws (repeat z (sum_nat (map (@length elem) blocks))) = concat blocks.
Proof. exact concat_interleaving_indep. Qed.
Print Assumptions c15_concat_interleaving_indep.

(* --- "returns exactly the concatenation, in file order, of the individually loaded (strided,
   atom-selected) trajectories together with their lengths" --- *)
(* the individually loaded trajectories are inputs (mdtraj is trusted); the one thing asked of
   them is that md.load returns as many frames as sound_trajectory announces *)
Theorem c15_load_as_concatenated : forall sched hint zero files,
  Permutation sched (seq 0 (length files)) ->
  (forall t, In t files -> length (t_loaded t) = sounded t) ->
  (hint = None \/ hint = Some (map (fun t => length (t_loaded t)) files)) ->
  load_as_concatenated sched hint zero files
  = inr (map (fun t => length (t_loaded t)) files, concat (map t_loaded files)).
Proof. exact lac_correct_gen. Qed.
Print Assumptions c15_load_as_concatenated.

(* reading md.load(stride=s) as "frames on disk sliced [::s]" discharges that hypothesis *)
Theorem c15_load_as_concatenated_strided : forall sched zero (disks : list (list elem * Z)),
  Permutation sched (seq 0 (length disks)) ->
  (forall d, In d disks -> (1 <= snd d)%Z) ->
  load_as_concatenated sched None zero (map (fun d => trj_of_disk (fst d) (snd d)) disks)
  = inr (map (fun d => ceil_len (length (fst d)) (snd d)) disks,
         concat (map (fun d => strided (snd d) (fst d)) disks)).
Proof. exact lac_correct_disk. Qed.
Print Assumptions c15_load_as_concatenated_strided.

(* --- striped loaders (enspara/mpi/io.py), after the repair of D17 --- *)
(* any rank / world size: the rank's files strided and concatenated; global lengths strided *)
Theorem c15_npy_striped : forall rank size dt tail (arrays : list (list elem)) stride,
  (1 <= stride)%Z -> stripe rank size arrays <> [] -> arrays <> [] ->
  load_npy_as_striped rank size (map (fun a => (dt, tail, a)) arrays) stride
  = inr (map (fun a => length (strided stride a)) arrays,
         concat (map (strided stride) (stripe rank size arrays))).
Proof. exact npy_striped_correct. Qed.
Print Assumptions c15_npy_striped.

(* world size 1 (the only one executable in the sandbox) *)
Theorem c15_h5_striped_world1 : forall tag dt tail rows f stride,
  save tag (Ra dt tail rows) = Some f -> (1 <= stride)%Z -> 2 <= length rows ->
  load_h5_as_striped 0 1 f stride
  = inr (map (fun r => length (strided stride r)) rows, concat (map (strided stride) rows)).
Proof. exact h5_striped_world1. Qed.
Print Assumptions c15_h5_striped_world1.

(* --- non-vacuity --- *)
(* 12 rows (two-digit row numbers, width 3): saved, listed, loaded with stride 2 and as a subset *)
Definition ex_rows : list (list elem) :=
  map (fun i => map (fun k => [Z.of_nat (10 * i + k)]) (seq 0 (1 + i mod 3))) (seq 0 12).

Example c15_example_roundtrip :
  exists f, save [97; 114; 114] (Ra 3 [] ex_rows) = Some f
  /\ map nkey (firstn 2 f) = [[97; 114; 114; 95; 48; 48; 48]; [97; 114; 114; 95; 48; 48; 49]]
  /\ loaded_rows (load f None 1) = Some ex_rows
  /\ loaded_rows (load f None 2) = Some (map (strided 2) ex_rows)
  /\ loaded_rows (load f (Some (map (key [97; 114; 114] 3) [11; 2])) 2)
     = Some [[[110%Z]; [112%Z]]; [[20%Z]; [22%Z]]].
Proof. eexists. vm_compute. repeat split; reflexivity. Qed.
Print Assumptions c15_example_roundtrip.

(* three files, lengths 3/1/2, workers finishing in the order 2,0,1 *)
Example c15_example_parallel :
  load_as_concatenated [2; 0; 1] None [0%Z]
    [mkTrj 5 2 false [[1%Z]; [2%Z]; [3%Z]]; mkTrj 5 1 true [[9%Z]]; mkTrj 2 1 false [[7%Z]; [8%Z]]]
  = inr ([3; 1; 2], [[1%Z]; [2%Z]; [3%Z]; [9%Z]; [7%Z]; [8%Z]])
  /\ Permutation [2; 0; 1] (seq 0 3).
Proof.
  split; [vm_compute; reflexivity|].
  cbn [seq]. apply Permutation_sym. eapply perm_trans; [apply perm_skip, perm_swap|].
  eapply perm_trans; [apply perm_swap|]. apply perm_skip. apply Permutation_refl.
Qed.
Print Assumptions c15_example_parallel.

(* ===================================================================================== round 2
   The scalar expressions, slices and loop bodies that carry the property are regenerated from the
   CURRENT sources by translator/tr_store.py (Gen/StoreGen.v; fail-closed: any other statement shape
   is rejected) and proved equal to the model's, so the theorems above speak about what
   enspara/ra/ra.py, enspara/util/load.py and enspara/mpi/io.py say now. *)
(* --- ra.save: `len(str(len(array.lengths))) + 1` and `tag + '_' + str(i).zfill(n_zeros)` are the
   model's width and key *)
Theorem c15_gen_key_is_model : forall tag n i,
  gen_key tag (Z.of_nat i) (gen_n_zeros (Z.of_nat n)) = key tag (n_zeros n) i.
Proof. exact gen_key_eq. Qed.
Print Assumptions c15_gen_key_is_model.

(* keys_sorted for the generated name expression, every row count *)
Theorem c15_gen_keys_sorted : forall tag n i j, i < j -> j < n ->
  lex_ltb (gen_key tag (Z.of_nat i) (gen_n_zeros (Z.of_nat n)))
          (gen_key tag (Z.of_nat j) (gen_n_zeros (Z.of_nat n))) = true.
Proof. exact gen_keys_lt. Qed.
Print Assumptions c15_gen_keys_sorted.

(* the sorted listing of the generated names is the row order *)
Theorem c15_gen_listing_is_row_order : forall tag n l,
  Permutation l (map (fun i => gen_key tag (Z.of_nat i) (gen_n_zeros (Z.of_nat n))) (seq 0 n)) ->
  sort_keys l = map (fun i => gen_key tag (Z.of_nat i) (gen_n_zeros (Z.of_nat n))) (seq 0 n).
Proof. exact gen_listing_is_row_order. Qed.
Print Assumptions c15_gen_listing_is_row_order.

(* --- ra.load: stride_len for the generated expressions: the length `(shape[0]+stride-1)//stride`
   announced up front is the length of the slice `node[::stride]` read afterwards (start None, stop
   None, step stride: a read that restarts the stride phase is a different term) *)
Theorem c15_gen_stride_len : forall (s : Z) (r : list elem), (1 <= s)%Z ->
  zlen (gen_read_row s r) = gen_load_len (zlen r) s.
Proof. exact (@gen_stride_len elem). Qed.
Print Assumptions c15_gen_stride_len.

Theorem c15_gen_read_is_model : forall (s : Z) (r : list elem),
  gen_read_row s r = strided s r /\ gen_single_read s r = strided s r /\ gen_npy_read s r = strided s r.
Proof. exact (fun s r => conj eq_refl (conj eq_refl eq_refl)). Qed.
Print Assumptions c15_gen_read_is_model.

Theorem c15_gen_load_len_is_model : forall n s, (1 <= s)%Z ->
  gen_load_len (Z.of_nat n) s = Z.of_nat (ceil_len n s)
  /\ gen_h5_global_len (Z.of_nat n) s = Z.of_nat (ceil_len n s)
  /\ gen_npy_global_len (Z.of_nat n) s = Z.of_nat (ceil_len n s).
Proof. exact (fun n s H => conj (gen_load_len_eq n s H) (conj (gen_load_len_eq n s H) (gen_load_len_eq n s H))). Qed.
Print Assumptions c15_gen_load_len_is_model.

(* the single-key branch is taken exactly for a one-element key list *)
Theorem c15_gen_single_key_branch : forall (ks : list str),
  gen_single_key_test (zlen ks) = true <-> exists k, ks = [k].
Proof. exact (@gen_single_key_test_eq str). Qed.
Print Assumptions c15_gen_single_key_branch.

(* the generated fill loops (start = 0; end = start + len(node); concat[start:end] = node; start = end)
   are the model's, and on a zeroed buffer of the announced size give the concatenation of the
   strided rows *)
Theorem c15_gen_fill_is_model : forall (s : Z) (rows : list (list elem)) buf,
  gen_ra_fill s rows buf = fill_from 0 (map (strided s) rows) buf
  /\ gen_npy_fill s rows buf = fill_from 0 (map (strided s) rows) buf.
Proof. exact (fun s rows buf => conj (gen_ra_fill_eq s rows buf) (gen_npy_fill_eq s rows buf)). Qed.
Print Assumptions c15_gen_fill_is_model.

Theorem c15_gen_fill_concat : forall (s : Z) (rows : list (list elem)) (z : elem), (1 <= s)%Z ->
  gen_ra_fill s rows (repeat z (Z.to_nat (zsum (map (fun r => gen_load_len (zlen r) s) rows))))
  = Some (concat (map (gen_read_row s) rows)).
Proof. exact (@gen_ra_fill_concat elem). Qed.
Print Assumptions c15_gen_fill_concat.

(* --- util/load.py: math.ceil(n_frames / stride) is the number of frames of frames[::stride] *)
Theorem c15_gen_sound_len : forall (s : Z) (frames : list elem), (1 <= s)%Z ->
  gen_sound_len (zlen frames) s = zlen (gen_read_row s frames).
Proof. exact (@gen_sound_is_strided_len elem). Qed.
Print Assumptions c15_gen_sound_len.

(* lengths are collected in FILE order: the ordered starmap over the files without a frame keyword
   followed by `lengths.insert(i, 1)` is one length per file, in the order of the files *)
Theorem c15_gen_lengths_in_file_order : forall files,
  (forall t, In t files -> (1 <= t_stride t)%Z) ->
  gen_lac_lengths (map spec_of files) = map (fun t => Z.of_nat (sounded t)) files.
Proof. exact gen_lac_lengths_eq. Qed.
Print Assumptions c15_gen_lengths_in_file_order.

(* [sum(lengths[0:i]) for i in range(len(lengths))] are the model's prefix sums *)
Theorem c15_gen_offsets_are_prefix_sums : forall lengths,
  gen_offsets (map Z.of_nat lengths) = map Z.of_nat (offsets lengths).
Proof. exact gen_offsets_eq. Qed.
Print Assumptions c15_gen_offsets_are_prefix_sums.

(* windows_disjoint_cover for the generated offsets and the generated window arr[position :
   position+len(xyz)]: in file order the cells addressed are 0, 1, ..., total-1, each exactly once *)
Theorem c15_gen_windows_disjoint_cover : forall (blocks : list (list elem)),
  flat_map gen_job_cells (combine (gen_offsets (map (@zlen elem) blocks)) blocks)
  = py_range0 (zsum (map (@zlen elem) blocks)).
Proof. exact gen_windows_cover. Qed.
Print Assumptions c15_gen_windows_disjoint_cover.

(* ... hence the generated jobs, completing in any order, leave the in-order concatenation *)
Theorem c15_gen_concat_order_indep : forall (blocks : list (list elem)) (z : elem) sched,
  Permutation sched (seq 0 (length blocks)) ->
  gen_run_jobs (pick_jobs (combine (gen_offsets (map (@zlen elem) blocks)) blocks) sched)
               (repeat z (Z.to_nat (zsum (map (@zlen elem) blocks))))
  = Some (concat blocks).
Proof. exact gen_concat_order_indep. Qed.
Print Assumptions c15_gen_concat_order_indep.

(* --- mpi/io.py: all four `X[mpi.rank()::mpi.size()]` are one term, the model's stripe *)
Theorem c15_gen_stripe_is_model : forall rank size (l : list elem),
  gen_stripe (Z.of_nat rank) (Z.of_nat size) l = stripe rank size l.
Proof. exact (@gen_stripe_eq elem). Qed.
Print Assumptions c15_gen_stripe_is_model.

(* non-vacuity: 101 rows (width 4), names as generated; three files 3/1/2, workers finishing 2,0,1 *)
Example c15_example_generated :
  gen_n_zeros 101 = 4%Z
  /\ gen_key [97; 114; 114] 11 (gen_n_zeros 101) = [97; 114; 114; 95; 48; 48; 49; 49]
  /\ gen_load_len 7 3 = 3%Z /\ gen_sound_len 7 3 = 3%Z
  /\ gen_offsets [3; 1; 2]%Z = [0; 3; 4]%Z
  /\ gen_lac_lengths [(5, 2, false); (5, 1, true); (2, 1, false)]%Z = [3; 1; 2]%Z
  /\ gen_run_jobs (pick_jobs (combine (gen_offsets [3; 1; 2]%Z) [[[1%Z]; [2%Z]; [3%Z]]; [[9%Z]]; [[7%Z]; [8%Z]]]) [2; 0; 1])
                  (repeat [0%Z] 6)
     = Some [[1%Z]; [2%Z]; [3%Z]; [9%Z]; [7%Z]; [8%Z]].
Proof. vm_compute. repeat split; reflexivity. Qed.
Print Assumptions c15_example_generated.

(* every world size: item i of the striped list is held by rank i mod size, at place i / size of
   its stripe (so the ranks' stripes together hold every row / file, none twice at one place) *)
Theorem c15_gen_stripe_covers : forall (d : elem) size (l : list elem) i, 1 <= size -> i < length l ->
  nth (i / size) (gen_stripe (Z.of_nat (i mod size)) (Z.of_nat size) l) d = nth i l d.
Proof. exact gen_stripe_nth. Qed.
Print Assumptions c15_gen_stripe_covers.

(* x[rank::size] for every rank and size: the items rank, rank+size, ...; there are
   ceil((len - rank) / size) of them *)
Theorem c15_stripe_spec : forall (d : elem) rank size (l : list elem), 1 <= size ->
  stripe rank size l
  = map (fun k => nth (rank + k * size) l d) (seq 0 (ceil_len (length l - rank) (Z.of_nat size))).
Proof. exact (@stripe_spec elem). Qed.
Print Assumptions c15_stripe_spec.
