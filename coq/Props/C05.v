(* C05 -- reading a ragged array equals reading the list of its rows.
   Property theorems only; proofs live in Proof/RaggedProofs.v, the model in Model/Ragged.v.
   [get_c s i] is RaggedArray.__getitem__ on the flat representation (data + lengths, starts by cumulative
   sum); [get_s rows i] is the same index applied to a plain list of rows; [abs s] is the list of rows of s;
   [wf s] says the lengths add up to the size of the flat data (what the constructor enforces). *)
From Coq Require Import List ZArith.
From EV Require Import PySlice Ragged RaggedProofs.
Import ListNotations.

(* single row a[r] *)
Theorem c05_row : forall A (s : conc A) r, get_c s (Row r) = get_s (abs s) (Row r).
Proof. exact @get_row_refines. Qed.
Print Assumptions c05_row.

(* (row, column) element a[r, c], including error <-> error *)
Theorem c05_elem : forall A (s : conc A) r c, wf s -> get_c s (Elem r c) = get_s (abs s) (Elem r c).
Proof. exact @get_elem_refines. Qed.
Print Assumptions c05_elem.

Example c05_example :
  get_c (mkRA [0; 1; 2; 3; 4; 5; 6; 7; 8]%Z [3; 2; 4]%nat) (Elem (-1) (-4)) = Flat [5%Z].
Proof. vm_compute. reflexivity. Qed.
Print Assumptions c05_example.
