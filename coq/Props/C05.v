(* C05 -- reading a ragged array equals reading the list of its rows.
   Property theorems only; proofs live in Proof/RaggedProofs.v (+ Proof/PySliceLemmas.v), the model in
   Model/Ragged.v.
   [get_c s i]  RaggedArray.__getitem__ on the class's representation: flat data + row lengths, starts by
                cumulative sum, the (row, col) -> flat offset arithmetic of _convert_from_2d /
                _handle_negative_indices, the pair generation of _get_iis_from_slices / _get_iis_from_list /
                _slice_to_list, and the constructor applied to the result;
   [get_s rows i]  the same index applied to a plain list of rows (Python/NumPy indexing of every row);
   [abs s]      the list of rows of s;
   [wf s]       the lengths add up to the size of the flat data (what the constructor enforces);
   results      Val rows (a RaggedArray) | Flat xs (a 1-D array) | Err (the read raises).
   All theorems hold for any number of rows, any row lengths (zero included), any element type. *)
From Coq Require Import List ZArith.
From EV Require Import PySlice Ragged RaggedProofs RaggedWhere.
From EV Require Import RaBase RaGen RaggedGen RaGenProofs RaggedLegacy.
Import ListNotations.

(* single row a[r] *)
Theorem c05_row : forall A (s : conc A) r, get_c s (Row r) = get_s (abs s) (Row r).
Proof. exact @get_row_refines. Qed.
Print Assumptions c05_row.

(* row slice a[s:e:k] *)
Theorem c05_rows : forall A (s : conc A) sl, get_c s (Rows sl) = get_s (abs s) (Rows sl).
Proof. exact @get_rows_refines. Qed.
Print Assumptions c05_rows.

(* row list a[[r0, r1, ..]] *)
Theorem c05_rowlist : forall A (s : conc A) rs, get_c s (RowList rs) = get_s (abs s) (RowList rs).
Proof. exact @get_rowlist_refines. Qed.
Print Assumptions c05_rowlist.

(* slice of one row a[r, s:e:k] *)
Theorem c05_rowsl : forall A (s : conc A) r sl, get_c s (RowSl r sl) = get_s (abs s) (RowSl r sl).
Proof. exact @get_rowsl_refines. Qed.
Print Assumptions c05_rowsl.

(* (row, column) element a[r, c], positive or negative indices, error <-> error *)
Theorem c05_elem : forall A (s : conc A) r c, wf s -> get_c s (Elem r c) = get_s (abs s) (Elem r c).
Proof. exact @get_elem_refines. Qed.
Print Assumptions c05_elem.

(* "An element access outside a row raises an error instead of returning data that belongs to a neighbouring
   row": whenever the column is outside [-len(row), len(row)) the read raises -- for every array, even one
   whose lengths do not add up; and a read that succeeds returns the entry of that very row. *)
Theorem c05_elem_outside_row_raises : forall A (s : conc A) r c,
  (forall l, get_item (lens s) r = Some l -> (Z.of_nat l <= c \/ c < - Z.of_nat l)%Z) ->
  get_c s (Elem r c) = Err.
Proof. exact @elem_oob_is_error. Qed.
Print Assumptions c05_elem_outside_row_raises.

Theorem c05_elem_value_from_own_row : forall A (s : conc A) r c x,
  wf s -> get_c s (Elem r c) = Flat [x] ->
  exists row, get_item (abs s) r = Some row /\ get_item row c = Some x.
Proof. exact @elem_value. Qed.
Print Assumptions c05_elem_value_from_own_row.

(* paired fancy indices a[[r0,..],[c0,..]], a[[r0,..], c], a[r, [c0,..]] *)
Theorem c05_pairs : forall A (s : conc A) rs cs, wf s -> get_c s (Pairs rs cs) = get_s (abs s) (Pairs rs cs).
Proof. exact @get_pairs_refines. Qed.
Print Assumptions c05_pairs.

Theorem c05_pairs_scalar : forall A (s : conc A) rs c,
  wf s -> get_c s (PairsScalar rs c) = get_s (abs s) (PairsScalar rs c).
Proof. exact @get_pairs_scalar_refines. Qed.
Print Assumptions c05_pairs_scalar.

Theorem c05_elem_list : forall A (s : conc A) r cs,
  wf s -> get_c s (ElemList r cs) = get_s (abs s) (ElemList r cs).
Proof. exact @get_elem_list_refines. Qed.
Print Assumptions c05_elem_list.

(* two-dimensional slices with positive or negative bounds and steps: a[s:e:k, s':e':k'] ... *)
Theorem c05_slice_slice : forall A (s : conc A) rsl csl,
  wf s -> get_c s (Sl2SS rsl csl) = get_s (abs s) (Sl2SS rsl csl).
Proof. exact @get_sl2ss_refines. Qed.
Print Assumptions c05_slice_slice.

(* ... a[[r0,..], s:e:k] ... *)
Theorem c05_list_slice : forall A (s : conc A) rs csl,
  wf s -> get_c s (Sl2LS rs csl) = get_s (abs s) (Sl2LS rs csl).
Proof. exact @get_sl2ls_refines. Qed.
Print Assumptions c05_list_slice.

(* ... a[s:e:k, c] and a[s:e:k, [c0,..]] *)
Theorem c05_slice_int : forall A (s : conc A) rsl c,
  wf s -> get_c s (Sl2SI rsl c) = get_s (abs s) (Sl2SI rsl c).
Proof. exact @get_sl2si_refines. Qed.
Print Assumptions c05_slice_int.

Theorem c05_slice_list : forall A (s : conc A) rsl cs,
  wf s -> get_c s (Sl2SL rsl cs) = get_s (abs s) (Sl2SL rsl cs).
Proof. exact @get_sl2sl_refines. Qed.
Print Assumptions c05_slice_list.

(* every selected index of a Python slice lies inside the sequence (what makes the per-row ranges safe) *)
Theorem c05_slice_indices_inside : forall len start stop step i,
  In i (slice_indices len start stop step) -> (0 <= i < Z.of_nat len)%Z.
Proof. exact PySliceLemmas.slice_indices_in_range. Qed.
Print Assumptions c05_slice_indices_inside.

(* boolean ragged mask: ra.where(mask) lists the True positions row-major (_convert_from_1d inverts the
   starts arithmetic; rows of the mask non-empty, as in every array the property quantifies over) ... *)
Theorem c05_where : forall m : list (list bool),
  (forall row, In row m -> row <> []) -> where_c m = Some (where_s m).
Proof. exact where_c_spec. Qed.
Print Assumptions c05_where.

(* ... a[mask] equals reading those positions from the list of rows ... *)
Theorem c05_mask : forall A (s : conc A) m,
  wf s -> (forall row, In row m -> row <> []) -> get_c s (Mask m) = get_s (abs s) (Mask m).
Proof. exact @get_mask_refines. Qed.
Print Assumptions c05_mask.

(* ... and, when the mask has the array's row structure, is the kept entries of every row, in order. *)
Theorem c05_mask_same_structure : forall A (s : conc A) m,
  wf s -> (forall row, In row m -> row <> []) -> map (@length A) (abs s) = map (@length bool) m ->
  get_c s (Mask m) = Flat (mask_rows (abs s) m).
Proof. exact @get_mask_same_structure. Qed.
Print Assumptions c05_mask_same_structure.

(* lengths, starts, shape, size, len, iteration, flatten *)
Theorem c05_attr_lengths : forall A (s : conc A), wf s -> attr_lengths s = map (@length A) (abs s).
Proof. exact @attr_lengths_refines. Qed.
Print Assumptions c05_attr_lengths.

Theorem c05_attr_starts : forall A (s : conc A),
  wf s -> length (attr_starts s) = length (abs s) /\
  forall j, (j < length (abs s))%nat -> nth j (attr_starts s) 0%nat = length (concat (firstn j (abs s))).
Proof. exact @attr_starts_refines. Qed.
Print Assumptions c05_attr_starts.

Theorem c05_attr_shape : forall A (s : conc A) l,
  wf s -> (attr_shape2 s = Some l <-> (abs s <> [] /\ forall row, In row (abs s) -> length row = l)).
Proof. exact @attr_shape_refines. Qed.
Print Assumptions c05_attr_shape.

Theorem c05_attr_size : forall A (s : conc A), wf s -> attr_size s = sum_nat (map (@length A) (abs s)).
Proof. exact @attr_size_refines. Qed.
Print Assumptions c05_attr_size.

Theorem c05_attr_len : forall A (s : conc A), attr_len s = length (abs s) /\ attr_len s = length (lens s).
Proof. exact @attr_len_refines. Qed.
Print Assumptions c05_attr_len.

Theorem c05_attr_iter : forall A (s : conc A), attr_iter s = abs s.
Proof. exact @attr_iter_refines. Qed.
Print Assumptions c05_attr_iter.

Theorem c05_attr_flatten : forall A (s : conc A), wf s -> attr_flatten s = concat (abs s).
Proof. exact @attr_flatten_refines. Qed.
Print Assumptions c05_attr_flatten.

(* constructors: from nested lists the rows are the given rows; flat data + lengths is accepted exactly when
   the lengths add up, and then both constructions give the same array *)
Theorem c05_ctor_nested : forall A (rows : list (list A)), abs (ctor_nested rows) = rows /\ wf (ctor_nested rows).
Proof. intros A rows. split; [exact (ctor_nested_abs rows)|exact (ctor_nested_wf rows)]. Qed.
Print Assumptions c05_ctor_nested.

Theorem c05_ctor_paths_agree : forall A (rows : list (list A)),
  ctor_flat (concat rows) (map (@length A) rows) = Some (ctor_nested rows).
Proof. exact @ctor_paths_agree. Qed.
Print Assumptions c05_ctor_paths_agree.

Theorem c05_ctor_flat_checks_lengths : forall A (d : list A) ls,
  (forall s, ctor_flat d ls = Some s -> wf s /\ data s = d /\ lens s = ls) /\
  (sum_nat ls <> length d -> ctor_flat d ls = None).
Proof. intros A d ls. split; [exact (ctor_flat_wf d ls)|exact (ctor_flat_rejects d ls)]. Qed.
Print Assumptions c05_ctor_flat_checks_lengths.

(* Non-vacuity: a concrete array ([[0,1,2],[3,4],[5,6,7,8]], the D3 witness) meets wf, and the reads that were
   wrong before the repair come out as list-of-rows semantics says. *)
Example c05_example :
  let s := mkRA [0; 1; 2; 3; 4; 5; 6; 7; 8]%Z [3; 2; 4]%nat in
  wf s
  /\ get_c s (Sl2SS (None, None, None) (Some (-2)%Z, None, None)) = Val [[1; 2]; [3; 4]; [7; 8]]%Z
  /\ get_c s (Sl2SS (None, None, Some (-1)%Z) (Some 1%Z, None, Some (-1)%Z)) = Val [[6; 5]; [4; 3]; [1; 0]]%Z
  /\ get_c s (Sl2SS (None, None, None) (Some 2%Z, None, None)) = Val [[2]; []; [7; 8]]%Z
  /\ get_c s (Elem (-1) (-4)) = Flat [5%Z]
  /\ get_c s (Elem 1 2) = Err
  /\ get_c s (Mask [[true; false; true]; [false; false]; [false; true; false; true]]) = Flat [0; 2; 6; 8]%Z.
Proof. vm_compute. repeat split; reflexivity. Qed.
Print Assumptions c05_example.

(* ================================================================================================
   Round 2 -- tie to the source.  Gen/RaGen.v is regenerated from the CURRENT enspara/ra/ra.py by
   translator/tr_ragged.py at every check (scalar tests/expressions translated, NumPy statement shapes
   plugged into the fixed skeletons of Base/RaBase.v).  The theorems below state that every regenerated
   definition equals the hand-written one of Model/Ragged.v on its domain, and that the read assembled from
   the regenerated definitions ([get_g], Model/RaggedGen.v) is the list-of-rows read.  Changing `<=` to `<`
   in the bound test, an off-by-one in starts, a wrong wrap ... in the source breaks one of these proofs.
   Python integers are Z on the generated side (lengths, starts, flat offsets). *)

(* _slice_to_list(sl, length=n) -- the only way the read path calls it -- is range( *sl.indices(n));
   a zero step raises *)
Theorem c05_gen_slice_to_list : forall (sl : pslice) (n : nat),
  gen_slice_to_list sl (py_int (Z.of_nat n)) = if sl_ok sl then PyOk (sl_indices n sl) else PyRaise.
Proof. exact gen_slice_to_list_spec. Qed.
Print Assumptions c05_gen_slice_to_list.

(* _slice_to_list without a length (legacy branch, unused by reads): range(start or 0, stop, step or 1);
   a negative bound, a missing stop or a zero step raises *)
Theorem c05_gen_slice_to_list_nolength : forall s e k : option Z,
  gen_slice_to_list (s, e, k) py_none =
  match e with
  | None => PyRaise
  | Some e' =>
    if (match s with Some x => x <? 0 | None => false end)%Z then PyRaise
    else if (e' <? 0)%Z then PyRaise
    else if (step_of k =? 0)%Z then PyRaise
    else PyOk (zrange (match s with Some x => x | None => 0%Z end) e' (step_of k))
  end.
Proof. exact gen_slice_to_list_nolength. Qed.
Print Assumptions c05_gen_slice_to_list_nolength.

(* starts = np.append([0], np.cumsum(lengths)[:-1]) is the model's prefix sums (at least one row) *)
Theorem c05_gen_starts : forall ls : list nat,
  ls <> [] -> gen_starts (map Z.of_nat ls) = map Z.of_nat (starts_of ls).
Proof. exact gen_starts_spec. Qed.
Print Assumptions c05_gen_starts.

(* each translated scalar of _handle_negative_indices / _convert_from_2d / _convert_from_1d is the model's:
   negative tests, wraps by the number of rows / the row length, `lengths[r] <= c`, `starts[r] + c`,
   `starts <= ii`, `ii - starts[row]` *)
Theorem c05_gen_scalar_tests : forall x y : Z,
  gen_hn_row_neg x = (x <? 0)%Z /\ gen_hn_row_wrap x y = (x + y)%Z /\ gen_hn_row_bad x = (x <? 0)%Z /\
  gen_hn_col_neg x = (x <? 0)%Z /\ gen_hn_col_wrap x y = (x + y)%Z /\ gen_hn_col_bad x = (x <? 0)%Z /\
  gen_c2_oob x y = (x <=? y)%Z /\ gen_c2_flat x y = (x + y)%Z /\
  gen_c1_test x y = (x <=? y)%Z /\ gen_c1_col x y = (x - y)%Z.
Proof. exact gen_scalar_tests. Qed.
Print Assumptions c05_gen_scalar_tests.

(* _handle_negative_indices + bound test + offset of _convert_from_2d, per (row, col): the model's conv2d,
   for every lengths vector (empty included) and every pair of integers; None = the read raises *)
Theorem c05_gen_convert_from_2d : forall (ls : list nat) (r c : Z),
  gen_conv2d (map Z.of_nat ls) (gen_starts (map Z.of_nat ls)) r c = option_map Z.of_nat (conv2d ls r c).
Proof. exact gen_conv2d_spec. Qed.
Print Assumptions c05_gen_convert_from_2d.

(* _convert_from_1d per flat position: the model's conv1d *)
Theorem c05_gen_convert_from_1d : forall (sts : list nat) (ii : nat),
  gen_conv1d (map Z.of_nat sts) (Z.of_nat ii) = option_map zpair (conv1d sts ii).
Proof. exact gen_conv1d_spec. Qed.
Print Assumptions c05_gen_convert_from_1d.

(* ra.where(mask) assembled from the generated starts and _convert_from_1d *)
Theorem c05_gen_where : forall m : list (list bool), where_g m = option_map (map zpair) (where_c m).
Proof. exact where_g_spec. Qed.
Print Assumptions c05_gen_where.

(* _get_iis_from_slices (shape pinned; slice.indices per selected row) *)
Theorem c05_gen_iis_from_slices : forall (ls : list nat) (rows : list Z) (sl : pslice),
  sl_ok sl = true -> gen_iis_from_slices (map Z.of_nat ls) rows sl = iis_from_slices ls rows sl.
Proof. exact gen_iis_from_slices_spec. Qed.
Print Assumptions c05_gen_iis_from_slices.

(* a zero column step raises as soon as one row is selected *)
Theorem c05_gen_zero_col_step_raises : forall (ls : list nat) r rows s e,
  gen_iis_from_slices (map Z.of_nat ls) (r :: rows) (s, e, Some 0%Z) = None.
Proof. exact gen_iis_from_slices_zero_step. Qed.
Print Assumptions c05_gen_zero_col_step_raises.

(* __getitem__ assembled from the regenerated definitions is the model's __getitem__ ... *)
Theorem c05_gen_read_is_model : forall A (s : conc A) (i : idx),
  col_step_ok i = true -> get_g s i = get_c s i.
Proof. exact @get_g_eq. Qed.
Print Assumptions c05_gen_read_is_model.

(* ... hence, for every index form, the list-of-rows read (error <-> error) *)
Theorem c05_gen_read_refines : forall A (s : conc A) (i : idx),
  wf s -> col_step_ok i = true -> (forall m, i = Mask m -> forall row, In row m -> row <> []) ->
  get_g s i = get_s (abs s) i.
Proof. exact @get_g_refines. Qed.
Print Assumptions c05_gen_read_refines.

(* the error clause over the regenerated bound test: a column outside the row raises *)
Theorem c05_gen_elem_outside_row_raises : forall A (s : conc A) r c,
  (forall l, get_item (lens s) r = Some l -> (Z.of_nat l <= c \/ c < - Z.of_nat l)%Z) ->
  get_g s (Elem r c) = Err.
Proof. exact @gen_elem_oob_is_error. Qed.
Print Assumptions c05_gen_elem_outside_row_raises.

(* D3 as a refutation: with the column-slice arithmetic as it stood before fix 1d25777 (faithful copy in
   Proof/RaggedLegacy.v; witness replayed on that revision of the code) the property is FALSE *)
Theorem c05_legacy_negstart_refuted :
  exists (s : conc Z) (rsl csl : pslice),
    wf s /\ sl_ok rsl = true /\ sl_ok csl = true /\
    old_get_sl2ss s rsl csl <> get_s (abs s) (Sl2SS rsl csl).
Proof. exact old_negstart_refuted. Qed.
Print Assumptions c05_legacy_negstart_refuted.

Example c05_legacy_negstart_value :
  old_get_sl2ss (mkRA [0; 1; 2; 3; 4; 5; 6; 7; 8]%Z [3; 2; 4]%nat) (None, None, None) (Some (-2)%Z, None, None)
  = Val [[1; 2; 0; 1; 2]; [3; 4; 3; 4]; [7; 8; 5; 6; 7; 8]]%Z.
Proof. vm_compute. reflexivity. Qed.
Print Assumptions c05_legacy_negstart_value.

(* Non-vacuity on the generated side: the D3 witness read through the regenerated definitions *)
Example c05_gen_example :
  let s := mkRA [0; 1; 2; 3; 4; 5; 6; 7; 8]%Z [3; 2; 4]%nat in
  get_g s (Sl2SS (None, None, None) (Some (-2)%Z, None, None)) = Val [[1; 2]; [3; 4]; [7; 8]]%Z
  /\ get_g s (Sl2SS (None, None, Some (-1)%Z) (Some 1%Z, None, Some (-1)%Z)) = Val [[6; 5]; [4; 3]; [1; 0]]%Z
  /\ get_g s (Elem (-1) (-4)) = Flat [5%Z]
  /\ get_g s (Elem 1 2) = Err
  /\ get_g s (Pairs [0; -2; 2]%Z [-1; 1; 0]%Z) = Flat [2; 4; 5]%Z
  /\ get_g s (Mask [[true; false; true]; [false; false]; [false; true; false; true]]) = Flat [0; 2; 6; 8]%Z
  /\ gen_starts [3; 2; 4]%Z = [0; 3; 5]%Z
  /\ gen_slice_to_list (Some (-2)%Z, None, Some (-1)%Z) (py_int 3) = PyOk [1; 0]%Z.
Proof. vm_compute. repeat split; reflexivity. Qed.
Print Assumptions c05_gen_example.

(* paired fancy indices are paired by broadcasting, as NumPy pairs index arrays (repaired _convert_from_2d:
   np.broadcast_arrays): a one-entry column vector a[[r0,..],[c]] reads what the scalar column a[[r0,..], c]
   reads, a one-entry row vector a[[r],[c0,..]] what a[r, [c0,..]] reads -- on the ragged array and on the list of
   rows alike; c05_pairs above covers every pair of lengths (other unequal lengths raise on both sides) *)
Theorem c05_pairs_broadcast_col : forall A (s : conc A) rs c,
  get_c s (Pairs rs [c]) = get_c s (PairsScalar rs c).
Proof. exact @get_pairs_broadcast_col. Qed.
Print Assumptions c05_pairs_broadcast_col.

Theorem c05_pairs_broadcast_row : forall A (s : conc A) r cs,
  get_c s (Pairs [r] cs) = get_c s (ElemList r cs).
Proof. exact @get_pairs_broadcast_row. Qed.
Print Assumptions c05_pairs_broadcast_row.

Theorem c05_rows_pairs_broadcast_col : forall A (rows : list (list A)) rs c,
  get_s rows (Pairs rs [c]) = get_s rows (PairsScalar rs c).
Proof. exact @get_s_pairs_broadcast_col. Qed.
Print Assumptions c05_rows_pairs_broadcast_col.

Theorem c05_rows_pairs_broadcast_row : forall A (rows : list (list A)) r cs,
  get_s rows (Pairs [r] cs) = get_s rows (ElemList r cs).
Proof. exact @get_s_pairs_broadcast_row. Qed.
Print Assumptions c05_rows_pairs_broadcast_row.

Theorem c05_pairs_broadcast_length : forall (rs cs : list Z) ps,
  rs <> [] -> cs <> [] -> bpairs rs cs = Some ps -> length ps = Nat.max (length rs) (length cs).
Proof. exact bpairs_length. Qed.
Print Assumptions c05_pairs_broadcast_length.

Theorem c05_pairs_unequal_lengths_raise : forall A (s : conc A) (rs cs : list Z),
  length rs <> length cs -> length rs <> 1%nat -> length cs <> 1%nat ->
  get_c s (Pairs rs cs) = Err /\ get_s (abs s) (Pairs rs cs) = Err.
Proof. exact @get_pairs_unequal_raise. Qed.
Print Assumptions c05_pairs_unequal_lengths_raise.

(* the reported input: a[[0,1,2],[4]] on three rows of six reads 3 values (it used to read a 3x3 matrix) *)
Example c05_broadcast_example :
  let s := mkRA [0; 1; 2; 3; 4; 5; 10; 11; 12; 13; 14; 15; 20; 21; 22; 23; 24; 25]%Z [6; 6; 6]%nat in
  get_c s (Pairs [0; 1; 2]%Z [4]%Z) = Flat [4; 14; 24]%Z
  /\ get_g s (Pairs [0; 1; 2]%Z [-1]%Z) = Flat [5; 15; 25]%Z
  /\ get_g s (Pairs [-1]%Z [0; 2; -4]%Z) = Flat [20; 22; 22]%Z
  /\ get_c s (Pairs [0; 1]%Z [1; 2; 3]%Z) = Err.
Proof. vm_compute. repeat split; reflexivity. Qed.
Print Assumptions c05_broadcast_example.

(* the pairing of the two index vectors as regenerated from _convert_from_2d (np.broadcast_arrays; Gen/RaGen.v)
   is the model's pairing, so c05_gen_reads covers broadcast pairs read through the generated definitions *)
Theorem c05_gen_pairs_are_broadcast : forall rs cs : list Z, gen_c2_pairs rs cs = bpairs rs cs.
Proof. exact gen_c2_pairs_spec. Qed.
Print Assumptions c05_gen_pairs_are_broadcast.
