(* C12 -- the reversible (Prinz) maximum-likelihood estimator is a maximum-likelihood fixed point.
   Property theorems only; proofs live in Proof/PrinzProofs.v (updates over R), Proof/PrinzSweep.v
   (loop skeleton over R) and Proof/PrinzCert.v (certificate checker over Q).

   py_diag / py_offdiag / pyx_diag / pyx_offdiag are GENERATED from the loop bodies of
   builders._prinz_mle_py and libmsm._mle_prinz_dense (Gen/PrinzGen.v), generic in the number type;
   ROps instantiates them at the real numbers (sqrt = the real square root).
   A state is (X, X_rs): the symmetric matrix and the RUNNING row sums the code maintains.
   qa, qb, qc are the coefficients a, b, c of the code's quadratic; Inv n s says: X symmetric,
   X_rs i = sum_j X i j, X >= 0; CInv says: C >= 0 and C_rs i = sum_j C i j.

   PARTIAL (not theorems, observed per input by harness/props/c12.py): convergence of the iteration,
   global optimality over all reversible matrices (likelihood is compared with the transpose estimate
   and sampled reversible competitors), IEEE rounding, the stopping rule on the pseudo log-likelihood.
   Theorems over R depend on the standard library's axioms of the reals (printed below). *)
From Coq Require Import List ZArith QArith Qabs Reals.
From EV Require Import Prinz PrinzGen PrinzProofs PrinzSweep PrinzCert.
Import ListNotations.
Open Scope R_scope.

(* ---- clause "the compiled and the pure-Python implementations agree": the update formulas
        translated from builders.py and from libmsm.pyx are the same functions (any number type) *)
Theorem c12_py_pyx_same_updates : forall (K : Type) (o : Ops K),
  (forall C_ii Crs_i Xrs_i X_ii, py_diag o C_ii Crs_i Xrs_i X_ii = pyx_diag o C_ii Crs_i Xrs_i X_ii) /\
  (forall C_ij C_ji Crs_i Crs_j Xrs_i Xrs_j X_ij X_ji,
     py_offdiag o C_ij C_ji Crs_i Crs_j Xrs_i Xrs_j X_ij X_ji =
     pyx_offdiag o C_ij C_ji Crs_i Crs_j Xrs_i Xrs_j X_ij X_ji).
Proof. exact py_pyx_same_updates. Qed.
Print Assumptions c12_py_pyx_same_updates.

(* ... hence whole sweeps agree *)
Theorem c12_py_pyx_same_sweep : forall (K : Type) (o : Ops K) C Crs n s,
  py_sweep o C Crs n s = pyx_sweep o C Crs n s.
Proof. exact py_pyx_same_sweep. Qed.
Print Assumptions c12_py_pyx_same_sweep.

(* ---- offdiag_root: the value v = (-b + sqrt(b^2 - 4ac)) / (2a) the code computes is a non-negative
        root of a v^2 + b v + c whenever a > 0 and c <= 0 *)
Theorem c12_offdiag_root : forall a b c : R,
  0 < a -> c <= 0 ->
  let v := root a b c in a * v * v + b * v + c = 0 /\ 0 <= v.
Proof. exact quad_root. Qed.
Print Assumptions c12_offdiag_root.

(* ... and what the generated pairwise update returns is exactly that root (or X_ji when a = 0), stored
   in both X_ij and X_ji, with both running row sums corrected by the change *)
Theorem c12_offdiag_update_spec : forall cij cji ci cj xi xj xij xji : R,
  qc cij cji xi xj xij <= 0 ->
  py_offdiag ROps cij cji ci cj xi xj xij xji =
    let v := newv cij cji ci cj xi xj xij xji in (v, v, xi + (v - xij), xj + (v - xji)).
Proof. exact py_offdiag_spec. Qed.
Print Assumptions c12_offdiag_update_spec.

(* ---- offdiag_is_stationary: with r_i, r_j the rest of rows i and j, the stored value v is >= 0, is a
        zero of the derivative of the log-likelihood in the coordinate x_ij = x_ji (row sums moving
        with it) when positive, and is positive when the pair has counts and both rows have other mass *)
Theorem c12_offdiag_is_stationary : forall cij cji ci cj xi xj xij xji : R,
  0 <= cij + cji -> 0 <= xi - xij -> 0 <= xj - xij -> qa cij cji ci cj > 0 ->
  let ri := xi - xij in let rj := xj - xij in
  let v := fst (fst (fst (py_offdiag ROps cij cji ci cj xi xj xij xji))) in
  0 <= v /\
  (0 < v -> derivable_pt_lim (ell_off (cij + cji) ci cj ri rj) v 0) /\
  (0 < cij + cji -> 0 < ri -> 0 < rj -> 0 < v).
Proof. exact offdiag_is_stationary. Qed.
Print Assumptions c12_offdiag_is_stationary.

(* ... the only positive stationary point of that coordinate *)
Theorem c12_offdiag_stationary_unique : forall cij cji ci cj xi xj xij xji w : R,
  0 < cij + cji -> 0 < xi - xij -> 0 < xj - xij -> qa cij cji ci cj > 0 ->
  0 < w -> dell_off (cij + cji) ci cj (xi - xij) (xj - xij) w = 0 ->
  w = fst (fst (fst (py_offdiag ROps cij cji ci cj xi xj xij xji))).
Proof. exact offdiag_stationary_unique. Qed.
Print Assumptions c12_offdiag_stationary_unique.

(* the derivative used above is the derivative of the coordinate log-likelihood *)
Theorem c12_ell_off_derivative : forall s ci cj ri rj v : R,
  0 < v -> 0 < ri + v -> 0 < rj + v ->
  derivable_pt_lim (ell_off s ci cj ri rj) v (dell_off s ci cj ri rj v).
Proof. exact ell_off_derivative. Qed.
Print Assumptions c12_ell_off_derivative.

(* ---- diag_is_stationary *)
Theorem c12_diag_is_stationary : forall cii ci xi xii : R,
  0 <= cii -> 0 <= xi - xii -> 0 < ci - cii ->
  let r := xi - xii in
  let u := fst (py_diag ROps cii ci xi xii) in
  0 <= u /\ u * (ci - cii) = cii * r /\
  (0 < u -> derivable_pt_lim (ell_diag cii ci r) u 0).
Proof. exact diag_is_stationary. Qed.
Print Assumptions c12_diag_is_stationary.

(* ---- rowsum_tracking, symmetry_preserved, non-negativity: one sweep (hence any number of sweeps, from
        X = C + C^T) keeps the running row sums equal to the true row sums, X symmetric and X >= 0 *)
Theorem c12_sweep_invariant : forall n C Crs, CInv n C Crs ->
  forall s, Inv n s -> Inv n (py_sweep ROps C Crs n s).
Proof. exact sweep_invariant. Qed.
Print Assumptions c12_sweep_invariant.

Theorem c12_iteration_invariant : forall n C Crs, CInv n C Crs ->
  forall k, Inv n (Nat.iter k (py_sweep ROps C Crs n) (init_state ROps n C)).
Proof. exact iteration_invariant. Qed.
Print Assumptions c12_iteration_invariant.

(* ---- clause "no internal assertion failure", exact-arithmetic part: in every state satisfying the
        invariant the guarded quantity c is <= 0 (the original `assert c <= 0` holds; the clamp that
        replaced it after the rounding defect is the identity) *)
Theorem c12_c_nonpos : forall n C Crs, CInv n C Crs ->
  forall s i j, Inv n s -> (i < n)%nat -> (j < n)%nat ->
  qc (C i j) (C j i) (snd s i) (snd s j) (fst s i j) <= 0.
Proof. exact offdiag_c_nonpos. Qed.
Print Assumptions c12_c_nonpos.

(* ---- fixed_point_self_consistent (PARTIAL in one respect).
        Full statement wanted: for s with Inv n s and positive rows,
          (forall i j, fst (py_sweep ROps C Crs n s) i j = fst s i j)  ->  Prinz equations for all i, j.
        Proved: the same conclusion from `is_fixed n C Crs s` = every coordinate update, computed on s
        itself, returns the entry that is already there.  Missing: the bookkeeping lemma that a whole
        sweep leaving X unchanged forces every single update inside it to be the identity (each entry
        is written exactly once per sweep), i.e.  sweep s = s -> is_fixed s.
        The two hypotheses on C say that every state has a count to another state and every pair of
        states has a count leaving the pair; both follow from strong connectivity when n >= 3. *)
Theorem c12_fixed_point_self_consistent_partial : forall n C Crs, CInv n C Crs ->
  forall s, Inv n s -> (forall i, (i < n)%nat -> 0 < snd s i) ->
  (forall i, (i < n)%nat -> 0 < Crs i - C i i) ->
  (forall i j, (i < j < n)%nat -> qa (C i j) (C j i) (Crs i) (Crs j) <> 0) ->
  is_fixed n C Crs s ->
  forall i j, (i < n)%nat -> (j < n)%nat ->
    fst s i j * (Crs i / snd s i + Crs j / snd s j) = C i j + C j i.
Proof. exact fixed_point_self_consistent. Qed.
Print Assumptions c12_fixed_point_self_consistent_partial.

(* ---- NOT PROVED (clause "log-likelihood at least that of any other reversible row-stochastic matrix
        with the same support"): full statement
          forall P pi', stochastic P -> (forall i j, pi' i * P i j = pi' j * P j i) -> support P = support (C + C^T) ->
            sum_ij C i j * ln (P i j) <= sum_ij C i j * ln (T_mle i j) + tolerance.
        What is proved instead is coordinate-wise: each update is the unique positive stationary point
        of the likelihood in its coordinate (above), and a fixed point satisfies the first-order
        (Prinz) conditions.  Convergence of the iteration is not proved either.  The harness compares
        the likelihood of the returned model with the transpose estimate and with sampled / perturbed
        reversible matrices on every generated input. *)

(* ---- the returned model: T = X / rowsum, pi = X_rs / sum X_rs of any state satisfying the invariant
        with positive rows is row-stochastic, pi is a positive probability vector, and they are in
        detailed balance (the reversible-matrix clause) *)
Theorem c12_normalised_reversible : forall n s,
  Inv n s -> (forall i, (i < n)%nat -> 0 < snd s i) -> (0 < n)%nat ->
  let T := fun i j => fst s i j / sumR n (fst s i) in
  let pi := fun i => snd s i / sumR n (snd s) in
  (forall i j, (i < n)%nat -> (j < n)%nat -> 0 <= T i j) /\
  (forall i, (i < n)%nat -> sumR n (T i) = 1) /\
  (forall i, (i < n)%nat -> 0 < pi i) /\
  sumR n pi = 1 /\
  (forall i j, (i < n)%nat -> (j < n)%nat -> pi i * T i j = pi j * T j i).
Proof. exact normalised_reversible. Qed.
Print Assumptions c12_normalised_reversible.

(* ---- the certificate evaluated on the implementation's output (exact rationals, no axioms) *)
Theorem c12_cert_ok_sound : forall tol1 tol2 C T pi,
  cert_ok tol1 tol2 true C T pi = true ->
  let n := length C in
  let Tf := mat_fun T in let pf := vec_fun pi in let Cf := mat_fun C in
  let Crs := fun i => qsumn n (Cf i) in
  length T = n /\ length pi = n /\
  (Qabs (qsumn n pf - 1) <= tol1)%Q /\
  forall i j, (i < n)%nat -> (j < n)%nat ->
    (0 <= pf i /\ 0 <= Tf i j /\
     Qabs (qsumn n (Tf i) - 1) <= tol1 /\
     Qabs (pf i * Tf i j - pf j * Tf j i) <= tol1 /\
     Qabs (Tf i j * Crs i + Tf j i * Crs j - (Cf i j + Cf j i)) <= tol2 * (Crs i + Crs j))%Q.
Proof. exact cert_ok_sound. Qed.
Print Assumptions c12_cert_ok_sound.

Theorem c12_residual_is_prinz : forall pi_i pi_j Tij Tji ci cj s : Q,
  (0 < pi_i -> 0 < pi_j -> pi_i * Tij == pi_j * Tji ->
   (pi_i * Tij) * (ci / pi_i + cj / pi_j) - s == Tij * ci + Tji * cj - s)%Q.
Proof. exact residual_is_prinz. Qed.
Print Assumptions c12_residual_is_prinz.

(* ---- non-vacuity *)
(* the hypotheses of c12_fixed_point_self_consistent_partial are met by C = [[1,1],[1,1]], X = C + C^T *)
Example c12_example_fixed_point :
  let C := fun (_ _ : nat) => 1 in let Crs := fun (_ : nat) => 2 in
  let s : state R := (fun _ _ => 2, fun _ => 4) in
  CInv 2 C Crs /\ Inv 2 s /\ (forall i, (i < 2)%nat -> 0 < snd s i) /\
  (forall i, (i < 2)%nat -> 0 < Crs i - C i i) /\
  (forall i j, (i < j < 2)%nat -> qa (C i j) (C j i) (Crs i) (Crs j) <> 0) /\
  is_fixed 2 C Crs s /\
  (forall i j, fst s i j = fst (init_state ROps 2 C) i j).
Proof. exact fixed_point_example. Qed.
Print Assumptions c12_example_fixed_point.

(* the executable instance: two sweeps on [[0,1,5],[3,0,0],[4,0,0]] (the input on which the code used to
   fail its assertion) give a model, both generated bodies agree, and a zero row is rejected *)
Example c12_example_run :
  let C := mat_fun [[0; 1; 5]; [3; 0; 0]; [4; 0; 0]]%Q in
  (exists r, prinz_run (QOps 80) (py_sweep (QOps 80)) 3 C 2 = Some r /\
             prinz_run (QOps 80) (pyx_sweep (QOps 80)) 3 C 2 = Some r /\
             cert_ok (1 # 1000000000) (1 # 1000000) false [[0; 1; 5]; [3; 0; 0]; [4; 0; 0]]%Q (fst r) (snd r) = true) /\
  prinz_run (QOps 80) (py_sweep (QOps 80)) 3 (mat_fun [[0; 1; 5]; [0; 0; 0]; [4; 0; 0]]%Q) 2 = None.
Proof. split; [eexists; split; [vm_compute; reflexivity | split; vm_compute; reflexivity] | vm_compute; reflexivity]. Qed.
Print Assumptions c12_example_run.

(* the certificate accepts what builders.mle returns for [[5,2,1],[1,4,0],[2,1,6]] (doubles as exact rationals) *)
Example c12_example_certificate :
  cert_ok (1 # 1000000000) (1 # 1000000) true
    [[5; 2; 1]; [1; 4; 0]; [2; 1; 6]]%Q
    [[2814749766903847 # 4503599627370496; 4817302569482621 # 18014398509481984; 7752387489535893 # 72057594037927936];
     [1550477497358853 # 9007199254740992; 3602879701703715 # 4503599627370496; 4015397663595353 # 144115188075855872];
     [1070511681955197 # 4503599627370496; 1722752774414987 # 18014398509481984; 93824992244111 # 140737488355328]]%Q
    [5992614661996099 # 18014398509481984; 4654733470548331 # 9007199254740992; 339039613298653 # 2251799813685248]%Q
  = true.
Proof. vm_compute. reflexivity. Qed.
Print Assumptions c12_example_certificate.
