(* C12 -- the reversible (Prinz) maximum-likelihood estimator.  Property theorems only. *)
From Coq Require Import List ZArith Reals.
From EV Require Import Prinz PrinzGen PrinzProofs.
Import ListNotations.
Open Scope R_scope.

(* ---- clause "the compiled and the pure-Python implementations agree": the update formulas
        translated from builders.py and from libmsm.pyx are the same functions *)
Theorem c12_py_pyx_same_updates : forall (K : Type) (o : Ops K),
  (forall C_ii Crs_i Xrs_i X_ii, py_diag o C_ii Crs_i Xrs_i X_ii = pyx_diag o C_ii Crs_i Xrs_i X_ii) /\
  (forall C_ij C_ji Crs_i Crs_j Xrs_i Xrs_j X_ij X_ji,
     py_offdiag o C_ij C_ji Crs_i Crs_j Xrs_i Xrs_j X_ij X_ji =
     pyx_offdiag o C_ij C_ji Crs_i Crs_j Xrs_i Xrs_j X_ij X_ji).
Proof. exact py_pyx_same_updates. Qed.
Print Assumptions c12_py_pyx_same_updates.
