(* C12 -- the reversible (Prinz) maximum-likelihood estimator is a maximum-likelihood fixed point.
   Property theorems only; proofs live in Proof/PrinzProofs.v (updates over R), Proof/PrinzSweep.v
   (loop skeleton over R) and Proof/PrinzCert.v (certificate checker over Q).

   py_diag / py_offdiag / pyx_diag / pyx_offdiag are GENERATED from the loop bodies of
   builders._prinz_mle_py and libmsm._mle_prinz_dense (Gen/PrinzGen.v), generic in the number type;
   ROps instantiates them at the real numbers (sqrt = the real square root).
   A state is (X, X_rs): the symmetric matrix and the RUNNING row sums the code maintains.
   qa, qb, qc are the coefficients a, b, c of the code's quadratic; Inv n s says: X symmetric,
   X_rs i = sum_j X i j, X >= 0; CInv says: C >= 0 and C_rs i = sum_j C i j.

   PARTIAL (not theorems, observed per input by harness/props/c12.py): convergence of the iteration,
   global optimality over all reversible matrices for n >= 3 (likelihood is compared with the transpose
   estimate and sampled reversible competitors; proved here: first-order conditions, strict
   coordinate-wise maximality of the full log-likelihood, and global optimality for two states),
   IEEE rounding.  Round 2 additions start at "ROUND 2" below (Proof/PrinzFixed.v, PrinzMax.v,
   PrinzLik.v, PrinzStop.v).  Round 3 additions start at "ROUND 3" (Proof/PrinzMono.v): the iteration is a
   coordinate ascent -- every update and every sweep is monotone in the log-likelihood, strictly unless
   nothing changes; the returned model is at least as likely as the transpose estimate; the likelihood
   VALUES along the iteration converge.  Still not proved: convergence of X, global optimality n >= 3.
   Theorems over R depend on the standard library's axioms of the reals (printed below). *)
From Coq Require Import List ZArith QArith Qabs Reals.
From EV Require Import Prinz PrinzGen PrinzProofs PrinzSweep PrinzCert PrinzFixed PrinzMax PrinzLik PrinzStop PrinzMono.
Import ListNotations.
Open Scope R_scope.

(* ---- clause "the compiled and the pure-Python implementations agree": the update formulas
        translated from builders.py and from libmsm.pyx are the same functions (any number type) *)
Theorem c12_py_pyx_same_updates : forall (K : Type) (o : Ops K),
  (forall C_ii Crs_i Xrs_i X_ii, py_diag o C_ii Crs_i Xrs_i X_ii = pyx_diag o C_ii Crs_i Xrs_i X_ii) /\
  (forall C_ij C_ji Crs_i Crs_j Xrs_i Xrs_j X_ij X_ji,
     py_offdiag o C_ij C_ji Crs_i Crs_j Xrs_i Xrs_j X_ij X_ji =
     pyx_offdiag o C_ij C_ji Crs_i Crs_j Xrs_i Xrs_j X_ij X_ji).
Proof. exact py_pyx_same_updates. Qed.
Print Assumptions c12_py_pyx_same_updates.

(* ... hence whole sweeps agree *)
Theorem c12_py_pyx_same_sweep : forall (K : Type) (o : Ops K) C Crs n s,
  py_sweep o C Crs n s = pyx_sweep o C Crs n s.
Proof. exact py_pyx_same_sweep. Qed.
Print Assumptions c12_py_pyx_same_sweep.

(* ---- offdiag_root: the value v = (-b + sqrt(b^2 - 4ac)) / (2a) the code computes is a non-negative
        root of a v^2 + b v + c whenever a > 0 and c <= 0 *)
Theorem c12_offdiag_root : forall a b c : R,
  0 < a -> c <= 0 ->
  let v := root a b c in a * v * v + b * v + c = 0 /\ 0 <= v.
Proof. exact quad_root. Qed.
Print Assumptions c12_offdiag_root.

(* ... and what the generated pairwise update returns is exactly that root (or X_ji when a = 0), stored
   in both X_ij and X_ji, with both running row sums corrected by the change *)
Theorem c12_offdiag_update_spec : forall cij cji ci cj xi xj xij xji : R,
  qc cij cji xi xj xij <= 0 ->
  py_offdiag ROps cij cji ci cj xi xj xij xji =
    let v := newv cij cji ci cj xi xj xij xji in (v, v, xi + (v - xij), xj + (v - xji)).
Proof. exact py_offdiag_spec. Qed.
Print Assumptions c12_offdiag_update_spec.

(* ---- offdiag_is_stationary: with r_i, r_j the rest of rows i and j, the stored value v is >= 0, is a
        zero of the derivative of the log-likelihood in the coordinate x_ij = x_ji (row sums moving
        with it) when positive, and is positive when the pair has counts and both rows have other mass *)
Theorem c12_offdiag_is_stationary : forall cij cji ci cj xi xj xij xji : R,
  0 <= cij + cji -> 0 <= xi - xij -> 0 <= xj - xij -> qa cij cji ci cj > 0 ->
  let ri := xi - xij in let rj := xj - xij in
  let v := fst (fst (fst (py_offdiag ROps cij cji ci cj xi xj xij xji))) in
  0 <= v /\
  (0 < v -> derivable_pt_lim (ell_off (cij + cji) ci cj ri rj) v 0) /\
  (0 < cij + cji -> 0 < ri -> 0 < rj -> 0 < v).
Proof. exact offdiag_is_stationary. Qed.
Print Assumptions c12_offdiag_is_stationary.

(* ... the only positive stationary point of that coordinate *)
Theorem c12_offdiag_stationary_unique : forall cij cji ci cj xi xj xij xji w : R,
  0 < cij + cji -> 0 < xi - xij -> 0 < xj - xij -> qa cij cji ci cj > 0 ->
  0 < w -> dell_off (cij + cji) ci cj (xi - xij) (xj - xij) w = 0 ->
  w = fst (fst (fst (py_offdiag ROps cij cji ci cj xi xj xij xji))).
Proof. exact offdiag_stationary_unique. Qed.
Print Assumptions c12_offdiag_stationary_unique.

(* the derivative used above is the derivative of the coordinate log-likelihood *)
Theorem c12_ell_off_derivative : forall s ci cj ri rj v : R,
  0 < v -> 0 < ri + v -> 0 < rj + v ->
  derivable_pt_lim (ell_off s ci cj ri rj) v (dell_off s ci cj ri rj v).
Proof. exact ell_off_derivative. Qed.
Print Assumptions c12_ell_off_derivative.

(* ---- diag_is_stationary *)
Theorem c12_diag_is_stationary : forall cii ci xi xii : R,
  0 <= cii -> 0 <= xi - xii -> 0 < ci - cii ->
  let r := xi - xii in
  let u := fst (py_diag ROps cii ci xi xii) in
  0 <= u /\ u * (ci - cii) = cii * r /\
  (0 < u -> derivable_pt_lim (ell_diag cii ci r) u 0).
Proof. exact diag_is_stationary. Qed.
Print Assumptions c12_diag_is_stationary.

(* ---- rowsum_tracking, symmetry_preserved, non-negativity: one sweep (hence any number of sweeps, from
        X = C + C^T) keeps the running row sums equal to the true row sums, X symmetric and X >= 0 *)
Theorem c12_sweep_invariant : forall n C Crs, CInv n C Crs ->
  forall s, Inv n s -> Inv n (py_sweep ROps C Crs n s).
Proof. exact sweep_invariant. Qed.
Print Assumptions c12_sweep_invariant.

Theorem c12_iteration_invariant : forall n C Crs, CInv n C Crs ->
  forall k, Inv n (Nat.iter k (py_sweep ROps C Crs n) (init_state ROps n C)).
Proof. exact iteration_invariant. Qed.
Print Assumptions c12_iteration_invariant.

(* ---- clause "no internal assertion failure", exact-arithmetic part: in every state satisfying the
        invariant the guarded quantity c is <= 0 (the original `assert c <= 0` holds; the clamp that
        replaced it after the rounding defect is the identity) *)
Theorem c12_c_nonpos : forall n C Crs, CInv n C Crs ->
  forall s i j, Inv n s -> (i < n)%nat -> (j < n)%nat ->
  qc (C i j) (C j i) (snd s i) (snd s j) (fst s i j) <= 0.
Proof. exact offdiag_c_nonpos. Qed.
Print Assumptions c12_c_nonpos.

(* ---- fixed_point_self_consistent (PARTIAL in one respect).
        Full statement wanted: for s with Inv n s and positive rows,
          (forall i j, fst (py_sweep ROps C Crs n s) i j = fst s i j)  ->  Prinz equations for all i, j.
        Proved: the same conclusion from `is_fixed n C Crs s` = every coordinate update, computed on s
        itself, returns the entry that is already there.  Missing: the bookkeeping lemma that a whole
        sweep leaving X unchanged forces every single update inside it to be the identity (each entry
        is written exactly once per sweep), i.e.  sweep s = s -> is_fixed s.
        The two hypotheses on C say that every state has a count to another state and every pair of
        states has a count leaving the pair; both follow from strong connectivity when n >= 3. *)
Theorem c12_fixed_point_self_consistent_partial : forall n C Crs, CInv n C Crs ->
  forall s, Inv n s -> (forall i, (i < n)%nat -> 0 < snd s i) ->
  (forall i, (i < n)%nat -> 0 < Crs i - C i i) ->
  (forall i j, (i < j < n)%nat -> qa (C i j) (C j i) (Crs i) (Crs j) <> 0) ->
  is_fixed n C Crs s ->
  forall i j, (i < n)%nat -> (j < n)%nat ->
    fst s i j * (Crs i / snd s i + Crs j / snd s j) = C i j + C j i.
Proof. exact fixed_point_self_consistent. Qed.
Print Assumptions c12_fixed_point_self_consistent_partial.

(* ---- NOT PROVED (clause "log-likelihood at least that of any other reversible row-stochastic matrix
        with the same support"): full statement
          forall P pi', stochastic P -> (forall i j, pi' i * P i j = pi' j * P j i) -> support P = support (C + C^T) ->
            sum_ij C i j * ln (P i j) <= sum_ij C i j * ln (T_mle i j) + tolerance.
        What is proved instead is coordinate-wise: each update is the unique positive stationary point
        of the likelihood in its coordinate (above), and a fixed point satisfies the first-order
        (Prinz) conditions.  Convergence of the iteration is not proved either.  The harness compares
        the likelihood of the returned model with the transpose estimate and with sampled / perturbed
        reversible matrices on every generated input. *)

(* ---- the returned model: T = X / rowsum, pi = X_rs / sum X_rs of any state satisfying the invariant
        with positive rows is row-stochastic, pi is a positive probability vector, and they are in
        detailed balance (the reversible-matrix clause) *)
Theorem c12_normalised_reversible : forall n s,
  Inv n s -> (forall i, (i < n)%nat -> 0 < snd s i) -> (0 < n)%nat ->
  let T := fun i j => fst s i j / sumR n (fst s i) in
  let pi := fun i => snd s i / sumR n (snd s) in
  (forall i j, (i < n)%nat -> (j < n)%nat -> 0 <= T i j) /\
  (forall i, (i < n)%nat -> sumR n (T i) = 1) /\
  (forall i, (i < n)%nat -> 0 < pi i) /\
  sumR n pi = 1 /\
  (forall i j, (i < n)%nat -> (j < n)%nat -> pi i * T i j = pi j * T j i).
Proof. exact normalised_reversible. Qed.
Print Assumptions c12_normalised_reversible.

(* ---- the certificate evaluated on the implementation's output (exact rationals, no axioms) *)
Theorem c12_cert_ok_sound : forall tol1 tol2 C T pi,
  cert_ok tol1 tol2 true C T pi = true ->
  let n := length C in
  let Tf := mat_fun T in let pf := vec_fun pi in let Cf := mat_fun C in
  let Crs := fun i => qsumn n (Cf i) in
  length T = n /\ length pi = n /\
  (Qabs (qsumn n pf - 1) <= tol1)%Q /\
  forall i j, (i < n)%nat -> (j < n)%nat ->
    (0 <= pf i /\ 0 <= Tf i j /\
     Qabs (qsumn n (Tf i) - 1) <= tol1 /\
     Qabs (pf i * Tf i j - pf j * Tf j i) <= tol1 /\
     Qabs (Tf i j * Crs i + Tf j i * Crs j - (Cf i j + Cf j i)) <= tol2 * (Crs i + Crs j))%Q.
Proof. exact cert_ok_sound. Qed.
Print Assumptions c12_cert_ok_sound.

Theorem c12_residual_is_prinz : forall pi_i pi_j Tij Tji ci cj s : Q,
  (0 < pi_i -> 0 < pi_j -> pi_i * Tij == pi_j * Tji ->
   (pi_i * Tij) * (ci / pi_i + cj / pi_j) - s == Tij * ci + Tji * cj - s)%Q.
Proof. exact residual_is_prinz. Qed.
Print Assumptions c12_residual_is_prinz.

(* ---- non-vacuity *)
(* the hypotheses of c12_fixed_point_self_consistent_partial are met by C = [[1,1],[1,1]], X = C + C^T *)
Example c12_example_fixed_point :
  let C := fun (_ _ : nat) => 1 in let Crs := fun (_ : nat) => 2 in
  let s : state R := (fun _ _ => 2, fun _ => 4) in
  CInv 2 C Crs /\ Inv 2 s /\ (forall i, (i < 2)%nat -> 0 < snd s i) /\
  (forall i, (i < 2)%nat -> 0 < Crs i - C i i) /\
  (forall i j, (i < j < 2)%nat -> qa (C i j) (C j i) (Crs i) (Crs j) <> 0) /\
  is_fixed 2 C Crs s /\
  (forall i j, fst s i j = fst (init_state ROps 2 C) i j).
Proof. exact fixed_point_example. Qed.
Print Assumptions c12_example_fixed_point.

(* the executable instance: two sweeps on [[0,1,5],[3,0,0],[4,0,0]] (the input on which the code used to
   fail its assertion) give a model, both generated bodies agree, and a zero row is rejected *)
Example c12_example_run :
  let C := mat_fun [[0; 1; 5]; [3; 0; 0]; [4; 0; 0]]%Q in
  (exists r, prinz_run (QOps 80) (py_sweep (QOps 80)) 3 C 2 = Some r /\
             prinz_run (QOps 80) (pyx_sweep (QOps 80)) 3 C 2 = Some r /\
             cert_ok (1 # 1000000000) (1 # 1000000) false [[0; 1; 5]; [3; 0; 0]; [4; 0; 0]]%Q (fst r) (snd r) = true) /\
  prinz_run (QOps 80) (py_sweep (QOps 80)) 3 (mat_fun [[0; 1; 5]; [0; 0; 0]; [4; 0; 0]]%Q) 2 = None.
Proof. split; [eexists; split; [vm_compute; reflexivity | split; vm_compute; reflexivity] | vm_compute; reflexivity]. Qed.
Print Assumptions c12_example_run.

(* the certificate accepts what builders.mle returns for [[5,2,1],[1,4,0],[2,1,6]] (doubles as exact rationals) *)
Example c12_example_certificate :
  cert_ok (1 # 1000000000) (1 # 1000000) true
    [[5; 2; 1]; [1; 4; 0]; [2; 1; 6]]%Q
    [[2814749766903847 # 4503599627370496; 4817302569482621 # 18014398509481984; 7752387489535893 # 72057594037927936];
     [1550477497358853 # 9007199254740992; 3602879701703715 # 4503599627370496; 4015397663595353 # 144115188075855872];
     [1070511681955197 # 4503599627370496; 1722752774414987 # 18014398509481984; 93824992244111 # 140737488355328]]%Q
    [5992614661996099 # 18014398509481984; 4654733470548331 # 9007199254740992; 339039613298653 # 2251799813685248]%Q
  = true.
Proof. vm_compute. reflexivity. Qed.
Print Assumptions c12_example_certificate.


(* ====================================================================== ROUND 2 *)

(* ---- the bookkeeping lemma that was missing: each entry of X is written exactly once per sweep, so a
        sweep whose result has the same X (on the n x n block) made every single write the identity,
        every intermediate state equal to the initial one, and hence every coordinate update computed
        on the initial state returns the entry already there.  (And conversely.) *)
Theorem c12_sweep_unchanged_is_fixed : forall n C Crs s,
  Inv n s ->
  (forall i j, (i < n)%nat -> (j < n)%nat -> fst (py_sweep ROps C Crs n s) i j = fst s i j) ->
  is_fixed n C Crs s.
Proof. exact sweep_unchanged_is_fixed. Qed.
Print Assumptions c12_sweep_unchanged_is_fixed.

Theorem c12_fixed_sweep_unchanged : forall n C Crs s,
  Inv n s -> is_fixed n C Crs s ->
  (forall a b, fst (py_sweep ROps C Crs n s) a b = fst s a b) /\
  (forall a, snd (py_sweep ROps C Crs n s) a = snd s a).
Proof. exact fixed_sweep_unchanged. Qed.
Print Assumptions c12_fixed_sweep_unchanged.

(* ---- fixed_point_self_consistent, FULL statement: a sweep that changes nothing implies the Prinz
        self-consistency equations x_ij (c_i/x_i + c_j/x_j) = c_ij + c_ji for all i, j < n.
        Hypotheses on C as in the partial theorem: every state has a count to another state, and
        a <> 0 for every pair. *)
Theorem c12_fixed_point_self_consistent : forall n C Crs s,
  CInv n C Crs -> Inv n s -> (forall i, (i < n)%nat -> 0 < snd s i) ->
  (forall i, (i < n)%nat -> 0 < Crs i - C i i) ->
  (forall i j, (i < j < n)%nat -> qa (C i j) (C j i) (Crs i) (Crs j) <> 0) ->
  (forall i j, (i < n)%nat -> (j < n)%nat -> fst (py_sweep ROps C Crs n s) i j = fst s i j) ->
  forall i j, (i < n)%nat -> (j < n)%nat ->
    fst s i j * (Crs i / snd s i + Crs j / snd s j) = C i j + C j i.
Proof. exact sweep_fixed_self_consistent. Qed.
Print Assumptions c12_fixed_point_self_consistent.

(* ---- the a = 0 case.  With C >= 0, a = (c_i - c_ij) + (c_j - c_ji) = 0 says that i only jumps to j and
        j only to i; in a strongly connected graph that is: n = 2 with empty diagonal.  The code then
        leaves x_ij alone, and the equations hold all the same (the diagonal updates force
        x_00 = x_11 = 0, so x_0 = x_01 = x_1).  No hypothesis on a: *)
Theorem c12_fixed_point_self_consistent_two_state : forall C Crs s,
  CInv 2 C Crs -> Inv 2 s -> (forall i, (i < 2)%nat -> 0 < snd s i) ->
  (forall i, (i < 2)%nat -> 0 < Crs i - C i i) ->
  is_fixed 2 C Crs s ->
  forall i j, (i < 2)%nat -> (j < 2)%nat ->
    fst s i j * (Crs i / snd s i + Crs j / snd s j) = C i j + C j i.
Proof. exact two_state_self_consistent. Qed.
Print Assumptions c12_fixed_point_self_consistent_two_state.

(* ---- the property's own quantifier: for EVERY non-negative count matrix with a strongly connected
        transition graph (any n >= 1: n = 1, the a = 0 case n = 2, and n >= 3 where strong connectivity
        gives a > 0 for every pair and a count leaving every state), a sweep that changes nothing
        implies the Prinz equations.  reach n C i j: a path of positive counts from i to j. *)
Theorem c12_fixed_point_self_consistent_strongly_connected : forall n C Crs s,
  CInv n C Crs ->
  (forall i j, (i < n)%nat -> (j < n)%nat -> reach n C i j) ->
  Inv n s -> (forall i, (i < n)%nat -> 0 < snd s i) ->
  (forall i j, (i < n)%nat -> (j < n)%nat -> fst (py_sweep ROps C Crs n s) i j = fst s i j) ->
  forall i j, (i < n)%nat -> (j < n)%nat ->
    fst s i j * (Crs i / snd s i + Crs j / snd s j) = C i j + C j i.
Proof. exact sweep_fixed_self_consistent_sc. Qed.
Print Assumptions c12_fixed_point_self_consistent_strongly_connected.

(* what strong connectivity gives (used above) *)
Theorem c12_strongly_connected_pair_coefficient : forall n C Crs,
  CInv n C Crs -> strongly_connected n C -> (3 <= n)%nat ->
  forall i j, (i < j < n)%nat -> qa (C i j) (C j i) (Crs i) (Crs j) <> 0.
Proof. exact sc_pair_out_count. Qed.
Print Assumptions c12_strongly_connected_pair_coefficient.

(* ---- coordinate-wise MAXIMUM (before: only "the unique positive stationary point").
        The coordinate log-likelihood is not concave in general: *)
Theorem c12_coordinate_loglik_not_concave :
  exists s ci cj ri rj v1 v2,
    0 < s /\ 0 < ci + cj - s /\ 0 < ri /\ 0 < rj /\ 0 < v1 < v2 /\
    dell_off s ci cj ri rj v1 < dell_off s ci cj ri rj v2.
Proof. exact coordinate_loglik_not_concave. Qed.
Print Assumptions c12_coordinate_loglik_not_concave.

(* ... but its derivative is positive below the stored value and negative above it ... *)
Theorem c12_offdiag_derivative_sign : forall cij cji ci cj xi xj xij xji : R,
  0 <= cij + cji -> 0 <= xi - xij -> 0 <= xj - xij -> qa cij cji ci cj > 0 ->
  forall w : R,
  let v := fst (fst (fst (py_offdiag ROps cij cji ci cj xi xj xij xji))) in
  0 < v -> 0 < w ->
  (w < v -> 0 < dell_off (cij + cji) ci cj (xi - xij) (xj - xij) w) /\
  (v < w -> dell_off (cij + cji) ci cj (xi - xij) (xj - xij) w < 0).
Proof. exact offdiag_derivative_sign. Qed.
Print Assumptions c12_offdiag_derivative_sign.

(* ... hence (mean value theorem) the stored value is the strict global maximum of the coordinate
   log-likelihood over all positive values of x_ij = x_ji *)
Theorem c12_offdiag_is_coordinate_maximum : forall cij cji ci cj xi xj xij xji : R,
  0 <= cij + cji -> 0 <= xi - xij -> 0 <= xj - xij -> qa cij cji ci cj > 0 ->
  let v := fst (fst (fst (py_offdiag ROps cij cji ci cj xi xj xij xji))) in
  0 < v -> forall w : R, 0 < w -> w <> v ->
  ell_off (cij + cji) ci cj (xi - xij) (xj - xij) w < ell_off (cij + cji) ci cj (xi - xij) (xj - xij) v.
Proof. exact offdiag_is_coordinate_maximum. Qed.
Print Assumptions c12_offdiag_is_coordinate_maximum.

Theorem c12_diag_is_coordinate_maximum : forall cii ci xi xii : R,
  0 <= cii -> 0 <= xi - xii -> 0 < ci - cii ->
  let r := xi - xii in
  let u := fst (py_diag ROps cii ci xi xii) in
  0 < u -> forall w : R, 0 < w -> w <> u -> ell_diag cii ci r w < ell_diag cii ci r u.
Proof. exact diag_is_coordinate_maximum. Qed.
Print Assumptions c12_diag_is_coordinate_maximum.

(* ---- the coordinate functions ARE the full log-likelihood restricted to one coordinate:
        loglikT n C X = sum_kl c_kl ln (x_kl / x_k) is the log-likelihood of T = X / rowsum X on C,
        loglikS its split form sum_kl c_kl ln x_kl - sum_k c_k ln x_k; setting the pair x_ij = x_ji of a
        symmetric X to v changes loglikS by ell_off(v) - ell_off(x_ij). *)
Theorem c12_loglik_split : forall n C Crs X,
  CInv n C Crs -> supported n C X -> loglikT n C X = loglikS n C Crs X.
Proof. exact loglik_split. Qed.
Print Assumptions c12_loglik_split.

Theorem c12_loglik_pair_coordinate : forall n C Crs X i j v,
  (i < n)%nat -> (j < n)%nat -> i <> j -> X j i = X i j ->
  let s := C i j + C j i in
  let ri := sumR n (X i) - X i j in let rj := sumR n (X j) - X i j in
  loglikS n C Crs (pair_set X i j v) - loglikS n C Crs X =
  ell_off s (Crs i) (Crs j) ri rj v - ell_off s (Crs i) (Crs j) ri rj (X i j).
Proof. exact loglik_pair_coordinate. Qed.
Print Assumptions c12_loglik_pair_coordinate.

Theorem c12_loglik_diag_coordinate : forall n C Crs X i u,
  (i < n)%nat ->
  let r := sumR n (X i) - X i i in
  loglikS n C Crs (diag_set X i u) - loglikS n C Crs X =
  ell_diag (C i i) (Crs i) r u - ell_diag (C i i) (Crs i) r (X i i).
Proof. exact loglik_diag_coordinate. Qed.
Print Assumptions c12_loglik_diag_coordinate.

(* ---- first-order optimality: where the Prinz equations hold, ALL partial derivatives of the full
        log-likelihood along the coordinates of a symmetric X (pairs x_ij = x_ji moving together, and
        diagonal entries) vanish.  Coordinates with x_ij = 0 lie on the boundary and are excluded.
        This is stationarity, NOT global optimality. *)
Theorem c12_loglik_stationary_at_prinz_solution : forall n C Crs s,
  Inv n s -> (forall i, (i < n)%nat -> 0 < snd s i) ->
  (forall i j, (i < n)%nat -> (j < n)%nat ->
     fst s i j * (Crs i / snd s i + Crs j / snd s j) = C i j + C j i) ->
  (forall i j, (i < n)%nat -> (j < n)%nat -> i <> j -> 0 < fst s i j ->
     derivable_pt_lim (fun v => loglikS n C Crs (pair_set (fst s) i j v)) (fst s i j) 0) /\
  (forall i, (i < n)%nat -> 0 < fst s i i ->
     derivable_pt_lim (fun u => loglikS n C Crs (diag_set (fst s) i u)) (fst s i i) 0).
Proof. exact loglik_stationary. Qed.
Print Assumptions c12_loglik_stationary_at_prinz_solution.

(* ---- a fixed point is a strict COORDINATE-WISE maximum of the log-likelihood of T = X / rowsum X:
        replacing one symmetric pair, or one diagonal entry, by any other positive value strictly
        lowers sum_kl c_kl ln T_kl.  (Not a global maximum over all symmetric X: that is not proved
        for n >= 3.) *)
Theorem c12_fixed_point_coordinatewise_maximum : forall n C Crs s,
  CInv n C Crs -> Inv n s -> (forall i, (i < n)%nat -> 0 < snd s i) ->
  is_fixed n C Crs s -> prinz_eqs n C Crs s ->
  (forall i j, (i < j < n)%nat -> qa (C i j) (C j i) (Crs i) (Crs j) <> 0 -> 0 < fst s i j ->
     forall w, 0 < w -> w <> fst s i j ->
     loglikT n C (pair_set (fst s) i j w) < loglikT n C (fst s)) /\
  (forall i, (i < n)%nat -> 0 < Crs i - C i i -> 0 < fst s i i ->
     forall w, 0 < w -> w <> fst s i i ->
     loglikT n C (diag_set (fst s) i w) < loglikT n C (fst s)).
Proof. exact fixed_point_coordinatewise_maximum_T. Qed.
Print Assumptions c12_fixed_point_coordinatewise_maximum.

(* ---- two states: GLOBAL optimality.  At a solution of the Prinz equations T = X / rowsum X is the
        row-normalised count matrix, and by Gibbs' inequality no row-stochastic matrix X / rowsum X
        (reversible or not; every 2-state chain is reversible) has a larger log-likelihood. *)
Theorem c12_two_state_global_maximum : forall C Crs s,
  CInv 2 C Crs -> (forall k, (k < 2)%nat -> 0 < Crs k) ->
  Inv 2 s -> (forall i, (i < 2)%nat -> 0 < snd s i) -> prinz_eqs 2 C Crs s ->
  forall X, (forall k l, (k < 2)%nat -> (l < 2)%nat -> 0 <= X k l) -> supported 2 C X ->
  loglikT 2 C X <= loglikT 2 C (fst s).
Proof. exact two_state_global_maximum. Qed.
Print Assumptions c12_two_state_global_maximum.

(* Gibbs for any n: the row-normalised counts bound the log-likelihood of every row-stochastic matrix
   (the reversible optimum lies below this bound and, for n >= 3, generally strictly below) *)
Theorem c12_loglik_le_counts : forall n C Crs X,
  CInv n C Crs -> (forall k, (k < n)%nat -> 0 < Crs k) ->
  (forall k l, (k < n)%nat -> (l < n)%nat -> 0 <= X k l) -> supported n C X ->
  loglikT n C X <= sumR n (fun k => sumR n (fun l => C k l * ln (C k l / Crs k))).
Proof. exact loglikT_le_counts. Qed.
Print Assumptions c12_loglik_le_counts.

(* ---- non-vacuity for round 2: C = [[0,1],[1,0]] is strongly connected, has a = 0, and its initial
        state X = C + C^T is left unchanged by a sweep *)
Example c12_example_a_eq_0 :
  let C := fun (i j : nat) => if Nat.eqb i j then 0 else 1 in let Crs := fun (_ : nat) => 1 in
  let s : state R := init_state ROps 2 C in
  CInv 2 C Crs /\ strongly_connected 2 C /\ Inv 2 s /\ (forall i, (i < 2)%nat -> 0 < snd s i) /\
  qa (C 0 1)%nat (C 1 0)%nat (Crs 0%nat) (Crs 1%nat) = 0 /\
  sweep_unchanged 2 C Crs s.
Proof. exact a0_example. Qed.
Print Assumptions c12_example_a_eq_0.

(* ---- the stopping rule (clause "terminates with a model or a convergence warning").
        py_diag_logl / py_offdiag_logl / py_continue (and their pyx_ twins) are GENERATED from the `logl +=` terms and
        the test `abs(logl - oldlogl) > tol` of both sources; prinz_loop / prinz_run_stop (Model/Prinz.v)
        are the loop `for n_iter in range(max_iter)` with `break`, and the warning condition
        `n_iter == max_iter - 1`.  In any number type and whatever logl and the test compute: *)

(* the loop ends in the state after m plain sweeps, m <= fuel, m = fuel unless left by `break`, m >= 1 *)
Theorem c12_loop_runs_sweeps : forall (K : Type) (o : Ops K) dg od dgl odl cont C Crs n tol fuel done s old,
  let r := prinz_loop o dg od dgl odl cont C Crs n tol fuel done s old in
  exists m, (m <= fuel)%nat /\ snd (fst r) = (done + m)%nat /\
            fst (fst r) = Nat.iter m (sweep dg od C Crs n) s /\
            (snd r = false -> m = fuel) /\ (1 <= fuel -> 1 <= m)%nat.
Proof. exact (@prinz_loop_spec). Qed.
Print Assumptions c12_loop_runs_sweeps.

(* the function returns the model after k sweeps, 1 <= k <= max_iter, and warns iff k = max_iter
   (also when the `break` happened in the last allowed pass) *)
Theorem c12_run_stop_spec : forall (K : Type) (o : Ops K) dg od dgl odl cont (C : nat -> nat -> K) n tol max_iter r k w,
  (1 <= max_iter)%nat ->
  prinz_run_stop o dg od dgl odl cont n C tol max_iter = Some (r, k, w) ->
  (1 <= k <= max_iter)%nat /\ w = Nat.eqb k max_iter /\
  prinz_run o (sweep dg od) n C k = Some r.
Proof. exact (@run_stop_spec). Qed.
Print Assumptions c12_run_stop_spec.

(* a warned run is the run of exactly max_iter sweeps: the rule by which the harness compares the real
   functions with `prinz_run` sweep by sweep *)
Theorem c12_warned_run_is_k_sweeps : forall (K : Type) (o : Ops K) dg od dgl odl cont n C tol max_iter r k,
  (1 <= max_iter)%nat ->
  prinz_run_stop o dg od dgl odl cont n C tol max_iter = Some (r, k, true) ->
  k = max_iter /\ prinz_run o (sweep dg od) n C max_iter = Some r.
Proof. exact (@warned_run_is_k_sweeps). Qed.
Print Assumptions c12_warned_run_is_k_sweeps.

(* the guards reject the same inputs with and without the stopping rule *)
Theorem c12_run_stop_rejects_iff : forall (K : Type) (o : Ops K) dg od dgl odl cont n C tol max_iter k,
  prinz_run_stop o dg od dgl odl cont n C tol max_iter = None <-> prinz_run o (sweep dg od) n C k = None.
Proof. exact (@run_stop_rejects_iff). Qed.
Print Assumptions c12_run_stop_rejects_iff.

(* over R, generated bodies: wherever the loop stops, X is symmetric, >= 0 and the running row sums are exact *)
Theorem c12_stopped_state_invariant : forall (lo : LOps R) n C Crs tol fuel, CInv n C Crs ->
  let r := prinz_loop ROps (py_diag ROps) (py_offdiag ROps) (py_diag_logl ROps lo) (py_offdiag_logl ROps lo)
             (py_continue ROps lo) C Crs n tol fuel 0 (init_state ROps n C) 0 in
  Inv n (fst (fst r)) /\ (snd (fst r) <= fuel)%nat.
Proof. exact stopped_state_invariant. Qed.
Print Assumptions c12_stopped_state_invariant.

(* the executable instance with the stopping rule on [[5,2,1],[1,4,0],[2,1,6]], tol = 1e-10: the pure-Python
   body stops after 28 sweeps, the compiled one (log10 instead of ln) after 27 -- as the real functions do *)
Example c12_example_stop :
  let C := mat_fun [[5; 2; 1]; [1; 4; 0]; [2; 1; 6]]%Q in
  let cnt (r : option ((list (list Q) * list Q) * nat * bool)) :=
    match r with Some (_, k, w) => Some (k, w) | None => None end in
  cnt (py_run_stop (QOps 48) (QLOps 48) 3 C (1 # 10000000000) 100) = Some (28%nat, false) /\
  cnt (pyx_run_stop (QOps 48) (QLOps 48) 3 C (1 # 10000000000) 100) = Some (27%nat, false) /\
  cnt (py_run_stop (QOps 48) (QLOps 48) 3 C (1 # 10000000000) 28) = Some (28%nat, true).
Proof. vm_compute. repeat split. Qed.
Print Assumptions c12_example_stop.


(* ====================================================================== ROUND 3
   Monotone likelihood.  loglikT n C X = sum_kl c_kl ln (x_kl / x_k) is the log-likelihood on C of the
   model T = X / rowsum X the function would return from the state X.  Coq's ln is total (ln x = 0 for
   x <= 0) while the true log-likelihood is -infinity when T_kl = 0 < c_kl, so the statements are about
   states in which X is positive exactly where C + C^T is:
     Sup n C s    :=  forall i j < n,  0 < x_ij  <->  0 < c_ij + c_ji      (the initial state has it),
     has_in n C   :=  for n >= 2 every state receives a count from another state (from strong connectivity).
   Without has_in the support is lost (c12_source_state_loses_support below; the real functions then
   produce a NaN row and fail their final assertion -- input outside the property's quantifier). *)

Theorem c12_initial_state_has_support : forall n C, Sup n C (init_state ROps n C).
Proof. exact init_Sup. Qed.
Print Assumptions c12_initial_state_has_support.

Theorem c12_strongly_connected_has_in : forall n C, strongly_connected n C -> has_in n C.
Proof. exact sc_has_in. Qed.
Print Assumptions c12_strongly_connected_has_in.

(* ---- every single DIAGONAL update the sweep performs (on the state and with the running row sum the
        code has at that moment) keeps the invariants and does not decrease the log-likelihood; it
        increases it strictly when it changes the entry *)
Theorem c12_diag_update_monotone : forall n C Crs,
  CInv n C Crs -> (forall k, (k < n)%nat -> 0 < Crs k) ->
  forall s i, Inv n s -> Sup n C s -> (i < n)%nat ->
  let s' := diag_step (py_diag ROps) C Crs s i in
  Inv n s' /\ Sup n C s' /\ loglikT n C (fst s) <= loglikT n C (fst s') /\
  (fst s' i i <> fst s i i -> loglikT n C (fst s) < loglikT n C (fst s')).
Proof. exact diag_update_monotone. Qed.
Print Assumptions c12_diag_update_monotone.

(* ---- the same for every PAIRWISE update (i, j), i < j *)
Theorem c12_pair_update_monotone : forall n C Crs,
  CInv n C Crs -> has_in n C -> (forall k, (k < n)%nat -> 0 < Crs k) ->
  forall s i j, Inv n s -> Sup n C s -> (i < j < n)%nat ->
  let s' := off_step (py_offdiag ROps) C Crs s (i, j) in
  Inv n s' /\ Sup n C s' /\ loglikT n C (fst s) <= loglikT n C (fst s') /\
  (fst s' i j <> fst s i j -> loglikT n C (fst s) < loglikT n C (fst s')).
Proof. exact pair_update_monotone. Qed.
Print Assumptions c12_pair_update_monotone.

(* ---- hence one whole sweep (diagonal loop, then pair loop, in the code's order) *)
Theorem c12_sweep_monotone : forall n C Crs,
  CInv n C Crs -> has_in n C -> (forall k, (k < n)%nat -> 0 < Crs k) ->
  forall s, Inv n s -> Sup n C s ->
  let s' := py_sweep ROps C Crs n s in
  Inv n s' /\ Sup n C s' /\ loglikT n C (fst s) <= loglikT n C (fst s').
Proof. exact sweep_monotone. Qed.
Print Assumptions c12_sweep_monotone.

(* ---- strict increase unless fixed: a sweep that changes some entry of X strictly increases the
        log-likelihood ... *)
Theorem c12_sweep_strict_increase_unless_fixed : forall n C Crs,
  CInv n C Crs -> has_in n C -> (forall k, (k < n)%nat -> 0 < Crs k) ->
  forall s, Inv n s -> Sup n C s ->
  (exists i j, fst (py_sweep ROps C Crs n s) i j <> fst s i j) ->
  loglikT n C (fst s) < loglikT n C (fst (py_sweep ROps C Crs n s)).
Proof. exact sweep_strict. Qed.
Print Assumptions c12_sweep_strict_increase_unless_fixed.

(* ... so the likelihood is unchanged by a sweep exactly at the fixed points of the updates ... *)
Theorem c12_sweep_loglik_equal_iff_fixed : forall n C Crs,
  CInv n C Crs -> has_in n C -> (forall k, (k < n)%nat -> 0 < Crs k) ->
  forall s, Inv n s -> Sup n C s ->
  (loglikT n C (fst (py_sweep ROps C Crs n s)) = loglikT n C (fst s) <-> is_fixed n C Crs s).
Proof. exact sweep_loglik_equal_iff_fixed. Qed.
Print Assumptions c12_sweep_loglik_equal_iff_fixed.

(* ... and, for strongly connected counts, only where the Prinz equations hold *)
Theorem c12_loglik_stalls_only_at_prinz_solution : forall n C Crs s,
  CInv n C Crs -> strongly_connected n C -> (forall k, (k < n)%nat -> 0 < Crs k) ->
  Inv n s -> Sup n C s ->
  loglikT n C (fst (py_sweep ROps C Crs n s)) = loglikT n C (fst s) ->
  forall i j, (i < n)%nat -> (j < n)%nat ->
    fst s i j * (Crs i / snd s i + Crs j / snd s j) = C i j + C j i.
Proof. exact sc_loglik_stalls_at_prinz_solution. Qed.
Print Assumptions c12_loglik_stalls_only_at_prinz_solution.

(* ---- by induction: along the iteration from X0 = C + C^T the log-likelihood never decreases, and is
        never below that of the transpose-symmetrised counts *)
Theorem c12_iteration_monotone : forall n C Crs,
  CInv n C Crs -> has_in n C -> (forall k, (k < n)%nat -> 0 < Crs k) ->
  forall k, let u := fun m => Nat.iter m (py_sweep ROps C Crs n) (init_state ROps n C) in
  Sup n C (u k) /\
  loglikT n C (fst (u k)) <= loglikT n C (fst (u (S k))) /\
  loglikT n C (fun i j => C i j + C j i) <= loglikT n C (fst (u k)).
Proof. exact iteration_monotone. Qed.
Print Assumptions c12_iteration_monotone.

(* the property's quantifier: strongly connected counts *)
Theorem c12_iteration_monotone_strongly_connected : forall n C Crs,
  CInv n C Crs -> strongly_connected n C -> (forall k, (k < n)%nat -> 0 < Crs k) ->
  forall k, let u := fun m => Nat.iter m (py_sweep ROps C Crs n) (init_state ROps n C) in
  loglikT n C (fst (u k)) <= loglikT n C (fst (u (S k))) /\
  loglikT n C (fun i j => C i j + C j i) <= loglikT n C (fst (u k)).
Proof. exact sc_iteration_monotone. Qed.
Print Assumptions c12_iteration_monotone_strongly_connected.

(* ---- the state the stopping loop ends in (any logl terms, any test, any tol, any iteration cap) *)
Theorem c12_stopped_state_loglik : forall (lo : LOps R) dgl odl cont n C Crs tol fuel,
  CInv n C Crs -> has_in n C -> (forall k, (k < n)%nat -> 0 < Crs k) ->
  let r := prinz_loop ROps (py_diag ROps) (py_offdiag ROps) dgl odl cont C Crs n tol fuel 0 (init_state ROps n C) 0 in
  loglikT n C (fun i j => C i j + C j i) <= loglikT n C (fst (fst (fst r))).
Proof. exact stopped_loglik. Qed.
Print Assumptions c12_stopped_state_loglik.

(* ---- clause "log-likelihood at least that of ... the transpose-symmetrised estimate": the transition
        matrix T (nested list) the whole function returns -- guards passed, stopping rule and iteration
        cap whatever they are, with or without the warning -- has  sum_kl c_kl ln T_kl  >=  that of
        (C + C^T) / rowsum.  Exact real arithmetic; no tolerance needed. *)
Theorem c12_returned_model_loglik_ge_transpose : forall dgl odl cont n (C : nat -> nat -> R) tol max_iter T pi k w,
  (forall i j, (i < n)%nat -> (j < n)%nat -> 0 <= C i j) -> has_in n C -> (1 <= max_iter)%nat ->
  prinz_run_stop ROps (py_diag ROps) (py_offdiag ROps) dgl odl cont n C tol max_iter = Some ((T, pi), k, w) ->
  loglikP n C (fun i j => (C i j + C j i) / sumR n (fun l => C i l + C l i)) <= loglikP n C (matR T).
Proof. exact run_stop_loglik. Qed.
Print Assumptions c12_returned_model_loglik_ge_transpose.

(* ---- bounded above (Gibbs, c12_loglik_le_counts) + monotone: the sequence of likelihood VALUES along the
        iteration converges, to a limit between every value of the sequence and the likelihood of the
        row-normalised counts.  This is NOT convergence of the matrices X_k, and says nothing about the
        code's own stopping test (which watches a different quantity, the pseudo log-likelihood logl). *)
Theorem c12_loglik_sequence_converges : forall n C Crs,
  CInv n C Crs -> has_in n C -> (forall k, (k < n)%nat -> 0 < Crs k) ->
  let u := fun k => loglikT n C (fst (Nat.iter k (py_sweep ROps C Crs n) (init_state ROps n C))) in
  Un_growing u /\
  exists l, Un_cv u l /\ (forall k, u k <= l) /\
            l <= sumR n (fun a => sumR n (fun b => C a b * ln (C a b / Crs a))).
Proof. exact iteration_loglik_converges. Qed.
Print Assumptions c12_loglik_sequence_converges.

(* ... in particular the gain in log-likelihood of one more sweep is >= 0 and tends to 0 *)
Theorem c12_loglik_gain_vanishes : forall n C Crs,
  CInv n C Crs -> has_in n C -> (forall k, (k < n)%nat -> 0 < Crs k) ->
  let u := fun k => loglikT n C (fst (Nat.iter k (py_sweep ROps C Crs n) (init_state ROps n C))) in
  (forall k, 0 <= u (S k) - u k) /\ Un_cv (fun k => u (S k) - u k) 0.
Proof. exact iteration_gain_vanishes. Qed.
Print Assumptions c12_loglik_gain_vanishes.

(* ---- why has_in is there: C = [[0,2],[0,3]] passes both guards, X0 has the support of C + C^T, state 0
        receives no count, and the pairwise update (0,1) stores x_01 = 0 although c_01 > 0 (row 0 of X
        becomes zero; replayed on the real functions: NaN row, final assertion fails) *)
Theorem c12_source_state_loses_support :
  exists C Crs, CInv 2 C Crs /\ (forall k, (k < 2)%nat -> 0 < Crs k) /\ ~ has_in 2 C /\
    let s := init_state ROps 2 C in
    Inv 2 s /\ Sup 2 C s /\ 0 < C 0%nat 1%nat /\
    fst (off_step (py_offdiag ROps) C Crs s (0, 1)%nat) 0%nat 1%nat = 0.
Proof. exact has_in_needed. Qed.
Print Assumptions c12_source_state_loses_support.

(* ---- non-vacuity for round 3: C = [[1,2],[1,1]] is strongly connected, X0 = C + C^T meets every
        hypothesis above, and the first sweep changes x_00 (2 -> 3/2): the strict case occurs *)
Example c12_example_monotone :
  let C := fun i j : nat => match i, j with 0%nat, 1%nat => 2 | _, _ => 1 end in
  let Crs := fun i : nat => match i with 0%nat => 3 | _ => 2 end in
  let s := init_state ROps 2 C in
  CInv 2 C Crs /\ strongly_connected 2 C /\ has_in 2 C /\ (forall k, (k < 2)%nat -> 0 < Crs k) /\
  Inv 2 s /\ Sup 2 C s /\
  fst (py_sweep ROps C Crs 2 s) 0%nat 0%nat <> fst s 0%nat 0%nat.
Proof. exact mono_example. Qed.
Print Assumptions c12_example_monotone.
