(* C01 — clustering results are self-consistent for every algorithm and input.
   D c f is the metric distance from frame f to frame c (entry f of distance_method(X, X[c]));
   "distinct points" = zero self-distance and positive distance between different frames.
   Inv n s says, for the state s = (centre indices, per-frame (label, distance)) over n frames:
   centres are distinct frames; every label is in [0,k); every distance is the metric distance to
   the assigned centre; no centre is strictly closer; every centre frame has its own label at 0. *)
From Coq Require Import List ZArith QArith.
From EV Require Import Cluster ClusterCase ClusterBase ClusterInv ClusterPam ClusterKC ClusterTop ClusterExample Partition ClusterWarm KcGuardBase ClusterGen ClusterSkel ClusterGenProofs ClusterNonEmpty.
Import ListNotations.

(* the invariant spelt out in the words of the property *)
Theorem c01_invariant_meaning : forall D n s, Inv D n s ->
  length (snd s) = n /\ NoDup (fst s) /\ (forall c, In c (fst s) -> (c < n)%nat) /\
  forall f, (f < n)%nat ->
    let x := nth f (snd s) (mkfr 0 0 0) in
    let k := length (fst s) in
    fid x = f /\ (lab x < k)%nat /\ dist x = D (ctr (fst s) (lab x)) f /\
    (forall j, (j < k)%nat -> ~ D (ctr (fst s) j) f < dist x) /\
    (forall j, (j < k)%nat -> ctr (fst s) j = f -> lab x = j /\ dist x == 0).
Proof. exact inv_meaning. Qed.
Print Assumptions c01_invariant_meaning.

(* k-centers, cold start: any cluster count and/or radius >= 0, with or without the shortcut *)
Theorem c01_kcenters_cold : forall D, (forall f, D f f == 0) -> (forall c f, c <> f -> 0 < D c f) ->
  forall nclu cutoff ti n, ti_ok D ti -> 0 <= cutoff -> (0 < n)%nat -> Inv D n (kcenters_cold D nclu cutoff ti n).
Proof. exact kcenters_cold_inv. Qed.
Print Assumptions c01_kcenters_cold.

(* k-centers started from frames of the data *)
Theorem c01_kcenters_warm : forall D, (forall f, D f f == 0) -> (forall c f, c <> f -> 0 < D c f) ->
  forall nclu cutoff ti init n, ti_ok D ti -> 0 <= cutoff -> init_ok n init ->
  Inv D n (kcenters_warm D nclu cutoff ti init n).
Proof. exact kcenters_warm_inv. Qed.
Print Assumptions c01_kcenters_warm.

(* nearest-centre assignment (warm starts from centre indices, predict) *)
Theorem c01_nearest_state : forall D, (forall f, D f f == 0) -> (forall c f, c <> f -> 0 < D c f) ->
  forall n cs, cs <> [] -> NoDup cs -> (forall c, In c cs -> (c < n)%nat) -> Inv D n (nearest_state D cs n).
Proof. exact nearest_state_inv. Qed.
Print Assumptions c01_nearest_state.

(* one PAM proposal, accepted or rejected, any proposal frame (inside or outside the cluster,
   the current medoid, another cluster's medoid) *)
Theorem c01_pam_update : forall D, (forall f, D f f == 0) -> (forall c f, c <> f -> 0 < D c f) ->
  forall n s cid p, Inv D n s -> (cid < length (fst s))%nat -> (p < n)%nat -> Inv D n (pam_update D s cid p).
Proof. exact pam_update_inv. Qed.
Print Assumptions c01_pam_update.

(* k-medoids: any number of sweeps with any proposals, from any consistent state *)
Theorem c01_kmedoids : forall D, (forall f, D f f == 0) -> (forall c f, c <> f -> 0 < D c f) ->
  forall n sweeps s, Inv D n s -> sweeps_ok n (length (fst s)) sweeps ->
  Inv D n (kmedoids D s sweeps) /\ length (fst (kmedoids D s sweeps)) = length (fst s) /\
  sumsq (snd (kmedoids D s sweeps)) <= sumsq (snd s).
Proof. exact kmedoids_inv. Qed.
Print Assumptions c01_kmedoids.

(* k-hybrid = k-centers followed by the sweeps *)
Theorem c01_hybrid : forall D, (forall f, D f f == 0) -> (forall c f, c <> f -> 0 < D c f) ->
  forall nclu cutoff n sweeps, 0 <= cutoff -> (0 < n)%nat ->
  sweeps_ok n (length (fst (kcenters_cold D nclu cutoff false n))) sweeps ->
  Inv D n (hybrid_cold D nclu cutoff n sweeps).
Proof. exact hybrid_cold_inv. Qed.
Print Assumptions c01_hybrid.

(* warm starts: on ANY consistent state the per-label centre finder recovers exactly the centre list,
   in order -- this is how kcenters(init_centers=frames) and kmedoids(assignments=, distances=) obtain
   their centre indices, so "every reported centre is the frame at its reported index" survives *)
Theorem c01_center_finder_recovers_centers : forall D, (forall f, D f f == 0) -> (forall c f, c <> f -> 0 < D c f) ->
  forall n s, Inv D n s -> find_cluster_centers (snd s) = fst s.
Proof. exact find_centers_of_consistent_state. Qed.
Print Assumptions c01_center_finder_recovers_centers.

Theorem c01_warm_start_center_indices : forall D, (forall f, D f f == 0) -> (forall c f, c <> f -> 0 < D c f) ->
  forall n cs, cs <> [] -> NoDup cs -> (forall c, In c cs -> (c < n)%nat) ->
  find_cluster_centers (snd (nearest_state D cs n)) = cs.
Proof. exact warm_start_center_indices. Qed.
Print Assumptions c01_warm_start_center_indices.

(* the three PAM masks and their write order as regenerated from kmedoids.py (Gen/ClusterGen.v) give
   exactly the model's three-way reassignment: the masks are exhaustive, no frame is left at -1 *)
Theorem c01_source_pam_masks_are_model : forall D cid p cs' x,
  pam_frame_skel D gen_dst_dn gen_up_other gen_up_this cid p cs' x = Some (pam_frame D cid p cs' x).
Proof. exact gen_pam_frame_is_model. Qed.
Print Assumptions c01_source_pam_masks_are_model.

(* the running-minimum update of _kcenters_iteration as regenerated from kcenters.py *)
Theorem c01_source_kcenters_update_is_model : forall D c k x,
  kc_update_skel D gen_kc_improves c k x = kc_update D c k x.
Proof. exact gen_kc_update_is_model. Qed.
Print Assumptions c01_source_kcenters_update_is_model.

(* the distance matrix of a case meets the hypotheses whenever the executable check accepts it *)
Theorem c01_checked_matrix_is_valid : forall m n, valid_matrix m n = true ->
  (forall f, Dext m n f f == 0) /\ (forall c f, c <> f -> 0 < Dext m n c f).
Proof. exact valid_matrix_sound. Qed.
Print Assumptions c01_checked_matrix_is_valid.

(* ---- read off a consistent result: no cluster is empty (label j is carried by centre j, at
   distance zero), different clusters have different centre frames, and k <= n.  Together with the
   entry-point theorems above this holds for every k-centers / k-medoids / k-hybrid result. *)
Theorem c01_no_empty_cluster : forall D n s, Inv D n s -> forall j, (j < length (fst s))%nat ->
  exists f, (f < n)%nat /\ f = ctr (fst s) j /\ lab (nth f (snd s) (mkfr 0 0 0)) = j /\
            dist (nth f (snd s) (mkfr 0 0 0)) == 0.
Proof. exact every_label_used. Qed.
Print Assumptions c01_no_empty_cluster.

Theorem c01_centres_pairwise_distinct : forall D n s, Inv D n s ->
  forall i j, (i < length (fst s))%nat -> (j < length (fst s))%nat -> ctr (fst s) i = ctr (fst s) j -> i = j.
Proof. exact centres_distinct. Qed.
Print Assumptions c01_centres_pairwise_distinct.

Theorem c01_no_more_clusters_than_frames : forall D n s, Inv D n s -> (length (fst s) <= n)%nat.
Proof. exact k_le_n. Qed.
Print Assumptions c01_no_more_clusters_than_frames.

Example c01_example :
  Inv (Dline pos_id) 6 (kcenters_cold (Dline pos_id) (Some 3%nat) 0 true 6) /\
  st_show (kcenters_cold (Dline pos_id) (Some 3%nat) 0 true 6) = ([0; 5; 2]%nat, [0; 0; 2; 2; 1; 1]%nat, [0; 1; 0; 1; 1; 0]) /\
  st_show (hybrid_cold (Dline pos_id) (Some 2%nat) 0 6 [[1; 4]; [0; 3]]%nat) = ([1; 4]%nat, [0; 0; 0; 1; 1; 1]%nat, [1; 0; 1; 1; 0; 1]).
Proof. exact line_run_consistent. Qed.
Print Assumptions c01_example.
