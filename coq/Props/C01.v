From EV Require Import Cluster.
Theorem placeholder_c01 : True. Proof. exact I. Qed.
Print Assumptions placeholder_c01.
