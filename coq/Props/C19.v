(* C19 -- results depend on arguments only, not on history, threads or heap contents.  (partial)

   FULL PROPERTY (properties.jsonl): every numerical routine of the library returns a value
   determined by its arguments alone -- repeating the call, changing the number of OpenMP threads
   or worker processes, or changing what the process computed (and freed) beforehand never changes
   the result; in particular no routine reads memory it has not initialised; no routine modifies
   an array passed to it unless documented to work in place.

   What is proved here (part (1) of DESIGN 7/C19): the one source construct through which NumPy
   code reads uninitialised memory without saying so -- a masked element-wise call
   `ufunc(x, where=m)` -- is characterised exactly (results are independent of the initial buffer
   iff no position is masked out), and for EVERY call carrying `where=` in the current tree
   (Gen/MaskedSites.v, regenerated from /repo by translator/sites.py on every run) the result is
   shown not to depend on the heap.  An unguarded call anywhere in the tree makes
   Gen/MaskedSites.v fail to compile, hence this file.
   Round 2 (second half of this file): every np.empty-style allocation of the tree is shown to be
   completely stored to before it is read (Gen/AllocSites.v, write-before-read), and result caches
   keyed on identity are shown to be exactly what the in-place-overwrite probe detects.
   What is NOT proved (left to the perturbed differential runs of harness/props/c19.py): the
   allocator, the C kernels'
   zeroing of `out`, OpenMP scheduling, and that routines leave their arguments unmodified --
   Gallina functions are deterministic and cannot mutate, so a model has nothing to say there. *)
From Coq Require Import List Bool Arith QArith.
From EV Require Import Masked MaskedProofs MaskedSites.
Import ListNotations.
Local Open Scope nat_scope.

(* clause "no routine reads memory it has not initialised", restricted to masked element-wise
   operations: every masked call site of the tree returns the same array for all heap contents.
   (`all_sites_statement` is the conjunction, generated per site, of
      forall A ufunc operands mask junk1 junk2, site .. junk1 = site .. junk2.) *)
Theorem c19_every_masked_site_heap_independent_partial : all_sites_statement.
Proof. exact all_sites_heap_independent. Qed.
Print Assumptions c19_every_masked_site_heap_independent_partial.

(* NumPy's where=/out= semantics, cell by cell: ufunc value where the mask is True, the cell of
   the initial buffer elsewhere *)
Theorem c19_masked_cell_semantics : forall (A B : Type) (f : A -> B) x m init i a b c,
  nth_error x i = Some a -> nth_error m i = Some b -> nth_error init i = Some c ->
  nth_error (masked f x m init) i = Some (if b then f a else c).
Proof. exact masked_nth_error. Qed.
Print Assumptions c19_masked_cell_semantics.

(* two heap states give the same result iff they agree on every masked-out position *)
Theorem c19_masked_equal_iff_inits_agree_on_masked_out : forall (A B : Type) (f : A -> B) x m j1 j2,
  length m = length x -> length j1 = length x -> length j2 = length x ->
  (masked f x m j1 = masked f x m j2 <-> agree_out m j1 j2).
Proof. exact masked_eq_iff. Qed.
Print Assumptions c19_masked_equal_iff_inits_agree_on_masked_out.

(* the result is independent of the initial buffer (the heap) iff EVERY position is masked in *)
Theorem c19_masked_init_irrelevant_iff : forall (A B : Type) (f : A -> B) (b0 b1 : B) x m,
  b0 <> b1 -> length m = length x ->
  ((forall junk1 junk2, length junk1 = length x -> length junk2 = length x ->
      masked f x m junk1 = masked f x m junk2)
   <-> all_masked_in m = true).
Proof. exact masked_init_irrelevant_iff. Qed.
Print Assumptions c19_masked_init_irrelevant_iff.

(* the unguarded form `ufunc(x, where=m)` does depend on the heap: witness *)
Theorem c19_unguarded_masked_call_refuted : forall (A B : Type) (f : A -> B) (a : A) (b0 b1 : B),
  b0 <> b1 ->
  exists x m junk1 junk2,
    length m = length x /\ length junk1 = length x /\ length junk2 = length x /\
    masked f x m junk1 <> masked f x m junk2.
Proof. exact masked_unguarded_refuted. Qed.
Print Assumptions c19_unguarded_masked_call_refuted.

(* the guarded form `ufunc(x, where=m, out=np.zeros(..))`: masked-out cells hold the fill value *)
Theorem c19_guarded_masked_out_cells_hold_fill : forall (A B : Type) (f : A -> B) (v : B) x m i,
  i < length x -> nth_error m i = Some false ->
  nth_error (masked f x m (filled v (length x))) i = Some v.
Proof. exact masked_filled_out_cell. Qed.
Print Assumptions c19_guarded_masked_out_cells_hold_fill.

(* whatever a routine computes from a heap-independent array is heap-independent *)
Theorem c19_downstream_heap_independent : forall (J R C : Type) (site : J -> R) (g : R -> C),
  (forall j1 j2, site j1 = site j2) -> forall j1 j2, g (site j1) = g (site j2).
Proof. exact downstream_heap_independent. Qed.
Print Assumptions c19_downstream_heap_independent.

(* shape errors are errors, not results: mask/out of another shape are rejected *)
Theorem c19_masked_shape_mismatch_rejected : forall (A B : Type) (f : A -> B) x m init,
  (length m <> length x \/ length init <> length x) -> masked_np f x m init = None.
Proof. exact masked_np_none. Qed.
Print Assumptions c19_masked_shape_mismatch_rejected.

(* D14, shannon_entropy before the fix (np.log(p, where=p>0) without out=): p = [1/2,0,1/2] gives
   a finite entropy on a zeroed block and NaN on a recycled NaN block *)
Theorem c19_shannon_entropy_unguarded_refuted : forall lg : fl -> fl,
  fl_finite (lg (Fin (1#2))) ->
  exists p junk1 junk2,
    length junk1 = length p /\ length junk2 = length p /\
    fl_finite (entropy_with lg p junk1) /\ entropy_with lg p junk2 = NaN /\
    entropy_with lg p junk1 <> entropy_with lg p junk2.
Proof. exact entropy_unguarded_refuted. Qed.
Print Assumptions c19_shannon_entropy_unguarded_refuted.

(* the repaired shannon_entropy never turns finite probabilities into NaN *)
Theorem c19_shannon_entropy_guarded_finite : forall (lg : fl -> fl) p,
  (forall q, (0 < q)%Q -> fl_finite (lg (Fin q))) -> Forall fl_finite p ->
  fl_finite (entropy_guarded lg p).
Proof. exact entropy_guarded_finite. Qed.
Print Assumptions c19_shannon_entropy_guarded_finite.

(* D14, mutual_information before the fix: its own isnan assertion passes or fails with the heap *)
Theorem c19_mutual_information_unguarded_refuted :
  exists n tot junk1 junk2,
    length junk1 = length n /\ length junk2 = length n /\
    assert_no_nan (probs_with n tot junk1) = true /\ assert_no_nan (probs_with n tot junk2) = false.
Proof. exact probs_unguarded_refuted. Qed.
Print Assumptions c19_mutual_information_unguarded_refuted.

(* the repaired mutual_information: the assertion holds for all finite count tables *)
Theorem c19_mutual_information_guarded_no_nan : forall n tot,
  Forall fl_finite n -> Forall fl_finite tot -> assert_no_nan (probs_guarded n tot) = true.
Proof. exact probs_guarded_no_nan. Qed.
Print Assumptions c19_mutual_information_guarded_no_nan.

(* hypotheses are satisfiable / the statements are not vacuous: a mask with a masked-out cell,
   two heaps, different results; the guarded form on the same input *)
Example c19_example_mask_not_all_in :
  all_masked_in [true; false; true] = false /\
  masked (fun z => z + 1) [1; 2; 3] [true; false; true] [7; 7; 7] = [2; 7; 4] /\
  masked (fun z => z + 1) [1; 2; 3] [true; false; true] [9; 9; 9] = [2; 9; 4] /\
  masked (fun z => z + 1) [1; 2; 3] [true; false; true] (filled 0 3) = [2; 0; 4] /\
  masked_np (fun z => z + 1) [1; 2; 3] [true; false] [0; 0; 0] = None.
Proof. vm_compute. repeat split; reflexivity. Qed.
Print Assumptions c19_example_mask_not_all_in.

Example c19_example_entropy_guarded :
  let lg := fun v => match v with Fin q => Fin (q - 1) | NaN => NaN end in
  let p := [Fin (1#2); Fin 0; Fin (1#2)] in
  Forall fl_finite p /\
  (match entropy_guarded lg p with Fin h => Qeq_bool h (1#2) | NaN => false end) = true /\
  entropy_with lg p [NaN; NaN; NaN] = NaN.
Proof. split; [repeat constructor|]. vm_compute. split; reflexivity. Qed.
Print Assumptions c19_example_entropy_guarded.

(* ====================================================================================== round 2
   Allocations that do not initialise memory (np.empty, np.empty_like, np.ndarray(shape)), result
   caches, and call histories.  Gen/AllocSites.v is regenerated from /repo on every run by the
   second scan of translator/sites.py; an allocation whose completion is not recognised, or any
   result-cache idiom (lru_cache, id() keys, memo containers, stray `global`), makes the translator
   reject naming the place, hence this file fails. *)
From EV Require Import Alloc AllocProofs AllocSites.

(* clause "no routine reads memory it has not initialised", for EVERY allocation without
   initialisation in the tree: the buffer as it is after the stores the translator recognised
   (fill / full assignment / enumerate loop / cursor loop closed by its assertion / receive buffer
   of a collective) is the same for all heap contents.  (`all_alloc_sites_statement` is the
   conjunction, generated per site, of
      forall A stored-values junk1 junk2, length junk1 = n -> length junk2 = n ->
        site .. junk1 = site .. junk2.) *)
Theorem c19_every_uninitialised_allocation_heap_independent : all_alloc_sites_statement.
Proof. exact all_alloc_sites_heap_independent. Qed.
Print Assumptions c19_every_uninitialised_allocation_heap_independent.

(* the generic lemma behind every site: stores covering every cell make the allocator's contents
   irrelevant (write-before-read) *)
Theorem c19_write_before_read : forall (A : Type) (prog : list (wr A)) n (junk1 junk2 : list A),
  length junk1 = n -> length junk2 = n -> all_written prog n = true ->
  run prog junk1 = run prog junk2.
Proof. exact write_before_read. Qed.
Print Assumptions c19_write_before_read.

(* exact characterisation: the buffer after the stores is independent of the heap iff every cell
   has been stored to *)
Theorem c19_write_before_read_iff : forall (A : Type) (b0 b1 : A) (prog : list (wr A)) n,
  b0 <> b1 ->
  ((forall junk1 junk2, length junk1 = n -> length junk2 = n -> run prog junk1 = run prog junk2)
   <-> all_written prog n = true).
Proof. exact write_before_read_iff. Qed.
Print Assumptions c19_write_before_read_iff.

(* a cell nothing was stored to still holds what the allocator handed out *)
Theorem c19_unwritten_cell_is_junk : forall (A : Type) (prog : list (wr A)) (junk : list A),
  keeps (written prog (length junk)) junk (run prog junk).
Proof. exact unwritten_cell_is_junk. Qed.
Print Assumptions c19_unwritten_cell_is_junk.

(* a store pattern that leaves a cell out does depend on the heap: witness *)
Theorem c19_partial_store_refuted : forall (A : Type) (b0 b1 v : A), b0 <> b1 ->
  exists (prog : list (wr A)) n junk1 junk2,
    length junk1 = n /\ length junk2 = n /\ all_written prog n = false /\ run prog junk1 <> run prog junk2.
Proof. exact partial_store_refuted. Qed.
Print Assumptions c19_partial_store_refuted.

(* the recognised completion patterns cover every cell, for buffers of every size *)
Theorem c19_fill_covers : forall (A : Type) (v : A) n, all_written [WFill v] n = true.
Proof. exact fill_covers. Qed.
Print Assumptions c19_fill_covers.

Theorem c19_full_assignment_covers : forall (A : Type) (src : list A),
  all_written [WAll src] (length src) = true.
Proof. exact full_assign_covers. Qed.
Print Assumptions c19_full_assignment_covers.

Theorem c19_enumerate_loop_covers : forall (A : Type) (vals : list A),
  all_written (enum_prog vals) (length vals) = true.
Proof. exact enum_covers. Qed.
Print Assumptions c19_enumerate_loop_covers.

(* start = 0; for ..: end = start + len(seg); a[start:end] = seg; start = end; assert end == len(a) *)
Theorem c19_cursor_loop_covers : forall (A : Type) (segs : list (list A)),
  all_written (tile_prog 0 segs) (length (concat segs)) = true.
Proof. exact tile_covers. Qed.
Print Assumptions c19_cursor_loop_covers.

(* ... and what load_npy_as_striped returns is the concatenation of the pieces it stored *)
Theorem c19_cursor_loop_result : forall (A : Type) (segs : list (list A)) (junk : list A),
  length junk = length (concat segs) -> run (tile_prog 0 segs) junk = concat segs.
Proof. exact tile_result. Qed.
Print Assumptions c19_cursor_loop_result.

(* clause "repeating the call / what the process computed beforehand never changes the result":
   without a result cache the value returned is a function of the argument's contents, whatever
   calls came before *)
Theorem c19_no_cache_history_independent : forall (A R : Type) (f : list A -> R) memo (h : list (obj A)) o,
  fst (call_plain f (after_history (call_plain f) memo h) o) = f (contents o).
Proof. exact plain_history_independent. Qed.
Print Assumptions c19_no_cache_history_independent.

(* a result cache keyed on object identity (or on a path) violates the clause: same object, same
   contents, two histories, two results *)
Theorem c19_identity_cache_history_dependent_refuted : forall (A R : Type) (f : list A -> R) ident a b,
  f a <> f b ->
  fst (call_id_cached f (after_history (call_id_cached f) [] [Obj ident a]) (Obj ident b))
  <> fst (call_id_cached f (after_history (call_id_cached f) [] []) (Obj ident b)).
Proof. exact id_cache_history_dependent. Qed.
Print Assumptions c19_identity_cache_history_dependent_refuted.

(* the in-place-overwrite probe of the harness is decisive for such a cache: its two values are
   f(old contents) and f(new contents), different whenever the routine distinguishes the two;
   on a cache-free routine the probe's two values coincide *)
Theorem c19_overwrite_probe_detects_identity_cache : forall (A R : Type) (f : list A -> R) ident fresh a b,
  ident <> fresh -> f a <> f b ->
  probe_overwrite (call_id_cached f) [] ident fresh a b = (f a, f b) /\
  fst (probe_overwrite (call_id_cached f) [] ident fresh a b)
    <> snd (probe_overwrite (call_id_cached f) [] ident fresh a b).
Proof. exact id_cache_stale. Qed.
Print Assumptions c19_overwrite_probe_detects_identity_cache.

Theorem c19_overwrite_probe_agrees_without_cache : forall (A R : Type) (f : list A -> R) memo ident fresh a b,
  probe_overwrite (call_plain f) memo ident fresh a b = (f b, f b).
Proof. exact plain_probe_agrees. Qed.
Print Assumptions c19_overwrite_probe_agrees_without_cache.

(* a cache keyed on the CONTENTS is invisible (so the property does not forbid memoisation as such) *)
Theorem c19_content_cache_history_independent :
  forall (A R : Type) (eqb : list A -> list A -> bool) (f : list A -> R) (h : list (obj A)) o,
  (forall x y, eqb x y = true -> x = y) ->
  fst (call_content_cached eqb f (after_history (call_content_cached eqb f) [] h) o) = f (contents o).
Proof. exact content_cache_history_independent. Qed.
Print Assumptions c19_content_cache_history_independent.

(* non-vacuity: a cursor loop over three pieces fills a junk buffer of 5 cells; leaving the middle
   piece out does not; an identity-keyed cache returns the stale sum after an overwrite *)
Example c19_example_write_before_read :
  run (tile_prog 0 [[1; 2]; []; [3; 4; 5]]) [9; 9; 9; 9; 9] = [1; 2; 3; 4; 5] /\
  all_written (tile_prog 0 [[1; 2]; []; [3; 4; 5]]) 5 = true /\
  run [WSlice 0 [1; 2]; WSlice 3 [4; 5]] [9; 9; 9; 9; 9] = [1; 2; 9; 4; 5] /\
  all_written [WSlice 0 [1; 2]; WSlice 3 [4; 5]] 5 = false /\
  run (enum_prog [7; 8; 6]) [0; 0; 0] = [7; 8; 6] /\
  run [WFill 4] [9; 9; 9] = [4; 4; 4] /\
  n_alloc_sites = length alloc_site_lines /\ n_cache_idioms = 0.
Proof. vm_compute. repeat split; reflexivity. Qed.
Print Assumptions c19_example_write_before_read.

Example c19_example_identity_cache :
  let f := fun l : list nat => fold_right Nat.add 0 l in
  probe_overwrite (call_id_cached f) [] 7 8 [1; 2] [10; 20] = (3, 30) /\
  probe_overwrite (call_plain f) [] 7 8 [1; 2] [10; 20] = (30, 30) /\
  probe_overwrite (call_content_cached (fun x y => if list_eq_dec Nat.eq_dec x y then true else false) f) [] 7 8 [1; 2] [10; 20] = (30, 30).
Proof. vm_compute. repeat split; reflexivity. Qed.
Print Assumptions c19_example_identity_cache.
