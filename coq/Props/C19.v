(* C19 -- results depend on arguments only, not on history, threads or heap contents.  (partial)

   FULL PROPERTY (properties.jsonl): every numerical routine of the library returns a value
   determined by its arguments alone -- repeating the call, changing the number of OpenMP threads
   or worker processes, or changing what the process computed (and freed) beforehand never changes
   the result; in particular no routine reads memory it has not initialised; no routine modifies
   an array passed to it unless documented to work in place.

   What is proved here (part (1) of DESIGN 7/C19): the one source construct through which NumPy
   code reads uninitialised memory without saying so -- a masked element-wise call
   `ufunc(x, where=m)` -- is characterised exactly (results are independent of the initial buffer
   iff no position is masked out), and for EVERY call carrying `where=` in the current tree
   (Gen/MaskedSites.v, regenerated from /repo by translator/sites.py on every run) the result is
   shown not to depend on the heap.  An unguarded call anywhere in the tree makes
   Gen/MaskedSites.v fail to compile, hence this file.
   What is NOT proved (left to the perturbed differential runs of harness/props/c19.py): the
   allocator, np.empty-style allocations whose cells are all written later, the C kernels'
   zeroing of `out`, OpenMP scheduling, and that routines leave their arguments unmodified --
   Gallina functions are deterministic and cannot mutate, so a model has nothing to say there. *)
From Coq Require Import List Bool Arith QArith.
From EV Require Import Masked MaskedProofs MaskedSites.
Import ListNotations.
Local Open Scope nat_scope.

(* clause "no routine reads memory it has not initialised", restricted to masked element-wise
   operations: every masked call site of the tree returns the same array for all heap contents.
   (`all_sites_statement` is the conjunction, generated per site, of
      forall A ufunc operands mask junk1 junk2, site .. junk1 = site .. junk2.) *)
Theorem c19_every_masked_site_heap_independent_partial : all_sites_statement.
Proof. exact all_sites_heap_independent. Qed.
Print Assumptions c19_every_masked_site_heap_independent_partial.

(* NumPy's where=/out= semantics, cell by cell: ufunc value where the mask is True, the cell of
   the initial buffer elsewhere *)
Theorem c19_masked_cell_semantics : forall (A B : Type) (f : A -> B) x m init i a b c,
  nth_error x i = Some a -> nth_error m i = Some b -> nth_error init i = Some c ->
  nth_error (masked f x m init) i = Some (if b then f a else c).
Proof. exact masked_nth_error. Qed.
Print Assumptions c19_masked_cell_semantics.

(* two heap states give the same result iff they agree on every masked-out position *)
Theorem c19_masked_equal_iff_inits_agree_on_masked_out : forall (A B : Type) (f : A -> B) x m j1 j2,
  length m = length x -> length j1 = length x -> length j2 = length x ->
  (masked f x m j1 = masked f x m j2 <-> agree_out m j1 j2).
Proof. exact masked_eq_iff. Qed.
Print Assumptions c19_masked_equal_iff_inits_agree_on_masked_out.

(* the result is independent of the initial buffer (the heap) iff EVERY position is masked in *)
Theorem c19_masked_init_irrelevant_iff : forall (A B : Type) (f : A -> B) (b0 b1 : B) x m,
  b0 <> b1 -> length m = length x ->
  ((forall junk1 junk2, length junk1 = length x -> length junk2 = length x ->
      masked f x m junk1 = masked f x m junk2)
   <-> all_masked_in m = true).
Proof. exact masked_init_irrelevant_iff. Qed.
Print Assumptions c19_masked_init_irrelevant_iff.

(* the unguarded form `ufunc(x, where=m)` does depend on the heap: witness *)
Theorem c19_unguarded_masked_call_refuted : forall (A B : Type) (f : A -> B) (a : A) (b0 b1 : B),
  b0 <> b1 ->
  exists x m junk1 junk2,
    length m = length x /\ length junk1 = length x /\ length junk2 = length x /\
    masked f x m junk1 <> masked f x m junk2.
Proof. exact masked_unguarded_refuted. Qed.
Print Assumptions c19_unguarded_masked_call_refuted.

(* the guarded form `ufunc(x, where=m, out=np.zeros(..))`: masked-out cells hold the fill value *)
Theorem c19_guarded_masked_out_cells_hold_fill : forall (A B : Type) (f : A -> B) (v : B) x m i,
  i < length x -> nth_error m i = Some false ->
  nth_error (masked f x m (filled v (length x))) i = Some v.
Proof. exact masked_filled_out_cell. Qed.
Print Assumptions c19_guarded_masked_out_cells_hold_fill.

(* whatever a routine computes from a heap-independent array is heap-independent *)
Theorem c19_downstream_heap_independent : forall (J R C : Type) (site : J -> R) (g : R -> C),
  (forall j1 j2, site j1 = site j2) -> forall j1 j2, g (site j1) = g (site j2).
Proof. exact downstream_heap_independent. Qed.
Print Assumptions c19_downstream_heap_independent.

(* shape errors are errors, not results: mask/out of another shape are rejected *)
Theorem c19_masked_shape_mismatch_rejected : forall (A B : Type) (f : A -> B) x m init,
  (length m <> length x \/ length init <> length x) -> masked_np f x m init = None.
Proof. exact masked_np_none. Qed.
Print Assumptions c19_masked_shape_mismatch_rejected.

(* D14, shannon_entropy before the fix (np.log(p, where=p>0) without out=): p = [1/2,0,1/2] gives
   a finite entropy on a zeroed block and NaN on a recycled NaN block *)
Theorem c19_shannon_entropy_unguarded_refuted : forall lg : fl -> fl,
  fl_finite (lg (Fin (1#2))) ->
  exists p junk1 junk2,
    length junk1 = length p /\ length junk2 = length p /\
    fl_finite (entropy_with lg p junk1) /\ entropy_with lg p junk2 = NaN /\
    entropy_with lg p junk1 <> entropy_with lg p junk2.
Proof. exact entropy_unguarded_refuted. Qed.
Print Assumptions c19_shannon_entropy_unguarded_refuted.

(* the repaired shannon_entropy never turns finite probabilities into NaN *)
Theorem c19_shannon_entropy_guarded_finite : forall (lg : fl -> fl) p,
  (forall q, (0 < q)%Q -> fl_finite (lg (Fin q))) -> Forall fl_finite p ->
  fl_finite (entropy_guarded lg p).
Proof. exact entropy_guarded_finite. Qed.
Print Assumptions c19_shannon_entropy_guarded_finite.

(* D14, mutual_information before the fix: its own isnan assertion passes or fails with the heap *)
Theorem c19_mutual_information_unguarded_refuted :
  exists n tot junk1 junk2,
    length junk1 = length n /\ length junk2 = length n /\
    assert_no_nan (probs_with n tot junk1) = true /\ assert_no_nan (probs_with n tot junk2) = false.
Proof. exact probs_unguarded_refuted. Qed.
Print Assumptions c19_mutual_information_unguarded_refuted.

(* the repaired mutual_information: the assertion holds for all finite count tables *)
Theorem c19_mutual_information_guarded_no_nan : forall n tot,
  Forall fl_finite n -> Forall fl_finite tot -> assert_no_nan (probs_guarded n tot) = true.
Proof. exact probs_guarded_no_nan. Qed.
Print Assumptions c19_mutual_information_guarded_no_nan.

(* hypotheses are satisfiable / the statements are not vacuous: a mask with a masked-out cell,
   two heaps, different results; the guarded form on the same input *)
Example c19_example_mask_not_all_in :
  all_masked_in [true; false; true] = false /\
  masked (fun z => z + 1) [1; 2; 3] [true; false; true] [7; 7; 7] = [2; 7; 4] /\
  masked (fun z => z + 1) [1; 2; 3] [true; false; true] [9; 9; 9] = [2; 9; 4] /\
  masked (fun z => z + 1) [1; 2; 3] [true; false; true] (filled 0 3) = [2; 0; 4] /\
  masked_np (fun z => z + 1) [1; 2; 3] [true; false] [0; 0; 0] = None.
Proof. vm_compute. repeat split; reflexivity. Qed.
Print Assumptions c19_example_mask_not_all_in.

Example c19_example_entropy_guarded :
  let lg := fun v => match v with Fin q => Fin (q - 1) | NaN => NaN end in
  let p := [Fin (1#2); Fin 0; Fin (1#2)] in
  Forall fl_finite p /\
  (match entropy_guarded lg p with Fin h => Qeq_bool h (1#2) | NaN => false end) = true /\
  entropy_with lg p [NaN; NaN; NaN] = NaN.
Proof. split; [repeat constructor|]. vm_compute. split; reflexivity. Qed.
Print Assumptions c19_example_entropy_guarded.
