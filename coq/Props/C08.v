(* C08 — reactive flux obeys its definition and is conserved (enspara/tpt/tpt.py).
   Property theorems only; proofs live in Proof/FluxProofs.v, the model in Model/Flux.v.
   The forward committor q is an input (computed by core.committors, property C07); theorems that
   need it assume `committor_eqs` (0 on sources, 1 on sinks, q_i = sum_j T_ij q_j elsewhere,
   0 <= q <= 1), which the harness checks on every case through the executable `hyps_b`. *)
From Coq Require Import List Arith QArith Bool.
From EV Require Import Flux FluxProofs.
Import ListNotations.
Open Scope Q_scope.

(* Clause "flux from i to j = population of i * backward committor of i * transition probability *
   forward committor of j off the diagonal, zero on it": every entry of the returned matrix. *)
Theorem c08_flux_definition : forall T pi q F, reactive_fluxes T pi q = Some F ->
  forall i j, (i < length pi)%nat -> (j < length pi)%nat ->
  ent F i j == (if (i =? j)%nat then 0 else vnth pi i * (1 - vnth q i) * ent T i j * vnth q j).
Proof. exact reactive_fluxes_entry. Qed.
Print Assumptions c08_flux_definition.

(* the result is a square matrix of the dimension of the populations vector *)
Theorem c08_flux_shape : forall T pi q F, reactive_fluxes T pi q = Some F ->
  length F = length pi /\ forall i, (i < length pi)%nat -> length (nth i F []) = length pi.
Proof. exact reactive_fluxes_shape. Qed.
Print Assumptions c08_flux_shape.

(* Clause "net flux is the positive part of flux minus its transpose" *)
Theorem c08_net_is_positive_part : forall T pi q F N,
  reactive_fluxes T pi q = Some F -> net_fluxes T pi q = Some N ->
  forall i j, (i < length pi)%nat -> (j < length pi)%nat ->
  ent N i j = (if Qltb (ent F i j - ent F j i) 0 then 0 else ent F i j - ent F j i).
Proof. exact net_fluxes_entry. Qed.
Print Assumptions c08_net_is_positive_part.

(* Clause "at most one direction of any pair carries net flux" (and net flux is non-negative and
   its antisymmetric part is that of the flux) *)
Theorem c08_net_one_direction : forall T pi q F N,
  reactive_fluxes T pi q = Some F -> net_fluxes T pi q = Some N ->
  forall i j, (i < length pi)%nat -> (j < length pi)%nat ->
  (ent N i j == 0 \/ ent N j i == 0) /\ 0 <= ent N i j /\
  ent N i j - ent N j i == ent F i j - ent F j i.
Proof. exact net_one_direction. Qed.
Print Assumptions c08_net_one_direction.

(* Clause "for a reversible chain, net flux into every intermediate state equals net flux out of it" *)
Theorem c08_net_flux_conserved : forall T pi q F N,
  reactive_fluxes T pi q = Some F -> net_fluxes T pi q = Some N ->
  forall src snk, stochastic (length pi) T -> reversible (length pi) T pi ->
  committor_eqs (length pi) T q src snk ->
  forall i, (i < length pi)%nat /\ ~ In i src /\ ~ In i snk ->
  sumn (fun j => ent N i j) (length pi) == sumn (fun j => ent N j i) (length pi).
Proof. exact net_flux_conserved. Qed.
Print Assumptions c08_net_flux_conserved.

(* the same for the flux itself, *)
Theorem c08_flux_conserved : forall T pi q F, reactive_fluxes T pi q = Some F ->
  forall src snk, stochastic (length pi) T -> reversible (length pi) T pi ->
  committor_eqs (length pi) T q src snk ->
  forall i, (i < length pi)%nat /\ ~ In i src /\ ~ In i snk ->
  sumn (fun j => ent F i j) (length pi) == sumn (fun j => ent F j i) (length pi).
Proof. exact flux_conserved. Qed.
Print Assumptions c08_flux_conserved.

(* with the closed form of both sides: pi_i q_i (1 - q_i) (1 - T_ii). *)
Theorem c08_flux_through_state : forall n T pi q src snk,
  stochastic n T -> reversible n T pi -> committor_eqs n T q src snk ->
  forall i, (i < n)%nat /\ ~ In i src /\ ~ In i snk ->
  sumn (fun j => flux_spec T pi q i j) n == vnth pi i * vnth q i * (1 - vnth q i) * (1 - ent T i i) /\
  sumn (fun j => flux_spec T pi q j i) n == vnth pi i * vnth q i * (1 - vnth q i) * (1 - ent T i i).
Proof. exact flux_through_state. Qed.
Print Assumptions c08_flux_through_state.

(* for a reversible chain the net flux has the closed form (pi_i T_ij (q_j - q_i))+ : it runs from lower
   to higher committor *)
Theorem c08_net_flux_closed_form : forall T pi q F N,
  reactive_fluxes T pi q = Some F -> net_fluxes T pi q = Some N -> reversible (length pi) T pi ->
  forall i j, (i < length pi)%nat -> (j < length pi)%nat ->
  ent N i j == pos_part (vnth pi i * ent T i j * (vnth q j - vnth q i)).
Proof. exact net_flux_closed_form. Qed.
Print Assumptions c08_net_flux_closed_form.

(* "dense and sparse containers": the sparse branch of net_fluxes (maximum(0), the repair of D6) computes
   the same matrix as the dense branch, so every theorem about net_fluxes holds for both *)
Theorem c08_sparse_branch_same : forall T pi q, net_fluxes_sparse T pi q = net_fluxes T pi q.
Proof. exact net_fluxes_sparse_eq. Qed.
Print Assumptions c08_sparse_branch_same.

(* Clause "nothing flows into sources ..." *)
Theorem c08_no_flux_into_sources : forall T pi q F N,
  reactive_fluxes T pi q = Some F -> net_fluxes T pi q = Some N ->
  forall src snk, stochastic (length pi) T -> reversible (length pi) T pi ->
  committor_eqs (length pi) T q src snk ->
  forall i j, (i < length pi)%nat -> (j < length pi)%nat -> In i src ->
  ent F j i == 0 /\ ent N j i == 0.
Proof. exact no_flux_into_sources. Qed.
Print Assumptions c08_no_flux_into_sources.

(* "... or out of sinks" *)
Theorem c08_no_flux_out_of_sinks : forall T pi q F N,
  reactive_fluxes T pi q = Some F -> net_fluxes T pi q = Some N ->
  forall src snk, stochastic (length pi) T -> reversible (length pi) T pi ->
  committor_eqs (length pi) T q src snk ->
  forall i j, (i < length pi)%nat -> (j < length pi)%nat -> In i snk ->
  ent F i j == 0 /\ ent N i j == 0.
Proof. exact no_flux_out_of_sinks. Qed.
Print Assumptions c08_no_flux_out_of_sinks.

(* Clause "total outflow from the sources equals total inflow to the sinks" (net flux, and flux) *)
Theorem c08_source_out_eq_sink_in : forall T pi q F N,
  reactive_fluxes T pi q = Some F -> net_fluxes T pi q = Some N ->
  forall src snk, stochastic (length pi) T -> reversible (length pi) T pi ->
  committor_eqs (length pi) T q src snk -> sets_ok (length pi) src snk ->
  suml (fun i => sumn (fun j => ent N i j) (length pi)) src ==
  suml (fun i => sumn (fun j => ent N j i) (length pi)) snk /\
  suml (fun i => sumn (fun j => ent F i j) (length pi)) src ==
  suml (fun i => sumn (fun j => ent F j i) (length pi)) snk.
Proof. exact source_out_eq_sink_in. Qed.
Print Assumptions c08_source_out_eq_sink_in.

(* Clause "reactive populations are a probability vector that vanishes on sources and sinks":
   definition, *)
Theorem c08_rpop_definition : forall pi q r, reactive_populations pi q = Some r ->
  length r = length pi /\ ~ dens_total pi q == 0 /\
  forall i, (i < length pi)%nat ->
  vnth r i == (vnth pi i * vnth q i * (1 - vnth q i)) / sumn (fun k => vnth pi k * vnth q k * (1 - vnth q k)) (length pi).
Proof. exact rpop_entry. Qed.
Print Assumptions c08_rpop_definition.

(* total mass one, *)
Theorem c08_rpop_sums_to_one : forall pi q r, reactive_populations pi q = Some r -> qsum r == 1.
Proof. exact rpop_sums_to_one. Qed.
Print Assumptions c08_rpop_sums_to_one.

(* non-negative, *)
Theorem c08_rpop_nonneg : forall pi q r, reactive_populations pi q = Some r ->
  (forall i, (i < length pi)%nat -> 0 <= vnth pi i) ->
  (forall i, (i < length pi)%nat -> 0 <= vnth q i <= 1) ->
  forall i, (i < length pi)%nat -> 0 <= vnth r i.
Proof. exact rpop_nonneg. Qed.
Print Assumptions c08_rpop_nonneg.

(* zero on sources and sinks; *)
Theorem c08_rpop_zero_on_sources_and_sinks : forall T pi q r src snk,
  reactive_populations pi q = Some r -> committor_eqs (length pi) T q src snk ->
  forall i, (i < length pi)%nat -> In i src \/ In i snk -> vnth r i == 0.
Proof. exact rpop_zero_on_sets. Qed.
Print Assumptions c08_rpop_zero_on_sources_and_sinks.

(* and the model refuses (the code returns NaN = 0/0) exactly when the normaliser vanishes, i.e. when
   no state has a committor strictly between 0 and 1 and positive population. *)
Theorem c08_rpop_undefined_iff : forall pi q, (1 <= length pi)%nat -> length q = length pi ->
  (reactive_populations pi q = None <-> sumn (fun k => vnth pi k * vnth q k * (1 - vnth q k)) (length pi) == 0).
Proof. exact rpop_none_iff. Qed.
Print Assumptions c08_rpop_undefined_iff.

(* The executable tests the harness evaluates on every generated case imply the hypotheses above, *)
Theorem c08_checked_hypotheses_sound : forall T pi q src snk, hyps_b T pi q src snk = true ->
  shapes_ok T pi q = true /\ sets_ok (length pi) src snk /\ stochastic (length pi) T /\
  reversible (length pi) T pi /\ committor_eqs (length pi) T q src snk.
Proof. exact hyps_b_sound. Qed.
Print Assumptions c08_checked_hypotheses_sound.

(* so that for every such case the model's outputs exist and satisfy every clause. *)
Theorem c08_checked_case_meets_property : forall T pi q src snk,
  hyps_b T pi q src snk = true ->
  exists F N, reactive_fluxes T pi q = Some F /\ net_fluxes T pi q = Some N /\
    (forall i j, (i < length pi)%nat -> (j < length pi)%nat -> ent F i j == flux_spec T pi q i j) /\
    (forall i j, (i < length pi)%nat -> (j < length pi)%nat ->
       ent N i j = pos_part (ent F i j - ent F j i) /\ (ent N i j == 0 \/ ent N j i == 0)) /\
    (forall i, intermediate (length pi) src snk i -> outflow N (length pi) i == inflow N (length pi) i) /\
    (forall i j, (i < length pi)%nat -> (j < length pi)%nat -> In i src -> ent N j i == 0) /\
    (forall i j, (i < length pi)%nat -> (j < length pi)%nat -> In i snk -> ent N i j == 0) /\
    suml (outflow N (length pi)) src == suml (inflow N (length pi)) snk /\
    (forall r, reactive_populations pi q = Some r ->
       qsum r == 1 /\
       forall i, (i < length pi)%nat -> 0 <= vnth r i /\ (In i src \/ In i snk -> vnth r i == 0)).
Proof. exact checked_case_meets_property. Qed.
Print Assumptions c08_checked_case_meets_property.

(* Non-vacuity: a 5-state reversible chain with non-uniform populations (4,7,6,8,4)/29, source {0},
   sinks {3,4} and its exact committor meets every hypothesis; its net flux and reactive populations. *)
Example c08_example :
  let T := [[1#2; 1#4; 0; 1#4; 0]; [1#7; 3#7; 2#7; 0; 1#7]; [0; 1#3; 1#6; 1#2; 0];
            [1#8; 0; 3#8; 1#4; 1#4]; [0; 1#4; 0; 1#2; 1#4]] in
  let pi := [4#29; 7#29; 6#29; 8#29; 4#29] in
  let q := [0; 11#16; 7#8; 1; 1] in
  hyps_b T pi q [0%nat] [3%nat; 4%nat] = true /\
  option_map (map (map Qred)) (net_fluxes T pi q) =
    Some [[0; 11#464; 0; 1#29; 0]; [0; 0; 3#232; 0; 5#464]; [0; 0; 0; 3#232; 0];
          [0; 0; 0; 0; 0]; [0; 0; 0; 0; 0]] /\
  option_map (map Qred) (reactive_populations pi q) = Some [0; 55#79; 24#79; 0; 0].
Proof. vm_compute. repeat split; reflexivity. Qed.
Print Assumptions c08_example.

(* ------------------------------------------------------------------------------------------------
   Round 2: tie to the source.  Gen/FluxGen.v is regenerated on every check from the CURRENT
   enspara/tpt/tpt.py by translator/tr_flux.py (vocabulary: Base/FluxBase.v).  The theorems below say
   that the regenerated array expressions ARE the model the theorems above speak about; a transposed
   broadcast, a lost diagonal reset, a flipped sign or `reverse = forward` in the source breaks them. *)
From EV Require Import FluxBase FluxGen FluxGenProofs.

(* _get_data_from_tprob: n_states = len(populations), backward committor = 1 - forward committor *)
Theorem c08_gen_get_data : forall pi q, gen_get_data pi q = (pi, length pi, q, reverse_committors q).
Proof. exact gen_get_data_eq. Qed.
Print Assumptions c08_gen_get_data.

(* reactive_fluxes, dense branch: `tprob * ((populations * reverse)[:, None]) * forward`, diagonal reset *)
Theorem c08_gen_reactive_fluxes_dense : forall T pi q,
  reactive_fluxes T pi q = if shapes_ok T pi q then Some (gen_reactive_fluxes_dense T pi q) else None.
Proof. exact gen_reactive_fluxes_dense_correct. Qed.
Print Assumptions c08_gen_reactive_fluxes_dense.

(* reactive_fluxes, sparse branch: `.multiply((populations * reverse)[:, None]).multiply(forward)`, reset *)
Theorem c08_gen_reactive_fluxes_sparse : forall T pi q,
  reactive_fluxes T pi q = if shapes_ok T pi q then Some (gen_reactive_fluxes_sparse T pi q) else None.
Proof. exact gen_reactive_fluxes_sparse_correct. Qed.
Print Assumptions c08_gen_reactive_fluxes_sparse.

(* net_fluxes, dense branch: `fluxes - fluxes.T`, then `net[np.where(net < 0)] = 0` *)
Theorem c08_gen_net_fluxes_dense : forall T pi q,
  net_fluxes T pi q = if shapes_ok T pi q then Some (gen_net_fluxes_dense T pi q) else None.
Proof. exact gen_net_fluxes_dense_correct. Qed.
Print Assumptions c08_gen_net_fluxes_dense.

(* net_fluxes, sparse branch: `(fluxes - fluxes.T).maximum(0)` *)
Theorem c08_gen_net_fluxes_sparse : forall T pi q,
  net_fluxes_sparse T pi q = if shapes_ok T pi q then Some (gen_net_fluxes_sparse T pi q) else None.
Proof. exact gen_net_fluxes_sparse_correct. Qed.
Print Assumptions c08_gen_net_fluxes_sparse.

(* reactive_populations: `populations * forward * reverse` divided by its sum *)
Theorem c08_gen_reactive_populations : forall pi q,
  reactive_populations pi q =
  if (1 <=? length pi)%nat && (length q =? length pi)%nat
  then (if Qeq_bool (qsum (densities pi q)) 0 then None else Some (gen_reactive_populations pi q))
  else None.
Proof. exact gen_reactive_populations_correct. Qed.
Print Assumptions c08_gen_reactive_populations.

(* the vocabulary: broadcasting by index agrees with the model's zipping on matching shapes; the reset over
   arange(n) is the full diagonal reset; .T is the n x n transpose; both selections are the positive part *)
Theorem c08_gen_vocabulary :
  (forall w M, length w = length M -> row_scale w M = scale_rows w M) /\
  (forall v M, (forall i, (i < length M)%nat -> length (nth i M []) = length v) -> col_scale v M = scale_cols v M) /\
  (forall n M, (length M <= n)%nat -> zero_diag_n n M = zero_diag M) /\
  (forall n M, length M = n -> (forall i, (i < n)%nat -> length (nth i M []) = n) -> transpose_m M = transpose n M) /\
  (forall M, set_where_lt 0 0 M = pos_part_m M) /\ (forall M, mat_maximum 0 M = pos_part_m M).
Proof. exact gen_vocabulary. Qed.
Print Assumptions c08_gen_vocabulary.

(* Clause "flux = pi_i q-_i T_ij q+_j off the diagonal, zero on it", on the regenerated text, both containers *)
Theorem c08_gen_flux_definition : forall T pi q, shapes_ok T pi q = true ->
  forall i j, (i < length pi)%nat -> (j < length pi)%nat ->
  ent (gen_reactive_fluxes_dense T pi q) i j ==
    (if (i =? j)%nat then 0 else vnth pi i * (1 - vnth q i) * ent T i j * vnth q j) /\
  ent (gen_reactive_fluxes_sparse T pi q) i j ==
    (if (i =? j)%nat then 0 else vnth pi i * (1 - vnth q i) * ent T i j * vnth q j).
Proof. exact gen_flux_entry. Qed.
Print Assumptions c08_gen_flux_definition.

(* Clause "net flux is the positive part of flux minus its transpose", on the regenerated text *)
Theorem c08_gen_net_is_positive_part : forall T pi q, shapes_ok T pi q = true ->
  forall i j, (i < length pi)%nat -> (j < length pi)%nat ->
  ent (gen_net_fluxes_dense T pi q) i j =
    pos_part (ent (gen_reactive_fluxes_dense T pi q) i j - ent (gen_reactive_fluxes_dense T pi q) j i) /\
  ent (gen_net_fluxes_sparse T pi q) i j =
    pos_part (ent (gen_reactive_fluxes_sparse T pi q) i j - ent (gen_reactive_fluxes_sparse T pi q) j i).
Proof. exact gen_net_entry. Qed.
Print Assumptions c08_gen_net_is_positive_part.

(* Non-vacuity of the regenerated text: on the example chain above it computes the same net flux and
   reactive populations *)
Example c08_gen_example :
  let T := [[1#2; 1#4; 0; 1#4; 0]; [1#7; 3#7; 2#7; 0; 1#7]; [0; 1#3; 1#6; 1#2; 0];
            [1#8; 0; 3#8; 1#4; 1#4]; [0; 1#4; 0; 1#2; 1#4]] in
  let pi := [4#29; 7#29; 6#29; 8#29; 4#29] in
  let q := [0; 11#16; 7#8; 1; 1] in
  shapes_ok T pi q = true /\
  map (map Qred) (gen_net_fluxes_dense T pi q) =
    [[0; 11#464; 0; 1#29; 0]; [0; 0; 3#232; 0; 5#464]; [0; 0; 0; 3#232; 0];
     [0; 0; 0; 0; 0]; [0; 0; 0; 0; 0]] /\
  map (map Qred) (gen_net_fluxes_sparse T pi q) = map (map Qred) (gen_net_fluxes_dense T pi q) /\
  map Qred (gen_reactive_populations pi q) = [0; 55#79; 24#79; 0; 0].
Proof. vm_compute. repeat split; reflexivity. Qed.
Print Assumptions c08_gen_example.
