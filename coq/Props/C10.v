(* C10 — nearest-centre assignment and per-trajectory bookkeeping are exact.
   gen_partition_indices / gen_partition_list are regenerated from enspara/ra/ra.py on every run. *)
From Coq Require Import List ZArith QArith.
From EV Require Import PySlice PartitionBase PartitionGen Cluster ClusterBase Partition PartitionProofs KcGuardBase ClusterGen ClusterSkel ClusterGenProofs PartitionSkel UtilGenProofs PartitionAddress BatchBudget BatchNonEmpty.
Import ListNotations.

(* every frame gets a centre at minimal distance and exactly that distance; ties go to the first
   centre; any non-empty centre list (more or fewer centres than frames) *)
Theorem c10_nearest_is_minimal : forall D f cs j d,
  nearest D f cs = Some (j, d) ->
  (j < length cs)%nat /\ d = D (ctr cs j) f /\
  (forall t, (t < length cs)%nat -> (d <= D (ctr cs t) f)%Q) /\
  (forall t, (t < j)%nat -> (d < D (ctr cs t) f)%Q).
Proof. exact nearest_spec. Qed.
Print Assumptions c10_nearest_is_minimal.

Theorem c10_nearest_defined : forall D f cs, cs <> [] -> exists j d, nearest D f cs = Some (j, d).
Proof. exact nearest_some. Qed.
Print Assumptions c10_nearest_defined.

(* the sweep's test (dist < distances, distances starting at +inf) as regenerated from util.py *)
Theorem c10_source_nearest_sweep_is_model : forall D f cs i bi bd,
  nearest_from_skel D gen_nearest_improves f i bi bd cs = nearest_from D f i bi bd cs.
Proof. exact gen_nearest_is_model. Qed.
Print Assumptions c10_source_nearest_sweep_is_model.

(* splitting by trajectory lengths preserves every value and its order; concatenation restores it *)
Theorem c10_partition_list_concat : forall (A : Type) (l : list A) lens,
  nonneg lens -> zsum lens = Z.of_nat (length l) ->
  exists rows, gen_partition_list l lens = Some rows /\ concat rows = l /\
               map (fun r => Z.of_nat (length r)) rows = lens.
Proof. exact @partition_list_concat. Qed.
Print Assumptions c10_partition_list_concat.

Theorem c10_partition_list_rejects_wrong_total : forall (A : Type) (l : list A) lens,
  zsum lens <> Z.of_nat (length l) -> gen_partition_list l lens = None.
Proof. exact @partition_list_rejects. Qed.
Print Assumptions c10_partition_list_rejects_wrong_total.

(* each flat centre index becomes the (trajectory, frame) pair addressing the same frame
   (first/last frames of a trajectory and length-1 trajectories are instances) *)
Theorem c10_partition_indices_address_same_frame : forall lens indices,
  nonneg lens -> Forall (fun i => (0 <= i < zsum lens)%Z) indices ->
  length (gen_partition_indices indices lens) = length indices /\
  forall k, (k < length indices)%nat ->
    exists t f, nth k (gen_partition_indices indices lens) (0, 0)%Z = (Z.of_nat t, f) /\
                (t < length lens)%nat /\ (0 <= f < nth t lens 0)%Z /\ flat_of lens t f = nth k indices 0%Z.
Proof. exact partition_indices_map. Qed.
Print Assumptions c10_partition_indices_address_same_frame.

Theorem c10_pair_is_unique : forall lens t t' f f', nonneg lens ->
  (t < length lens)%nat -> (t' < length lens)%nat -> (0 <= f < nth t lens 0)%Z -> (0 <= f' < nth t' lens 0)%Z ->
  flat_of lens t f = flat_of lens t' f' -> t = t' /\ f = f'.
Proof. exact flat_of_inj. Qed.
Print Assumptions c10_pair_is_unique.

Theorem c10_partition_roundtrip : forall lens t f,
  nonneg lens -> (t < length lens)%nat -> (0 <= f < nth t lens 0)%Z ->
  gen_partition_indices [flat_of lens t f] lens = [(Z.of_nat t, f)].
Proof. exact partition_roundtrip. Qed.
Print Assumptions c10_partition_roundtrip.

(* the per-label centre finder returns a member frame of smallest distance for each label present *)
Theorem c10_find_centers_min : forall c l,
  match argmin_label c None l with
  | None => forall x, In x l -> lab x <> c
  | Some m => In m l /\ lab m = c /\ forall x, In x l -> lab x = c -> (dist m <= dist x)%Q
  end.
Proof. exact find_centers_min. Qed.
Print Assumptions c10_find_centers_min.

(* batch reassignment relies on the batches being consecutive: concatenated in order they are
   exactly the trajectory indices 0..n-1 *)
Theorem c10_batches_keep_trajectory_order : forall lens bs,
  concat (compute_batches lens bs) = seq 0 (length lens).
Proof. exact compute_batches_order. Qed.
Print Assumptions c10_batches_keep_trajectory_order.

(* the per-label member test / running first minimum of find_cluster_centers, the join-or-open test
   of compute_batches and the all-equal test of ClusterResult.partition as regenerated from util.py *)
Theorem c10_source_center_finder_is_model : forall c l best,
  argmin_label_skel gen_fcc_member gen_fcc_better c best l = argmin_label c best l.
Proof. exact gen_center_finder_is_model. Qed.
Print Assumptions c10_source_center_finder_is_model.

Theorem c10_source_batches_is_model : forall bs lens i cur_sz cur done,
  cb_loop_skel gen_cb_fits bs lens i cur_sz cur done = cb_loop bs lens i cur_sz cur done.
Proof. exact gen_batches_is_model. Qed.
Print Assumptions c10_source_batches_is_model.

Theorem c10_source_square_test_is_model : forall lens, gen_square lens = square lens.
Proof. exact gen_square_is_model. Qed.
Print Assumptions c10_source_square_test_is_model.

(* ---- partition_list and partition_indices together: split the flat array l by the lengths and
   convert a flat index i; the (trajectory, frame) pair reads, in the split pieces, exactly l[i]
   (centres on the first/last frame of a trajectory and length-1 trajectories included) *)
Theorem c10_pair_addresses_same_value_in_split : forall (A : Type) (d : A) (l : list A) lens i,
  nonneg lens -> zsum lens = Z.of_nat (length l) -> (0 <= i < zsum lens)%Z ->
  exists rows t f, gen_partition_list l lens = Some rows /\
    gen_partition_indices [i] lens = [(Z.of_nat t, f)] /\
    (t < length rows)%nat /\ (0 <= f < Z.of_nat (length (nth t rows [])))%Z /\
    nth (Z.to_nat f) (nth t rows []) d = nth (Z.to_nat i) l d.
Proof. exact @partition_pair_addresses_same_value. Qed.
Print Assumptions c10_pair_addresses_same_value_in_split.

(* the output is the only list of pieces with those lengths whose concatenation is the input:
   nothing about the result is left unspecified *)
Theorem c10_partition_list_is_the_only_split : forall (A : Type) (l : list A) lens rows rows',
  gen_partition_list l lens = Some rows -> concat rows' = l -> zlens rows' = lens -> nonneg lens -> rows' = rows.
Proof. exact @partition_list_is_the_only_split. Qed.
Print Assumptions c10_partition_list_is_the_only_split.

(* labels and distances split by the same lengths have the same shape, row by row *)
Theorem c10_partition_shapes_agree : forall (A B : Type) (asg : list A) (dst : list B) lens ra rd,
  gen_partition_list asg lens = Some ra -> gen_partition_list dst lens = Some rd -> nonneg lens ->
  map (@length A) ra = map (@length B) rd.
Proof. exact @partition_shapes_agree. Qed.
Print Assumptions c10_partition_shapes_agree.

Example c10_address_example :
  gen_partition_list [10; 11; 12; 13; 14; 15]%Z [2; 1; 3]%Z = Some [[10; 11]; [12]; [13; 14; 15]]%Z /\
  gen_partition_indices [2]%Z [2; 1; 3]%Z = [(1, 0)]%Z /\ nth 0 (nth 1 [[10; 11]; [12]; [13; 14; 15]]%Z []) 0%Z = 12%Z.
Proof. vm_compute. repeat split; reflexivity. Qed.
Print Assumptions c10_address_example.

(* batch_reassign's batches respect the frame budget: a batch of two or more trajectories holds
   strictly fewer than batch_size frames (a single over-long trajectory is a batch of its own) *)
Theorem c10_batches_respect_budget : forall lens bs, Forall (batch_ok bs lens) (compute_batches lens bs).
Proof. exact compute_batches_budget. Qed.
Print Assumptions c10_batches_respect_budget.

(* there is always at least one batch and only the first can be empty (when the first trajectory
   alone reaches batch_size) *)
Theorem c10_only_first_batch_can_be_empty : forall lens bs,
  compute_batches lens bs <> [] /\ Forall (fun b => b <> []) (tl (compute_batches lens bs)).
Proof. exact compute_batches_nonempty. Qed.
Print Assumptions c10_only_first_batch_can_be_empty.

Example c10_example :
  gen_partition_indices [0; 2; 3; 3; 9; 4]%Z [3; 1; 4; 2]%Z = [(0, 0); (0, 2); (1, 0); (1, 0); (3, 1); (2, 0)]%Z /\
  gen_partition_list [10; 11; 12; 13; 14; 15]%Z [2; 1; 3]%Z = Some [[10; 11]; [12]; [13; 14; 15]]%Z /\
  gen_partition_list [10; 11; 12]%Z [2; 2]%Z = None /\
  compute_batches [5; 4; 2; 6; 1]%Z 8%Z = [[0]; [1; 2]; [3; 4]]%nat.
Proof. vm_compute. repeat split; reflexivity. Qed.
Print Assumptions c10_example.
