(* C17 -- pathways are real, bottleneck-optimal and never over-explain the flux
   (enspara/tpt/path.py: top_path, _subtract_path_flux, _remove_bottleneck, paths).
   Property theorems only; the model is Model/Paths.v, proofs are in Proof/Paths*.v.

   Vocabulary (Proof/PathsProofs.v, Proof/PathsTop.v, Proof/PathsLoop.v):
     is_walk n f p        p non-empty, all states < n, consecutive states joined by edges with f > 0
     valid_path n f S T p is_walk, no state twice, first state in S, last state in T
     st_walk n f S T w    is_walk (states may repeat), first state in S, last state in T
     bottleneck f p       minimum of f over the edges of p (+inf if p has no edge)
     ele / eeq            <= / equality on Q u {-inf,+inf}
     trace remove n S T f ps qs   ps,qs are the top paths/fluxes of f, remove f p1, remove (remove f p1) p2, ... *)
From Coq Require Import List Arith QArith Bool Sorted.
From EV Require Import Paths PathsProofs PathsSearch PathsTop PathsLoop PathsTotal.
Import ListNotations.
Close Scope Q_scope.

(* Clause "every pathway returned is a simple path from a source to a sink along edges of positive
   net flux" -- for top_path, whenever a finite flux is reported; all matrices, all state sets. *)
Theorem c17_top_path_valid : forall n f srcs sinks p q,
  top_path n f srcs sinks = Ok (p, Fin q) -> valid_path n f srcs sinks p.
Proof. exact top_path_valid_lemma. Qed.
Print Assumptions c17_top_path_valid.

(* Clause "its reported flux equals the smallest flux on its edges" (and that flux is positive). *)
Theorem c17_top_path_flux_is_min_edge : forall n f srcs sinks p q,
  top_path n f srcs sinks = Ok (p, Fin q) ->
  (forall e, In e (edges p) -> (q <= f (fst e) (snd e))%Q) /\
  (exists e, In e (edges p) /\ (q == f (fst e) (snd e))%Q) /\
  (0 < q)%Q.
Proof. exact top_path_flux_lemma. Qed.
Print Assumptions c17_top_path_flux_is_min_edge.

(* Clause "the top path has the largest such bottleneck of all source-to-sink paths": no walk from a
   source to a sink (simple or not) has a larger bottleneck than the reported flux.  Full Dijkstra
   argument for the code as written (duplicates in the queue, early exit once all sinks are visited). *)
Theorem c17_top_path_optimal : forall n f srcs sinks p fl w,
  top_path n f srcs sinks = Ok (p, fl) -> st_walk n f srcs sinks w -> ele (bottleneck f w) fl.
Proof. exact top_path_optimal_lemma. Qed.
Print Assumptions c17_top_path_optimal.

(* ... in particular -inf (on which `paths` stops) is reported only if no source-to-sink walk exists. *)
Theorem c17_top_path_no_path : forall n f srcs sinks p w,
  top_path n f srcs sinks = Ok (p, NInf) -> ~ st_walk n f srcs sinks w.
Proof. exact top_path_none_lemma. Qed.
Print Assumptions c17_top_path_no_path.

(* Error guard: IndexError exactly when some source/sink is not a state, ValueError exactly when the
   states are fine but there is no sink; the theorems above are stated on the remaining inputs. *)
Theorem c17_top_path_errors : forall n f srcs sinks,
  (top_path n f srcs sinks = IndexErr <-> ~ (forall x, In x (srcs ++ sinks) -> x < n)) /\
  (top_path n f srcs sinks = ValueErr <-> (forall x, In x (srcs ++ sinks) -> x < n) /\ sinks = []).
Proof. exact top_path_errors. Qed.
Print Assumptions c17_top_path_errors.

(* On every other input the model returns a value: its fuel (|sources| + n^2 + 1 pops, n^2 + 2 loop
   rounds) is never exhausted, so the guards `= Ok ...` of the theorems in this file are met by all
   well-formed inputs (termination of the code's while loops, in the model). *)
Theorem c17_top_path_total : forall n f srcs sinks,
  (forall x, In x (srcs ++ sinks) -> x < n) -> sinks <> [] ->
  exists p fl, top_path n f srcs sinks = Ok (p, fl).
Proof. exact top_path_total_lemma. Qed.
Print Assumptions c17_top_path_total.

Theorem c17_paths_total_subtract : forall n f srcs sinks npaths cutoff,
  (forall x, In x (srcs ++ sinks) -> x < n) -> sinks <> [] ->
  exists ps qs, paths subtract_path n f srcs sinks npaths cutoff = Ok (ps, qs).
Proof. exact (paths_total_lemma subtract_path subtract_shrinking). Qed.
Print Assumptions c17_paths_total_subtract.

Theorem c17_paths_total_bottleneck : forall n f srcs sinks npaths cutoff,
  (forall x, In x (srcs ++ sinks) -> x < n) -> sinks <> [] ->
  exists ps qs, paths remove_bottleneck n f srcs sinks npaths cutoff = Ok (ps, qs).
Proof. exact (paths_total_lemma remove_bottleneck bottleneck_shrinking). Qed.
Print Assumptions c17_paths_total_bottleneck.

(* `paths` returns the successive top paths of the residual matrices (so the four theorems above hold
   for every returned pathway w.r.t. its residual matrix), and respects num_paths >= 1. *)
Theorem c17_paths_are_top_paths_of_residuals : forall remove n f srcs sinks npaths cutoff ps qs,
  paths remove n f srcs sinks npaths cutoff = Ok (ps, qs) ->
  trace remove n srcs sinks f ps qs /\ length ps = length qs.
Proof. exact paths_residuals_lemma. Qed.
Print Assumptions c17_paths_are_top_paths_of_residuals.

(* Clause "the requested number of paths is respected". *)
Theorem c17_num_paths_respected : forall remove n f srcs sinks m cutoff ps qs,
  1 <= m -> paths remove n f srcs sinks (Some m) cutoff = Ok (ps, qs) -> length ps <= m.
Proof. exact num_paths_lemma. Qed.
Print Assumptions c17_num_paths_respected.

(* Every pathway returned by `paths` (either scheme) is a simple source-to-sink path along positive
   edges of the caller's matrix. *)
Theorem c17_paths_valid_subtract : forall n f srcs sinks npaths cutoff ps qs,
  nonneg f -> paths subtract_path n f srcs sinks npaths cutoff = Ok (ps, qs) ->
  Forall (valid_path n f srcs sinks) ps.
Proof. exact (paths_valid_lemma subtract_path subtract_lowering). Qed.
Print Assumptions c17_paths_valid_subtract.

Theorem c17_paths_valid_bottleneck : forall n f srcs sinks npaths cutoff ps qs,
  nonneg f -> paths remove_bottleneck n f srcs sinks npaths cutoff = Ok (ps, qs) ->
  Forall (valid_path n f srcs sinks) ps.
Proof. exact (paths_valid_lemma remove_bottleneck bottleneck_lowering). Qed.
Print Assumptions c17_paths_valid_bottleneck.

(* Clause "successive pathway fluxes never increase" -- both schemes. *)
Theorem c17_fluxes_antitone_subtract : forall n f srcs sinks npaths cutoff ps qs,
  nonneg f -> paths subtract_path n f srcs sinks npaths cutoff = Ok (ps, qs) ->
  Sorted (fun a b => (b <= a)%Q) qs.
Proof. exact (paths_antitone_lemma subtract_path subtract_lowering). Qed.
Print Assumptions c17_fluxes_antitone_subtract.

Theorem c17_fluxes_antitone_bottleneck : forall n f srcs sinks npaths cutoff ps qs,
  nonneg f -> paths remove_bottleneck n f srcs sinks npaths cutoff = Ok (ps, qs) ->
  Sorted (fun a b => (b <= a)%Q) qs.
Proof. exact (paths_antitone_lemma remove_bottleneck bottleneck_lowering). Qed.
Print Assumptions c17_fluxes_antitone_bottleneck.

(* Clause "their sum never exceeds the total outflow of the sources" -- subtract scheme
   (total_flux is the code's net_flux[sources, :].sum()). *)
Theorem c17_subtract_sum_le_outflow : forall n f srcs sinks npaths cutoff ps qs,
  nonneg f -> paths subtract_path n f srcs sinks npaths cutoff = Ok (ps, qs) ->
  (qsum qs <= total_flux n f srcs)%Q.
Proof. exact subtract_sum_lemma. Qed.
Print Assumptions c17_subtract_sum_le_outflow.

(* The same clause is FALSE for the bottleneck scheme (finding F2): s->a 3/2, a->b->t 1,1, a->c->t 1,1
   gives two pathways of flux 1, sum 2 > outflow 3/2.  Reproduced on the real code by the harness. *)
Theorem c17_bottleneck_sum_le_outflow_refuted :
  exists n f srcs sinks npaths cutoff ps qs,
    paths remove_bottleneck n f srcs sinks npaths cutoff = Ok (ps, qs) /\
    nonneg f /\ (total_flux n f srcs < qsum qs)%Q.
Proof. exact bottleneck_sum_refuted_lemma. Qed.
Print Assumptions c17_bottleneck_sum_le_outflow_refuted.

(* ... and it is false even on acyclic conserved flows when there are two sources (six states, outflow
   9, pathway fluxes 4, 5/2, 2, 2): the bottleneck scheme deletes one edge per pathway and leaves
   the other edges of the pathway at full capacity.  Also reproduced on the real code. *)
Theorem c17_bottleneck_sum_le_outflow_refuted_conserved :
  exists n f srcs sinks npaths cutoff ps qs ord,
    paths remove_bottleneck n f srcs sinks npaths cutoff = Ok (ps, qs) /\
    nonneg f /\ conservedb n f srcs sinks = true /\ forwardb n f ord = true /\
    (total_flux n f srcs < qsum qs)%Q.
Proof. exact bottleneck_sum_refuted_conserved_lemma. Qed.
Print Assumptions c17_bottleneck_sum_le_outflow_refuted_conserved.

(* Non-vacuity: concrete runs of the model.  The test graph of test_paths (six states), subtract
   scheme: three pathways with fluxes 3, 2, 1 explaining the whole outflow 6. *)
Example c17_example_subtract :
  paths subtract_path 6 ex_graph [0] [5] None (999 # 1000) =
    Ok ([[0; 1; 3; 5]; [0; 2; 4; 5]; [0; 2; 3; 5]], [3; 2; 1]%Q)
  /\ top_path 6 ex_graph [0] [5] = Ok ([0; 1; 3; 5], Fin 3)
  /\ valid_pathb 6 ex_graph [0] [5] [0; 1; 3; 5] = true
  /\ top_path 6 ex_graph [5] [0] = Ok ([0], NInf)
  /\ top_path 6 ex_graph [0] [6] = IndexErr
  /\ top_path 6 ex_graph [0] [] = ValueErr.
Proof. vm_compute. repeat split; reflexivity. Qed.
Print Assumptions c17_example_subtract.

Example c17_example_f2 :
  paths remove_bottleneck 5 f2_graph [0] [4] None (9 # 10) = Ok ([[0; 1; 2; 4]; [0; 1; 3; 4]], [1; 1]%Q)
  /\ paths subtract_path 5 f2_graph [0] [4] None (9 # 10) = Ok ([[0; 1; 2; 4]; [0; 1; 3; 4]], [1; 1 # 2]%Q).
Proof. vm_compute. split; reflexivity. Qed.
Print Assumptions c17_example_f2.
