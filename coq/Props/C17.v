(* C17 -- pathways are real, bottleneck-optimal and never over-explain the flux
   (enspara/tpt/path.py: top_path, _subtract_path_flux, _remove_bottleneck, paths).
   Property theorems only; the model is Model/Paths.v, proofs are in Proof/Paths*.v.

   Vocabulary (Proof/PathsProofs.v, Proof/PathsTop.v, Proof/PathsLoop.v):
     is_walk n f p        p non-empty, all states < n, consecutive states joined by edges with f > 0
     valid_path n f S T p is_walk, no state twice, first state in S, last state in T
     st_walk n f S T w    is_walk (states may repeat), first state in S, last state in T
     bottleneck f p       minimum of f over the edges of p (+inf if p has no edge)
     ele / eeq            <= / equality on Q u {-inf,+inf}
     trace remove n S T f ps qs   ps,qs are the top paths/fluxes of f, remove f p1, remove (remove f p1) p2, ... *)
From Coq Require Import List Arith QArith Bool Sorted.
From EV Require Import Paths PathsProofs PathsSearch PathsTop PathsLoop PathsTotal.
Import ListNotations.
Close Scope Q_scope.

(* Clause "every pathway returned is a simple path from a source to a sink along edges of positive
   net flux" -- for top_path, whenever a finite flux is reported; all matrices, all state sets. *)
Theorem c17_top_path_valid : forall n f srcs sinks p q,
  top_path n f srcs sinks = Ok (p, Fin q) -> valid_path n f srcs sinks p.
Proof. exact top_path_valid_lemma. Qed.
Print Assumptions c17_top_path_valid.

(* Clause "its reported flux equals the smallest flux on its edges" (and that flux is positive). *)
Theorem c17_top_path_flux_is_min_edge : forall n f srcs sinks p q,
  top_path n f srcs sinks = Ok (p, Fin q) ->
  (forall e, In e (edges p) -> (q <= f (fst e) (snd e))%Q) /\
  (exists e, In e (edges p) /\ (q == f (fst e) (snd e))%Q) /\
  (0 < q)%Q.
Proof. exact top_path_flux_lemma. Qed.
Print Assumptions c17_top_path_flux_is_min_edge.

(* Clause "the top path has the largest such bottleneck of all source-to-sink paths": no walk from a
   source to a sink (simple or not) has a larger bottleneck than the reported flux.  Full Dijkstra
   argument for the code as written (duplicates in the queue, early exit once all sinks are visited). *)
Theorem c17_top_path_optimal : forall n f srcs sinks p fl w,
  top_path n f srcs sinks = Ok (p, fl) -> st_walk n f srcs sinks w -> ele (bottleneck f w) fl.
Proof. exact top_path_optimal_lemma. Qed.
Print Assumptions c17_top_path_optimal.

(* ... in particular -inf (on which `paths` stops) is reported only if no source-to-sink walk exists. *)
Theorem c17_top_path_no_path : forall n f srcs sinks p w,
  top_path n f srcs sinks = Ok (p, NInf) -> ~ st_walk n f srcs sinks w.
Proof. exact top_path_none_lemma. Qed.
Print Assumptions c17_top_path_no_path.

(* Error guard: IndexError exactly when some source/sink is not a state, ValueError exactly when the
   states are fine but there is no sink; the theorems above are stated on the remaining inputs. *)
Theorem c17_top_path_errors : forall n f srcs sinks,
  (top_path n f srcs sinks = IndexErr <-> ~ (forall x, In x (srcs ++ sinks) -> x < n)) /\
  (top_path n f srcs sinks = ValueErr <-> (forall x, In x (srcs ++ sinks) -> x < n) /\ sinks = []).
Proof. exact top_path_errors. Qed.
Print Assumptions c17_top_path_errors.

(* On every other input the model returns a value: its fuel (|sources| + n^2 + 1 pops, n^2 + 2 loop
   rounds) is never exhausted, so the guards `= Ok ...` of the theorems in this file are met by all
   well-formed inputs (termination of the code's while loops, in the model). *)
Theorem c17_top_path_total : forall n f srcs sinks,
  (forall x, In x (srcs ++ sinks) -> x < n) -> sinks <> [] ->
  exists p fl, top_path n f srcs sinks = Ok (p, fl).
Proof. exact top_path_total_lemma. Qed.
Print Assumptions c17_top_path_total.

Theorem c17_paths_total_subtract : forall n f srcs sinks npaths cutoff,
  (forall x, In x (srcs ++ sinks) -> x < n) -> sinks <> [] ->
  exists ps qs, paths subtract_path n f srcs sinks npaths cutoff = Ok (ps, qs).
Proof. exact (paths_total_lemma subtract_path subtract_shrinking). Qed.
Print Assumptions c17_paths_total_subtract.

Theorem c17_paths_total_bottleneck : forall n f srcs sinks npaths cutoff,
  (forall x, In x (srcs ++ sinks) -> x < n) -> sinks <> [] ->
  exists ps qs, paths remove_bottleneck n f srcs sinks npaths cutoff = Ok (ps, qs).
Proof. exact (paths_total_lemma remove_bottleneck bottleneck_shrinking). Qed.
Print Assumptions c17_paths_total_bottleneck.

(* `paths` returns the successive top paths of the residual matrices (so the four theorems above hold
   for every returned pathway w.r.t. its residual matrix), and respects num_paths >= 1. *)
Theorem c17_paths_are_top_paths_of_residuals : forall remove n f srcs sinks npaths cutoff ps qs,
  paths remove n f srcs sinks npaths cutoff = Ok (ps, qs) ->
  trace remove n srcs sinks f ps qs /\ length ps = length qs.
Proof. exact paths_residuals_lemma. Qed.
Print Assumptions c17_paths_are_top_paths_of_residuals.

(* Clause "the requested number of paths is respected". *)
Theorem c17_num_paths_respected : forall remove n f srcs sinks m cutoff ps qs,
  1 <= m -> paths remove n f srcs sinks (Some m) cutoff = Ok (ps, qs) -> length ps <= m.
Proof. exact num_paths_lemma. Qed.
Print Assumptions c17_num_paths_respected.

(* Every pathway returned by `paths` (either scheme) is a simple source-to-sink path along positive
   edges of the caller's matrix. *)
Theorem c17_paths_valid_subtract : forall n f srcs sinks npaths cutoff ps qs,
  nonneg f -> paths subtract_path n f srcs sinks npaths cutoff = Ok (ps, qs) ->
  Forall (valid_path n f srcs sinks) ps.
Proof. exact (paths_valid_lemma subtract_path subtract_lowering). Qed.
Print Assumptions c17_paths_valid_subtract.

Theorem c17_paths_valid_bottleneck : forall n f srcs sinks npaths cutoff ps qs,
  nonneg f -> paths remove_bottleneck n f srcs sinks npaths cutoff = Ok (ps, qs) ->
  Forall (valid_path n f srcs sinks) ps.
Proof. exact (paths_valid_lemma remove_bottleneck bottleneck_lowering). Qed.
Print Assumptions c17_paths_valid_bottleneck.

(* Clause "successive pathway fluxes never increase" -- both schemes. *)
Theorem c17_fluxes_antitone_subtract : forall n f srcs sinks npaths cutoff ps qs,
  nonneg f -> paths subtract_path n f srcs sinks npaths cutoff = Ok (ps, qs) ->
  Sorted (fun a b => (b <= a)%Q) qs.
Proof. exact (paths_antitone_lemma subtract_path subtract_lowering). Qed.
Print Assumptions c17_fluxes_antitone_subtract.

Theorem c17_fluxes_antitone_bottleneck : forall n f srcs sinks npaths cutoff ps qs,
  nonneg f -> paths remove_bottleneck n f srcs sinks npaths cutoff = Ok (ps, qs) ->
  Sorted (fun a b => (b <= a)%Q) qs.
Proof. exact (paths_antitone_lemma remove_bottleneck bottleneck_lowering). Qed.
Print Assumptions c17_fluxes_antitone_bottleneck.

(* Clause "their sum never exceeds the total outflow of the sources" -- subtract scheme
   (total_flux is the code's net_flux[sources, :].sum()). *)
Theorem c17_subtract_sum_le_outflow : forall n f srcs sinks npaths cutoff ps qs,
  nonneg f -> paths subtract_path n f srcs sinks npaths cutoff = Ok (ps, qs) ->
  (qsum qs <= total_flux n f srcs)%Q.
Proof. exact subtract_sum_lemma. Qed.
Print Assumptions c17_subtract_sum_le_outflow.

(* The same clause is FALSE for the bottleneck scheme (finding F2): s->a 3/2, a->b->t 1,1, a->c->t 1,1
   gives two pathways of flux 1, sum 2 > outflow 3/2.  Reproduced on the real code by the harness. *)
Theorem c17_bottleneck_sum_le_outflow_refuted :
  exists n f srcs sinks npaths cutoff ps qs,
    paths remove_bottleneck n f srcs sinks npaths cutoff = Ok (ps, qs) /\
    nonneg f /\ (total_flux n f srcs < qsum qs)%Q.
Proof. exact bottleneck_sum_refuted_lemma. Qed.
Print Assumptions c17_bottleneck_sum_le_outflow_refuted.

(* ... and it is false even on acyclic conserved flows when there are two sources (six states, outflow
   9, pathway fluxes 4, 5/2, 2, 2): the bottleneck scheme deletes one edge per pathway and leaves
   the other edges of the pathway at full capacity.  Also reproduced on the real code. *)
Theorem c17_bottleneck_sum_le_outflow_refuted_conserved :
  exists n f srcs sinks npaths cutoff ps qs ord,
    paths remove_bottleneck n f srcs sinks npaths cutoff = Ok (ps, qs) /\
    nonneg f /\ conservedb n f srcs sinks = true /\ forwardb n f ord = true /\
    (total_flux n f srcs < qsum qs)%Q.
Proof. exact bottleneck_sum_refuted_conserved_lemma. Qed.
Print Assumptions c17_bottleneck_sum_le_outflow_refuted_conserved.

(* Non-vacuity: concrete runs of the model.  The test graph of test_paths (six states), subtract
   scheme: three pathways with fluxes 3, 2, 1 explaining the whole outflow 6. *)
Example c17_example_subtract :
  paths subtract_path 6 ex_graph [0] [5] None (999 # 1000) =
    Ok ([[0; 1; 3; 5]; [0; 2; 4; 5]; [0; 2; 3; 5]], [3; 2; 1]%Q)
  /\ top_path 6 ex_graph [0] [5] = Ok ([0; 1; 3; 5], Fin 3)
  /\ valid_pathb 6 ex_graph [0] [5] [0; 1; 3; 5] = true
  /\ top_path 6 ex_graph [5] [0] = Ok ([0], NInf)
  /\ top_path 6 ex_graph [0] [6] = IndexErr
  /\ top_path 6 ex_graph [0] [] = ValueErr.
Proof. vm_compute. repeat split; reflexivity. Qed.
Print Assumptions c17_example_subtract.

Example c17_example_f2 :
  paths remove_bottleneck 5 f2_graph [0] [4] None (9 # 10) = Ok ([[0; 1; 2; 4]; [0; 1; 3; 4]], [1; 1]%Q)
  /\ paths subtract_path 5 f2_graph [0] [4] None (9 # 10) = Ok ([[0; 1; 2; 4]; [0; 1; 3; 4]], [1; 1 # 2]%Q).
Proof. vm_compute. split; reflexivity. Qed.
Print Assumptions c17_example_f2.

(* ====================================================================== round 2 *)
From EV Require Import PathsConserved PathBase PathGen PathGenProofs.

(* Clause "(their sum) reaches the requested fraction when the flux is conserved" -- subtract scheme.
   Vocabulary (Proof/PathsConserved.v):
     conserved n f S T   for every state v < n: inflow (column sum) = 0 if v is a source; otherwise
                         outflow (row sum) = 0 if v is a sink; otherwise inflow = outflow
     acyclic n f         a topological order exists: some rank : nat -> nat increases along every edge
                         of positive flux between states < n
   (executable forms conservedb / forwardb of Model/Paths.v imply them, see the Example below).

   Step 1: while the residual outflow of the sources is positive, a source-to-sink walk along edges of
   positive flux exists in the residual matrix (its bottleneck is positive) ... *)
Theorem c17_conserved_positive_outflow_has_path : forall n f srcs sinks,
  nonneg f -> conserved n f srcs sinks -> acyclic n f ->
  (forall s, In s srcs -> s < n) -> (0 < total_flux n f srcs)%Q ->
  exists w, st_walk n f srcs sinks w /\ ele (Fin 0) (bottleneck f w) /\ bottleneck f w <> Fin 0.
Proof. exact positive_outflow_has_walk. Qed.
Print Assumptions c17_conserved_positive_outflow_has_path.

(* ... so top_path reports a finite positive flux: neither -inf (on which `paths` would stop early)
   nor +inf (no source is a sink). *)
Theorem c17_conserved_top_path_finite : forall n f srcs sinks p fl,
  nonneg f -> conserved n f srcs sinks -> acyclic n f ->
  (forall x, In x srcs -> ~ In x sinks) -> (0 < total_flux n f srcs)%Q ->
  top_path n f srcs sinks = Ok (p, fl) -> exists q, fl = Fin q /\ (0 < q)%Q.
Proof. exact conserved_top_path_finite. Qed.
Print Assumptions c17_conserved_top_path_finite.

(* Step 2: subtracting the pathway just found keeps the flow non-negative, conserved and acyclic and
   lowers the outflow of the sources by exactly the reported pathway flux. *)
Theorem c17_subtract_keeps_conserved : forall n f srcs sinks p q,
  nonneg f -> conserved n f srcs sinks -> acyclic n f -> NoDup srcs ->
  top_path n f srcs sinks = Ok (p, Fin q) ->
  nonneg (subtract_path f p) /\ conserved n (subtract_path f p) srcs sinks /\
  acyclic n (subtract_path f p) /\
  (total_flux n (subtract_path f p) srcs == total_flux n f srcs - q)%Q.
Proof. exact subtract_step_lemma. Qed.
Print Assumptions c17_subtract_keeps_conserved.

(* Step 3: with num_paths = inf (None) the loop ends only when the explained fraction has reached the
   cut-off or the whole outflow has been explained (any cut-off, also > 1) ... *)
Theorem c17_conserved_stops_at_fraction_or_exhausted : forall n f srcs sinks cutoff ps qs,
  nonneg f -> conserved n f srcs sinks -> acyclic n f ->
  NoDup srcs -> (forall x, In x srcs -> ~ In x sinks) ->
  paths subtract_path n f srcs sinks None cutoff = Ok (ps, qs) ->
  (cutoff * total_flux n f srcs <= qsum qs)%Q \/ (qsum qs == total_flux n f srcs)%Q.
Proof. exact conserved_reaches_general. Qed.
Print Assumptions c17_conserved_stops_at_fraction_or_exhausted.

(* ... hence the clause: for a requested fraction <= 1 the returned fluxes add up to at least that
   fraction of the total outflow of the sources.  (Sources listed once and disjoint from the sinks: a
   duplicated source is counted twice by net_flux[sources, :].sum(), a source that is a sink makes
   top_path answer +inf.  Exact arithmetic; the value `= Ok` excludes malformed state sets, and
   c17_paths_total_subtract shows it is met by all well-formed ones.) *)
Theorem c17_conserved_reaches_fraction : forall n f srcs sinks cutoff ps qs,
  nonneg f -> conserved n f srcs sinks -> acyclic n f ->
  NoDup srcs -> (forall x, In x srcs -> ~ In x sinks) -> (cutoff <= 1)%Q ->
  paths subtract_path n f srcs sinks None cutoff = Ok (ps, qs) ->
  (cutoff * total_flux n f srcs <= qsum qs)%Q.
Proof. exact conserved_reaches_lemma. Qed.
Print Assumptions c17_conserved_reaches_fraction.

(* The hypotheses are met by the graph of test_paths (and follow from the executable tests). *)
Theorem c17_conserved_tests_sound : forall n f srcs sinks ord,
  (conservedb n f srcs sinks = true -> conserved n f srcs sinks) /\
  (forwardb n f ord = true -> acyclic n f).
Proof. exact conserved_tests_sound. Qed.
Print Assumptions c17_conserved_tests_sound.

Example c17_example_conserved :
  nonneg ex_graph /\ conserved 6 ex_graph [0] [5] /\ acyclic 6 ex_graph /\ NoDup [0] /\
  (forall x, In x [0] -> ~ In x [5]).
Proof. exact ex_graph_hyps. Qed.
Print Assumptions c17_example_conserved.

(* Tie to the source: Gen/PathGen.v is regenerated from enspara/tpt/path.py by translator/tr_path.py
   (statement shapes recognised fail-closed, scalar logic translated).  The generated scalars are the
   model's: neighbour test `> 0`, candidate min(edge, upstream), relaxation only of unvisited states
   with a strictly larger candidate, pop = first maximal label in the queue, early exit once all sinks
   are visited, end state = first sink of maximal label ... *)
Theorem c17_generated_search_tests_are_model :
  (gen_label_other = NInf /\ gen_label_source = PInf) /\
  (forall mq, gen_pop_index mq = argmax mq) /\
  (forall (vis : nat -> bool) sinks, gen_exit_test (map vis sinks) = forallb vis sinks) /\
  (forall x, gen_neighbor_test x = Qltb 0%Q x) /\
  (forall edge up, gen_clip edge up = emin (Fin edge) up) /\
  (forall v nw old, gen_relax_test v nw old = negb v && eltb old nw) /\
  (forall ms, gen_sink_index ms = argmax ms).
Proof.
  exact (conj gen_labels_eq (conj gen_pop_index_eq (conj gen_exit_test_eq (conj gen_neighbor_test_eq
        (conj gen_clip_eq (conj gen_relax_test_eq gen_sink_index_eq)))))).
Qed.
Print Assumptions c17_generated_search_tests_are_model.

(* ... the removal schemes subtract the MINIMUM along the path and set exactly the first minimal edge
   to exactly zero ... *)
Theorem c17_generated_removal_scalars_are_model :
  (forall vals, gen_rb_index vals = argminQ vals) /\ gen_rb_value = 0%Q /\
  (forall vals, gen_sp_amount vals = minQ vals) /\ (forall x m, gen_sp_sub x m = Qred (x - m)%Q) /\
  (forall vals, gen_sp_index vals = argminQ vals) /\ gen_sp_value = 0%Q.
Proof. exact gen_remove_scalars_eq. Qed.
Print Assumptions c17_generated_removal_scalars_are_model.

(* ... and the loop of `paths`: isinf guard, explained-fraction update, counter, the two stopping tests. *)
Theorem c17_generated_loop_tests_are_model :
  (forall fl, gen_isinf_test fl = match fl with Fin _ => false | _ => true end) /\
  gen_counter0 = 0 /\ gen_expl0 = 0%Q /\
  (forall expl q total, gen_expl_update expl q total = Qred (expl + q / total)%Q) /\
  (forall c, gen_counter_update c = S c) /\
  (forall c np expl cutoff, gen_stop_test c np expl cutoff = reached_count np c || Qle_bool cutoff expl).
Proof. exact (conj gen_isinf_test_eq gen_loop_scalars_eq). Qed.
Print Assumptions c17_generated_loop_tests_are_model.

(* Hence the regenerated functions are the model on all inputs: every theorem of this file is a
   theorem about the text of path.py as translated. *)
Theorem c17_generated_top_path_is_model : forall n f srcs sinks,
  gen_top_path n f srcs sinks = top_path n f srcs sinks.
Proof. exact gen_top_path_eq. Qed.
Print Assumptions c17_generated_top_path_is_model.

Theorem c17_generated_removals_are_model : forall f p a b,
  gen_scheme_subtract f p a b = subtract_path f p a b /\
  gen_scheme_bottleneck f p a b = remove_bottleneck f p a b.
Proof. exact gen_removals_eq. Qed.
Print Assumptions c17_generated_removals_are_model.

Theorem c17_generated_paths_is_model : forall n f srcs sinks npaths cutoff,
  gen_paths gen_scheme_subtract n f srcs sinks npaths cutoff = paths subtract_path n f srcs sinks npaths cutoff /\
  gen_paths gen_scheme_bottleneck n f srcs sinks npaths cutoff = paths remove_bottleneck n f srcs sinks npaths cutoff.
Proof. exact gen_paths_schemes_eq. Qed.
Print Assumptions c17_generated_paths_is_model.

Example c17_example_generated :
  gen_paths gen_scheme_subtract 6 ex_graph [0] [5] None (999 # 1000) =
    Ok ([[0; 1; 3; 5]; [0; 2; 4; 5]; [0; 2; 3; 5]], [3; 2; 1]%Q)
  /\ gen_paths gen_scheme_bottleneck 5 f2_graph [0] [4] None (9 # 10) = Ok ([[0; 1; 2; 4]; [0; 1; 3; 4]], [1; 1]%Q)
  /\ gen_top_path 6 ex_graph [5] [0] = Ok ([0], NInf).
Proof. vm_compute. repeat split; reflexivity. Qed.
Print Assumptions c17_example_generated.
