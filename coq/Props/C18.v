(* C18 — joint counts are exact and mutual information obeys its algebraic laws.
   Property theorems only; proofs live in Proof/JointCountsProofs.v and Proof/InfoProofs.v.
   Exact-count theorems are over nat/Z/Q (closed under the global context); the information-theoretic
   laws are over Coq's Reals and therefore rest on the standard library's real-number axioms
   (printed below by Print Assumptions). *)
From Coq Require Import List ZArith QArith Qreals Bool Arith Reals Permutation.
From EV Require Import JointCounts Info JointCountsProofs InfoProofs JointShape JointPooled InfoEndToEnd.
From EV Require Import InfoBase InfoGen InfoGenProofs.
From EV Require Import InfoPyBase MutualInfoGen EntropyGen InfoPyGenCounts InfoPyGenMI EntropyGenProofs InfoPyGenTop.
From EV Require Import InfoPyGenWeighted EntropyGen2dProofs InfoPyGenLaws.
Import ListNotations.

(* ---- "Joint-count tables hold, for every feature pair and state pair, the exact number of frames
        ... for every ... thread count": whatever order the elementary increments of the triple loop
        are executed in (any permutation of the sequential order = any OpenMP schedule), cell
        (a, b, i, j) ends up holding #{t | X[t,a] = i /\ Y[t,b] = j}.  Feature counts and state counts
        of the two sides are independent. *)
Theorem c18_counts_exact_any_schedule : forall sched X Y na nb jc a b i j,
  schedule_ok sched ->
  matrix_bincount2d_sched sched X Y na nb = Some jc ->
  (a < width X)%nat -> (b < width Y)%nat -> (0 <= i < na)%Z -> (0 <= j < nb)%Z ->
  get4 jc a b (Z.to_nat i) (Z.to_nat j) = count_frames X Y a b i j.
Proof. exact jc_exact_sched. Qed.
Print Assumptions c18_counts_exact_any_schedule.

(* the sequential order is one such schedule *)
Theorem c18_counts_exact : forall X Y na nb jc a b i j,
  matrix_bincount2d X Y na nb = Some jc ->
  (a < width X)%nat -> (b < width Y)%nat -> (0 <= i < na)%Z -> (0 <= j < nb)%Z ->
  get4 jc a b (Z.to_nat i) (Z.to_nat j) = count_frames X Y a b i j.
Proof. exact jc_exact. Qed.
Print Assumptions c18_counts_exact.

(* acceptance and every cell value are the same under any two schedules *)
Theorem c18_schedule_independent : forall s1 s2 X Y na nb jc1,
  schedule_ok s1 -> schedule_ok s2 ->
  matrix_bincount2d_sched s1 X Y na nb = Some jc1 ->
  exists jc2, matrix_bincount2d_sched s2 X Y na nb = Some jc2 /\
    forall a b i j, (a < width X)%nat -> (b < width Y)%nat -> (0 <= i < na)%Z -> (0 <= j < nb)%Z ->
      get4 jc2 a b (Z.to_nat i) (Z.to_nat j) = get4 jc1 a b (Z.to_nat i) (Z.to_nat j).
Proof. exact jc_schedule_independent. Qed.
Print Assumptions c18_schedule_independent.

(* iterations of the parallel loop (different a_row) never write the same cell: no data race *)
Theorem c18_parallel_iterations_disjoint : forall X Y a1 b1 t1 a2 b2 t2 a b i j,
  a1 <> a2 -> hits X Y a b i j (a1, b1, t1) && hits X Y a b i j (a2, b2, t2) = false.
Proof. exact jc_iterations_disjoint. Qed.
Print Assumptions c18_parallel_iterations_disjoint.

(* joint_counts: explicit or default (max+1) state counts, two data sets or one against itself *)
Theorem c18_joint_counts_exact : forall X Y nx ny n_x n_y jc a b i j,
  joint_counts X (Some Y) nx ny = Some jc ->
  default_n nx X = Some n_x -> default_n ny Y = Some n_y ->
  (a < width X)%nat -> (b < width Y)%nat -> (0 <= i < n_x)%Z -> (0 <= j < n_y)%Z ->
  get4 jc a b (Z.to_nat i) (Z.to_nat j) = count_frames X Y a b i j.
Proof. exact joint_counts_exact. Qed.
Print Assumptions c18_joint_counts_exact.

Theorem c18_joint_counts_self_exact : forall X nx ny n_x jc a b i j,
  joint_counts X None nx ny = Some jc -> default_n nx X = Some n_x ->
  (a < width X)%nat -> (b < width X)%nat -> (0 <= i < n_x)%Z -> (0 <= j < n_x)%Z ->
  get4 jc a b (Z.to_nat i) (Z.to_nat j) = count_frames X X a b i j.
Proof. exact joint_counts_self_exact. Qed.
Print Assumptions c18_joint_counts_self_exact.

Theorem c18_default_state_count_covers_all_ids : forall X n,
  default_n None X = Some n -> forall v, In v (concat X) -> (v < n)%Z.
Proof. exact default_n_covers. Qed.
Print Assumptions c18_default_state_count_covers_all_ids.

(* ---- "State ids outside the declared range (negative or too large) and feature arrays of different
        lengths are rejected instead of being counted in another cell or written out of bounds" *)
Theorem c18_invalid_input_rejected : forall sched X Y na nb,
  (length X <> length Y
   \/ (exists v, In v (concat X) /\ (v < 0 \/ na <= v)%Z)
   \/ (exists v, In v (concat Y) /\ (v < 0 \/ nb <= v)%Z)) ->
  matrix_bincount2d_sched sched X Y na nb = None.
Proof. exact jc_rejects. Qed.
Print Assumptions c18_invalid_input_rejected.

(* ... and nothing else is rejected (non-empty rectangular arrays) *)
Theorem c18_accepted_iff_valid : forall sched X Y na nb,
  (exists jc, matrix_bincount2d_sched sched X Y na nb = Some jc) <->
  length X = length Y /\
  (rect X = true /\ concat X <> [] /\ forall v, In v (concat X) -> (0 <= v < na)%Z) /\
  (rect Y = true /\ concat Y <> [] /\ forall v, In v (concat Y) -> (0 <= v < nb)%Z).
Proof. exact jc_accepts_iff. Qed.
Print Assumptions c18_accepted_iff_valid.

(* ---- "unchanged by ... reordering frames": the counts (hence everything computed from them) *)
Theorem c18_counts_frame_order_invariant : forall X Y X' Y' a b i j,
  length X = length Y -> length X' = length Y' ->
  Permutation (combine X Y) (combine X' Y') ->
  count_frames X Y a b i j = count_frames X' Y' a b i j.
Proof. exact jc_perm. Qed.
Print Assumptions c18_counts_frame_order_invariant.

(* ---- "unchanged by relabelling states": an injective relabelling permutes the table ... *)
Theorem c18_counts_relabel_first_side : forall (s : Z -> Z) X Y a b i j,
  (forall u v, s u = s v -> u = v) -> rect X = true -> (a < width X)%nat ->
  count_frames (map (map s) X) Y a b (s i) j = count_frames X Y a b i j.
Proof. exact jc_relabel_x. Qed.
Print Assumptions c18_counts_relabel_first_side.

Theorem c18_counts_relabel_second_side : forall (s : Z -> Z) X Y a b i j,
  (forall u v, s u = s v -> u = v) -> rect Y = true -> (b < width Y)%nat -> length X = length Y ->
  count_frames X (map (map s) Y) a b i (s j) = count_frames X Y a b i j.
Proof. exact jc_relabel_y. Qed.
Print Assumptions c18_counts_relabel_second_side.

(* ---- "computed from pooled counts when several trajectories are given": the table mi_matrix hands
        to mutual_information is the cell-wise sum of exact per-trajectory counts = the count over
        the concatenated trajectories; trajectories with other feature counts are rejected *)
Theorem c18_pooled_counts : forall X0 Y0 rest nx ny J a b i j,
  pooled_counts ((X0, Y0) :: rest) nx ny = Some J ->
  (a < width X0)%nat -> (b < width Y0)%nat -> (0 <= i < nx)%Z -> (0 <= j < ny)%Z ->
  get4 J a b (Z.to_nat i) (Z.to_nat j) = pooled_spec ((X0, Y0) :: rest) a b i j.
Proof. exact jc_pooled. Qed.
Print Assumptions c18_pooled_counts.

Theorem c18_pooled_is_count_over_concatenation : forall XYs a b i j,
  Forall (fun XY => length (fst XY) = length (snd XY)) XYs ->
  pooled_spec XYs a b i j = count_frames (concat (map fst XYs)) (concat (map snd XYs)) a b i j.
Proof. exact pooled_spec_concat. Qed.
Print Assumptions c18_pooled_is_count_over_concatenation.

Theorem c18_pooled_rejects_other_feature_counts : forall X0 Y0 X Y pre post nx ny,
  width X <> width X0 \/ width Y <> width Y0 ->
  pooled_counts ((X0, Y0) :: pre ++ (X, Y) :: post) nx ny = None.
Proof. exact pooled_rejects_shape. Qed.
Print Assumptions c18_pooled_rejects_other_feature_counts.

(* ---- a data set against itself: table (b, a) is the transpose of table (a, b); table (a, a) is
        diagonal (inputs of the symmetry and diagonal laws below) *)
Theorem c18_self_counts_symmetric : forall X a b i j, count_frames X X b a j i = count_frames X X a b i j.
Proof. exact jc_self_symmetric. Qed.
Print Assumptions c18_self_counts_symmetric.

Theorem c18_self_counts_diagonal : forall X a i j, i <> j -> count_frames X X a a i j = 0%nat.
Proof. exact jc_self_diagonal. Qed.
Print Assumptions c18_self_counts_diagonal.

(* ---- "channel-capacity normalisation divides entry (i, j) by the log of the smaller of the two
        features' state counts": the divisor grid, exactly (Z) ... *)
Theorem c18_cc_grid_entry : forall rows cols n_x n_y G,
  cc_grid rows cols n_x n_y = Some G ->
  exists nx ny, states_array n_x rows = Some nx /\ states_array n_y cols = Some ny /\
    length nx = rows /\ length ny = cols /\ length G = rows /\
    forall i j, (i < rows)%nat -> (j < cols)%nat ->
      length (nth i G []) = cols /\
      nth j (nth i G []) 0%Z = Z.min (nth i nx 0%Z) (nth j ny 0%Z) /\
      (2 <= nth j (nth i G []) 0)%Z.
Proof. exact cc_grid_entry. Qed.
Print Assumptions c18_cc_grid_entry.

(* ---- "equal to the weighted estimator under uniform weights": with weights 1/T the weighted joint
        and marginal probability tables are exactly counts/T, the tables of the unweighted estimator *)
Theorem c18_weighted_uniform_tables : forall X a b u v,
  (0 < length X)%nat ->
  let w := repeat (1 # Pos.of_nat (length X)) (length X) in
  wjoint X w a b u v == qdiv (count_frames X X a b u v) (length X) /\
  wmarg X w a u == qdiv (cnt (fun x => (nth a x 0 =? u)%Z) X) (length X).
Proof. exact weighted_uniform_eq. Qed.
Print Assumptions c18_weighted_uniform_tables.

(* ======================= laws over the reals (standard-library real-number axioms) ============== *)

(* ... and the normalised value (R): well defined because the divisor is log of an integer >= 2 *)
Theorem c18_cc_norm_entry : forall (mi : nat -> nat -> R) rows cols n_x n_y G i j,
  cc_grid rows cols n_x n_y = Some G -> (i < rows)%nat -> (j < cols)%nat ->
  exists nx ny, states_array n_x rows = Some nx /\ states_array n_y cols = Some ny /\
    cc_norm mi G i j = (mi i j / ln (IZR (Z.min (nth i nx 0%Z) (nth j ny 0%Z))))%R /\
    (0 < ln (IZR (Z.min (nth i nx 0%Z) (nth j ny 0%Z))))%R.
Proof. exact cc_norm_well_defined. Qed.
Print Assumptions c18_cc_norm_entry.

(* ---- "Mutual information computed from them is non-negative" (Gibbs' inequality), for every
        rectangular table of counts, including never-observed pairs and empty rows/columns *)
Theorem c18_mi_nonneg : forall H, rect2 H = true -> (0 <= mi_of_counts H)%R.
Proof. exact mi_nonneg. Qed.
Print Assumptions c18_mi_nonneg.

(* ---- "symmetric for a data set against itself": MI of a table equals MI of its transpose (and the
        (b, a) table of a data set against itself is the transpose of its (a, b) table, above) *)
Theorem c18_mi_symmetric : forall H H', is_transpose H H' -> mi_of_counts H' = mi_of_counts H.
Proof. exact mi_transpose. Qed.
Print Assumptions c18_mi_symmetric.

(* ---- "equal to the Shannon entropy on the diagonal" *)
Theorem c18_mi_diagonal_is_entropy : forall H,
  rect2 H = true -> width2 H = length H ->
  (forall u v, (u < length H)%nat -> (v < length H)%nat -> u <> v -> get2 H u v = 0%nat) ->
  mi_of_counts H = entropy_R (row_dist H).
Proof. exact mi_diag_entropy. Qed.
Print Assumptions c18_mi_diagonal_is_entropy.

(* ---- "no larger than the smaller marginal entropy": both bounds *)
Theorem c18_mi_le_first_entropy : forall H, rect2 H = true -> (mi_of_counts H <= entropy_R (row_dist H))%R.
Proof. exact mi_le_row_entropy. Qed.
Print Assumptions c18_mi_le_first_entropy.

Theorem c18_mi_le_second_entropy : forall H H',
  is_transpose H H' -> (mi_of_counts H <= entropy_R (col_dist H))%R.
Proof. exact mi_le_col_entropy. Qed.
Print Assumptions c18_mi_le_second_entropy.

(* ---- "unchanged by relabelling states": permuting rows and columns of the table *)
Theorem c18_mi_relabel_invariant : forall s t H H', relabelled s t H H' -> mi_of_counts H' = mi_of_counts H.
Proof. exact mi_relabel_invariant. Qed.
Print Assumptions c18_mi_relabel_invariant.

(* ---- MI depends on the cells of the table only (so equal counts - reordered frames, pooled
        trajectories - give equal MI) *)
Theorem c18_mi_function_of_counts : forall H H',
  length H' = length H -> width2 H' = width2 H -> rect2 H = true -> rect2 H' = true ->
  (forall u v, (u < length H)%nat -> (v < width2 H)%nat -> get2 H' u v = get2 H u v) ->
  mi_of_counts H' = mi_of_counts H.
Proof. exact mi_table_ext. Qed.
Print Assumptions c18_mi_function_of_counts.

(* ---- "relative entropy is non-negative and zero exactly for equal distributions"
        (all real probability vectors; the code's +inf case is kl_infinite) *)
Theorem c18_kl_nonneg : forall P Qd base,
  length P = length Qd -> distribution P -> distribution Qd -> ~ kl_infinite P Qd -> (1 < base)%R ->
  (0 <= kl_R P Qd base)%R.
Proof. exact kl_nonneg. Qed.
Print Assumptions c18_kl_nonneg.

Theorem c18_kl_zero_iff_equal : forall P Qd base,
  length P = length Qd -> distribution P -> distribution Qd -> ~ kl_infinite P Qd -> (1 < base)%R ->
  (kl_R P Qd base = 0%R <-> P = Qd).
Proof. exact kl_zero_iff_equal. Qed.
Print Assumptions c18_kl_zero_iff_equal.

Theorem c18_kl_infinite_only_for_different : forall P Qd, kl_infinite P Qd -> P <> Qd.
Proof. exact kl_infinite_not_equal. Qed.
Print Assumptions c18_kl_infinite_only_for_different.

(* ---- Non-vacuity: concrete non-trivial inputs meet the hypotheses *)
Example c18_example_counts :
  joint_counts [[0; 1]; [1; 1]; [0; 0]]%Z (Some [[1]; [0]; [1]]%Z) None (Some 2%Z)
    = Some [[[[0; 2]; [1; 0]]]; [[[0; 1]; [1; 1]]]]%nat
  /\ joint_counts [[0]; [1]]%Z (Some [[0]; [-1]]%Z) (Some 2%Z) (Some 2%Z) = None
  /\ joint_counts [[0]; [2]]%Z (Some [[0]; [1]]%Z) (Some 2%Z) (Some 2%Z) = None
  /\ pooled_counts [([[0]; [1]], [[1]; [1]]); ([[1]], [[0]])]%Z 2 2 = Some [[[[0; 1]; [1; 1]]]]%nat
  /\ cc_grid 2 3 (inr [2; 8]%Z) (inr [4; 3; 5]%Z) = Some [[2; 2; 2]; [4; 3; 5]]%Z
  /\ rect2 [[1; 0; 2]; [0; 3; 0]]%nat = true
  /\ mi_cells [[1; 0]; [0; 1]]%nat = [(1 # 2, 1 # 2, 1 # 2); (1 # 2, 1 # 2, 1 # 2)].
Proof. vm_compute. repeat split; reflexivity. Qed.
Print Assumptions c18_example_counts.

Example c18_example_transpose_relabel :
  is_transpose [[1; 0; 2]; [0; 3; 0]]%nat [[1; 0]; [0; 3]; [2; 0]]%nat
  /\ relabelled (fun u => (1 - u)%nat) (fun v => v) [[1; 0; 2]; [0; 3; 0]]%nat [[0; 3; 0]; [1; 0; 2]]%nat.
Proof. exact example_transpose_relabel. Qed.
Print Assumptions c18_example_transpose_relabel.

(* ============================ round 2: the kernel's table itself, and end-to-end laws ============ *)

(* ---- the table the kernel returns for feature pair (a, b) is rectangular, n_a x n_b, under every
        order of the increments (the hypothesis of the table-level MI laws above) ... *)
Theorem c18_table_shape : forall sched X Y na nb jc a b,
  matrix_bincount2d_sched sched X Y na nb = Some jc -> (a < width X)%nat -> (b < width Y)%nat ->
  length (sub2 jc a b) = Z.to_nat na /\ width2 (sub2 jc a b) = Z.to_nat nb /\
  rect2 (sub2 jc a b) = true.
Proof. exact jc_table_shape. Qed.
Print Assumptions c18_table_shape.

(* ... its cell (u, v) is the exact count, in table coordinates ... *)
Theorem c18_table_cell : forall sched X Y na nb jc a b u v,
  schedule_ok sched -> matrix_bincount2d_sched sched X Y na nb = Some jc ->
  (a < width X)%nat -> (b < width Y)%nat -> (u < Z.to_nat na)%nat -> (v < Z.to_nat nb)%nat ->
  get2 (sub2 jc a b) u v = count_frames X Y a b (Z.of_nat u) (Z.of_nat v).
Proof. exact jc_table_cell. Qed.
Print Assumptions c18_table_cell.

(* ... its row sums / column sums / total (the n_obs_a_i, n_obs_b_i, n_obs of mutual_information) are
        the per-feature state counts and the number of frames: no frame is lost or counted twice *)
Theorem c18_table_row_marginal : forall sched X Y na nb jc a b u,
  schedule_ok sched -> matrix_bincount2d_sched sched X Y na nb = Some jc ->
  (a < width X)%nat -> (b < width Y)%nat -> (u < Z.to_nat na)%nat ->
  rowsum (sub2 jc a b) u = feature_count X a (Z.of_nat u).
Proof. exact jc_row_marginal. Qed.
Print Assumptions c18_table_row_marginal.

Theorem c18_table_col_marginal : forall sched X Y na nb jc a b v,
  schedule_ok sched -> matrix_bincount2d_sched sched X Y na nb = Some jc ->
  (a < width X)%nat -> (b < width Y)%nat -> (v < Z.to_nat nb)%nat ->
  colsum (sub2 jc a b) v = feature_count Y b (Z.of_nat v).
Proof. exact jc_col_marginal. Qed.
Print Assumptions c18_table_col_marginal.

Theorem c18_table_total_is_frame_count : forall sched X Y na nb jc a b,
  schedule_ok sched -> matrix_bincount2d_sched sched X Y na nb = Some jc ->
  (a < width X)%nat -> (b < width Y)%nat -> total (sub2 jc a b) = length X.
Proof. exact jc_table_total. Qed.
Print Assumptions c18_table_total_is_frame_count.

(* ---- pooled table of mi_matrix: same shape; the concatenated trajectories are an accepted input *)
Theorem c18_pooled_table_shape : forall X0 Y0 rest nx ny J a b,
  pooled_counts ((X0, Y0) :: rest) nx ny = Some J -> (a < width X0)%nat -> (b < width Y0)%nat ->
  length (sub2 J a b) = Z.to_nat nx /\ width2 (sub2 J a b) = Z.to_nat ny /\ rect2 (sub2 J a b) = true.
Proof. exact pooled_table_shape. Qed.
Print Assumptions c18_pooled_table_shape.

Theorem c18_pooled_table_cell : forall X0 Y0 rest nx ny J a b u v,
  pooled_counts ((X0, Y0) :: rest) nx ny = Some J -> (a < width X0)%nat -> (b < width Y0)%nat ->
  (u < Z.to_nat nx)%nat -> (v < Z.to_nat ny)%nat ->
  get2 (sub2 J a b) u v =
  count_frames (concat (map fst ((X0, Y0) :: rest))) (concat (map snd ((X0, Y0) :: rest))) a b
               (Z.of_nat u) (Z.of_nat v).
Proof. exact pooled_table_cell. Qed.
Print Assumptions c18_pooled_table_cell.

(* ======================= end-to-end laws over the reals (standard-library real-number axioms) === *)

(* ---- "symmetric for a data set against itself", on the data: MI(b, a) = MI(a, b) *)
Theorem c18_mi_self_symmetric_any_schedule : forall sched X n jc a b,
  schedule_ok sched -> matrix_bincount2d_sched sched X X n n = Some jc ->
  (a < width X)%nat -> (b < width X)%nat ->
  mutual_information jc b a = mutual_information jc a b.
Proof. exact mi_self_symmetric_sched. Qed.
Print Assumptions c18_mi_self_symmetric_any_schedule.

Theorem c18_mi_self_symmetric : forall X nx ny jc a b,
  joint_counts X None nx ny = Some jc -> (a < width X)%nat -> (b < width X)%nat ->
  mutual_information jc b a = mutual_information jc a b.
Proof. exact mi_self_symmetric. Qed.
Print Assumptions c18_mi_self_symmetric.

(* ---- "equal to the Shannon entropy on the diagonal", on the data: MI(a, a) is the entropy of the
        empirical distribution (state counts / frames) of feature a *)
Theorem c18_mi_self_diagonal_is_entropy : forall X nx ny n jc a,
  joint_counts X None nx ny = Some jc -> default_n nx X = Some n -> (a < width X)%nat ->
  mutual_information jc a a = entropy_R (empirical_dist X a n).
Proof. exact mi_self_diagonal_entropy. Qed.
Print Assumptions c18_mi_self_diagonal_is_entropy.

(* ---- "non-negative ... no larger than the smaller marginal entropy", on the data, any schedule *)
Theorem c18_mi_bounds_on_data : forall sched X Y na nb jc a b,
  schedule_ok sched -> matrix_bincount2d_sched sched X Y na nb = Some jc ->
  (a < width X)%nat -> (b < width Y)%nat ->
  (0 <= mutual_information jc a b)%R /\
  (mutual_information jc a b <= entropy_R (empirical_dist X a na))%R /\
  (mutual_information jc a b <= entropy_R (empirical_dist Y b nb))%R.
Proof. exact mi_data_bounds. Qed.
Print Assumptions c18_mi_bounds_on_data.

(* ---- "unchanged by ... reordering frames", on the data: the same reordering of both sides is
        accepted again and leaves every MI entry unchanged (whatever the two schedules) *)
Theorem c18_mi_frame_order_invariant : forall s1 s2 X Y X' Y' na nb jc,
  schedule_ok s1 -> schedule_ok s2 ->
  matrix_bincount2d_sched s1 X Y na nb = Some jc ->
  length X' = length Y' -> Permutation (combine X Y) (combine X' Y') ->
  exists jc', matrix_bincount2d_sched s2 X' Y' na nb = Some jc' /\
    forall a b, (a < width X)%nat -> (b < width Y)%nat ->
      mutual_information jc' a b = mutual_information jc a b.
Proof. exact mi_frame_order_invariant. Qed.
Print Assumptions c18_mi_frame_order_invariant.

(* ---- "unchanged by relabelling states", on the data: relabelling the states of either side by
        permutations of the declared ranges is accepted again and leaves every MI entry unchanged *)
Theorem c18_mi_relabel_invariant_on_data : forall sched X Y na nb jc (s t : Z -> Z),
  schedule_ok sched -> matrix_bincount2d_sched sched X Y na nb = Some jc ->
  relabel_ok s na -> relabel_ok t nb ->
  exists jc', matrix_bincount2d_sched sched (map (map s) X) (map (map t) Y) na nb = Some jc' /\
    forall a b, (a < width X)%nat -> (b < width Y)%nat ->
      mutual_information jc' a b = mutual_information jc a b.
Proof. exact mi_relabel_e2e. Qed.
Print Assumptions c18_mi_relabel_invariant_on_data.

(* ---- the same two laws for the public wrapper joint_counts with explicit state counts (two data
        sets, or one data set against itself with the same reordering / relabelling) *)
Theorem c18_mi_frame_order_invariant_joint_counts : forall X Y X' Y' na nb jc,
  joint_counts X (Some Y) (Some na) (Some nb) = Some jc ->
  length X' = length Y' -> Permutation (combine X Y) (combine X' Y') ->
  exists jc', joint_counts X' (Some Y') (Some na) (Some nb) = Some jc' /\
    forall a b, (a < width X)%nat -> (b < width Y)%nat ->
      mutual_information jc' a b = mutual_information jc a b.
Proof. exact mi_frame_order_invariant_two. Qed.
Print Assumptions c18_mi_frame_order_invariant_joint_counts.

Theorem c18_mi_frame_order_invariant_self : forall X X' n ny jc,
  joint_counts X None (Some n) ny = Some jc -> Permutation X X' ->
  exists jc', joint_counts X' None (Some n) ny = Some jc' /\
    forall a b, (a < width X)%nat -> (b < width X)%nat ->
      mutual_information jc' a b = mutual_information jc a b.
Proof. exact mi_frame_order_invariant_self. Qed.
Print Assumptions c18_mi_frame_order_invariant_self.

Theorem c18_mi_relabel_invariant_joint_counts : forall X Y na nb jc (s t : Z -> Z),
  joint_counts X (Some Y) (Some na) (Some nb) = Some jc -> relabel_ok s na -> relabel_ok t nb ->
  exists jc', joint_counts (map (map s) X) (Some (map (map t) Y)) (Some na) (Some nb) = Some jc' /\
    forall a b, (a < width X)%nat -> (b < width Y)%nat ->
      mutual_information jc' a b = mutual_information jc a b.
Proof. exact mi_relabel_invariant_two. Qed.
Print Assumptions c18_mi_relabel_invariant_joint_counts.

Theorem c18_mi_relabel_invariant_self : forall X n ny jc (s : Z -> Z),
  joint_counts X None (Some n) ny = Some jc -> relabel_ok s n ->
  exists jc', joint_counts (map (map s) X) None (Some n) ny = Some jc' /\
    forall a b, (a < width X)%nat -> (b < width X)%nat ->
      mutual_information jc' a b = mutual_information jc a b.
Proof. exact mi_relabel_invariant_self. Qed.
Print Assumptions c18_mi_relabel_invariant_self.

(* ---- "computed from pooled counts when several trajectories are given": MI of the pooled table =
        MI of the (accepted) concatenation of the trajectories *)
Theorem c18_mi_pooled_is_mi_of_concatenation : forall X0 Y0 rest nx ny J,
  pooled_counts ((X0, Y0) :: rest) nx ny = Some J ->
  exists Jc,
    matrix_bincount2d (concat (map fst ((X0, Y0) :: rest))) (concat (map snd ((X0, Y0) :: rest))) nx ny
      = Some Jc /\
    forall a b, (a < width X0)%nat -> (b < width Y0)%nat ->
      mutual_information J a b = mutual_information Jc a b.
Proof. exact mi_pooled_concat. Qed.
Print Assumptions c18_mi_pooled_is_mi_of_concatenation.

(* ---- "equal to the weighted estimator under uniform weights": the guards of the two estimators
        select the same cells, and the clipped value weighted_mi returns for weights 1/T is the value
        mutual_information returns on the joint counts of the same data *)
Theorem c18_weighted_cell_is_plain_cell : forall pj px py, wmi_cellq pj px py = mi_cellq pj px py.
Proof. exact wmi_cellq_eq. Qed.
Print Assumptions c18_weighted_cell_is_plain_cell.

Theorem c18_weighted_uniform_equals_plain : forall X n ny jc a b,
  joint_counts X None (Some n) ny = Some jc -> (a < width X)%nat -> (b < width X)%nat ->
  weighted_mi_R X (repeat (1 # Pos.of_nat (length X)) (length X)) n a b = mutual_information jc a b.
Proof. exact weighted_uniform_mi. Qed.
Print Assumptions c18_weighted_uniform_equals_plain.

Theorem c18_weighted_uniform_equals_plain_any_schedule : forall sched X n jc a b,
  schedule_ok sched -> matrix_bincount2d_sched sched X X n n = Some jc ->
  (a < width X)%nat -> (b < width X)%nat ->
  weighted_mi_R X (repeat (1 # Pos.of_nat (length X)) (length X)) n a b = mutual_information jc a b.
Proof. exact weighted_uniform_mi_sched. Qed.
Print Assumptions c18_weighted_uniform_equals_plain_any_schedule.

(* ---- Non-vacuity of the round-2 hypotheses *)
Example c18_example_e2e :
  joint_counts [[0; 1]; [1; 1]; [0; 0]]%Z None None None
    = Some [[[[2; 0]; [0; 1]]; [[1; 1]; [0; 1]]]; [[[1; 0]; [1; 1]]; [[1; 0]; [0; 2]]]]%nat
  /\ default_n None [[0; 1]; [1; 1]; [0; 0]]%Z = Some 2%Z
  /\ width [[0; 1]; [1; 1]; [0; 0]]%Z = 2%nat
  /\ map (feature_count [[0; 1]; [1; 1]; [0; 0]]%Z 1) (zrange 2) = [1; 2]%nat
  /\ Permutation (combine [[0; 1]; [1; 1]]%Z [[1]; [0]]%Z) (combine [[1; 1]; [0; 1]]%Z [[0]; [1]]%Z).
Proof.
  split; [vm_compute; reflexivity|]. split; [vm_compute; reflexivity|]. split; [vm_compute; reflexivity|].
  split; [vm_compute; reflexivity|]. apply perm_swap.
Qed.
Print Assumptions c18_example_e2e.

Example c18_example_relabel :
  relabel_ok (fun u => if (0 <=? u)%Z && (u <? 2)%Z then (1 - u)%Z else u) 2.
Proof. exact example_relabel_ok. Qed.
Print Assumptions c18_example_relabel.

(* ============================ round 2: tie to the source text of libinfo.pyx ======================
   Gen/InfoGen.v is regenerated on every run by translator/tr_info.py from
   enspara/info_theory/libinfo.pyx:matrix_bincount2d (assert statements, allocation, loop nest, index
   expression of the increment).  The theorems below say that this text is the hand-written model
   the count theorems are about; they stop compiling when the source changes meaning. *)

(* ---- the assert chain (`a.shape[0] == b.shape[0]`, `a.max() < n_a`, `a.min() >= 0`, ...) accepts
        exactly what the model's guard accepts *)
Theorem c18_generated_validation_is_model : forall X Y na nb,
  rect X = true -> rect Y = true -> (Z.of_nat (width X) < 2 ^ 32)%Z ->
  gen_validate X Y na nb = (length X =? length Y)%nat && valid_side X na && valid_side Y nb.
Proof. exact gen_validate_is_model. Qed.
Print Assumptions c18_generated_validation_is_model.

(* ---- allocation np.zeros((a.shape[1], b.shape[1], n_a, n_b)), loop order and the written cell
        jc[a_row, b_row, a[t, a_row], b[t, b_row]] are those of the model's sequential run *)
Theorem c18_generated_kernel_is_model : forall X Y na nb,
  gen_kernel X Y na nb =
  run X Y (serial_events (width X) (width Y) (length X))
      (zeros4 (width X) (width Y) (Z.to_nat na) (Z.to_nat nb)).
Proof. exact gen_kernel_is_model. Qed.
Print Assumptions c18_generated_kernel_is_model.

Theorem c18_generated_function_is_model : forall X Y na nb,
  rect X = true -> rect Y = true -> (Z.of_nat (width X) < 2 ^ 32)%Z ->
  gen_matrix_bincount2d X Y na nb = matrix_bincount2d X Y na nb.
Proof. exact gen_matrix_bincount2d_is_model. Qed.
Print Assumptions c18_generated_function_is_model.

(* ---- the prange variable is the leading index of the written cell (each iteration owns
        jc[a_row, ...]; see c18_parallel_iterations_disjoint) *)
Theorem c18_generated_parallel_axis_is_leading : gen_parallel_axis = Some 0%nat.
Proof. exact gen_parallel_axis_is_leading. Qed.
Print Assumptions c18_generated_parallel_axis_is_leading.

Example c18_example_generated :
  gen_matrix_bincount2d [[0; 1]; [1; 1]; [0; 0]]%Z [[1]; [0]; [1]]%Z 2 2
    = Some [[[[0; 2]; [1; 0]]]; [[[0; 1]; [1; 1]]]]%nat
  /\ gen_matrix_bincount2d [[0]; [1]]%Z [[0]; [-1]]%Z 2 2 = None
  /\ gen_matrix_bincount2d [[0]; [2]]%Z [[0]; [1]]%Z 2 2 = None
  /\ gen_matrix_bincount2d [[0]; [1]]%Z [[0]]%Z 2 2 = None
  /\ gen_matrix_bincount2d []%Z [] 2 2 = None.
Proof. vm_compute. repeat split; reflexivity. Qed.
Print Assumptions c18_example_generated.

(* ============================ round 3: tie to the source text of the Python layer ===================
   Gen/MutualInfoGen.v and Gen/EntropyGen.v are regenerated on every run by translator/tr_infopy.py from
   enspara/info_theory/mutual_info.py (joint_counts, mutual_information, _validate_feature_states_array,
   channel_capacity_normalization, mi_matrix) and entropy.py (shannon_entropy, kl_divergence): which axes
   are summed, the operands / broadcast / `where=` mask / `out=` initial value of every masked ufunc, the
   accumulation loop and its skipped cells, dtype harmonisation and default state counts, the np.fmin of
   the np.meshgrid grids, the pooling loop, the nan repair of P * log(P / Q).  The theorems below say
   that this text is the hand-written model the theorems above are about, for all inputs; they stop
   compiling when the source changes meaning. *)

(* ---- joint_counts: 1-D expansion, default state counts int(X.max())+1 (a Python int, no wrap-around
        in the array's type), the Y=None branch, np.promote_types with the int64 escape for
        (u)int64-with-signed and astype on both arrays (value preserving), the kernel call with equal
        element types: exactly the model's joint_counts on the values *)
Theorem c18_generated_joint_counts_is_model : forall X Y n_x n_y,
  in_range X -> (forall Y', Y = Some Y' -> in_range Y') ->
  gen_joint_counts X Y n_x n_y = joint_counts (vals X) (option_map vals Y) n_x n_y.
Proof. exact gen_joint_counts_is_model. Qed.
Print Assumptions c18_generated_joint_counts_is_model.

(* the common element type holds every value of both arrays (values that fit int64) *)
Theorem c18_generated_common_type_holds_both : forall a b, kind_of a <> KF -> kind_of b <> KF ->
  let c := promote_types a b in
  let c' := if kind_eqb (kind_of c) KF then I64 else c in
  kind_of c' <> KF /\ (dmin c' <= dmin a /\ dmin c' <= dmin b)%Z /\
  (Z.min (dmax a) (2^63 - 1) <= dmax c' /\ Z.min (dmax b) (2^63 - 1) <= dmax c')%Z.
Proof. exact promote_holds. Qed.
Print Assumptions c18_generated_common_type_holds_both.

(* ---- mi_matrix: the pooling loop (first table kept, later ones shape-tested and added) is the
        model's pooled_counts with state counts np.max(n_x), np.max(n_y) *)
Theorem c18_generated_pooling_is_model : forall Xs Ys n_x n_y nx ny,
  np_max_s n_x = Some nx -> np_max_s n_y = Some ny ->
  Forall in_range Xs -> Forall in_range Ys ->
  gen_mi_matrix_counts Xs Ys n_x n_y = pooled_counts (combine (map vals Xs) (map vals Ys)) nx ny.
Proof. exact gen_mi_matrix_counts_is_model. Qed.
Print Assumptions c18_generated_pooling_is_model.

(* ---- _validate_feature_states_array / channel_capacity_normalization: the rejections and the
        divisor grid np.fmin of the two np.meshgrid(n_x, n_y, indexing=ij) grids, exactly (Z) *)
Theorem c18_generated_states_array_is_model : forall n dim,
  gen_validate_feature_states_array n dim = states_array n dim.
Proof. exact gen_validate_feature_states_array_is_model. Qed.
Print Assumptions c18_generated_states_array_is_model.

Theorem c18_generated_cc_grid_is_model : forall rows cols n_x n_y,
  gen_cc_min_num_states rows cols n_x n_y = cc_grid rows cols n_x n_y.
Proof. exact gen_cc_min_num_states_is_model. Qed.
Print Assumptions c18_generated_cc_grid_is_model.

(* ======================= generated text = model, over the reals ================================= *)

(* ---- mutual_information: marginals by summing the last / second-to-last axis, guarded divisions
        (mask n_obs > 0, masked cells 0), the 4-deep loop adding P_xy log(P_xy / (P_x P_y)) into
        mi[i, j] for the cells where none of the three probabilities is 0: on every regular 4-D table
        the result is the model's mi_of_counts of every feature pair *)
Theorem c18_generated_mutual_information_is_model : forall jc,
  regular4 jc -> gen_mutual_information jc = map (map mi_of_counts) jc.
Proof. exact gen_mutual_information_is_model. Qed.
Print Assumptions c18_generated_mutual_information_is_model.

Theorem c18_generated_mutual_information_entry : forall jc a b,
  regular4 jc -> (a < length jc)%nat -> (b < dim1 jc)%nat ->
  nth b (nth a (gen_mutual_information jc) []) 0%R = mutual_information jc a b.
Proof. exact gen_mutual_information_entry. Qed.
Print Assumptions c18_generated_mutual_information_entry.

(* ... and the tables joint_counts returns are regular, so the law theorems above apply to
        mutual_information(joint_counts(X, Y, n_x, n_y)) as the source text computes it *)
Theorem c18_generated_mi_of_joint_counts : forall X Y n_x n_y jc,
  in_range X -> (forall Y', Y = Some Y' -> in_range Y') ->
  gen_joint_counts X Y n_x n_y = Some jc ->
  gen_mutual_information jc = map (map mi_of_counts) jc.
Proof. exact gen_mutual_information_of_joint_counts. Qed.
Print Assumptions c18_generated_mi_of_joint_counts.

(* ---- channel_capacity_normalization: accepted exactly when the model's grid exists; entry (i, j)
        is mi[i, j] / ln(grid[i, j]) *)
Theorem c18_generated_cc_normalization_is_model : forall mi n_x n_y,
  regular2 mi ->
  match gen_channel_capacity_normalization mi n_x n_y, cc_grid (length mi) (dim1 mi) n_x n_y with
  | Some out, Some G =>
      length out = length mi /\
      forall i j, (i < length mi)%nat -> (j < dim1 mi)%nat ->
        length (nth i out []) = dim1 mi /\
        nth j (nth i out []) 0%R = cc_norm (fun i j => nth j (nth i mi []) 0%R) G i j
  | None, None => True
  | _, _ => False
  end.
Proof. exact gen_channel_capacity_normalization_is_model. Qed.
Print Assumptions c18_generated_cc_normalization_is_model.

(* ---- mi_matrix end to end: pooled counts -> mutual_information -> optional normalisation *)
Theorem c18_generated_mi_matrix_is_model : forall Xs Ys n_x n_y nx ny normalize,
  np_max_s n_x = Some nx -> np_max_s n_y = Some ny ->
  Forall in_range Xs -> Forall in_range Ys ->
  gen_mi_matrix Xs Ys n_x n_y normalize =
  match pooled_counts (combine (map vals Xs) (map vals Ys)) nx ny with
  | None => None
  | Some J =>
      let mi := map (map mi_of_counts) J in
      if normalize then gen_channel_capacity_normalization mi n_x n_y else Some mi
  end.
Proof. exact gen_mi_matrix_is_model. Qed.
Print Assumptions c18_generated_mi_matrix_is_model.

(* ---- shannon_entropy: log masked by p > 0 into zeros (0 log 0 = 0), minus the sum of p log p;
        optional normalisation by the sum *)
Theorem c18_generated_shannon_entropy_is_model : forall p, gen_shannon_entropy p false = entropy_R p.
Proof. exact gen_shannon_entropy_is_model. Qed.
Print Assumptions c18_generated_shannon_entropy_is_model.

Theorem c18_generated_shannon_entropy_normalized : forall p,
  gen_shannon_entropy p true = entropy_R (map (fun x => (x / Rsum p)%R) p).
Proof. exact gen_shannon_entropy_normalized. Qed.
Print Assumptions c18_generated_shannon_entropy_normalized.

(* ---- kl_divergence (1-D arguments), computed as the source does in IEEE arithmetic with nan and
        inf as values: rejected exactly on a length mismatch or a negative entry; the nan repair is the
        0 log 0 = 0 convention; +inf exactly in the model's infinite case; otherwise kl_R *)
Theorem c18_generated_kl_rejects : forall P Qd base,
  gen_kl_divergence P Qd base = None <->
  (length P <> length Qd \/ exists x, In x (P ++ Qd) /\ (x < 0)%R).
Proof. exact gen_kl_divergence_rejects. Qed.
Print Assumptions c18_generated_kl_rejects.

Theorem c18_generated_kl_cell : forall p q, (0 <= p)%R -> (0 <= q)%R ->
  (let c := x_mul (XFin p) (x_log (x_div (XFin p) (XFin q))) in if x_isnan c then XFin 0 else c) =
  if Req_EM_T p 0 then XFin 0 else if Req_EM_T q 0 then XPInf else XFin (p * ln (p / q)).
Proof. exact kl_cell_value. Qed.
Print Assumptions c18_generated_kl_cell.

Theorem c18_generated_kl_finite_is_model : forall P Qd base d,
  (1 < base)%R -> gen_kl_divergence P Qd base = Some d -> ~ kl_infinite P Qd ->
  d = XFin (kl_R P Qd base).
Proof. exact gen_kl_divergence_finite. Qed.
Print Assumptions c18_generated_kl_finite_is_model.

Theorem c18_generated_kl_infinite_is_model : forall P Qd base d,
  (1 < base)%R -> gen_kl_divergence P Qd base = Some d -> kl_infinite P Qd -> d = XPInf.
Proof. exact gen_kl_divergence_infinite. Qed.
Print Assumptions c18_generated_kl_infinite_is_model.

(* the three outcomes agree with the exact rational side the correspondence compares *)
Theorem c18_generated_kl_agrees_with_cells : forall (P Qd : list Q) base, (1 < base)%R ->
  match kl_cells P Qd, gen_kl_divergence (map Q2R P) (map Q2R Qd) base with
  | Err, None => True | Inf, Some XPInf => True | Fin _, Some (XFin _) => True | _, _ => False end.
Proof. exact gen_kl_divergence_cells. Qed.
Print Assumptions c18_generated_kl_agrees_with_cells.

(* ---- kl_divergence on 2-D arguments (axis_sum = 1): one divergence per row, each the 1-D value *)
Theorem c18_generated_kl_2d_rows : forall P Qd base ds,
  regularR P -> regularR Qd -> gen_kl_divergence_2d P Qd base = Some ds ->
  length P = length Qd /\ length ds = length P /\
  Forall2 (fun d pq => gen_kl_divergence (fst pq) (snd pq) base = Some d) ds (combine P Qd).
Proof. exact gen_kl_divergence_2d_rows. Qed.
Print Assumptions c18_generated_kl_2d_rows.

Theorem c18_generated_kl_2d_rejects : forall P Qd base,
  gen_kl_divergence_2d P Qd base = None <->
  (length P <> length Qd \/ dim1 P <> dim1 Qd \/
   exists x, In x (concat P ++ concat Qd) /\ (x < 0)%R).
Proof. exact gen_kl_divergence_2d_rejects. Qed.
Print Assumptions c18_generated_kl_2d_rejects.

(* ---- weighted_mi: weighted bincounts, one-hot layers, matmul((onehot_u * w[:, None]).T, onehot_v),
        meshgrid products of the marginals, divide where the product is non-zero into zeros, log where
        the ratio is non-zero in place, multiply, sum over the state pairs, clip at 0: entry (a, b) is
        the model's weighted_mi_R (hence, for weights 1/T, mutual_information of the joint counts:
        c18_weighted_uniform_equals_plain) *)
Theorem c18_generated_weighted_mi_core_is_model : forall X w n a b,
  rect_features X -> length w = length X -> (a < dim1 X)%nat -> (b < dim1 X)%nat ->
  Rmax 0 (nth b (nth a (gen_weighted_mi_core X w n) []) 0%R) = weighted_mi_R X w n a b.
Proof. exact gen_weighted_mi_core_is_model. Qed.
Print Assumptions c18_generated_weighted_mi_core_is_model.

Theorem c18_generated_weighted_mi_is_model : forall X w nfs n out a b,
  rect_features X -> zmax_list nfs = Some n -> Qeq_bool (qsum w) 1 = true ->
  gen_weighted_mi X w (Some nfs) false = Some out ->
  (a < dim1 X)%nat -> (b < dim1 X)%nat ->
  nth b (nth a out []) 0%R = weighted_mi_R X w n a b.
Proof. exact gen_weighted_mi_is_model. Qed.
Print Assumptions c18_generated_weighted_mi_is_model.

(* the default state counts np.full(F, features.max() + 1, dtype='int16') are max+1 while that fits
   16 bits; negative weights, zero total weight and a wrong number of weights are rejected *)
Theorem c18_generated_weighted_mi_defaults : forall X w m normalize,
  zmax_list (concat X) = Some m -> (-32768 <= m + 1 <= 32767)%Z ->
  gen_weighted_mi X w None normalize = gen_weighted_mi X w (Some (np_full (dim1 X) (m + 1)%Z)) normalize.
Proof. exact gen_weighted_mi_default_counts. Qed.
Print Assumptions c18_generated_weighted_mi_defaults.

Theorem c18_generated_weighted_mi_accepts : forall X w nfs normalize out,
  gen_weighted_mi X w nfs normalize = Some out ->
  Forall (fun x => 0 <= x)%Q w /\ ~ (qsum w == 0)%Q /\ length w = length X.
Proof. exact gen_weighted_mi_accepts. Qed.
Print Assumptions c18_generated_weighted_mi_accepts.

(* ======================= the laws, stated on the regenerated text itself ==========================
   gen_mi_entry jc a b is entry (a, b) of what the regenerated mutual_information returns; the tables
   come from the regenerated joint_counts, the entropies from the regenerated shannon_entropy *)

(* ---- "non-negative ... no larger than the smaller marginal entropy" *)
Theorem c18_generated_mi_bounds_on_data : forall X Y na nb jc a b,
  in_range X -> in_range Y ->
  gen_joint_counts X (Some Y) (Some na) (Some nb) = Some jc ->
  (a < width (vals X))%nat -> (b < width (vals Y))%nat ->
  (0 <= gen_mi_entry jc a b)%R /\
  (gen_mi_entry jc a b <= gen_shannon_entropy (empirical_dist (vals X) a na) false)%R /\
  (gen_mi_entry jc a b <= gen_shannon_entropy (empirical_dist (vals Y) b nb) false)%R.
Proof. exact gen_mi_bounds_on_data. Qed.
Print Assumptions c18_generated_mi_bounds_on_data.

(* ---- "symmetric for a data set against itself, equal to the Shannon entropy on the diagonal" *)
Theorem c18_generated_mi_self_symmetric : forall X nx ny jc a b,
  in_range X -> gen_joint_counts X None nx ny = Some jc ->
  (a < width (vals X))%nat -> (b < width (vals X))%nat ->
  gen_mi_entry jc b a = gen_mi_entry jc a b.
Proof. exact gen_mi_self_symmetric. Qed.
Print Assumptions c18_generated_mi_self_symmetric.

Theorem c18_generated_mi_self_diagonal_is_entropy : forall X nx ny n jc a,
  in_range X -> gen_joint_counts X None nx ny = Some jc -> default_n nx (vals X) = Some n ->
  (a < width (vals X))%nat ->
  gen_mi_entry jc a a = gen_shannon_entropy (empirical_dist (vals X) a n) false.
Proof. exact gen_mi_self_diagonal_is_entropy. Qed.
Print Assumptions c18_generated_mi_self_diagonal_is_entropy.

(* ---- "relative entropy is non-negative and zero exactly for equal distributions": the IEEE value
        kl_divergence returns is +inf (distributions differ) or a finite r >= 0 with r = 0 <-> P = Q *)
Theorem c18_generated_kl_nonneg_zero_iff_equal : forall P Qd base d,
  length P = length Qd -> distribution P -> distribution Qd -> (1 < base)%R ->
  gen_kl_divergence P Qd base = Some d ->
  (d = XPInf /\ P <> Qd) \/ (exists r, d = XFin r /\ (0 <= r)%R /\ (r = 0%R <-> P = Qd)).
Proof. exact gen_kl_nonneg_zero_iff_equal. Qed.
Print Assumptions c18_generated_kl_nonneg_zero_iff_equal.

(* ---- "equal to the weighted estimator under uniform weights" *)
Theorem c18_generated_weighted_uniform_equals_plain : forall X nfs n ny jc out a b,
  in_range X -> rect_features (vals X) -> (0 < length (vals X))%nat ->
  zmax_list nfs = Some n ->
  gen_weighted_mi (vals X) (repeat (1 # Pos.of_nat (length (vals X))) (length (vals X))) (Some nfs) false = Some out ->
  gen_joint_counts X None (Some n) ny = Some jc ->
  (a < dim1 (vals X))%nat -> (b < dim1 (vals X))%nat ->
  nth b (nth a out []) 0%R = gen_mi_entry jc a b.
Proof. exact gen_weighted_uniform_equals_plain. Qed.
Print Assumptions c18_generated_weighted_uniform_equals_plain.

(* ---- Non-vacuity: mixed element types (uint8 ids up to 255 against int8), a 1-D second side,
        default state counts; a rejected state-count vector; the grid *)
Example c18_example_generated_python :
  gen_joint_counts {| dt := U8; is1d := false; vals := [[255]; [0]; [255]]%Z |}
                   (Some {| dt := I8; is1d := true; vals := [[1]; [0]; [1]]%Z |}) None None
    = joint_counts [[255]; [0]; [255]]%Z (Some [[1]; [0]; [1]]%Z) None None
  /\ in_range {| dt := U8; is1d := false; vals := [[255]; [0]; [255]]%Z |}
  /\ promote_types U8 I8 = I16 /\ promote_types U64 I8 = F64
  /\ gen_cc_min_num_states 2 3 (inr [2; 8]%Z) (inr [4; 3; 5]%Z) = Some [[2; 2; 2]; [4; 3; 5]]%Z
  /\ gen_cc_min_num_states 2 3 (inl 1%Z) (inr [4; 3; 5]%Z) = None
  /\ regular4 [[[[1; 0]; [0; 1]]; [[2; 0]; [0; 0]]]]%nat.
Proof. exact example_generated_python. Qed.
Print Assumptions c18_example_generated_python.
