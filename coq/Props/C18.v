(* C18 — joint counts are exact and mutual information obeys its algebraic laws.
   Property theorems only; proofs live in Proof/JointCountsProofs.v and Proof/InfoProofs.v.
   Exact-count theorems are over nat/Z/Q (closed under the global context); the information-theoretic
   laws are over Coq's Reals and therefore rest on the standard library's real-number axioms
   (printed below by Print Assumptions). *)
From Coq Require Import List ZArith QArith Qreals Bool Arith Reals Permutation.
From EV Require Import JointCounts Info JointCountsProofs InfoProofs.
Import ListNotations.

(* ---- "Joint-count tables hold, for every feature pair and state pair, the exact number of frames
        ... for every ... thread count": whatever order the elementary increments of the triple loop
        are executed in (any permutation of the sequential order = any OpenMP schedule), cell
        (a, b, i, j) ends up holding #{t | X[t,a] = i /\ Y[t,b] = j}.  Feature counts and state counts
        of the two sides are independent. *)
Theorem c18_counts_exact_any_schedule : forall sched X Y na nb jc a b i j,
  schedule_ok sched ->
  matrix_bincount2d_sched sched X Y na nb = Some jc ->
  (a < width X)%nat -> (b < width Y)%nat -> (0 <= i < na)%Z -> (0 <= j < nb)%Z ->
  get4 jc a b (Z.to_nat i) (Z.to_nat j) = count_frames X Y a b i j.
Proof. exact jc_exact_sched. Qed.
Print Assumptions c18_counts_exact_any_schedule.

(* the sequential order is one such schedule *)
Theorem c18_counts_exact : forall X Y na nb jc a b i j,
  matrix_bincount2d X Y na nb = Some jc ->
  (a < width X)%nat -> (b < width Y)%nat -> (0 <= i < na)%Z -> (0 <= j < nb)%Z ->
  get4 jc a b (Z.to_nat i) (Z.to_nat j) = count_frames X Y a b i j.
Proof. exact jc_exact. Qed.
Print Assumptions c18_counts_exact.

(* acceptance and every cell value are the same under any two schedules *)
Theorem c18_schedule_independent : forall s1 s2 X Y na nb jc1,
  schedule_ok s1 -> schedule_ok s2 ->
  matrix_bincount2d_sched s1 X Y na nb = Some jc1 ->
  exists jc2, matrix_bincount2d_sched s2 X Y na nb = Some jc2 /\
    forall a b i j, (a < width X)%nat -> (b < width Y)%nat -> (0 <= i < na)%Z -> (0 <= j < nb)%Z ->
      get4 jc2 a b (Z.to_nat i) (Z.to_nat j) = get4 jc1 a b (Z.to_nat i) (Z.to_nat j).
Proof. exact jc_schedule_independent. Qed.
Print Assumptions c18_schedule_independent.

(* iterations of the parallel loop (different a_row) never write the same cell: no data race *)
Theorem c18_parallel_iterations_disjoint : forall X Y a1 b1 t1 a2 b2 t2 a b i j,
  a1 <> a2 -> hits X Y a b i j (a1, b1, t1) && hits X Y a b i j (a2, b2, t2) = false.
Proof. exact jc_iterations_disjoint. Qed.
Print Assumptions c18_parallel_iterations_disjoint.

(* joint_counts: explicit or default (max+1) state counts, two data sets or one against itself *)
Theorem c18_joint_counts_exact : forall X Y nx ny n_x n_y jc a b i j,
  joint_counts X (Some Y) nx ny = Some jc ->
  default_n nx X = Some n_x -> default_n ny Y = Some n_y ->
  (a < width X)%nat -> (b < width Y)%nat -> (0 <= i < n_x)%Z -> (0 <= j < n_y)%Z ->
  get4 jc a b (Z.to_nat i) (Z.to_nat j) = count_frames X Y a b i j.
Proof. exact joint_counts_exact. Qed.
Print Assumptions c18_joint_counts_exact.

Theorem c18_joint_counts_self_exact : forall X nx ny n_x jc a b i j,
  joint_counts X None nx ny = Some jc -> default_n nx X = Some n_x ->
  (a < width X)%nat -> (b < width X)%nat -> (0 <= i < n_x)%Z -> (0 <= j < n_x)%Z ->
  get4 jc a b (Z.to_nat i) (Z.to_nat j) = count_frames X X a b i j.
Proof. exact joint_counts_self_exact. Qed.
Print Assumptions c18_joint_counts_self_exact.

Theorem c18_default_state_count_covers_all_ids : forall X n,
  default_n None X = Some n -> forall v, In v (concat X) -> (v < n)%Z.
Proof. exact default_n_covers. Qed.
Print Assumptions c18_default_state_count_covers_all_ids.

(* ---- "State ids outside the declared range (negative or too large) and feature arrays of different
        lengths are rejected instead of being counted in another cell or written out of bounds" *)
Theorem c18_invalid_input_rejected : forall sched X Y na nb,
  (length X <> length Y
   \/ (exists v, In v (concat X) /\ (v < 0 \/ na <= v)%Z)
   \/ (exists v, In v (concat Y) /\ (v < 0 \/ nb <= v)%Z)) ->
  matrix_bincount2d_sched sched X Y na nb = None.
Proof. exact jc_rejects. Qed.
Print Assumptions c18_invalid_input_rejected.

(* ... and nothing else is rejected (non-empty rectangular arrays) *)
Theorem c18_accepted_iff_valid : forall sched X Y na nb,
  (exists jc, matrix_bincount2d_sched sched X Y na nb = Some jc) <->
  length X = length Y /\
  (rect X = true /\ concat X <> [] /\ forall v, In v (concat X) -> (0 <= v < na)%Z) /\
  (rect Y = true /\ concat Y <> [] /\ forall v, In v (concat Y) -> (0 <= v < nb)%Z).
Proof. exact jc_accepts_iff. Qed.
Print Assumptions c18_accepted_iff_valid.

(* ---- "unchanged by ... reordering frames": the counts (hence everything computed from them) *)
Theorem c18_counts_frame_order_invariant : forall X Y X' Y' a b i j,
  length X = length Y -> length X' = length Y' ->
  Permutation (combine X Y) (combine X' Y') ->
  count_frames X Y a b i j = count_frames X' Y' a b i j.
Proof. exact jc_perm. Qed.
Print Assumptions c18_counts_frame_order_invariant.

(* ---- "unchanged by relabelling states": an injective relabelling permutes the table ... *)
Theorem c18_counts_relabel_first_side : forall (s : Z -> Z) X Y a b i j,
  (forall u v, s u = s v -> u = v) -> rect X = true -> (a < width X)%nat ->
  count_frames (map (map s) X) Y a b (s i) j = count_frames X Y a b i j.
Proof. exact jc_relabel_x. Qed.
Print Assumptions c18_counts_relabel_first_side.

Theorem c18_counts_relabel_second_side : forall (s : Z -> Z) X Y a b i j,
  (forall u v, s u = s v -> u = v) -> rect Y = true -> (b < width Y)%nat -> length X = length Y ->
  count_frames X (map (map s) Y) a b i (s j) = count_frames X Y a b i j.
Proof. exact jc_relabel_y. Qed.
Print Assumptions c18_counts_relabel_second_side.

(* ---- "computed from pooled counts when several trajectories are given": the table mi_matrix hands
        to mutual_information is the cell-wise sum of exact per-trajectory counts = the count over
        the concatenated trajectories; trajectories with other feature counts are rejected *)
Theorem c18_pooled_counts : forall X0 Y0 rest nx ny J a b i j,
  pooled_counts ((X0, Y0) :: rest) nx ny = Some J ->
  (a < width X0)%nat -> (b < width Y0)%nat -> (0 <= i < nx)%Z -> (0 <= j < ny)%Z ->
  get4 J a b (Z.to_nat i) (Z.to_nat j) = pooled_spec ((X0, Y0) :: rest) a b i j.
Proof. exact jc_pooled. Qed.
Print Assumptions c18_pooled_counts.

Theorem c18_pooled_is_count_over_concatenation : forall XYs a b i j,
  Forall (fun XY => length (fst XY) = length (snd XY)) XYs ->
  pooled_spec XYs a b i j = count_frames (concat (map fst XYs)) (concat (map snd XYs)) a b i j.
Proof. exact pooled_spec_concat. Qed.
Print Assumptions c18_pooled_is_count_over_concatenation.

Theorem c18_pooled_rejects_other_feature_counts : forall X0 Y0 X Y pre post nx ny,
  width X <> width X0 \/ width Y <> width Y0 ->
  pooled_counts ((X0, Y0) :: pre ++ (X, Y) :: post) nx ny = None.
Proof. exact pooled_rejects_shape. Qed.
Print Assumptions c18_pooled_rejects_other_feature_counts.

(* ---- a data set against itself: table (b, a) is the transpose of table (a, b); table (a, a) is
        diagonal (inputs of the symmetry and diagonal laws below) *)
Theorem c18_self_counts_symmetric : forall X a b i j, count_frames X X b a j i = count_frames X X a b i j.
Proof. exact jc_self_symmetric. Qed.
Print Assumptions c18_self_counts_symmetric.

Theorem c18_self_counts_diagonal : forall X a i j, i <> j -> count_frames X X a a i j = 0%nat.
Proof. exact jc_self_diagonal. Qed.
Print Assumptions c18_self_counts_diagonal.

(* ---- "channel-capacity normalisation divides entry (i, j) by the log of the smaller of the two
        features' state counts": the divisor grid, exactly (Z) ... *)
Theorem c18_cc_grid_entry : forall rows cols n_x n_y G,
  cc_grid rows cols n_x n_y = Some G ->
  exists nx ny, states_array n_x rows = Some nx /\ states_array n_y cols = Some ny /\
    length nx = rows /\ length ny = cols /\ length G = rows /\
    forall i j, (i < rows)%nat -> (j < cols)%nat ->
      length (nth i G []) = cols /\
      nth j (nth i G []) 0%Z = Z.min (nth i nx 0%Z) (nth j ny 0%Z) /\
      (2 <= nth j (nth i G []) 0)%Z.
Proof. exact cc_grid_entry. Qed.
Print Assumptions c18_cc_grid_entry.

(* ---- "equal to the weighted estimator under uniform weights": with weights 1/T the weighted joint
        and marginal probability tables are exactly counts/T, the tables of the unweighted estimator *)
Theorem c18_weighted_uniform_tables : forall X a b u v,
  (0 < length X)%nat ->
  let w := repeat (1 # Pos.of_nat (length X)) (length X) in
  wjoint X w a b u v == qdiv (count_frames X X a b u v) (length X) /\
  wmarg X w a u == qdiv (cnt (fun x => (nth a x 0 =? u)%Z) X) (length X).
Proof. exact weighted_uniform_eq. Qed.
Print Assumptions c18_weighted_uniform_tables.

(* ======================= laws over the reals (standard-library real-number axioms) ============== *)

(* ... and the normalised value (R): well defined because the divisor is log of an integer >= 2 *)
Theorem c18_cc_norm_entry : forall (mi : nat -> nat -> R) rows cols n_x n_y G i j,
  cc_grid rows cols n_x n_y = Some G -> (i < rows)%nat -> (j < cols)%nat ->
  exists nx ny, states_array n_x rows = Some nx /\ states_array n_y cols = Some ny /\
    cc_norm mi G i j = (mi i j / ln (IZR (Z.min (nth i nx 0%Z) (nth j ny 0%Z))))%R /\
    (0 < ln (IZR (Z.min (nth i nx 0%Z) (nth j ny 0%Z))))%R.
Proof. exact cc_norm_well_defined. Qed.
Print Assumptions c18_cc_norm_entry.

(* ---- "Mutual information computed from them is non-negative" (Gibbs' inequality), for every
        rectangular table of counts, including never-observed pairs and empty rows/columns *)
Theorem c18_mi_nonneg : forall H, rect2 H = true -> (0 <= mi_of_counts H)%R.
Proof. exact mi_nonneg. Qed.
Print Assumptions c18_mi_nonneg.

(* ---- "symmetric for a data set against itself": MI of a table equals MI of its transpose (and the
        (b, a) table of a data set against itself is the transpose of its (a, b) table, above) *)
Theorem c18_mi_symmetric : forall H H', is_transpose H H' -> mi_of_counts H' = mi_of_counts H.
Proof. exact mi_transpose. Qed.
Print Assumptions c18_mi_symmetric.

(* ---- "equal to the Shannon entropy on the diagonal" *)
Theorem c18_mi_diagonal_is_entropy : forall H,
  rect2 H = true -> width2 H = length H ->
  (forall u v, (u < length H)%nat -> (v < length H)%nat -> u <> v -> get2 H u v = 0%nat) ->
  mi_of_counts H = entropy_R (row_dist H).
Proof. exact mi_diag_entropy. Qed.
Print Assumptions c18_mi_diagonal_is_entropy.

(* ---- "no larger than the smaller marginal entropy": both bounds *)
Theorem c18_mi_le_first_entropy : forall H, rect2 H = true -> (mi_of_counts H <= entropy_R (row_dist H))%R.
Proof. exact mi_le_row_entropy. Qed.
Print Assumptions c18_mi_le_first_entropy.

Theorem c18_mi_le_second_entropy : forall H H',
  is_transpose H H' -> (mi_of_counts H <= entropy_R (col_dist H))%R.
Proof. exact mi_le_col_entropy. Qed.
Print Assumptions c18_mi_le_second_entropy.

(* ---- "unchanged by relabelling states": permuting rows and columns of the table *)
Theorem c18_mi_relabel_invariant : forall s t H H', relabelled s t H H' -> mi_of_counts H' = mi_of_counts H.
Proof. exact mi_relabel_invariant. Qed.
Print Assumptions c18_mi_relabel_invariant.

(* ---- MI depends on the cells of the table only (so equal counts - reordered frames, pooled
        trajectories - give equal MI) *)
Theorem c18_mi_function_of_counts : forall H H',
  length H' = length H -> width2 H' = width2 H -> rect2 H = true -> rect2 H' = true ->
  (forall u v, (u < length H)%nat -> (v < width2 H)%nat -> get2 H' u v = get2 H u v) ->
  mi_of_counts H' = mi_of_counts H.
Proof. exact mi_table_ext. Qed.
Print Assumptions c18_mi_function_of_counts.

(* ---- "relative entropy is non-negative and zero exactly for equal distributions"
        (all real probability vectors; the code's +inf case is kl_infinite) *)
Theorem c18_kl_nonneg : forall P Qd base,
  length P = length Qd -> distribution P -> distribution Qd -> ~ kl_infinite P Qd -> (1 < base)%R ->
  (0 <= kl_R P Qd base)%R.
Proof. exact kl_nonneg. Qed.
Print Assumptions c18_kl_nonneg.

Theorem c18_kl_zero_iff_equal : forall P Qd base,
  length P = length Qd -> distribution P -> distribution Qd -> ~ kl_infinite P Qd -> (1 < base)%R ->
  (kl_R P Qd base = 0%R <-> P = Qd).
Proof. exact kl_zero_iff_equal. Qed.
Print Assumptions c18_kl_zero_iff_equal.

Theorem c18_kl_infinite_only_for_different : forall P Qd, kl_infinite P Qd -> P <> Qd.
Proof. exact kl_infinite_not_equal. Qed.
Print Assumptions c18_kl_infinite_only_for_different.

(* ---- Non-vacuity: concrete non-trivial inputs meet the hypotheses *)
Example c18_example_counts :
  joint_counts [[0; 1]; [1; 1]; [0; 0]]%Z (Some [[1]; [0]; [1]]%Z) None (Some 2%Z)
    = Some [[[[0; 2]; [1; 0]]]; [[[0; 1]; [1; 1]]]]%nat
  /\ joint_counts [[0]; [1]]%Z (Some [[0]; [-1]]%Z) (Some 2%Z) (Some 2%Z) = None
  /\ joint_counts [[0]; [2]]%Z (Some [[0]; [1]]%Z) (Some 2%Z) (Some 2%Z) = None
  /\ pooled_counts [([[0]; [1]], [[1]; [1]]); ([[1]], [[0]])]%Z 2 2 = Some [[[[0; 1]; [1; 1]]]]%nat
  /\ cc_grid 2 3 (inr [2; 8]%Z) (inr [4; 3; 5]%Z) = Some [[2; 2; 2]; [4; 3; 5]]%Z
  /\ rect2 [[1; 0; 2]; [0; 3; 0]]%nat = true
  /\ mi_cells [[1; 0]; [0; 1]]%nat = [(1 # 2, 1 # 2, 1 # 2); (1 # 2, 1 # 2, 1 # 2)].
Proof. vm_compute. repeat split; reflexivity. Qed.
Print Assumptions c18_example_counts.

Example c18_example_transpose_relabel :
  is_transpose [[1; 0; 2]; [0; 3; 0]]%nat [[1; 0]; [0; 3]; [2; 0]]%nat
  /\ relabelled (fun u => (1 - u)%nat) (fun v => v) [[1; 0; 2]; [0; 3; 0]]%nat [[0; 3; 0]; [1; 0; 2]]%nat.
Proof. exact example_transpose_relabel. Qed.
Print Assumptions c18_example_transpose_relabel.
