(* The clustering updates with their comparison tests as parameters, in the shape in which the code
   writes them (masked array writes, in the code's order).  Instantiated with the tests regenerated
   from the source (Gen/ClusterGen.v) they are proved equal to Model/Cluster.v. *)
From Coq Require Import List ZArith QArith Bool Arith.
From EV Require Import Cluster.
Import ListNotations.

Section Skel.
  Variable D : nat -> nat -> Q.

  (* inds = (dist <op> distances); distances[inds] = dist[inds]; assignments[inds] = len(center_inds) *)
  Definition kc_update_skel (improves : Q -> Q -> bool) (c k : nat) (x : fr) : fr :=
    let d := D c (fid x) in if improves d (dist x) then mkfr (fid x) k d else x.

  (* recompute only where distances <op> cc_dists[assignments]/2; elsewhere dist = distances (no change) *)
  Definition kc_update_ti_skel (recompute improves : Q -> Q -> bool) (ctrs : list nat) (c k : nat) (x : fr) : fr :=
    let cc := D c (nth (lab x) ctrs 0%nat) in
    if recompute (dist x) cc then kc_update_skel improves c k x else x.

  (* the running minimum of assign_to_nearest_center *)
  Fixpoint nearest_from_skel (improves : Q -> Q -> bool) (f i bi : nat) (bd : Q) (cs : list nat) : nat * Q :=
    match cs with
    | [] => (bi, bd)
    | c :: r => if improves (D c f) bd then nearest_from_skel improves f (S i) i (D c f) r
                else nearest_from_skel improves f (S i) bi bd r
    end.

  (* new_assig / new_dist start at -1 and receive three masked writes in the order dn, other, this:
     a later write wins; a frame no mask selects keeps -1 and trips the code's own assertion (None) *)
  Definition pam_frame_skel (dn : Q -> Q -> bool) (other this : Q -> Q -> nat -> nat -> bool)
             (cid p : nat) (cs' : list nat) (x : fr) : option fr :=
    let nd := D p (fid x) in
    if this (dist x) nd (lab x) cid then Some (nearest_fr D cs' (fid x))
    else if other (dist x) nd (lab x) cid then Some x
    else if dn (dist x) nd then Some (mkfr (fid x) cid nd)
    else None.
End Skel.
