(* C20: independent specification of buffered (hysteresis) rotamer assignment and of the
   transition bookkeeping of enspara/cards/disorder.py.  Executable definitions only. *)
From Coq Require Import List ZArith QArith Bool.
From EV Require Import RotamerBase.
Import ListNotations.
Open Scope Z_scope.

Definition qnth (l : list Q) (i : Z) : Q := nth (Z.to_nat i) l (Qmake 0 1).

(* the basin i with hb_i <= a < hb_(i+1) *)
Definition basin (hb : list Q) (a : Q) : Z := digitize a hb - 1.

(* x lies in [L - b, U + b] *)
Definition in_arc (L U b x : Q) : bool := (Qle_bool (L - b) x && Qle_bool x (U + b))%Q.

(* angle a (in [0,360)) lies in basin s widened by b on both sides, with wrap-around:
   a itself or one of its images a - 360, a + 360 lies in [hb_s - b, hb_(s+1) + b] *)
Definition in_widened (hb : list Q) (b : Q) (s : Z) (a : Q) : bool :=
  let L := qnth hb s in let U := qnth hb (s + 1) in
  (in_arc L U b (a - Qmake 360 1) || in_arc L U b a || in_arc L U b (a + Qmake 360 1))%Q.

(* a is none of the (finitely many) gate values of basin s *)
Definition off_gates (hb : list Q) (b : Q) (s : Z) (a : Q) : Prop :=
  let L := qnth hb s in let U := qnth hb (s + 1) in
  (~ a - Qmake 360 1 == L - b /\ ~ a == L - b /\ ~ a + Qmake 360 1 == L - b /\
   ~ a - Qmake 360 1 == U + b /\ ~ a == U + b /\ ~ a + Qmake 360 1 == U + b)%Q.

Definition spec_step (hb : list Q) (b : Q) (s : Z) (a : Q) : Z :=
  if in_widened hb b s a then s else basin hb a.

Definition spec_run (hb : list Q) (b : Q) (angles : list Q) : option (list Z) :=
  match angles with
  | [] => None
  | a0 :: rest => Some (basin hb a0 :: scan (spec_step hb b) (basin hb a0) rest)
  end.

(* disorder.transitions, 1-D: frames n with row[n] <> row[n+1] *)
Fixpoint trans_from (n : nat) (row : list Z) : list nat :=
  match row with
  | x :: ((y :: _) as r) => if x =? y then trans_from (S n) r else n :: trans_from (S n) r
  | _ => []
  end.
Definition transitions (row : list Z) : list nat := trans_from 0 row.
(* 2-D: one output row per trajectory *)
Definition transitions2 (rows : list (list Z)) : list (list nat) := map transitions rows.
