(* C18: mutual information, entropy, relative entropy, channel-capacity normalisation, weighted
   probability tables (enspara/info_theory/mutual_info.py: mutual_information, weighted_mi,
   channel_capacity_normalization; enspara/info_theory/entropy.py: shannon_entropy, kl_divergence).
   Definitions only.  Probability tables are exact rationals (Q); the logarithmic quantities are
   real numbers (R) defined from those rationals through Q2R, skipping exactly the cells the code
   skips. *)
From Coq Require Import List ZArith QArith Qreals Bool Arith Reals.
From EV Require Import JointCounts.
Import ListNotations.

(* ---------------------------------------------------------------- one joint-count matrix *)
Definition get2 (H : tbl2) (u v : nat) : nat := nth v (nth u H []) 0%nat.
Definition sumn (l : list nat) : nat := fold_right Nat.add 0%nat l.
Definition width2 (H : tbl2) : nat := match H with [] => 0%nat | r :: _ => length r end.
Definition rect2 (H : tbl2) : bool := forallb (fun r => length r =? width2 H)%nat H.
(* n_obs_a_i = jc.sum(axis=-1); n_obs_b_i = jc.sum(axis=-2); n_obs = n_obs_a_i.sum(axis=-1) *)
Definition rowsum (H : tbl2) (u : nat) : nat := sumn (nth u H []).
Definition colsum (H : tbl2) (v : nat) : nat := sumn (map (fun row => nth v row 0%nat) H).
Definition total (H : tbl2) : nat := sumn (map sumn H).

(* np.divide(c, n_obs, where=n_obs > 0, out=zeros) *)
Definition qdiv (c N : nat) : Q := if (N =? 0)%nat then 0 else (Z.of_nat c # Pos.of_nat N).

Definition P_ab (H : tbl2) : list (list Q) := map (map (fun c => qdiv c (total H))) H.
Definition P_a (H : tbl2) : list Q := map (fun u => qdiv (rowsum H u) (total H)) (seq 0 (length H)).
Definition P_b (H : tbl2) : list Q := map (fun v => qdiv (colsum H v) (total H)) (seq 0 (width2 H)).

(* unddef = P_x_y[u,v] == 0 or P_x[u] == 0 or P_y[v] == 0 *)
Definition undefq (p px py : Q) : bool := Qeq_bool p 0 || Qeq_bool px 0 || Qeq_bool py 0.

(* the cells that enter the sum, in loop order (u outer, v inner), as (P_x_y, P_x, P_y) *)
Definition mi_cells (H : tbl2) : list (Q * Q * Q) :=
  flat_map (fun u => flat_map (fun v =>
      let p := qdiv (get2 H u v) (total H) in
      let px := qdiv (rowsum H u) (total H) in
      let py := qdiv (colsum H v) (total H) in
      if undefq p px py then [] else [(p, px, py)]) (seq 0 (width2 H))) (seq 0 (length H)).

(* mi[i, j] += P_x_y[u, v] * np.log(P_x_y[u, v] / (P_x[u] * P_y[v])) *)
Definition mi_cellq (p px py : Q) : R :=
  if undefq p px py then 0%R else (Q2R p * ln (Q2R p / (Q2R px * Q2R py)))%R.

(* for k in range(n): acc += g k *)
Fixpoint rsum (n : nat) (g : nat -> R) : R :=
  match n with O => 0%R | S k => (rsum k g + g k)%R end.

Definition mi_of_counts (H : tbl2) : R :=
  rsum (length H) (fun u => rsum (width2 H) (fun v =>
    mi_cellq (qdiv (get2 H u v) (total H)) (qdiv (rowsum H u) (total H)) (qdiv (colsum H v) (total H)))).

(* mutual_information(jc)[a, b] *)
Definition sub2 (jc : tbl4) (a b : nat) : tbl2 := nth b (nth a jc []) [].
Definition mutual_information (jc : tbl4) (a b : nat) : R := mi_of_counts (sub2 jc a b).
(* what the correspondence compares exactly: the three probability tables and the summed cells *)
Definition mi_tables (jc : tbl4) : list (list (list (list Q) * list Q * list Q * list (Q * Q * Q))) :=
  map (map (fun H => (P_ab H, P_a H, P_b H, mi_cells H))) jc.

(* ---------------------------------------------------------------- Shannon entropy *)
Definition Rsum (l : list R) : R := fold_right Rplus 0%R l.
(* -np.sum(p * np.log(p, where=p > 0, out=zeros)) *)
Definition plogp (x : R) : R := (x * (if Rlt_dec 0 x then ln x else 0))%R.
Definition entropy_R (p : list R) : R := (- Rsum (map plogp p))%R.
(* entropy of the marginal distribution of the rows of a joint-count matrix *)
Definition row_dist (H : tbl2) : list R :=
  map (fun u => Q2R (qdiv (rowsum H u) (total H))) (seq 0 (length H)).
Definition col_dist (H : tbl2) : list R :=
  map (fun v => Q2R (qdiv (colsum H v) (total H))) (seq 0 (width2 H)).
(* Q side for the correspondence: the cells with p > 0, after the optional normalisation *)
Definition qsum (l : list Q) : Q := fold_right Qplus 0 l.
Definition entropy_cells (normalize : bool) (p : list Q) : list Q :=
  let p' := if normalize then map (fun x => x / qsum p) p else p in
  filter (fun x => negb (Qle_bool x 0)) p'.

(* ---------------------------------------------------------------- relative entropy *)
(* kl_divergence on one pair of rows: DataInvalid for a negative entry, a shape mismatch is an
   error; P * log(P / Q) with nan -> 0 (p = 0), +inf when p > 0 and q = 0; finally / log(base) *)
Inductive ext (A : Type) := Err | Inf | Fin (x : A).
Arguments Err {A}. Arguments Inf {A}. Arguments Fin {A} x.

Definition kl_cells (P Qd : list Q) : ext (list (Q * Q)) :=
  if negb (length P =? length Qd)%nat then Err
  else if existsb (fun x => negb (Qle_bool 0 x)) (P ++ Qd) then Err
  else let cells := filter (fun pq => negb (Qeq_bool (fst pq) 0)) (combine P Qd) in
       if existsb (fun pq => Qeq_bool (snd pq) 0) cells then Inf else Fin cells.

Definition kl_term (p q : R) : R := if Req_EM_T p 0 then 0%R else (p * ln (p / q))%R.
Fixpoint kl_sum (P Qd : list R) : R :=
  match P, Qd with
  | p :: P', q :: Q' => (kl_term p q + kl_sum P' Q')%R
  | _, _ => 0%R
  end.
(* some cell has p > 0 and q = 0: the code returns +inf *)
Fixpoint kl_infinite (P Qd : list R) : Prop :=
  match P, Qd with
  | p :: P', q :: Q' => (p <> 0%R /\ q = 0%R) \/ kl_infinite P' Q'
  | _, _ => False
  end.
Definition kl_R (P Qd : list R) (base : R) : R := (kl_sum P Qd / ln base)%R.

(* ---------------------------------------------------------------- channel capacity *)
(* _validate_feature_states_array: an int is broadcast to the dimension; entries < 2 and a wrong
   length are DataInvalid *)
Definition states_array (n : Z + list Z) (dim : nat) : option (list Z) :=
  let l := match n with inl k => repeat k dim | inr l => l end in
  if existsb (fun k => k <? 2)%Z l then None
  else if negb (length l =? dim)%nat then None else Some l.
(* np.fmin of the two np.meshgrid(n_x, n_y, indexing='ij') grids *)
Definition min_grid (nx ny : list Z) : list (list Z) := map (fun x => map (fun y => Z.min x y) ny) nx.
Definition cc_grid (rows cols : nat) (n_x n_y : Z + list Z) : option (list (list Z)) :=
  match states_array n_x rows, states_array n_y cols with
  | Some nx, Some ny => Some (min_grid nx ny)
  | _, _ => None
  end.
(* np.divide(mi, np.log(min_num_states)) *)
Definition cc_norm (mi : nat -> nat -> R) (G : list (list Z)) (i j : nat) : R :=
  (mi i j / ln (IZR (nth j (nth i G []) 0%Z)))%R.

(* ---------------------------------------------------------------- weighted tables *)
(* weighted_mi: P_marg[a, u] = sum_t w_t [X[t,a] = u] (np.bincount with weights);
   P_joint[(u,v)][a, b] = sum_t w_t [X[t,a] = u] [X[t,b] = v] (one-hot products) *)
Definition ind (b : bool) : Q := if b then 1 else 0.
Fixpoint wsum (X : list (list Z)) (w : list Q) (f : list Z -> bool) : Q :=
  match X, w with
  | x :: X', wt :: w' => wt * ind (f x) + wsum X' w' f
  | _, _ => 0
  end.
Definition wmarg (X : list (list Z)) (w : list Q) (a : nat) (u : Z) : Q :=
  wsum X w (fun x => (nth a x 0 =? u)%Z).
Definition wjoint (X : list (list Z)) (w : list Q) (a b : nat) (u v : Z) : Q :=
  wsum X w (fun x => (nth a x 0 =? u)%Z && (nth b x 0 =? v)%Z).
(* the guarded cell of weighted_mi: divide where P_prod_marg != 0, log where the ratio != 0 *)
Definition wmi_cellq (pj px py : Q) : R :=
  if Qeq_bool (px * py) 0 then 0%R
  else if Qeq_bool (pj / (px * py)) 0 then 0%R
  else (Q2R pj * ln (Q2R pj / (Q2R px * Q2R py)))%R.
Definition zrange (n : Z) : list Z := map Z.of_nat (seq 0 (Z.to_nat n)).
Definition weighted_mi_R (X : list (list Z)) (w : list Q) (n : Z) (a b : nat) : R :=
  let s := Rsum (map (fun u => Rsum (map (fun v =>
             wmi_cellq (wjoint X w a b u v) (wmarg X w a u) (wmarg X w b v)) (zrange n))) (zrange n)) in
  Rmax 0 s.   (* np.clip(mi_mtx, a_min=0) *)
