(* Model/Alloc.v -- allocations that do not initialise memory (np.empty, np.empty_like,
   np.ndarray(shape)) followed by the stores that fill them, with the heap made explicit
   (property C19, round 2); and call histories in the presence of a result cache.

   A freshly allocated buffer of n cells is `junk : list A` with `length junk = n`: whatever the
   allocator hands out, universally quantified.  The statements between the allocation and the
   first read are stores into the buffer; each is one of

     a.fill(v)                                   WFill v
     a[lo:lo+len(src)] = src                     WSlice lo src
     a[:] = src,  a[...] = src                   WAll src   (= WSlice 0 src)
     a[i] = v                                    WIdx i v   (= WSlice i [v])
     comm.Bcast(a, root) on a non-root rank,
     comm.Recv(a), comm.Allgather(s, a) ...      WAll msg   (the message fills the receive buffer)

   A store never makes the buffer longer: what does not fit is dropped here (NumPy raises; the
   per-site statements carry the shape equation instead).  Values stored are parameters of the
   site: the translator (translator/sites.py) rejects a site whose stored expressions mention the
   buffer.  Arrays are flattened; for an n-d buffer a "cell" is one row of the leading axis when
   the stores address the leading axis only.

   Executable definitions only; proofs are in Proof/AllocProofs.v; the per-allocation-site
   instances are generated into Gen/AllocSites.v on every run. *)
From Coq Require Import List Bool Arith.
Import ListNotations.

Set Implicit Arguments.

(* ------------------------------------------------------------------ stores *)
Inductive wr (A : Type) : Type :=
| WFill (v : A)
| WSlice (lo : nat) (src : list A).

Arguments WFill {A} v.
Arguments WSlice {A} lo src.

Definition WAll (A : Type) (src : list A) : wr A := WSlice 0 src.
Definition WIdx (A : Type) (i : nat) (v : A) : wr A := WSlice i [v].

(* src laid over the front of buf; buf keeps its length *)
Fixpoint overlay (A : Type) (src buf : list A) : list A :=
  match src, buf with
  | s :: src', _ :: buf' => s :: overlay src' buf'
  | _, _ => buf
  end.

Fixpoint write_slice (A : Type) (lo : nat) (src buf : list A) : list A :=
  match lo, buf with
  | O, _ => overlay src buf
  | S lo', b :: buf' => b :: write_slice lo' src buf'
  | S _, [] => []
  end.

Definition apply_wr (A : Type) (w : wr A) (buf : list A) : list A :=
  match w with
  | WFill v => map (fun _ => v) buf
  | WSlice lo src => write_slice lo src buf
  end.

(* the buffer after the stores of `prog`, executed in order *)
Definition run (A : Type) (prog : list (wr A)) (buf : list A) : list A :=
  fold_left (fun b w => apply_wr w b) prog buf.

(* ------------------------------------------------------------------ which cells were stored to
   The same program run on marks: every stored value is `true`, the fresh buffer is all `false`. *)
Definition mark_of (A : Type) (w : wr A) : wr bool :=
  match w with
  | WFill _ => WFill true
  | WSlice lo src => WSlice lo (map (fun _ => true) src)
  end.

Definition written (A : Type) (prog : list (wr A)) (n : nat) : list bool :=
  run (map (@mark_of A) prog) (repeat false n).

Definition all_true (m : list bool) : bool := forallb (fun b => b) m.

Definition all_written (A : Type) (prog : list (wr A)) (n : nat) : bool :=
  all_true (written prog n).

(* two buffers agree on every cell that has been stored to (and have the shape of the marks) *)
Fixpoint agree_on (A : Type) (m : list bool) (a b : list A) : Prop :=
  match m, a, b with
  | [], [], [] => True
  | mi :: m', ai :: a', bi :: b' => (mi = true -> ai = bi) /\ agree_on m' a' b'
  | _, _, _ => False
  end.

(* a buffer still holds the allocator's cell wherever nothing has been stored *)
Fixpoint keeps (A : Type) (m : list bool) (junk b : list A) : Prop :=
  match m, junk, b with
  | [], [], [] => True
  | mi :: m', ji :: j', bi :: b' => (mi = false -> bi = ji) /\ keeps m' j' b'
  | _, _, _ => False
  end.

(* ------------------------------------------------------------------ recognised loop shapes *)
(* start = 0
   for ... : end = start + len(seg); a[start:end] = seg; start = end
   assert end == len(a)                                    (enspara/mpi/io.py) *)
Fixpoint tile_prog (A : Type) (start : nat) (segs : list (list A)) : list (wr A) :=
  match segs with
  | [] => []
  | s :: rest => WSlice start s :: tile_prog (start + length s) rest
  end.

(* a = np.empty(len(vals)); for i, v in enumerate(vals): a[i] = v      (enspara/ra/ra.py)
   a = np.empty(n);         for i in range(n): a[i] = f(i)                                  *)
Definition enum_prog (A : Type) (vals : list A) : list (wr A) :=
  map (fun p => WIdx (fst p) (snd p)) (combine (seq 0 (length vals)) vals).

(* ------------------------------------------------------------------ call histories and caches
   An argument object has an identity (its address: what `id(x)` returns, what a dict keyed on the
   object or on a file path sees) and contents (what the property says the result may depend on).
   Overwriting an array in place, or rewriting a file at the same path, changes the contents and
   keeps the identity. *)
Record obj (A : Type) : Type := Obj { oid : nat; contents : list A }.

Fixpoint lookup (K R : Type) (eqb : K -> K -> bool) (k : K) (memo : list (K * R)) : option R :=
  match memo with
  | [] => None
  | (k', r) :: rest => if eqb k k' then Some r else lookup eqb k rest
  end.

(* no cache: the library as it is *)
Definition call_plain (A R : Type) (f : list A -> R) (memo : list (nat * R)) (o : obj A)
  : R * list (nat * R) := (f (contents o), memo).

(* memo keyed on identity (functools.lru_cache on an ndarray wrapper, dict keyed on id(x) or on a path) *)
Definition call_id_cached (A R : Type) (f : list A -> R) (memo : list (nat * R)) (o : obj A)
  : R * list (nat * R) :=
  match lookup Nat.eqb (oid o) memo with
  | Some r => (r, memo)
  | None => let r := f (contents o) in (r, (oid o, r) :: memo)
  end.

(* memo keyed on the contents *)
Definition call_content_cached (A R : Type) (eqb : list A -> list A -> bool) (f : list A -> R)
           (memo : list (list A * R)) (o : obj A) : R * list (list A * R) :=
  match lookup eqb (contents o) memo with
  | Some r => (r, memo)
  | None => let r := f (contents o) in (r, (contents o, r) :: memo)
  end.

(* a history: the calls made so far, each on some object; returns the memo they leave behind *)
Fixpoint after_history (A R M : Type) (call : M -> obj A -> R * M) (memo : M) (h : list (obj A)) : M :=
  match h with
  | [] => memo
  | o :: rest => after_history call (snd (call memo o)) rest
  end.

(* the in-place-overwrite probe of harness/props/c19.py: call on A, overwrite the same object with
   B, call again; compare with a call on a fresh object holding B *)
Definition probe_overwrite (A R M : Type) (call : M -> obj A -> R * M) (memo0 : M)
           (ident fresh_ident : nat) (a b : list A) : R * R :=
  let m1 := snd (call memo0 (Obj ident a)) in
  let second := call m1 (Obj ident b) in
  let fresh := call (snd second) (Obj fresh_ident b) in
  (fst second, fst fresh).
