(* C16 round 3: hand-written statement of (1) what MSM.save writes and MSM.load reads back
   (enspara/msm/msm.py) and (2) which eigen-solver eigenspectrum uses
   (enspara/msm/transition_matrices.py).  Gen/MsmAuxGen.v / Gen/MsmSpecGen.v are regenerated from the
   source and proved equal to these in Proof/MsmAuxGenProofs.v / Proof/MsmSpecGenProofs.v.
   Definitions only. *)
From Coq Require Import String.
From Coq Require Import List ZArith Bool.
From EV Require Import MsmAuxBase.
Import ListNotations.
Open Scope string_scope.

(* ------------------------------------------------------------------ save / load *)
(* manifest key -> default file name (the documented defaults of MSM.save) *)
Definition default_fnames : list (string * string) :=
  [("mapping_", "mapping.csv"); ("tcounts_", "tcounts.mtx"); ("tprobs_", "tprobs.mtx");
   ("eq_probs_", "eq-probs.dat"); ("config", "config.pkl")].
Definition manifest_name : string := "manifest.json".

(* the transition probabilities are written with 20 significant digits ("mmwrite must use this number
   to allow for consistent round-tripping"), the counts with SciPy's default (shortest exact
   representation), the populations by np.savetxt ('%.18e') *)
Definition save_table : list save_row :=
  [{| sv_key := "mapping_"; sv_attr := A_mapping_; sv_writer := W_mapping_csv; sv_mode := TextMode |};
   {| sv_key := "tcounts_"; sv_attr := A_tcounts_; sv_writer := W_mmwrite None; sv_mode := BinaryMode |};
   {| sv_key := "tprobs_"; sv_attr := A_tprobs_; sv_writer := W_mmwrite (Some 20%Z); sv_mode := BinaryMode |};
   {| sv_key := "eq_probs_"; sv_attr := A_eq_probs_; sv_writer := W_savetxt; sv_mode := BinaryMode |};
   {| sv_key := "config"; sv_attr := A_config; sv_writer := W_pickle; sv_mode := BinaryMode |}].

(* the config first (the estimator is rebuilt from it), then the fitted attributes *)
Definition load_table : list load_row :=
  [{| ld_attr := A_config; ld_reader := R_pickle; ld_key := "config" |};
   {| ld_attr := A_tcounts_; ld_reader := R_mmread; ld_key := "tcounts_" |};
   {| ld_attr := A_tprobs_; ld_reader := R_mmread; ld_key := "tprobs_" |};
   {| ld_attr := A_mapping_; ld_reader := R_mapping_csv; ld_key := "mapping_" |};
   {| ld_attr := A_eq_probs_; ld_reader := R_loadtxt 1; ld_key := "eq_probs_" |}].

Definition attr_eqb (a b : io_attr) : bool :=
  match a, b with
  | A_mapping_, A_mapping_ | A_tcounts_, A_tcounts_ | A_tprobs_, A_tprobs_
  | A_eq_probs_, A_eq_probs_ | A_config, A_config => true
  | _, _ => false
  end.
Definition all_attrs : list io_attr := [A_mapping_; A_tcounts_; A_tprobs_; A_eq_probs_; A_config].

(* the reader parses the writer's format *)
Definition compatible (w : io_writer) (r : io_reader) : bool :=
  match w, r with
  | W_mapping_csv, R_mapping_csv | W_mmwrite _, R_mmread | W_savetxt, R_loadtxt _ | W_pickle, R_pickle => true
  | _, _ => false
  end.

(* a float64 survives decimal text iff at least 17 significant digits are written.  mmwrite(precision=p)
   writes p significant digits, without precision the shortest exact representation; np.savetxt's
   default '%.18e' writes 19; csv of integers and pickle are exact *)
Definition float_digits : Z := 17.
Definition exact_writer (w : io_writer) : bool :=
  match w with
  | W_mmwrite (Some p) => (float_digits <=? p)%Z
  | _ => true
  end.
(* binary writers need a binary handle (pickle) -- mmwrite and savetxt accept both *)
Definition mode_ok (w : io_writer) (m : io_mode) : bool :=
  match w, m with
  | W_pickle, TextMode => false
  | W_mapping_csv, BinaryMode => false
  | _, _ => true
  end.

Fixpoint lookup (k : string) (t : list (string * string)) : option string :=
  match t with
  | [] => None
  | (k', v) :: r => if String.eqb k k' then Some v else lookup k r
  end.

Fixpoint nodup_str (l : list string) : bool :=
  match l with
  | [] => true
  | x :: r => negb (existsb (String.eqb x) r) && nodup_str r
  end.

Definition save_rows_of (a : io_attr) (sv : list save_row) : list save_row :=
  filter (fun s => attr_eqb (sv_attr s) a) sv.
Definition load_rows_of (a : io_attr) (ld : list load_row) : list load_row :=
  filter (fun l => attr_eqb (ld_attr l) a) ld.

(* attribute a is written exactly once and read exactly once, through the same manifest key, by a
   reader that parses the writer's format, without loss of precision, and the key has a file name *)
Definition attr_roundtrips (names : list (string * string)) (sv : list save_row) (ld : list load_row)
  (a : io_attr) : bool :=
  match save_rows_of a sv, load_rows_of a ld with
  | [s], [l] => String.eqb (sv_key s) (ld_key l) && compatible (sv_writer s) (ld_reader l)
                && exact_writer (sv_writer s) && mode_ok (sv_writer s) (sv_mode s)
                && match lookup (sv_key s) names with Some _ => true | None => false end
  | _, _ => false
  end.

(* no two attributes share a file, none of them is the manifest *)
Definition files_distinct (names : list (string * string)) (manifest : string) : bool :=
  nodup_str (manifest :: map snd names) && nodup_str (map fst names).

Definition tables_ok (names : list (string * string)) (manifest_save manifest_load : string)
  (sv : list save_row) (ld : list load_row) : bool :=
  forallb (attr_roundtrips names sv ld) all_attrs && files_distinct names manifest_save
  && String.eqb manifest_save manifest_load.

(* ------------------------------------------------------------------ eigenspectrum's solver *)
(* ARPACK (scipy.sparse.linalg.eigs) only for sparse input with at least 1000 rows; LAPACK
   (scipy.linalg.eig on the densified matrix) otherwise *)
Definition uses_arpack (n_rows : Z) (sparse : bool) : bool := sparse && (1000 <=? n_rows)%Z.
