(* C06 -- RaggedArray writers as a two-representation state machine.
   The class keeps three slots that must describe the same content: _data (flat), _array (row view) and
   lengths.  The model keeps all three ({data; rows; lens}) and follows the routes of the code
   (enspara/ra/ra.py, RaggedArray.__setitem__ / append / map_operator):
     route A  (a[int] / a[slice] / a[list] / a[int, slice] = v): write into (a copy of) the row view, then
              re-run the constructor on it (data := concat rows, lens := map length rows,
              rows := partition data lens);
     route B  (a[tuple] / a[mask] = v): turn the index into (row, col) cells, cells into flat offsets
              starts[r] + c (negative wrap and bound test), write _data, rebuild rows := partition data lens;
     append : extend data and lens, rebuild rows.
   The specification side (suffix _s) is the same operation on a plain list of rows.
   Executable definitions only; proofs are in Proof/RaggedOpsProofs.v. *)
From Coq Require Import List ZArith Bool.
From EV Require Import PySlice.
Import ListNotations.
Open Scope Z_scope.

(* ------------------------------------------------------------------ results *)
Inductive err := EIndex | EReject.          (* IndexError | ValueError, DataInvalid, TypeError *)
Inductive res (A : Type) := Ok (a : A) | Err (e : err).
Arguments Ok {A} a.
Arguments Err {A} e.
Definition bind {A B} (x : res A) (f : A -> res B) : res B :=
  match x with Ok a => f a | Err e => Err e end.
Definition res_map {A B} (f : A -> B) (x : res A) : res B :=
  match x with Ok a => Ok (f a) | Err e => Err e end.
Definition of_opt {A} (e : err) (x : option A) : res A :=
  match x with Some a => Ok a | None => Err e end.

(* ------------------------------------------------------------------ the state *)
Record st (A : Type) := mkst { data : list A; rows : list (list A); lens : list nat }.
Arguments mkst {A}.
Arguments data {A}.
Arguments rows {A}.
Arguments lens {A}.

(* partition_list *)
Fixpoint partition {A} (d : list A) (ls : list nat) : list (list A) :=
  match ls with
  | [] => []
  | n :: ls' => firstn n d :: partition (skipn n d) ls'
  end.

Definition sum (ls : list nat) : nat := fold_right Nat.add 0%nat ls.

(* starts[r] *)
Fixpoint start_of (ls : list nat) (r : nat) : nat :=
  match r, ls with
  | O, _ => 0
  | S k, n :: t => n + start_of t k
  | S _, [] => 0
  end.
Definition starts (ls : list nat) : list nat := map (start_of ls) (seq 0 (length ls)).

Fixpoint upd {A} (l : list A) (i : nat) (v : A) : list A :=
  match l, i with
  | [], _ => []
  | _ :: t, O => v :: t
  | x :: t, S k => x :: upd t k v
  end.

(* RaggedArray(list of rows): the constructor's nested path, also what route A re-runs *)
Definition of_rows {A} (rs : list (list A)) : st A :=
  let d := concat rs in
  let ls := map (@length A) rs in
  mkst d (partition d ls) ls.

(* RaggedArray(flat, lengths=...) *)
Definition of_flat {A} (d : list A) (ls : list nat) : res (st A) :=
  if Nat.eqb (sum ls) (length d) then Ok (mkst d (partition d ls) ls) else Err EReject.

(* ------------------------------------------------------------------ values *)
Inductive cval := CScalar (z : Z) | CVec (xs : list Z).            (* scalar or flat sequence *)
Inductive bval := BCells (v : cval) | BRows (xss : list (list Z)). (* route B also takes nested / RaggedArray *)
Inductive rval := RScalar (z : Z) | RRows (xss : list (list Z)).   (* multi-row assignment: scalar or RaggedArray *)

(* numpy broadcasting of a value onto n selected positions *)
Definition bcast (n : nat) (v : cval) : option (list Z) :=
  match v with
  | CScalar z => Some (repeat z n)
  | CVec xs => if Nat.eqb (length xs) n then Some xs
               else match xs with [x] => Some (repeat x n) | _ => None end
  end.

(* value_1d of route B: nested values are concatenated; value[0] of an empty value is an IndexError *)
Definition bval_1d (v : bval) : res cval :=
  match v with
  | BCells (CScalar z) => Ok (CScalar z)
  | BCells (CVec []) => Err EIndex
  | BCells (CVec xs) => Ok (CVec xs)
  | BRows [] => Err EIndex
  | BRows xss => Ok (CVec (concat xss))
  end.

(* ------------------------------------------------------------------ indices *)
Inductive rowsel := RSlice (a b k : option Z) | RList (zs : list Z).
Inductive colsel := CSlice (a b k : option Z) | CInt (c : Z) | CList (cs : list Z).

(* numpy integer index into an axis of length n: negative wrap, IndexError outside *)
Definition wrap (n : nat) (i : Z) : option nat :=
  let i' := if i <? 0 then i + Z.of_nat n else i in
  if (i' <? 0) || (Z.of_nat n <=? i') then None else Some (Z.to_nat i').

Fixpoint all_some {A} (l : list (option A)) : option (list A) :=
  match l with
  | [] => Some []
  | None :: _ => None
  | Some x :: t => match all_some t with Some r => Some (x :: r) | None => None end
  end.

Definition sel_rows (n : nat) (sel : rowsel) : option (list nat) :=
  match sel with
  | RSlice a b k => all_some (map (wrap n) (slice_indices n a b k))
  | RList zs => all_some (map (wrap n) zs)
  end.

(* _convert_from_2d on one (row, col) pair: the cell as naturals, or IndexError *)
Definition cell (ls : list nat) (rc : Z * Z) : option (nat * nat) :=
  match wrap (length ls) (fst rc) with
  | None => None
  | Some r => match wrap (nth r ls 0%nat) (snd rc) with
              | None => None
              | Some c => Some (r, c)
              end
  end.
Definition flat_of (ls : list nat) (rc : nat * nat) : nat := (start_of ls (fst rc) + snd rc)%nat.
Definition resolve (ls : list nat) (cs : list (Z * Z)) : res (list (nat * nat)) :=
  of_opt EIndex (all_some (map (cell ls) cs)).

Definition row_len (ls : list nat) (r : Z) : option nat :=
  match wrap (length ls) r with Some i => Some (nth i ls 0%nat) | None => None end.

(* the (row, col) pairs selected by a tuple index: _slice_to_list, _get_iis_from_slices,
   _get_iis_from_list, or the plain pair branch (repaired code: Python slice semantics, per row) *)
Definition cells_of (ls : list nat) (rs : rowsel) (cs : colsel) : res (list (Z * Z)) :=
  let n := length ls in
  match rs, cs with
  | RSlice a b k, CSlice a' b' k' =>
      Ok (flat_map (fun r => map (fun c => (r, c)) (slice_indices (nth (Z.to_nat r) ls 0%nat) a' b' k'))
                   (slice_indices n a b k))
  | RSlice a b k, CInt c => Ok (map (fun r => (r, c)) (slice_indices n a b k))
  | RSlice a b k, CList cl => Ok (flat_map (fun r => map (fun c => (r, c)) cl) (slice_indices n a b k))
  | RList rl, CSlice a' b' k' =>
      match all_some (map (row_len ls) rl) with
      | None => Err EIndex
      | Some lns => Ok (flat_map (fun p => map (fun c => (fst p, c)) (slice_indices (snd p) a' b' k'))
                                 (combine rl lns))
      end
  | RList [], CInt _ => Err EIndex                 (* empty float index arrays *)
  | RList rl, CInt c => Ok (map (fun r => (r, c)) rl)
  | RList rl, CList cl =>
      (* the two index vectors are paired the way NumPy pairs index arrays, by broadcasting
         (_convert_from_2d: np.broadcast_arrays): element by element when equally long, a one-entry vector
         against every entry of the other; any other pair of lengths is rejected *)
      if Nat.eqb (length rl) (length cl)
      then match rl with [] => Err EIndex | _ => Ok (combine rl cl) end
      else match rl, cl with
           | [], [_] | [_], [] => Err EIndex       (* empty float index arrays *)
           | _, [c] => Ok (map (fun r => (r, c)) rl)
           | [r], _ => Ok (map (fun c => (r, c)) cl)
           | _, _ => Err EReject
           end
  end.

(* where(mask): positions of the True entries, row-major, through the mask's own row structure *)
Fixpoint true_cols (c : nat) (bs : list bool) : list Z :=
  match bs with
  | [] => []
  | b :: t => (if b then [Z.of_nat c] else []) ++ true_cols (S c) t
  end.
Fixpoint mask_cells_from (r : nat) (m : list (list bool)) : list (Z * Z) :=
  match m with
  | [] => []
  | bs :: t => map (fun c => (Z.of_nat r, c)) (true_cols 0 bs) ++ mask_cells_from (S r) t
  end.
Definition mask_cells (m : list (list bool)) : res (list (Z * Z)) := Ok (mask_cells_from 0 m).

(* ------------------------------------------------------------------ arithmetic *)
Inductive binop := BAdd | BSub | BMul | BFloorDiv | BMod | BPow.
Definition bin (o : binop) (x k : Z) : Z :=
  match o with
  | BAdd => x + k | BSub => x - k | BMul => x * k
  | BFloorDiv => x / k | BMod => x mod k | BPow => x ^ k
  end.
Inductive cmpop := CEq | CNe | CLt | CLe | CGt | CGe.
Definition cmp (c : cmpop) (x k : Z) : bool :=
  match c with
  | CEq => x =? k | CNe => negb (x =? k) | CLt => x <? k | CLe => x <=? k | CGt => k <? x | CGe => k <=? x
  end.
Inductive logop := LAnd | LOr | LXor.
Definition logic (l : logop) (a b : bool) : bool :=
  match l with LAnd => a && b | LOr => a || b | LXor => xorb a b end.

(* ------------------------------------------------------------------ writers on a list of rows (spec side;
   route A of the code is exactly these on the row view followed by the constructor) *)
Definition write_at {A} (d : list A) (iis : list nat) (vals : list A) : list A :=
  fold_left (fun acc iv => upd acc (fst iv) (snd iv)) (combine iis vals) d.

Definition is_rect {A} (rs : list (list A)) : bool :=       (* _array is a 2-d numpy array *)
  match rs with
  | [] => true
  | r :: t => forallb (fun x => Nat.eqb (length x) (length r)) t
  end.

Definition set_row_s (rs : list (list Z)) (r : Z) (v : cval) : res (list (list Z)) :=
  match wrap (length rs) r with
  | None => Err EIndex
  | Some i =>
      if is_rect rs then
        match bcast (length (nth i rs [])) v with
        | Some xs => Ok (upd rs i xs)
        | None => Err EReject
        end
      else match v with
           | CScalar _ => Err EReject           (* a scalar in an object row slot: DataInvalid *)
           | CVec xs => Ok (upd rs i xs)
           end
  end.

(* number of selected rows, known before any index is bounds-checked *)
Definition sel_count (n : nat) (sel : rowsel) : nat :=
  match sel with
  | RSlice a b k => length (slice_indices n a b k)
  | RList zs => length zs
  end.

Definition set_rows_s (rs : list (list Z)) (sel : rowsel) (v : rval) : res (list (list Z)) :=
  match v with
  | RScalar z =>
      match sel_rows (length rs) sel with
      | None => Err EIndex
      | Some idxs =>
          if is_rect rs
          then Ok (fold_left (fun acc i => upd acc i (repeat z (length (nth i acc [])))) idxs rs)
          else match idxs with [] => Ok rs | _ => Err EReject end   (* a scalar in an object row slot *)
      end
  | RRows xss =>
      (* numpy matches the number of rows first (one row broadcasts), then checks the indices *)
      let cnt := sel_count (length rs) sel in
      match (if Nat.eqb (length xss) cnt then Some xss
             else match xss with [xs] => Some (repeat xs cnt) | _ => None end) with
      | None => Err EReject
      | Some vals =>
          match sel_rows (length rs) sel with
          | None => Err EIndex
          | Some idxs => Ok (write_at rs idxs vals)
          end
      end
  end.

Definition set_rowsl_s (rs : list (list Z)) (r : Z) (a b k : option Z) (v : cval) : res (list (list Z)) :=
  match wrap (length rs) r with
  | None => Err EIndex
  | Some i =>
      let row := nth i rs [] in
      match all_some (map (wrap (length row)) (slice_indices (length row) a b k)) with
      | None => Err EIndex
      | Some idxs =>
          match bcast (length idxs) v with
          | None => Err EReject
          | Some vals => Ok (upd rs i (write_at row idxs vals))
          end
      end
  end.

Definition aug_row_s (rs : list (list Z)) (r : Z) (o : binop) (k : Z) : res (list (list Z)) :=
  match wrap (length rs) r with
  | None => Err EIndex
  | Some i => set_row_s rs r (CVec (map (fun x => bin o x k) (nth i rs [])))
  end.

Definition aug_rows_s (rs : list (list Z)) (sel : rowsel) (o : binop) (k : Z) : res (list (list Z)) :=
  match sel_rows (length rs) sel with
  | None => Err EIndex
  | Some idxs => set_rows_s rs sel (RRows (map (fun i => map (fun x => bin o x k) (nth i rs [])) idxs))
  end.

(* cell writes on a list of rows *)
Definition upd2 (rs : list (list Z)) (rc : nat * nat) (v : Z) : list (list Z) :=
  upd rs (fst rc) (upd (nth (fst rc) rs []) (snd rc) v).
Definition write_cells (rs : list (list Z)) (cells : list (nat * nat)) (vals : list Z) : list (list Z) :=
  fold_left (fun acc cv => upd2 acc (fst cv) (snd cv)) (combine cells vals) rs.
Definition get2 (rs : list (list Z)) (rc : nat * nat) : Z := nth (snd rc) (nth (fst rc) rs []) 0.

Definition assign_cells_s (rs : list (list Z)) (cs : list (Z * Z)) (v : bval) : res (list (list Z)) :=
  bind (resolve (map (@length Z) rs) cs) (fun cells =>
  bind (bval_1d v) (fun v1 =>
  match bcast (length cells) v1 with
  | None => Err EReject
  | Some vals => Ok (write_cells rs cells vals)
  end)).

Definition aug_cells_s (rs : list (list Z)) (cs : list (Z * Z)) (o : binop) (k : Z) : res (list (list Z)) :=
  bind (resolve (map (@length Z) rs) cs) (fun cells =>
  Ok (write_cells rs cells (map (fun rc => bin o (get2 rs rc) k) cells))).

(* ------------------------------------------------------------------ route B on the concrete state *)
Definition assign_cells (s : st Z) (cs : list (Z * Z)) (v : bval) : res (st Z) :=
  bind (resolve (lens s) cs) (fun cells =>
  bind (bval_1d v) (fun v1 =>
  match bcast (length cells) v1 with
  | None => Err EReject
  | Some vals =>
      let d := write_at (data s) (map (flat_of (lens s)) cells) vals in
      Ok (mkst d (partition d (lens s)) (lens s))
  end)).

Definition aug_cells (s : st Z) (cs : list (Z * Z)) (o : binop) (k : Z) : res (st Z) :=
  bind (resolve (lens s) cs) (fun cells =>
  let iis := map (flat_of (lens s)) cells in
  let d := write_at (data s) iis (map (fun i => bin o (nth i (data s) 0) k) iis) in
  Ok (mkst d (partition d (lens s)) (lens s))).

(* ------------------------------------------------------------------ operations *)
Inductive op :=
| SetRow (r : Z) (v : cval)                              (* a[r] = v *)
| SetRows (sel : rowsel) (v : rval)                      (* a[i:j:k] = v, a[[..]] = v *)
| SetRowSl (r : Z) (a b k : option Z) (v : cval)         (* a[r, i:j:k] = v *)
| AugRow (r : Z) (o : binop) (k : Z)                     (* a[r] op= k *)
| AugRows (sel : rowsel) (o : binop) (k : Z)             (* a[i:j] op= k *)
| Set2D (rs : rowsel) (cs : colsel) (v : bval)           (* a[rows, cols] = v; a[r, c] is RList [r], CInt c *)
| SetMask (m : list (list bool)) (v : bval)              (* a[mask] = v *)
| Aug2D (rs : rowsel) (cs : colsel) (o : binop) (k : Z)  (* a[rows, cols] op= k *)
| AugMask (m : list (list bool)) (o : binop) (k : Z)     (* a[mask] op= k *)
| Append (vs : list (list Z))                            (* a.append(rows) *)
| AppendFlat (xs : list Z).                              (* a.append(flat sequence): rejected *)

Definition step (s : st Z) (o : op) : res (st Z) :=
  match o with
  | SetRow r v => res_map of_rows (set_row_s (rows s) r v)
  | SetRows sel v => res_map of_rows (set_rows_s (rows s) sel v)
  | SetRowSl r a b k v => res_map of_rows (set_rowsl_s (rows s) r a b k v)
  | AugRow r o k => res_map of_rows (aug_row_s (rows s) r o k)
  | AugRows sel o k => res_map of_rows (aug_rows_s (rows s) sel o k)
  | Set2D rs cs v => bind (cells_of (lens s) rs cs) (fun c => assign_cells s c v)
  | SetMask m v => bind (mask_cells m) (fun c => assign_cells s c v)
  | Aug2D rs cs o k => bind (cells_of (lens s) rs cs) (fun c => aug_cells s c o k)
  | AugMask m o k => bind (mask_cells m) (fun c => aug_cells s c o k)
  | Append vs =>
      match vs with
      | [] => Err EReject
      | _ => let d := data s ++ concat vs in
             let ls := lens s ++ map (@length Z) vs in
             Ok (mkst d (partition d ls) ls)
      end
  | AppendFlat _ => Err EReject
  end.

(* the same operation on a list of rows *)
Definition step_s (rs : list (list Z)) (o : op) : res (list (list Z)) :=
  match o with
  | SetRow r v => set_row_s rs r v
  | SetRows sel v => set_rows_s rs sel v
  | SetRowSl r a b k v => set_rowsl_s rs r a b k v
  | AugRow r o k => aug_row_s rs r o k
  | AugRows sel o k => aug_rows_s rs sel o k
  | Set2D sel cs v => bind (cells_of (map (@length Z) rs) sel cs) (fun c => assign_cells_s rs c v)
  | SetMask m v => bind (mask_cells m) (fun c => assign_cells_s rs c v)
  | Aug2D sel cs o k => bind (cells_of (map (@length Z) rs) sel cs) (fun c => aug_cells_s rs c o k)
  | AugMask m o k => bind (mask_cells m) (fun c => aug_cells_s rs c o k)
  | Append vs => match vs with [] => Err EReject | _ => Ok (rs ++ vs) end
  | AppendFlat _ => Err EReject
  end.

(* a rejected operation leaves the object as it was *)
Definition apply (s : st Z) (o : op) : st Z := match step s o with Ok s' => s' | Err _ => s end.
Definition apply_s (rs : list (list Z)) (o : op) : list (list Z) :=
  match step_s rs o with Ok rs' => rs' | Err _ => rs end.
Definition run (s : st Z) (ops : list op) : st Z := fold_left apply ops s.
Definition run_s (rs : list (list Z)) (ops : list op) : list (list Z) := fold_left apply_s ops rs.

(* ------------------------------------------------------------------ observers *)
(* map_operator: map over the flat data, rewrap with the same lengths, fresh object *)
Definition map_op {A B} (f : A -> B) (s : st A) : st B :=
  let d := map f (data s) in mkst d (partition d (lens s)) (lens s).
Definition zip_op {A B C} (f : A -> B -> C) (s : st A) (t : st B) : res (st C) :=
  if Nat.eqb (length (data s)) (length (data t))
  then let d := map (fun p => f (fst p) (snd p)) (combine (data s) (data t)) in
       Ok (mkst d (partition d (lens s)) (lens s))
  else Err EReject.

Definition nonzero (x : Z) : bool := negb (x =? 0).
Definition obs_all (s : st Z) : bool := forallb nonzero (data s).
Definition obs_any (s : st Z) : bool := existsb nonzero (data s).
Definition obs_max (s : st Z) : option Z :=
  match data s with [] => None | x :: t => Some (fold_left Z.max t x) end.
Definition obs_min (s : st Z) : option Z :=
  match data s with [] => None | x :: t => Some (fold_left Z.min t x) end.
(* a[r, c] read through the flat data *)
Definition get_elem (s : st Z) (rc : Z * Z) : res Z :=
  match cell (lens s) rc with
  | None => Err EIndex
  | Some c => Ok (nth (flat_of (lens s) c) (data s) 0)
  end.

Definition b2z (b : bool) : Z := if b then 1 else 0.

(* a[:, a:b:k] : the selected cells are gathered from the flat data at starts[r] + c and rewrapped with the
   per-row counts as lengths (RaggedArray(sliced_data, lengths=new_lengths)) *)
Definition col_slice (s : st Z) (a b k : option Z) : res (st Z) :=
  bind (cells_of (lens s) (RSlice None None None) (CSlice a b k)) (fun cs =>
  bind (resolve (lens s) cs) (fun cells =>
  of_flat (map (fun c => nth (flat_of (lens s) c) (data s) 0) cells)
          (map (fun l => length (slice_indices l a b k)) (lens s)))).

Inductive obs :=
| OCmp (c : cmpop) (k : Z)                        (* a cmp k *)
| OCmpRA (c : cmpop) (other : list (list Z))      (* a cmp RaggedArray(other) *)
| ONotCmp (c : cmpop) (k : Z)                     (* ~(a cmp k) *)
| OLogic (l : logop) (c1 : cmpop) (k1 : Z) (c2 : cmpop) (k2 : Z)   (* (a c1 k1) & (a c2 k2) *)
| OBin (o : binop) (k : Z)                        (* a op k *)
| ORBin (o : binop) (k : Z)                       (* k op a *)
| OBinRA (o : binop) (other : list (list Z))      (* a op RaggedArray(other) *)
| OAll | OAny | OMax | OMin
| OAllCmp (c : cmpop) (k : Z)                     (* (a cmp k).all() *)
| OAnyCmp (c : cmpop) (k : Z)
| OElem (r c : Z)                                 (* a[r, c] *)
| OStarts                                         (* a.starts: recomputed from lengths on every access *)
| ORow (r : Z)                                    (* a[r]: through the row view *)
| OColSl (a b k : option Z).                      (* a[:, a:b:k]: through the flat data, lengths and starts *)

Inductive oval :=
| VStep (e : option err) (d : list Z) (rs : list (list Z)) (ls : list nat)   (* after a write: outcome + the three slots *)
| VRA (d : list Z) (rs : list (list Z)) (ls : list nat)                      (* a new RaggedArray *)
| VBool (b : bool)
| VZ (z : option Z)
| VNats (l : list nat)
| VZs (l : list Z)
| VErr (e : err).

Definition vra (s : st Z) : oval := VRA (data s) (rows s) (lens s).
Definition vres (x : res (st Z)) : oval := match x with Ok s => vra s | Err e => VErr e end.
Definition boolst (s : st bool) : st Z := map_op b2z s.

Definition observe (s : st Z) (q : obs) : oval :=
  match q with
  | OCmp c k => vra (boolst (map_op (fun x => cmp c x k) s))
  | OCmpRA c other => vres (res_map boolst (zip_op (cmp c) s (of_rows other)))
  | ONotCmp c k => vra (boolst (map_op negb (map_op (fun x => cmp c x k) s)))
  | OLogic l c1 k1 c2 k2 =>
      vres (res_map boolst (zip_op (logic l) (map_op (fun x => cmp c1 x k1) s) (map_op (fun x => cmp c2 x k2) s)))
  | OBin o k => vra (map_op (fun x => bin o x k) s)
  | ORBin o k => vra (map_op (fun x => bin o k x) s)
  | OBinRA o other => vres (zip_op (bin o) s (of_rows other))
  | OAll => VBool (obs_all s)
  | OAny => VBool (obs_any s)
  | OMax => VZ (obs_max s)
  | OMin => VZ (obs_min s)
  | OAllCmp c k => VBool (forallb (fun b => b) (data (map_op (fun x => cmp c x k) s)))
  | OAnyCmp c k => VBool (existsb (fun b => b) (data (map_op (fun x => cmp c x k) s)))
  | OElem r c => match get_elem s (r, c) with Ok z => VZ (Some z) | Err e => VErr e end
  | OStarts => VNats (starts (lens s))
  | ORow r => match wrap (length (rows s)) r with Some i => VZs (nth i (rows s) []) | None => VErr EIndex end
  | OColSl a b k => vres (col_slice s a b k)
  end.

(* ------------------------------------------------------------------ traces for the correspondence *)
Inductive item := IOp (o : op) | IObs (q : obs).

Fixpoint trace (s : st Z) (its : list item) : list oval :=
  match its with
  | [] => []
  | IOp o :: t =>
      match step s o with
      | Ok s' => VStep None (data s') (rows s') (lens s') :: trace s' t
      | Err e => VStep (Some e) (data s) (rows s) (lens s) :: trace s t
      end
  | IObs q :: t => observe s q :: trace s t
  end.

Inductive init := FromRows (rs : list (list Z)) | FromFlat (d : list Z) (ls : list nat).
Definition start (i : init) : res (st Z) :=
  match i with FromRows rs => Ok (of_rows rs) | FromFlat d ls => of_flat d ls end.

Definition full_trace (i : init) (its : list item) : list oval :=
  match start i with
  | Ok s => vra s :: trace s its
  | Err e => [VErr e]
  end.

(* comparison of traces *)
Fixpoint leqb {A} (e : A -> A -> bool) (a b : list A) : bool :=
  match a, b with
  | [], [] => true
  | x :: a', y :: b' => e x y && leqb e a' b'
  | _, _ => false
  end.
Definition err_eqb (a b : err) : bool :=
  match a, b with EIndex, EIndex => true | EReject, EReject => true | _, _ => false end.
Definition oerr_eqb (a b : option err) : bool :=
  match a, b with None, None => true | Some x, Some y => err_eqb x y | _, _ => false end.
Definition oz_eqb (a b : option Z) : bool :=
  match a, b with None, None => true | Some x, Some y => x =? y | _, _ => false end.
Definition slots_eqb (d : list Z) (rs : list (list Z)) (ls : list nat) d' rs' ls' : bool :=
  leqb Z.eqb d d' && leqb (leqb Z.eqb) rs rs' && leqb Nat.eqb ls ls'.
Definition oval_eqb (a b : oval) : bool :=
  match a, b with
  | VStep e d rs ls, VStep e' d' rs' ls' => oerr_eqb e e' && slots_eqb d rs ls d' rs' ls'
  | VRA d rs ls, VRA d' rs' ls' => slots_eqb d rs ls d' rs' ls'
  | VBool x, VBool y => Bool.eqb x y
  | VZ x, VZ y => oz_eqb x y
  | VNats x, VNats y => leqb Nat.eqb x y
  | VZs x, VZs y => leqb Z.eqb x y
  | VErr x, VErr y => err_eqb x y
  | _, _ => false
  end.
Definition check_trace (i : init) (its : list item) (expected : list oval) : bool :=
  leqb oval_eqb (full_trace i its) expected.
