(* C17: enspara/tpt/path.py -- top_path (Dijkstra-style widest-path search), the two path-removal
   schemes and the paths loop.  Executable definitions only; exact arithmetic over Q with
   -inf / +inf adjoined.  Arrays indexed by state (visited, previous_node, min_fluxes, net_flux) are
   total maps nat -> _ ; the flux matrix is read through [of_lists]. *)
From Coq Require Import List Arith QArith Qreduction Bool.
Import ListNotations.
Close Scope Q_scope.

(* ------------------------------------------------------------------ Q u {-inf, +inf} *)
Inductive ext : Type := NInf | Fin (q : Q) | PInf.

Definition Qltb (a b : Q) : bool := negb (Qle_bool b a).

(* a < b  (float comparison `b > a`) *)
Definition eltb (a b : ext) : bool :=
  match a, b with
  | _, NInf => false
  | NInf, _ => true
  | PInf, _ => false
  | Fin _, PInf => true
  | Fin x, Fin y => Qltb x y
  end.

Definition upd {A} (g : nat -> A) (k : nat) (v : A) : nat -> A :=
  fun x => if Nat.eqb x k then v else g x.

Definition memb (x : nat) (l : list nat) : bool := existsb (Nat.eqb x) l.

(* np.argmax: index of the first maximum *)
Fixpoint argmax (l : list ext) : nat :=
  match l with
  | [] => 0
  | x :: r => if eltb x (nth (argmax r) r NInf) then S (argmax r) else 0
  end.

(* np.argmin over finite values: index of the first minimum *)
Fixpoint argminQ (l : list Q) : nat :=
  match l with
  | [] => 0
  | x :: r => match r with
              | [] => 0
              | _ => if Qltb (nth (argminQ r) r 0%Q) x then S (argminQ r) else 0
              end
  end.

Fixpoint remove_nth {A} (i : nat) (l : list A) : list A :=
  match l with
  | [] => []
  | x :: r => match i with 0 => r | S j => x :: remove_nth j r end
  end.

(* ------------------------------------------------------------------ top_path *)
Definition fmat := nat -> nat -> Q.

Definition of_lists (M : list (list Q)) : fmat := fun i j => nth j (nth i M []) 0%Q.

Record st : Type := mkst {
  queue : list nat;            (* the Python list `queue`, duplicates possible *)
  vis : nat -> bool;           (* visited *)
  prev : nat -> option nat;    (* previous_node, None = -1 *)
  mf : nat -> ext              (* min_fluxes *)
}.

Definition init (srcs : list nat) : st :=
  mkst srcs (fun _ => false) (fun _ => None) (fun x => if memb x srcs then PInf else NInf).

(* new_fluxes[new_fluxes > min_fluxes[test_node]] = min_fluxes[test_node] *)
Definition cand (f : fmat) (s : st) (u j : nat) : ext :=
  if eltb (mf s u) (Fin (f u j)) then mf s u else Fin (f u j).

(* np.where(net_flux[test_node, :] > 0)[0] *)
Definition neighbors (n : nat) (f : fmat) (u : nat) : list nat :=
  filter (fun j => Qltb 0%Q (f u j)) (seq 0 n).

(* neighbors[np.where((1 - visited[neighbors]) & (new_fluxes > min_fluxes[neighbors]))] *)
Definition improved (n : nat) (f : fmat) (s : st) (visf : nat -> bool) (u : nat) : list nat :=
  filter (fun j => negb (visf j) && eltb (mf s j) (cand f s u j)) (neighbors n f u).

Inductive step_res : Type := Stop (s : st) | Continue (s : st).

(* one iteration of the while loop (queue non-empty) *)
Definition step (n : nat) (f : fmat) (sinks : list nat) (s : st) : step_res :=
  let i := argmax (map (mf s) (queue s)) in
  let u := nth i (queue s) 0 in
  let q' := remove_nth i (queue s) in
  let vis' := upd (vis s) u true in
  if forallb vis' sinks then Stop (mkst q' vis' (prev s) (mf s))
  else
    let ind := improved n f s vis' u in
    Continue (mkst (q' ++ ind) vis'
                   (fun x => if memb x ind then Some u else prev s x)
                   (fun x => if memb x ind then cand f s u x else mf s x)).

Fixpoint search (fuel : nat) (n : nat) (f : fmat) (sinks : list nat) (s : st) : option st :=
  match queue s with
  | [] => Some s
  | _ => match fuel with
         | 0 => None
         | S k => match step n f sinks s with
                  | Stop s' => Some s'
                  | Continue s' => search k n f sinks s'
                  end
         end
  end.

(* while previous_node[top_path[-1]] != -1: top_path.append(previous_node[top_path[-1]]); reversed *)
Fixpoint backtrack (fuel : nat) (pr : nat -> option nat) (v : nat) (acc : list nat) : option (list nat) :=
  match pr v with
  | None => Some (v :: acc)
  | Some u => match fuel with
              | 0 => None
              | S k => backtrack k pr u (v :: acc)
              end
  end.

(* Ok = value returned; IndexErr / ValueErr = the exception the code raises; Fuel = model ran out of
   fuel (never equal to anything the implementation does) *)
Inductive res (A : Type) : Type := Ok (a : A) | IndexErr | ValueErr | Fuel.
Arguments Ok {A} a.
Arguments IndexErr {A}.
Arguments ValueErr {A}.
Arguments Fuel {A}.

Definition in_range (n : nat) (l : list nat) : bool := forallb (fun x => x <? n) l.

Definition search_fuel (n : nat) (srcs : list nat) : nat := length srcs + n * n + 1.

Definition top_path (n : nat) (f : fmat) (srcs sinks : list nat) : res (list nat * ext) :=
  if negb (in_range n srcs && in_range n sinks) then IndexErr
  else match sinks with
       | [] => ValueErr                       (* argmax of an empty sequence *)
       | _ =>
         match search (search_fuel n srcs) n f sinks (init srcs) with
         | None => Fuel
         | Some s =>
           let t := nth (argmax (map (mf s) sinks)) sinks 0 in
           match backtrack n (prev s) t [] with
           | None => Fuel
           | Some p => Ok (p, mf s t)
           end
         end
       end.

(* ------------------------------------------------------------------ path removal *)
Fixpoint edges (p : list nat) : list (nat * nat) :=
  match p with
  | a :: t => match t with
              | b :: _ => (a, b) :: edges t
              | [] => []
              end
  | [] => []
  end.

Definition eqe (e : nat * nat) (a b : nat) : bool := Nat.eqb (fst e) a && Nat.eqb (snd e) b.
Definition on_path (es : list (nat * nat)) (a b : nat) : bool := existsb (fun e => eqe e a b) es.
Definition set0 (f : fmat) (e : nat * nat) : fmat := fun a b => if eqe e a b then 0%Q else f a b.
Definition evals (f : fmat) (es : list (nat * nat)) : list Q := map (fun e => f (fst e) (snd e)) es.
Definition minQ (l : list Q) : Q := nth (argminQ l) l 0%Q.

(* _remove_bottleneck *)
Definition remove_bottleneck (f : fmat) (p : list nat) : fmat :=
  let es := edges p in
  set0 f (nth (argminQ (evals f es)) es (0, 0)).

(* _subtract_path_flux *)
Definition subtract_path (f : fmat) (p : list nat) : fmat :=
  let es := edges p in
  let m := minQ (evals f es) in
  let f1 : fmat := fun a b => if on_path es a b then Qred (f a b - m)%Q else f a b in
  set0 f1 (nth (argminQ (evals f1 es)) es (0, 0)).

(* ------------------------------------------------------------------ paths *)
Definition qsum (l : list Q) : Q := fold_right Qplus 0%Q l.
Definition rowsum (n : nat) (f : fmat) (s : nat) : Q := qsum (map (f s) (seq 0 n)).
(* net_flux[sources, :].sum() *)
Definition total_flux (n : nat) (f : fmat) (srcs : list nat) : Q := qsum (map (rowsum n f) srcs).

Definition reached_count (npaths : option nat) (counter : nat) : bool :=
  match npaths with Some m => m <=? counter | None => false end.

Fixpoint paths_loop (fuel : nat) (remove : fmat -> list nat -> fmat) (n : nat) (srcs sinks : list nat)
         (f : fmat) (total : Q) (npaths : option nat) (cutoff : Q)
         (counter : nat) (expl : Q) (accp : list (list nat)) (accf : list Q)
  : res (list (list nat) * list Q) :=
  match fuel with
  | 0 => Fuel
  | S k =>
    match top_path n f srcs sinks with
    | Ok (p, Fin q) =>
      let expl' := Qred (expl + q / total)%Q in
      let counter' := S counter in
      if reached_count npaths counter' || Qle_bool cutoff expl'
      then Ok (rev (p :: accp), rev (q :: accf))
      else paths_loop k remove n srcs sinks (remove f p) total npaths cutoff counter' expl'
                      (p :: accp) (q :: accf)
    | Ok (_, _) => Ok (rev accp, rev accf)          (* np.isinf(flux): break *)
    | IndexErr => IndexErr
    | ValueErr => ValueErr
    | Fuel => Fuel
    end
  end.

Definition paths (remove : fmat -> list nat -> fmat) (n : nat) (f : fmat) (srcs sinks : list nat)
           (npaths : option nat) (cutoff : Q) : res (list (list nat) * list Q) :=
  paths_loop (n * n + 2) remove n srcs sinks f (total_flux n f srcs) npaths cutoff 0 0%Q [] [].

(* ------------------------------------------------------------------ comparison helpers (harness) *)
Definition ext_eqb (a b : ext) : bool :=
  match a, b with
  | NInf, NInf => true
  | PInf, PInf => true
  | Fin x, Fin y => Qeq_bool x y
  | _, _ => false
  end.

Fixpoint nl_eqb (a b : list nat) : bool :=
  match a, b with
  | [], [] => true
  | x :: a', y :: b' => Nat.eqb x y && nl_eqb a' b'
  | _, _ => false
  end.

Fixpoint all2 {A} (e : A -> A -> bool) (a b : list A) : bool :=
  match a, b with
  | [], [] => true
  | x :: a', y :: b' => e x y && all2 e a' b'
  | _, _ => false
  end.

(* expected: 0 = value, 1 = IndexError, 2 = ValueError *)
Definition top_eqb (r : res (list nat * ext)) (code : nat) (p : list nat) (fl : ext) : bool :=
  match r, code with
  | Ok (p', fl'), 0 => nl_eqb p' p && ext_eqb fl' fl
  | IndexErr, 1 => true
  | ValueErr, 2 => true
  | _, _ => false
  end.

Definition paths_eqb (r : res (list (list nat) * list Q)) (code : nat) (ps : list (list nat)) (fl : list Q) : bool :=
  match r, code with
  | Ok (ps', fl'), 0 => all2 nl_eqb ps' ps && all2 Qeq_bool fl' fl
  | IndexErr, 1 => true
  | ValueErr, 2 => true
  | _, _ => false
  end.

(* bottleneck of a path: minimum over its edges (+inf for a single node) *)
Definition emin (a b : ext) : ext := if eltb b a then b else a.
Definition bottleneck (f : fmat) (p : list nat) : ext :=
  fold_right (fun e acc => emin (Fin (f (fst e) (snd e))) acc) PInf (edges p).

(* executable validity test of a returned pathway (used by examples) *)
Definition nodupb (l : list nat) : bool :=
  (fix go (l : list nat) := match l with [] => true | x :: r => negb (memb x r) && go r end) l.
Definition valid_pathb (n : nat) (f : fmat) (srcs sinks p : list nat) : bool :=
  match p with
  | [] => false
  | a :: _ => memb a srcs && memb (last p 0) sinks && nodupb p && in_range n p
              && forallb (fun e => Qltb 0%Q (f (fst e) (snd e))) (edges p)
  end.

(* executable description of "acyclic conserved flow" (used in the refutation witness for finding F2):
   nothing flows into a source or out of a sink, inflow = outflow elsewhere, and every positive edge
   goes forward in the listed order of all states *)
Definition colsum (n : nat) (f : fmat) (v : nat) : Q := qsum (map (fun u => f u v) (seq 0 n)).
Definition conservedb (n : nat) (f : fmat) (srcs sinks : list nat) : bool :=
  forallb (fun v => if memb v srcs then Qeq_bool (colsum n f v) 0%Q
                    else if memb v sinks then Qeq_bool (rowsum n f v) 0%Q
                    else Qeq_bool (colsum n f v) (rowsum n f v)) (seq 0 n).
Fixpoint index_of (x : nat) (l : list nat) : nat :=
  match l with [] => 0 | y :: r => if Nat.eqb x y then 0 else S (index_of x r) end.
Definition forwardb (n : nat) (f : fmat) (ord : list nat) : bool :=
  nodupb ord && forallb (fun v => memb v ord) (seq 0 n) &&
  forallb (fun a => forallb (fun b => negb (Qltb 0%Q (f a b)) || (index_of a ord <? index_of b ord))
                            (seq 0 n)) (seq 0 n).
