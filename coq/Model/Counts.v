(* C03: transition counting.  Executable definitions only. *)
From Coq Require Import List ZArith Bool.
From EV Require Import PySlice CountsGen.
Import ListNotations.
Open Scope Z_scope.

(* assigns_to_counts: a[np.where(a != -1)] *)
Definition strip (t : list Z) : list Z := filter gen_keep t.

(* np.row_stack((start_states, end_states)) -> columns are the pairs *)
Definition traj_pairs (sliding : bool) (lag : Z) (t : list Z) : list (Z * Z) :=
  let a := strip t in
  combine (gen_start_states a lag sliding) (gen_end_states a lag sliding).

Definition all_pairs (sliding : bool) (lag : Z) (trjs : list (list Z)) : list (Z * Z) :=
  flat_map (traj_pairs sliding lag) trjs.

Definition count_pair (ps : list (Z * Z)) (i j : Z) : nat :=
  length (filter (fun p => (fst p =? i) && (snd p =? j)) ps).

Definition zmax_list (l : list Z) : Z := fold_left Z.max l (-1).

(* max_n_states = np.concatenate(assigns).max() + 1 when not given *)
Definition n_states (maxn : option Z) (trjs : list (list Z)) : Z :=
  match maxn with
  | Some n => n
  | None => gen_infer_n_states (zmax_list (flat_map strip trjs))
  end.

Definition zseq (n : Z) : list Z := map Z.of_nat (seq 0 (Z.to_nat n)).

(* coo_matrix((ones, coords), shape=(n, n)).toarray(): duplicates summed; a coordinate outside
   the shape is an error (None) *)
Definition counts_matrix (sliding : bool) (lag : Z) (maxn : option Z) (trjs : list (list Z))
  : option (list (list nat)) :=
  let ps := all_pairs sliding lag trjs in
  let n := n_states maxn trjs in
  if forallb (fun p => (0 <=? fst p) && (fst p <? n) && (0 <=? snd p) && (snd p <? n)) ps
  then Some (map (fun i => map (fun j => count_pair ps i j) (zseq n)) (zseq n))
  else None.

(* the public function: the lag validation of the source in front of the matrix construction *)
Definition assigns_to_counts (sliding : bool) (lag : Z) (maxn : option Z) (trjs : list (list Z))
  : option (list (list nat)) :=
  if gen_lag_invalid lag then None else counts_matrix sliding lag maxn trjs.
