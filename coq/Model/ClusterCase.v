(* Comparison helper for clustering case files. *)
From Coq Require Import List ZArith QArith Bool.
From EV Require Import Cluster.
Import ListNotations.

Fixpoint nat_list_eqb (a b : list nat) : bool :=
  match a, b with
  | [], [] => true
  | x :: a', y :: b' => Nat.eqb x y && nat_list_eqb a' b'
  | _, _ => false
  end.
Fixpoint q_list_eqb (a b : list Q) : bool :=
  match a, b with
  | [], [] => true
  | x :: a', y :: b' => Qeq_bool x y && q_list_eqb a' b'
  | _, _ => false
  end.
(* model state vs (centre indices, labels, distances) reported by the implementation *)
Definition st_eqb (s : st) (r : list nat * list nat * list Q) : bool :=
  let '(c, a, d) := r in
  nat_list_eqb (fst s) c && nat_list_eqb (labels s) a && q_list_eqb (dists s) d.
Definition st_show (s : st) : list nat * list nat * list Q := (fst s, labels s, dists s).
