(* Comparison helper for clustering case files. *)
From Coq Require Import List ZArith QArith Bool.
From EV Require Import Cluster.
Import ListNotations.

Fixpoint nat_list_eqb (a b : list nat) : bool :=
  match a, b with
  | [], [] => true
  | x :: a', y :: b' => Nat.eqb x y && nat_list_eqb a' b'
  | _, _ => false
  end.
Fixpoint q_list_eqb (a b : list Q) : bool :=
  match a, b with
  | [], [] => true
  | x :: a', y :: b' => Qeq_bool x y && q_list_eqb a' b'
  | _, _ => false
  end.
(* model state vs (centre indices, labels, distances) reported by the implementation *)
Definition st_eqb (s : st) (r : list nat * list nat * list Q) : bool :=
  let '(c, a, d) := r in
  nat_list_eqb (fst s) c && nat_list_eqb (labels s) a && q_list_eqb (dists s) d.
Definition st_show (s : st) : list nat * list nat * list Q := (fst s, labels s, dists s).

(* The implementation's distance matrix as a total oracle: inside [0,n)x[0,n) the matrix, outside
   (never evaluated by a run on n frames) any value consistent with "distinct points". *)
Definition Dext (m : list (list Q)) (n : nat) (c f : nat) : Q :=
  if (c <? n) && (f <? n) then Dm m c f else if c =? f then 0 else 1.
(* zero diagonal, positive off-diagonal: the data points are pairwise distinct under the metric *)
Definition valid_matrix (m : list (list Q)) (n : nat) : bool :=
  forallb (fun c => forallb (fun f => if c =? f then Qeq_bool (Dm m c f) 0 else Qlt_b 0 (Dm m c f))
                            (seq 0 n)) (seq 0 n).
Definition sym_matrix (m : list (list Q)) (n : nat) : bool :=
  forallb (fun c => forallb (fun f => Qeq_bool (Dm m c f) (Dm m f c)) (seq 0 n)) (seq 0 n).
Definition tri_matrix (m : list (list Q)) (n : nat) : bool :=
  forallb (fun a => forallb (fun b => forallb (fun c => Qle_bool (Dm m a c) (Dm m a b + Dm m b c))
                                              (seq 0 n)) (seq 0 n)) (seq 0 n).
