(* C05 -- executable model of the read path of enspara/ra/ra.py (RaggedArray).
   Concrete side ([conc], [get_c], ...): the class's representation -- flat data + row lengths, starts by
   cumulative sum -- and the code's index arithmetic (_convert_from_2d, _handle_negative_indices,
   _get_iis_from_slices, _get_iis_from_list, _slice_to_list, where/_convert_from_1d, the constructor).
   Abstract side ([get_s], ...): the same read on a plain list of rows (Python/NumPy indexing of each row).
   No proofs here (Proof/RaggedProofs.v). *)
From Coq Require Import List ZArith Bool Lia.
From EV Require Import PySlice.
Import ListNotations.

Set Implicit Arguments.

(* ---------------------------------------------------------------- generic helpers *)
Fixpoint map_opt {A B} (f : A -> option B) (l : list A) : option (list B) :=
  match l with
  | [] => Some []
  | x :: r => match f x, map_opt f r with
              | Some y, Some ys => Some (y :: ys)
              | _, _ => None
              end
  end.

Definition sum_nat (l : list nat) : nat := fold_right Nat.add 0%nat l.

(* Python slice object (start, stop, step); a zero step raises ValueError everywhere *)
Definition pslice := (option Z * option Z * option Z)%type.
Definition sl_ok (sl : pslice) : bool :=
  match sl with (_, _, Some k) => negb (k =? 0)%Z | _ => true end.
(* range( *sl.indices(n)) *)
Definition sl_indices (n : nat) (sl : pslice) : list Z :=
  let '(s, e, k) := sl in slice_indices n s e k.
(* l[sl] on a Python list / 1-D ndarray *)
Definition sl_list {A} (l : list A) (sl : pslice) : list A :=
  let '(s, e, k) := sl in slice_list l s e k.

(* integer index into a sequence of length n, as Python/NumPy: negative wraps once, else IndexError *)
Definition norm_index (n : nat) (i : Z) : option nat :=
  if (0 <=? i)%Z && (i <? Z.of_nat n)%Z then Some (Z.to_nat i)
  else if (- Z.of_nat n <=? i)%Z && (i <? 0)%Z then Some (Z.to_nat (i + Z.of_nat n))
  else None.

Definition get_item {A} (l : list A) (i : Z) : option A :=
  match norm_index (length l) i with Some j => nth_error l j | None => None end.

(* partition_list: cut the flat data into rows of the given lengths *)
Fixpoint partition {A} (d : list A) (lens : list nat) : list (list A) :=
  match lens with
  | [] => []
  | l :: r => firstn l d :: partition (skipn l d) r
  end.

(* starts = np.append([0], np.cumsum(lengths)[:-1])  (for at least one row) *)
Fixpoint starts_from (s : nat) (lens : list nat) : list nat :=
  match lens with
  | [] => []
  | l :: r => s :: starts_from (s + l) r
  end.
Definition starts_of (lens : list nat) : list nat := starts_from 0 lens.

(* ---------------------------------------------------------------- index grammar and results *)
Inductive idx :=
| Row (r : Z)                               (* a[r]              *)
| Rows (sl : pslice)                        (* a[s:e:k]          *)
| RowList (rs : list Z)                     (* a[[r0, r1, ..]]   *)
| Elem (r c : Z)                            (* a[r, c]           *)
| Pairs (rs cs : list Z)                    (* a[[r0,..],[c0,..]] *)
| PairsScalar (rs : list Z) (c : Z)         (* a[[r0,..], c]     *)
| ElemList (r : Z) (cs : list Z)            (* a[r, [c0,..]]     *)
| Sl2SS (rsl csl : pslice)                  (* a[s:e:k, s':e':k'] *)
| Sl2LS (rs : list Z) (csl : pslice)        (* a[[r0,..], s:e:k] *)
| Sl2SI (rsl : pslice) (c : Z)              (* a[s:e:k, c]       *)
| Sl2SL (rsl : pslice) (cs : list Z)        (* a[s:e:k, [c0,..]] *)
| RowSl (r : Z) (sl : pslice)               (* a[r, s:e:k]       *)
| Mask (m : list (list bool)).              (* a[boolean RaggedArray] *)

(* Val: a RaggedArray (its rows); Flat: a 1-D array of elements; Err: the read raises *)
Inductive result (A : Type) :=
| Val (rows : list (list A))
| Flat (xs : list A)
| Err.
Arguments Err {A}.

(* ---------------------------------------------------------------- concrete representation *)
Record conc (A : Type) := mkRA { data : list A; lens : list nat }.

(* the row view _array the constructor builds from _data and lengths *)
Definition rows_c {A} (s : conc A) : list (list A) := partition (data s) (lens s).
Definition abs {A} (s : conc A) : list (list A) := rows_c s.

(* RaggedArray(list of rows): _data = concatenate, lengths = [len(i) for i in array] *)
Definition ctor_nested {A} (rows : list (list A)) : conc A := mkRA (concat rows) (map (@length A) rows).
(* RaggedArray(flat, lengths=..): DataInvalid unless the lengths add up *)
Definition ctor_flat {A} (d : list A) (ls : list nat) : option (conc A) :=
  if Nat.eqb (sum_nat ls) (length d) then Some (mkRA d ls) else None.

Definition wf {A} (s : conc A) : Prop := sum_nat (lens s) = length (data s).
Definition wfb {A} (s : conc A) : bool := Nat.eqb (sum_nat (lens s)) (length (data s)).

(* _handle_negative_indices + the bound test + starts[r] + c of _convert_from_2d, for one (r, c) *)
Definition conv2d (ls : list nat) (r c : Z) : option nat :=
  let n := Z.of_nat (length ls) in
  let r1 := if (r <? 0)%Z then (r + n)%Z else r in
  if (r1 <? 0)%Z then None                                   (* raise IndexError() *)
  else match nth_error ls (Z.to_nat r1) with
       | None => None                                        (* NumPy: lengths[r] out of bounds *)
       | Some l =>
         let c1 := if (c <? 0)%Z then (c + Z.of_nat l)%Z else c in
         if (c1 <? 0)%Z then None                            (* raise IndexError() *)
         else if (Z.of_nat l <=? c1)%Z then None             (* lengths[r] <= c : IndexError *)
         else Some (nth (Z.to_nat r1) (starts_of ls) 0 + Z.to_nat c1)%nat
       end.

(* a[[r0,..],[c0,..]]: the two index vectors are paired the way NumPy pairs index arrays, by broadcasting:
   element by element when equally long, a one-entry vector against every entry of the other
   (_convert_from_2d: np.broadcast_arrays); any other pair of lengths raises *)
Definition bpairs (rs cs : list Z) : option (list (Z * Z)) :=
  if Nat.eqb (length rs) (length cs) then Some (combine rs cs)
  else match rs, cs with
       | _, [c] => Some (map (fun r => (r, c)) rs)
       | [r], _ => Some (map (fun c => (r, c)) cs)
       | _, _ => None
       end.

(* _data[_convert_from_2d(iis)] for a vector of (row, col) pairs: any bad pair makes the whole read raise *)
Definition gather {A} (s : conc A) (pairs : list (Z * Z)) : option (list A) :=
  match map_opt (fun p => conv2d (lens s) (fst p) (snd p)) pairs with
  | None => None
  | Some fl => map_opt (nth_error (data s)) fl
  end.

(* _get_iis_from_slices (repaired: per row, range( *sl.indices(lengths[row]))) *)
Definition iis_from_slices (ls : list nat) (rows : list Z) (sl : pslice)
  : option (list (Z * Z) * list nat) :=
  match map_opt (fun r => match get_item ls r with      (* lengths[num]: NumPy integer index *)
                          | None => None
                          | Some l => Some (map (fun c => (r, c)) (sl_indices l sl))
                          end) rows with
  | None => None
  | Some groups => Some (concat groups, map (@length (Z * Z)) groups)
  end.

(* _get_iis_from_list: itertools.product(rows, cols), every new row has len(cols) entries *)
Definition iis_from_list (rows cs : list Z) : list (Z * Z) * list nat :=
  (list_prod rows cs, repeat (length cs) (length rows)).

(* RaggedArray(sliced_data, lengths=new_lengths) read back as rows *)
Definition rebuild {A} (d : option (list A)) (newlens : list nat) : result A :=
  match d with
  | None => Err
  | Some xs => match ctor_flat xs newlens with
               | Some s' => Val (rows_c s')
               | None => Err
               end
  end.

Definition flat_result {A} (d : option (list A)) : result A :=
  match d with None => Err | Some xs => Flat xs end.

(* np.where(mask._data)[0] *)
Fixpoint true_positions_from (i : nat) (l : list bool) : list nat :=
  match l with
  | [] => []
  | b :: r => if b then i :: true_positions_from (S i) r else true_positions_from (S i) r
  end.
(* np.where(starts <= ii)[0][-1] *)
Fixpoint last_le_from (j : nat) (starts : list nat) (ii : nat) (acc : option nat) : option nat :=
  match starts with
  | [] => acc
  | s :: r => last_le_from (S j) r ii (if Nat.leb s ii then Some j else acc)
  end.
(* _convert_from_1d for one flat position *)
Definition conv1d (starts : list nat) (ii : nat) : option (nat * nat) :=
  match last_le_from 0 starts ii None with
  | None => None
  | Some r => Some (r, ii - nth r starts 0)%nat
  end.
(* ra.where(mask) for a boolean RaggedArray built from nested lists *)
Definition where_c (m : list (list bool)) : option (list (nat * nat)) :=
  let mc := ctor_nested m in
  map_opt (conv1d (starts_of (lens mc))) (true_positions_from 0 (data mc)).

Definition zpair (p : nat * nat) : Z * Z := (Z.of_nat (fst p), Z.of_nat (snd p)).

(* RaggedArray.__getitem__ *)
Definition get_c {A} (s : conc A) (i : idx) : result A :=
  match i with
  | Row r => flat_result (get_item (rows_c s) r)                                   (* self._array[iis] *)
  | Rows sl => if sl_ok sl then Val (rows_c (ctor_nested (sl_list (rows_c s) sl))) else Err
  | RowList rs => match map_opt (get_item (rows_c s)) rs with
                  | None => Err
                  | Some rows => Val (rows_c (ctor_nested rows))
                  end
  | Elem r c => flat_result (gather s [(r, c)])
  | Pairs rs cs => match bpairs rs cs with Some ps => flat_result (gather s ps) | None => Err end
  | PairsScalar rs c => flat_result (gather s (map (fun r => (r, c)) rs))
  | ElemList r cs => flat_result (gather s (map (fun c => (r, c)) cs))
  | Sl2SS rsl csl =>
      if sl_ok rsl && sl_ok csl then
        match iis_from_slices (lens s) (sl_indices (length (lens s)) rsl) csl with
        | None => Err
        | Some (iis, nl) => rebuild (gather s iis) nl
        end
      else Err
  | Sl2LS rs csl =>
      if sl_ok csl then
        match iis_from_slices (lens s) rs csl with
        | None => Err
        | Some (iis, nl) => rebuild (gather s iis) nl
        end
      else Err
  | Sl2SI rsl c =>
      if sl_ok rsl then
        let '(iis, nl) := iis_from_list (sl_indices (length (lens s)) rsl) [c] in rebuild (gather s iis) nl
      else Err
  | Sl2SL rsl cs =>
      if sl_ok rsl then
        let '(iis, nl) := iis_from_list (sl_indices (length (lens s)) rsl) cs in rebuild (gather s iis) nl
      else Err
  | RowSl r sl => if sl_ok sl then
                    match get_item (rows_c s) r with
                    | None => Err
                    | Some row => Flat (sl_list row sl)
                    end
                  else Err
  | Mask m => match where_c m with
              | None => Err
              | Some ps => flat_result (gather s (map zpair ps))
              end
  end.

(* attributes *)
Definition all_equal (l : list nat) : option nat :=
  match l with
  | [] => None
  | x :: r => if forallb (Nat.eqb x) r then Some x else None
  end.
Definition attr_lengths {A} (s : conc A) := lens s.
Definition attr_starts {A} (s : conc A) := starts_of (lens s).
Definition attr_len {A} (s : conc A) := length (rows_c s).
Definition attr_shape2 {A} (s : conc A) := all_equal (lens s).       (* None = ragged second dimension *)
Definition attr_size {A} (s : conc A) := length (data s).
Definition attr_iter {A} (s : conc A) := rows_c s.
Definition attr_flatten {A} (s : conc A) := data s.

(* ---------------------------------------------------------------- list-of-rows semantics *)
Definition elem_s {A} (rows : list (list A)) (r c : Z) : option A :=
  match get_item rows r with
  | None => None
  | Some row => get_item row c
  end.

(* positions of the True entries of a list of boolean rows, row-major *)
Fixpoint where_rows_from (i : nat) (m : list (list bool)) : list (nat * nat) :=
  match m with
  | [] => []
  | row :: r => map (fun j => (i, j)) (true_positions_from 0 row) ++ where_rows_from (S i) r
  end.
Definition where_s (m : list (list bool)) : list (nat * nat) := where_rows_from 0 m.

Definition val_result {A} (d : option (list (list A))) : result A :=
  match d with None => Err | Some rows => Val rows end.

Definition get_s {A} (rows : list (list A)) (i : idx) : result A :=
  match i with
  | Row r => flat_result (get_item rows r)
  | Rows sl => if sl_ok sl then Val (sl_list rows sl) else Err
  | RowList rs => val_result (map_opt (get_item rows) rs)
  | Elem r c => flat_result (map_opt (fun p => elem_s rows (fst p) (snd p)) [(r, c)])
  | Pairs rs cs => match bpairs rs cs with
                   | Some ps => flat_result (map_opt (fun p => elem_s rows (fst p) (snd p)) ps)
                   | None => Err
                   end
  | PairsScalar rs c => flat_result (map_opt (fun r => elem_s rows r c) rs)
  | ElemList r cs => flat_result (map_opt (fun c => elem_s rows r c) cs)
  | Sl2SS rsl csl => if sl_ok rsl && sl_ok csl
                     then Val (map (fun row => sl_list row csl) (sl_list rows rsl)) else Err
  | Sl2LS rs csl => if sl_ok csl
                    then val_result (map_opt (fun r => match get_item rows r with
                                                       | None => None
                                                       | Some row => Some (sl_list row csl)
                                                       end) rs)
                    else Err
  | Sl2SI rsl c => if sl_ok rsl
                   then val_result (map_opt (fun row => match get_item row c with
                                                        | None => None
                                                        | Some x => Some [x]
                                                        end) (sl_list rows rsl))
                   else Err
  | Sl2SL rsl cs => if sl_ok rsl
                    then val_result (map_opt (fun row => map_opt (get_item row) cs) (sl_list rows rsl))
                    else Err
  | RowSl r sl => if sl_ok sl then
                    match get_item rows r with
                    | None => Err
                    | Some row => Flat (sl_list row sl)
                    end
                  else Err
  | Mask m => flat_result (map_opt (fun p => elem_s rows (Z.of_nat (fst p)) (Z.of_nat (snd p))) (where_s m))
  end.

(* a[mask] when the mask has the array's row structure: the kept elements of every row, in order *)
Fixpoint keep {A} (row : list A) (m : list bool) : list A :=
  match row, m with
  | x :: r, b :: mr => if b then x :: keep r mr else keep r mr
  | _, _ => []
  end.
Fixpoint mask_rows {A} (rows : list (list A)) (m : list (list bool)) : list A :=
  match rows, m with
  | row :: r, mrow :: mr => keep row mrow ++ mask_rows r mr
  | _, _ => []
  end.

(* ---------------------------------------------------------------- comparison helpers for case files *)
Fixpoint zlist_eqb (a b : list Z) : bool :=
  match a, b with
  | [], [] => true
  | x :: a', y :: b' => (x =? y)%Z && zlist_eqb a' b'
  | _, _ => false
  end.
Fixpoint zll_eqb (a b : list (list Z)) : bool :=
  match a, b with
  | [], [] => true
  | x :: a', y :: b' => zlist_eqb x y && zll_eqb a' b'
  | _, _ => false
  end.
Fixpoint nlist_eqb (a b : list nat) : bool :=
  match a, b with
  | [], [] => true
  | x :: a', y :: b' => Nat.eqb x y && nlist_eqb a' b'
  | _, _ => false
  end.
Definition result_eqb (a b : result Z) : bool :=
  match a, b with
  | Val x, Val y => zll_eqb x y
  | Flat x, Flat y => zlist_eqb x y
  | Err, Err => true
  | _, _ => false
  end.
Definition where_eqb (w : option (list (nat * nat))) (rs cs : list nat) : bool :=
  match w with
  | None => false
  | Some ps => nlist_eqb (map fst ps) rs && nlist_eqb (map snd ps) cs
  end.
Definition onat_eqb (a b : option nat) : bool :=
  match a, b with
  | None, None => true
  | Some x, Some y => Nat.eqb x y
  | _, _ => false
  end.
Definition check_attrs (s : conc Z) (lengths starts : list nat) (len : nat) (shape2 : option nat) (size : nat)
           (iter : list (list Z)) (flatten : list Z) : bool :=
  wfb s && nlist_eqb (attr_lengths s) lengths && nlist_eqb (attr_starts s) starts && Nat.eqb (attr_len s) len
  && onat_eqb (attr_shape2 s) shape2 && Nat.eqb (attr_size s) size && zll_eqb (attr_iter s) iter
  && zlist_eqb (attr_flatten s) flatten.
Definition show_attrs (s : conc Z) :=
  (attr_lengths s, attr_starts s, attr_len s, attr_shape2 s, attr_size s, attr_iter s, attr_flatten s).
