(* Model/Masked.v -- NumPy's masked element-wise operation  ufunc(x, where=m, out=init)  with the
   heap made explicit (property C19).

   NumPy semantics (documented for every ufunc): "at locations where the condition is True, the
   out array will be set to the ufunc result; elsewhere, the out array will retain its original
   value.  If an uninitialised out array is created via the default out=None, locations within
   it where the condition is False will remain uninitialised."  So the cells of the result at
   masked-out positions are those of `init`: the caller's buffer when out= is given, whatever
   the allocator hands out (`junk`, a universally quantified vector) when it is not.

   Arrays are flattened (broadcasting is modelled, not verified: x, m and init have been
   broadcast to the common shape).  Executable definitions only; proofs are in
   Proof/MaskedProofs.v; the per-call-site instances are generated into Gen/MaskedSites.v by
   translator/sites.py on every run. *)
From Coq Require Import List Bool Arith QArith.
Import ListNotations.

Set Implicit Arguments.

(* ------------------------------------------------------------------ the masked operation *)
Fixpoint masked (A B : Type) (f : A -> B) (x : list A) (m : list bool) (init : list B) : list B :=
  match x, m, init with
  | xi :: x', mi :: m', ii :: init' => (if mi then f xi else ii) :: masked f x' m' init'
  | _, _, _ => []
  end.

(* shapes that NumPy accepts (after broadcasting): mask and out have the shape of the operand;
   anything else raises ValueError -- modelled as None *)
Definition shape_ok (A B : Type) (x : list A) (m : list bool) (init : list B) : bool :=
  Nat.eqb (length m) (length x) && Nat.eqb (length init) (length x).

Definition masked_np (A B : Type) (f : A -> B) (x : list A) (m : list bool) (init : list B)
  : option (list B) :=
  if shape_ok x m init then Some (masked f x m init) else None.

(* binary ufuncs (np.divide(a, b, where=, out=)): the two operands broadcast to one shape *)
Definition masked2 (A1 A2 B : Type) (f : A1 -> A2 -> B) (x : list A1) (y : list A2)
           (m : list bool) (init : list B) : list B :=
  masked (fun p => f (fst p) (snd p)) (combine x y) m init.

(* np.zeros(shape) / np.zeros_like(a) / np.full(shape, v) / np.ones(shape): every cell written *)
Definition filled (B : Type) (v : B) (n : nat) : list B := repeat v n.

(* two candidate initial buffers agree on every position the mask leaves untouched *)
Fixpoint agree_out (B : Type) (m : list bool) (a b : list B) : Prop :=
  match m, a, b with
  | mi :: m', ai :: a', bi :: b' => (mi = false -> ai = bi) /\ agree_out m' a' b'
  | _, _, _ => True
  end.

Definition all_masked_in (m : list bool) : bool := forallb (fun b => b) m.

(* ------------------------------------------------------------------ a float-like carrier
   Finite values are exact rationals; NaN is absorbing for + and * (in particular 0 * NaN = NaN,
   which is why "multiply by p afterwards" does not repair an uninitialised log p) and every
   comparison with NaN is false. *)
Inductive fl : Type := Fin (q : Q) | NaN.

Definition fl_add (a b : fl) : fl := match a, b with Fin x, Fin y => Fin (x + y) | _, _ => NaN end.
Definition fl_mul (a b : fl) : fl := match a, b with Fin x, Fin y => Fin (x * y) | _, _ => NaN end.
Definition fl_neg (a : fl) : fl := match a with Fin x => Fin (- x) | NaN => NaN end.
Definition fl_div (a b : fl) : fl :=
  match a, b with
  | Fin x, Fin y => if Qeq_bool y 0 then NaN else Fin (x / y)   (* 0/0 = NaN; x/0 = inf is not modelled *)
  | _, _ => NaN
  end.
Definition fl_pos (a : fl) : bool := match a with Fin x => negb (Qle_bool x 0) | NaN => false end.
Definition fl_nonzero (a : fl) : bool := match a with Fin x => negb (Qeq_bool x 0) | NaN => true end.
Definition fl_is_nan (a : fl) : bool := match a with Fin _ => false | NaN => true end.
Definition fl_finite (a : fl) : Prop := match a with Fin _ => True | NaN => False end.
Definition fl_sum (l : list fl) : fl := fold_right fl_add (Fin 0) l.

Fixpoint map2 (A B C : Type) (f : A -> B -> C) (a : list A) (b : list B) : list C :=
  match a, b with
  | x :: a', y :: b' => f x y :: map2 f a' b'
  | _, _ => []
  end.

(* ------------------------------------------------------------------ downstream of the sites
   shannon_entropy (entropy.py):  log_p = np.log(p, where=(p > 0), out=<init>);
                                  H = -np.sum(p * log_p)
   `lg` stands for the logarithm on finite positive arguments (its values are irrelevant here). *)
Definition entropy_with (lg : fl -> fl) (p : list fl) (init : list fl) : fl :=
  fl_neg (fl_sum (map2 fl_mul p (masked lg p (map fl_pos p) init))).

(* the repaired code: out=np.zeros(np.shape(p)) *)
Definition entropy_guarded (lg : fl -> fl) (p : list fl) : fl :=
  entropy_with lg p (filled (Fin 0) (length p)).

(* mutual_information (mutual_info.py):  P = np.divide(n, tot, where=tot > 0, out=<init>)
   followed by `assert np.all(~np.isnan(P))` *)
Definition probs_with (n tot : list fl) (init : list fl) : list fl :=
  masked2 fl_div n tot (map fl_pos tot) init.
Definition probs_guarded (n tot : list fl) : list fl :=
  probs_with n tot (filled (Fin 0) (length (combine n tot))).
Definition assert_no_nan (l : list fl) : bool := forallb (fun v => negb (fl_is_nan v)) l.
