(* kcenters' effective stopping criteria from the arguments as passed, through the translated
   rejection / normalisation code (Gen/KcGuardGen.v).  Executable only. *)
From Coq Require Import List ZArith QArith Bool.
From EV Require Import KcGuardBase KcGuardGen.

Definition nc_to_opt (a : ncarg) : option nat := match a with NcInt k => Some k | _ => None end.
(* None = the call raises ImproperlyConfigured; Some (n_clusters or +inf, dist_cutoff) otherwise *)
Definition effective (nc : ncarg) (dc : dcarg) : option (option nat * Q) :=
  if gen_reject nc dc then None
  else match gen_normalise nc dc with
       | Some (nc', DcVal r) => Some (nc_to_opt nc', r)
       | _ => None
       end.
