(* C04: the transition-matrix builders of enspara/msm/builders.py (normalize, transpose, mle's
   post-iteration step), prior counts, and the stationary vector behind eq_probs.
   Executable definitions only, exact arithmetic over Q; matrices are lists of rows. *)
From Coq Require Import List QArith Qabs Qreduction Bool Arith.
Import ListNotations.
Open Scope Q_scope.

Definition mat := list (list Q).

Definition qsum (l : list Q) : Q := fold_right Qplus 0 l.
Definition ent (M : mat) (i j : nat) : Q := nth j (nth i M []) 0.
Definition row (M : mat) (i : nat) : list Q := nth i M [].
(* the n x n matrix with entries f i j *)
Definition mk (n : nat) (f : nat -> nat -> Q) : mat :=
  map (fun i => map (f i) (seq 0 n)) (seq 0 n).

Definition is_square (M : mat) : bool :=
  forallb (fun r => Nat.eqb (length r) (length M)) M.

Definition rowsums (M : mat) : list Q := map qsum M.
Definition total (M : mat) : Q := qsum (rowsums M).

Definition qpos (x : Q) : bool := negb (Qle_bool x 0).     (* 0 < x *)

(* ---- _apply_prior_counts: C + prior_counts (None / scalar / matrix of the same shape) *)
Inductive prior := NoPrior | PScalar (q : Q) | PMat (P : mat).

Definition madd (A B : mat) : mat := mk (length A) (fun i j => ent A i j + ent B i j).
Definition mtrans (A : mat) : mat := mk (length A) (fun i j => ent A j i).

Definition apply_prior (C : mat) (p : prior) : option mat :=
  if is_square C then
    match p with
    | NoPrior => Some C
    | PScalar q => Some (map (map (fun x => x + q)) C)
    | PMat P => if is_square P && Nat.eqb (length P) (length C) then Some (madd C P) else None
    end
  else None.

(* ---- _row_normalize: inv_weights[weights > 0] = 1/weights, zero elsewhere; T = C * inv_weights[:,None] *)
Definition inv_weight (w : Q) : Q := if qpos w then / w else 0.
Definition normalize_row (r : list Q) : list Q :=
  let iw := inv_weight (qsum r) in map (fun x => x * iw) r.
Definition row_normalize (C : mat) : mat := map normalize_row C.

(* ---- exact stationary vector (what eq_probs' eigen-solver is compared with):
        Gauss-Jordan over Q on  pi (T - I) = 0 (first n-1 equations),  sum pi = 1. *)
Definition nonzero (x : Q) : bool := negb (Qeq_bool x 0).
Definition row_scale (k : Q) (r : list Q) : list Q := map (fun x => Qred (x * k)) r.
Fixpoint row_sub (r p : list Q) (f : Q) : list Q :=
  match r, p with
  | a :: r', b :: p' => Qred (a - f * b) :: row_sub r' p' f
  | _, _ => []
  end.
Fixpoint take_pivot (k : nat) (rows : list (list Q)) : option (list Q * list (list Q)) :=
  match rows with
  | [] => None
  | r :: rest =>
      if nonzero (nth k r 0) then Some (r, rest)
      else match take_pivot k rest with
           | Some (p, rest') => Some (p, r :: rest')
           | None => None
           end
  end.
Definition gj_step (st : option (list (list Q) * list (list Q))) (k : nat) :=
  match st with
  | None => None
  | Some (done, todo) =>
      match take_pivot k todo with
      | None => None
      | Some (p, rest) =>
          let p1 := row_scale (/ nth k p 0) p in
          let el := fun r => row_sub r p1 (nth k r 0) in
          Some (map el done ++ [p1], map el rest)
      end
  end.
Definition solve (A : mat) (b : list Q) : option (list Q) :=
  let n := length A in
  let aug := map (fun rb => fst rb ++ [snd rb]) (combine A b) in
  match fold_left gj_step (seq 0 n) (Some ([], aug)) with
  | Some (done, _) => Some (map (fun r => nth n r 0) done)
  | None => None
  end.

(* (pi T)_j *)
Definition vecmat (pi : list Q) (T : mat) (j : nat) : Q :=
  qsum (map (fun i => nth i pi 0 * ent T i j) (seq 0 (length T))).

Definition is_stationary_b (T : mat) (pi : list Q) : bool :=
  Nat.eqb (length pi) (length T)
  && forallb (fun j => Qeq_bool (vecmat pi T j) (nth j pi 0)) (seq 0 (length T))
  && Qeq_bool (qsum pi) 1
  && forallb (fun x => Qle_bool 0 x) pi.

Definition stationary_system (T : mat) : mat * list Q :=
  let n := length T in
  (mk n (fun j k => if Nat.eqb (S j) n then 1
                    else ent T k j - (if Nat.eqb j k then 1 else 0)),
   map (fun j => if Nat.eqb (S j) n then 1 else 0) (seq 0 n)).

(* the solver is untrusted: its answer is returned only if it passes the exact check *)
Definition stationary (T : mat) : option (list Q) :=
  let '(A, b) := stationary_system T in
  match solve A b with
  | Some pi => if is_stationary_b T pi then Some pi else None
  | None => None
  end.

(* ---- the builders: (counts, probabilities, equilibrium or None) *)
Definition result := (mat * mat * option (list Q))%type.

Definition normalize_builder (C : mat) (p : prior) (eq : bool) : option result :=
  match apply_prior C p with
  | None => None
  | Some C1 =>
      let T := row_normalize C1 in
      if eq then
        match stationary T with
        | Some pi => Some (C1, T, Some pi)
        | None => None
        end
      else Some (C1, T, None)
  end.

Definition transpose_builder (C : mat) (p : prior) (eq : bool) : option result :=
  match apply_prior C p with
  | None => None
  | Some C1 =>
      let Cs := madd C1 (mtrans C1) in
      let T := row_normalize Cs in
      let pi := map (fun s => s / total Cs) (rowsums Cs) in
      Some (map (map (fun x => x / 2)) Cs, T, if eq then Some pi else None)
  end.

(* mle: the iteration (property C12) produces a symmetric X; what is modelled here is
   the guard (assert all row sums of C and of C + C.T positive) and the final step
   T = X / rowsum X, pi = rowsum X / sum X. *)
Definition rows_positive (M : mat) : bool := forallb (fun r => qpos (qsum r)) M.

Definition mle_post (X : mat) : option (mat * list Q) :=
  if is_square X && rows_positive X then
    Some (map (fun r => map (fun x => x / qsum r) r) X,
          map (fun s => s / total X) (rowsums X))
  else None.

Definition mle_builder (C : mat) (p : prior) (eq : bool) (X : mat) : option result :=
  match apply_prior C p with
  | None => None
  | Some C1 =>
      if rows_positive C1 && rows_positive (madd C1 (mtrans C1)) then
        match mle_post X with
        | Some (T, pi) => Some (C1, T, if eq then Some pi else None)
        | None => None
        end
      else None
  end.

(* symmetrisation used by the correspondence: X = (D + D^T)/2 with D = diag(pi) T *)
Definition sym_of (pi : list Q) (T : mat) : mat :=
  mk (length T) (fun i j => (nth i pi 0 * ent T i j + nth j pi 0 * ent T j i) / 2).

(* ---- comparison helpers for generated case files *)
Definition q_close (tol a b : Q) : bool :=
  Qle_bool (Qabs (a - b)) (tol * (if Qle_bool 1 (Qabs b) then Qabs b else 1)).
Fixpoint list_all2 {A} (e : A -> A -> bool) (a b : list A) : bool :=
  match a, b with
  | [], [] => true
  | x :: a', y :: b' => e x y && list_all2 e a' b'
  | _, _ => false
  end.
Definition vec_close tol := list_all2 (q_close tol).
Definition mat_close tol := list_all2 (vec_close tol).
Definition result_close (tol : Q) (m : option result) (e : option result) : bool :=
  match m, e with
  | None, None => true
  | Some (c, t, pi), Some (c', t', pi') =>
      mat_close tol c c' && mat_close tol t t' &&
      match pi, pi' with
      | None, None => true
      | Some a, Some b => vec_close tol a b
      | _, _ => false
      end
  | _, _ => false
  end.

(* display helper for replay files: every entry in lowest terms *)
Definition mat_red (M : mat) : mat := map (map Qred) M.
Definition result_red (r : option result) : option result :=
  match r with
  | Some (c, t, pi) => Some (mat_red c, mat_red t, option_map (map Qred) pi)
  | None => None
  end.
