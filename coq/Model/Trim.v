(* C11: ergodic trimming (enspara/msm/transition_matrices.py: trim_disconnected, TrimMapping;
   enspara/msm/msm.py: MSM.fit).  Executable definitions only.

   Counts are a list of rows over Z; state ids are nat.  scipy's
   connected_components(connection="strong") is modelled by its specification (mutual
   reachability, computed with Warshall's closure); its label *numbering* is not modelled, so
   when several components tie for the largest weight the model's choice (the one whose
   smallest state comes first) need not be SciPy's: see [acceptable_keep]. *)
From Coq Require Import List ZArith Bool Arith.
Import ListNotations.

Definition mat := list (list Z).
Definition entry (C : mat) (i j : nat) : Z := nth j (nth i C []) 0%Z.

(* connected_components / np.argmax reject: non-square input, zero states *)
Definition square (C : mat) : bool := forallb (fun r => length r =? length C) C.

(* thresholded_counts[counts < threshold] = 0 ; SciPy: an edge is a non-zero entry *)
Definition edge (thr : Z) (C : mat) (i j : nat) : bool :=
  (i <? length C) && (j <? length C) && (thr <=? entry C i j)%Z && negb (entry C i j =? 0)%Z.

Definition bmat := list (list bool).
Definition bget (M : bmat) (i j : nat) : bool := nth j (nth i M []) false.
Definition tabulate {A} (n : nat) (f : nat -> nat -> A) : list (list A) :=
  map (fun i => map (f i) (seq 0 n)) (seq 0 n).

(* Warshall: after k rounds, entry (i,j) says: j can be reached from i through intermediate
   states < k *)
Fixpoint warshall (n : nat) (E : nat -> nat -> bool) (k : nat) : bmat :=
  match k with
  | 0 => tabulate n (fun i j => (i =? j) || E i j)
  | S k' => let M := warshall n E k' in
            tabulate n (fun i j => bget M i j || (bget M i k' && bget M k' j))
  end.

Definition reach_mat (thr : Z) (C : mat) : bmat := warshall (length C) (edge thr C) (length C).
Definition reach (thr : Z) (C : mat) (i j : nat) : bool := bget (reach_mat thr C) i j.

(* members of the strongly connected component of i, ascending (np.where(labels == l)[0]) *)
Definition comp_of (R : bmat) (n i : nat) : list nat :=
  filter (fun j => bget R i j && bget R j i) (seq 0 n).

(* pops = counts.sum(axis=1) -- the ORIGINAL counts, not the thresholded ones *)
Definition rowsum (C : mat) (i : nat) : Z := fold_right Z.add 0%Z (nth i C []).
(* np.sum(pops[labels == l]) *)
Definition weight (C : mat) (S : list nat) : Z := fold_right (fun i a => (rowsum C i + a)%Z) 0%Z S.

(* np.argmax over components: first strict maximum, components taken in order of their
   smallest state *)
Definition best (w : nat -> Z) (n : nat) : nat :=
  fold_left (fun b i => if (w b <? w i)%Z then i else b) (seq 0 n) 0.

Definition comp_weight (thr : Z) (C : mat) (i : nat) : Z :=
  weight C (comp_of (reach_mat thr C) (length C) i).

Definition keep_states (thr : Z) (C : mat) : list nat :=
  let R := reach_mat thr C in
  let n := length C in
  comp_of R n (best (fun i => weight C (comp_of R n i)) n).

Definition memb (i : nat) (ks : list nat) : bool := existsb (Nat.eqb i) ks.

(* renumber_states=True: counts[np.ix_(keep, keep)] *)
Definition submat (C : mat) (ks : list nat) : mat := map (fun i => map (fun j => entry C i j) ks) ks.
(* renumber_states=False: rows and columns of removed states set to 0 *)
Definition zeroed (C : mat) (ks : list nat) : mat :=
  tabulate (length C) (fun i j => if memb i ks && memb j ks then entry C i j else 0%Z).

(* Python dict as insertion-ordered association list; assignment to an existing key overwrites *)
Definition dict := list (nat * nat).
Fixpoint dict_set (d : dict) (k v : nat) : dict :=
  match d with
  | [] => [(k, v)]
  | (k', v') :: r => if k' =? k then (k', v) :: r else (k', v') :: dict_set r k v
  end.
Definition dict_of (kvs : list (nat * nat)) : dict :=
  fold_left (fun d kv => dict_set d (fst kv) (snd kv)) kvs [].
Fixpoint dict_get (d : dict) (k : nat) : option nat :=
  match d with
  | [] => None
  | (k', v) :: r => if k' =? k then Some v else dict_get r k
  end.
Definition swap (p : nat * nat) : nat * nat := (snd p, fst p).

(* TrimMapping(transformations): to_original = {t: o for o, t in transformations};
   to_mapped = {v: k for k, v in to_original.items()} *)
Definition tm_to_original (transformations : list (nat * nat)) : dict := dict_of (map swap transformations).
Definition tm_to_mapped (to_original : dict) : dict := dict_of (map swap to_original).

Inductive container := Dense | Sparse (format : nat).

Record trim_result := {
  tr_keep : list nat;            (* np.where(labels == maxpop_subgraph)[0] *)
  tr_counts : mat;               (* trimmed_counts *)
  tr_to_original : dict;         (* mapping.to_original.items() *)
  tr_to_mapped : dict;           (* mapping.to_mapped.items() *)
  tr_container : container       (* type(trimmed_counts) *)
}.

(* everything after the choice of the component *)
Definition trim_with (C : mat) (renumber : bool) (cont : container) (ks : list nat) : trim_result :=
  let transformations :=
    if renumber then combine ks (seq 0 (length ks))   (* zip(keep_states, range(len(trimmed))) *)
    else combine ks ks in                              (* zip(keep_states, keep_states) *)
  let to_orig := tm_to_original transformations in
  {| tr_keep := ks;
     tr_counts := if renumber then submat C ks else zeroed C ks;
     tr_to_original := to_orig;
     tr_to_mapped := tm_to_mapped to_orig;
     tr_container := cont |}.

Definition trim_disconnected (thr : Z) (C : mat) (renumber : bool) (cont : container)
  : option trim_result :=
  if square C && negb (length C =? 0)
  then Some (trim_with C renumber cont (keep_states thr C))
  else None.

Fixpoint nl_eqb (a b : list nat) : bool :=
  match a, b with
  | [], [] => true
  | x :: a', y :: b' => (x =? y) && nl_eqb a' b'
  | _, _ => false
  end.

(* What a caller may rely on when weights tie: the kept set is some component of maximum
   weight.  Used by the correspondence check for the tie cases. *)
Definition acceptable_keep (thr : Z) (C : mat) (ks : list nat) : bool :=
  let R := reach_mat thr C in
  let n := length C in
  match ks with
  | [] => false
  | s :: _ =>
      (s <? n) && nl_eqb ks (comp_of R n s)
      && forallb (fun i => (weight C (comp_of R n i) <=? weight C ks)%Z) (seq 0 n)
  end.

(* MSM.fit: trim=True -> trim_disconnected(tcounts) (threshold 1, renumbering);
   trim=False -> TrimMapping(zip(range(n), range(n))) and the counts as they are *)
Definition msm_fit (trim : bool) (C : mat) (cont : container) : option trim_result :=
  if trim then trim_disconnected 1 C true cont
  else let ids := seq 0 (length C) in
       let to_orig := tm_to_original (combine ids ids) in
       Some {| tr_keep := ids; tr_counts := C; tr_to_original := to_orig;
               tr_to_mapped := tm_to_mapped to_orig; tr_container := cont |}.

(* comparison helpers for the case files *)
Definition zl_eqb' (a b : list Z) : bool :=
  (length a =? length b) && forallb (fun p => (fst p =? snd p)%Z) (combine a b).
Definition mat_eqb (a b : mat) : bool :=
  (length a =? length b) && forallb (fun p => zl_eqb' (fst p) (snd p)) (combine a b).
(* equality of dictionaries as finite maps (insertion order is not compared); [b] comes from a
   Python dict, so its keys are distinct *)
Definition dict_equiv (a b : dict) : bool :=
  (length a =? length b)
  && forallb (fun kv => match dict_get a (fst kv) with Some v => v =? snd kv | None => false end) b.
Definition container_eqb (a b : container) : bool :=
  match a, b with
  | Dense, Dense => true
  | Sparse x, Sparse y => x =? y
  | _, _ => false
  end.
Definition result_eqb (a b : trim_result) : bool :=
  nl_eqb (tr_keep a) (tr_keep b) && mat_eqb (tr_counts a) (tr_counts b)
  && dict_equiv (tr_to_original a) (tr_to_original b)
  && dict_equiv (tr_to_mapped a) (tr_to_mapped b)
  && container_eqb (tr_container a) (tr_container b).

(* The implementation's result [r] (None = it raised) is what the model [m] allows:
   equal to the model's result, or -- only when another component ties for the maximum
   weight -- the same construction applied to that other maximum-weight component. *)
Definition agrees_with (m : option trim_result) (thr : Z) (C : mat) (renumber : bool)
  (cont : container) (r : option trim_result) : bool :=
  match m, r with
  | None, None => true
  | Some m, Some r =>
      if nl_eqb (tr_keep m) (tr_keep r) then result_eqb m r
      else acceptable_keep thr C (tr_keep r) && result_eqb (trim_with C renumber cont (tr_keep r)) r
  | _, _ => false
  end.
Definition impl_agrees (thr : Z) (C : mat) (renumber : bool) (cont : container)
  (r : option trim_result) : bool :=
  agrees_with (trim_disconnected thr C renumber cont) thr C renumber cont r.
Definition fit_agrees (trim : bool) (C : mat) (cont : container) (r : option trim_result) : bool :=
  if trim then agrees_with (msm_fit true C cont) 1 C true cont r
  else match msm_fit false C cont, r with
       | Some m, Some r => result_eqb m r
       | None, None => true
       | _, _ => false
       end.

(* TrimMapping(transformations) on its own: both dictionaries (None: the constructor leaves
   to_original unset for an empty list, reading it raises AttributeError) *)
Definition trim_mapping (transformations : list (nat * nat)) : option (dict * dict) :=
  match transformations with
  | [] => None
  | _ => let t := tm_to_original transformations in Some (t, tm_to_mapped t)
  end.
Definition mapping_agrees (transformations : list (nat * nat)) (r : option (dict * dict)) : bool :=
  match trim_mapping transformations, r with
  | None, None => true
  | Some m, Some r => dict_equiv (fst m) (fst r) && dict_equiv (snd m) (snd r)
  | _, _ => false
  end.
