(* C07: committors and mean first-passage times (enspara/tpt/core.py).  Executable definitions only.
   Exact arithmetic over Q.  Matrices are lists of rows; the code-shaped linear systems are written
   as functions of (row, column) so that the theorems can talk about *any* transition function. *)
From Coq Require Import List QArith Qreduction Bool Arith.
Import ListNotations.
Open Scope Q_scope.

Definition mat := list (list Q).
Definition mget (M : mat) (i j : nat) : Q := nth j (nth i M []) 0.
Definition vget (v : list Q) (i : nat) : Q := nth i v 0.

(* sum_{i<n} f i *)
Fixpoint sumq (n : nat) (f : nat -> Q) : Q :=
  match n with O => 0 | S k => sumq k f + f k end.

Definition memb (i : nat) (A : list nat) : bool := existsb (Nat.eqb i) A.
Definition delta (i j : nat) : Q := if Nat.eqb i j then 1 else 0.
Definition tab (n m : nat) (f : nat -> nat -> Q) : mat :=
  map (fun i => map (f i) (seq 0 m)) (seq 0 n).

(* ---- _I_m_Q(tprob, absorbing):  I - T; columns of absorbing states := 0; rows := 0;
        the diagonal entries (a, a) := 1 *)
Definition ImQ (T : nat -> nat -> Q) (A : list nat) (i j : nat) : Q :=
  if memb i A || memb j A then delta i j else delta i j - T i j.

(* ---- committors: R = tprob[:, sinks]; R[sinks] = 1.0; R[sources] = 0.0 (in this order) *)
Definition Rhs (T : nat -> nat -> Q) (src snk : list nat) (i k : nat) : Q :=
  if memb i src then 0 else if memb i snk then 1 else T i (nth k snk O).

(* B.reshape(n, |sinks|).sum(axis=1); committors[sinks] = 1.0 *)
Definition comm_of (snk : list nat) (B : nat -> nat -> Q) (i : nat) : Q :=
  if memb i snk then 1 else sumq (length snk) (fun k => B i k).

(* ---- mfpts with sinks: c = ones; c[sinks] = 0 *)
Definition mfpt_rhs (snk : list nat) (i k : nat) : Q := if memb i snk then 0 else 1.

(* ---- mfpts all to all: A = I - T + W, W[i][j] = pi[j];  lag * (diag Z - Z) / W *)
Definition fund (T : nat -> nat -> Q) (pi : nat -> Q) (i j : nat) : Q := delta i j - T i j + pi j.
Definition mfpt_entry (Z : nat -> nat -> Q) (pi : nat -> Q) (lag : Q) (i j : nat) : Q :=
  lag * (Z j j - Z i j) / pi j.

(* ---- certificate checked on every solver output:  sum_j A i j * X j k == R i k *)
Definition is_solution (n m : nat) (A X R : nat -> nat -> Q) : bool :=
  forallb (fun i => forallb (fun k => Qeq_bool (sumq n (fun j => A i j * X j k)) (R i k)) (seq 0 m))
          (seq 0 n).

(* ---- spsolve / np.linalg.solve / np.linalg.inv: Gauss-Jordan over Q, first non-zero pivot.
        Unverified; its output is only used after is_solution accepted it.  None = singular. *)
Fixpoint map2 (f : Q -> Q -> Q) (a b : list Q) : list Q :=
  match a, b with
  | x :: a', y :: b' => f x y :: map2 f a' b'
  | _, _ => []
  end.
Definition row_sub (r p : list Q) (c : Q) : list Q := map2 (fun x y => Qred (x - c * y)) r p.
Fixpoint find_pivot (c : nat) (todo : list (list Q)) : option (list Q * list (list Q)) :=
  match todo with
  | [] => None
  | r :: rest =>
      if Qeq_bool (nth c r 0) 0 then
        match find_pivot c rest with
        | Some (p, rest') => Some (p, r :: rest')
        | None => None
        end
      else Some (r, rest)
  end.
Fixpoint gj (cols : list nat) (done todo : list (list Q)) : option (list (list Q)) :=
  match cols with
  | [] => Some done
  | c :: cs =>
      match find_pivot c todo with
      | None => None
      | Some (p, rest) =>
          let pc := nth c p 0 in
          let p' := map (fun x => Qred (x / pc)) p in
          let elim r := row_sub r p' (nth c r 0) in
          gj cs (map elim done ++ [p']) (map elim rest)
      end
  end.
Definition solve (n m : nat) (A R : nat -> nat -> Q) : option mat :=
  let aug := map (fun i => map (A i) (seq 0 n) ++ map (R i) (seq 0 m)) (seq 0 n) in
  match gj (seq 0 n) [] aug with
  | Some rows => Some (map (skipn n) rows)
  | None => None
  end.
Definition solve_checked (n m : nat) (A R : nat -> nat -> Q) : option mat :=
  match solve n m A R with
  | Some X => if is_solution n m A (mget X) R then Some X else None
  | None => None
  end.

(* ---- input guards: square matrix, state indices inside it (the code: IndexError) *)
Definition wfb (n : nat) (T : mat) : bool :=
  Nat.eqb (length T) n && forallb (fun r => Nat.eqb (length r) n) T.
Definition idxb (n : nat) (A : list nat) : bool := forallb (fun i => Nat.ltb i n) A.

(* ---- committors(tprob, sources, sinks) *)
Definition committors (n : nat) (T : mat) (src snk : list nat) : option (list Q) :=
  if wfb n T && idxb n src && idxb n snk then
    match solve_checked n (length snk) (ImQ (mget T) (src ++ snk)) (Rhs (mget T) src snk) with
    | Some B => Some (map (comm_of snk (mget B)) (seq 0 n))
    | None => None
    end
  else None.

(* ---- mfpts(tprob, sinks=snk, lagtime=lag) *)
Definition mfpts_sinks (n : nat) (T : mat) (snk : list nat) (lag : Q) : option (list Q) :=
  if wfb n T && idxb n snk then
    match solve_checked n 1 (ImQ (mget T) snk) (mfpt_rhs snk) with
    | Some t => Some (map (fun i => lag * mget t i 0) (seq 0 n))
    | None => None
    end
  else None.

(* ---- mfpts(tprob, sinks=None, populations=pi, lagtime=lag).  A population of 0 makes the code
        divide by zero (inf/nan): None. *)
Definition mfpts_all (n : nat) (T : mat) (pi : list Q) (lag : Q) : option mat :=
  if wfb n T && Nat.eqb (length pi) n && forallb (fun j => negb (Qeq_bool (vget pi j) 0)) (seq 0 n) then
    match solve_checked n n (fund (mget T) (vget pi)) delta with
    | Some Z => Some (tab n n (mfpt_entry (mget Z) (vget pi) lag))
    | None => None
    end
  else None.

(* ---- eq_probs(tprob): the left eigenvector of eigenvalue 1 normalised to sum 1.  The eigen-solver
        is not modelled: the model solves  pi (T - I) = 0  with the last equation replaced by
        sum pi = 1  and keeps the answer only if it is stationary and normalised. *)
Definition stat_lhs (n : nat) (T : nat -> nat -> Q) (i j : nat) : Q :=
  if Nat.eqb (S i) n then 1 else T j i - delta j i.
Definition stat_rhs (n : nat) (i k : nat) : Q := if Nat.eqb (S i) n then 1 else 0.
Definition is_stationary (n : nat) (T : nat -> nat -> Q) (pi : nat -> Q) : bool :=
  forallb (fun j => Qeq_bool (sumq n (fun i => pi i * T i j)) (pi j)) (seq 0 n) &&
  Qeq_bool (sumq n pi) 1.
Definition stationary (n : nat) (T : mat) : option (list Q) :=
  if wfb n T then
    match solve_checked n 1 (stat_lhs n (mget T)) (stat_rhs n) with
    | Some p => let pi := map (fun i => mget p i 0) (seq 0 n) in
                if is_stationary n (mget T) (vget pi) then Some pi else None
    | None => None
    end
  else None.
Definition mfpts_all_default (n : nat) (T : mat) (lag : Q) : option mat :=
  match stationary n T with
  | Some pi => mfpts_all n T pi lag
  | None => None
  end.

(* ---- hypotheses of the theorems, as executable tests (used in Examples and case tags) *)
Definition stochasticb (n : nat) (T : nat -> nat -> Q) : bool :=
  forallb (fun i => Qeq_bool (sumq n (T i)) 1 && forallb (fun j => Qle_bool 0 (T i j)) (seq 0 n)) (seq 0 n).
(* states that reach A in at most `fuel` steps along positive-probability transitions *)
Fixpoint reach_set (fuel n : nat) (T : nat -> nat -> Q) (A : list nat) : list nat :=
  match fuel with
  | O => A
  | S f => let S0 := reach_set f n T A in
           S0 ++ filter (fun i => negb (memb i S0) &&
                                  existsb (fun j => negb (Qle_bool (T i j) 0) && memb j S0) (seq 0 n))
                        (seq 0 n)
  end.
Definition all_reachb (n : nat) (T : nat -> nat -> Q) (A : list nat) : bool :=
  let S0 := reach_set n n T A in forallb (fun i => memb i S0) (seq 0 n).
Fixpoint nodupb (l : list nat) : bool :=
  match l with [] => true | x :: r => negb (memb x r) && nodupb r end.
Definition disjointb (a b : list nat) : bool := forallb (fun i => negb (memb i b)) a.

(* ---- the same hypotheses as propositions (statements of the theorems) *)
Definition stochastic (n : nat) (T : nat -> nat -> Q) : Prop :=
  forall i, (i < n)%nat -> sumq n (T i) == 1 /\ forall j, (j < n)%nat -> 0 <= T i j.
(* state i reaches the set A along transitions of positive probability *)
Inductive reaches (n : nat) (T : nat -> nat -> Q) (A : list nat) : nat -> Prop :=
| reach_here : forall i, In i A -> reaches n T A i
| reach_step : forall i j, (j < n)%nat -> 0 < T i j -> reaches n T A j -> reaches n T A i.
(* pi T = pi and sum pi = 1 *)
Definition stationary_dist (n : nat) (T : nat -> nat -> Q) (pi : nat -> Q) : Prop :=
  (forall j, (j < n)%nat -> sumq n (fun i => pi i * T i j) == pi j) /\ sumq n pi == 1.

(* comparison of results up to Qeq (values are not kept in lowest terms) *)
Fixpoint ql_eq (a b : list Q) : bool :=
  match a, b with
  | [], [] => true
  | x :: a', y :: b' => Qeq_bool x y && ql_eq a' b'
  | _, _ => false
  end.
Fixpoint qll_eq (a b : mat) : bool :=
  match a, b with
  | [], [] => true
  | x :: a', y :: b' => ql_eq x y && qll_eq a' b'
  | _, _ => false
  end.
