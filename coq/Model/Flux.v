(* C08: reactive flux (enspara/tpt/tpt.py).  Executable definitions only, exact arithmetic over Q.
   The forward committor q is an INPUT of this model (it is computed by enspara/tpt/core.py,
   property C07); theorems assume the committor equations for it, the harness checks them per case
   with the executable tests at the end of this file. *)
From Coq Require Import List Arith QArith Bool.
Import ListNotations.
Open Scope Q_scope.

(* ---------------------------------------------------------------- array primitives *)
Fixpoint map2 {A B C} (f : A -> B -> C) (a : list A) (b : list B) : list C :=
  match a, b with
  | x :: a', y :: b' => f x y :: map2 f a' b'
  | _, _ => []
  end.

Fixpoint mapi_from {A B} (k : nat) (f : nat -> A -> B) (l : list A) : list B :=
  match l with
  | [] => []
  | x :: r => f k x :: mapi_from (S k) f r
  end.
Definition mapi {A B} (f : nat -> A -> B) (l : list A) : list B := mapi_from 0 f l.

Definition vnth (v : list Q) (i : nat) : Q := nth i v 0.
Definition ent (M : list (list Q)) (i j : nat) : Q := nth j (nth i M []) 0.

(* sum_{k < n} f k   and   sum_{k in l} f k *)
Fixpoint sumn (f : nat -> Q) (n : nat) : Q :=
  match n with O => 0 | S k => sumn f k + f k end.
Definition suml (f : nat -> Q) (l : list nat) : Q := fold_right (fun x a => f x + a) 0 l.
Definition qsum (v : list Q) : Q := fold_right Qplus 0 v.

Definition square (n : nat) (M : list (list Q)) : bool :=
  (length M =? n)%nat && forallb (fun r => (length r =? n)%nat) M.

(* ---------------------------------------------------------------- the code, step by step *)
(* reverse_committors = 1 - forward_committors  (_get_data_from_tprob) *)
Definition reverse_committors (q : list Q) : list Q := map (fun x => 1 - x) q.

(* a * b on 1-d arrays of equal length *)
Definition vmul (a b : list Q) : list Q := map2 Qmult a b.

(* M * w[:, None] : row i scaled by w_i *)
Definition scale_rows (w : list Q) (M : list (list Q)) : list (list Q) :=
  map2 (fun row wi => map (fun t => t * wi) row) M w.

(* M * v : column j scaled by v_j *)
Definition scale_cols (v : list Q) (M : list (list Q)) : list (list Q) :=
  map (fun row => map2 Qmult row v) M.

(* fluxes[(arange(n), arange(n))] = zeros(n) *)
Definition zero_diag (M : list (list Q)) : list (list Q) :=
  mapi (fun i row => mapi (fun j t => if (i =? j)%nat then 0 else t) row) M.

(* NumPy rejects (broadcast error) a populations vector whose length differs from the matrix
   dimension; n_states = len(populations). *)
Definition shapes_ok (T : list (list Q)) (pi q : list Q) : bool :=
  let n := length pi in
  (1 <=? n)%nat && square n T && (length q =? n)%nat.

(* tpt.reactive_fluxes:  tprob * ((populations * reverse_committors)[:, None]) * forward_committors,
   then the diagonal reset *)
Definition reactive_fluxes (T : list (list Q)) (pi q : list Q) : option (list (list Q)) :=
  if shapes_ok T pi q
  then Some (zero_diag (scale_cols q (scale_rows (vmul pi (reverse_committors q)) T)))
  else None.

Definition transpose (n : nat) (M : list (list Q)) : list (list Q) :=
  map (fun j => map (fun i => ent M i j) (seq 0 n)) (seq 0 n).

Definition msub (A B : list (list Q)) : list (list Q) := map2 (map2 Qminus) A B.

Definition Qltb (x y : Q) : bool := negb (Qle_bool y x).

(* net[np.where(net < 0)] = 0   (dense)   /   net.maximum(0)   (sparse) *)
Definition clip_neg (M : list (list Q)) : list (list Q) :=
  map (map (fun x => if Qltb x 0 then 0 else x)) M.

(* tpt.net_fluxes *)
Definition net_fluxes (T : list (list Q)) (pi q : list Q) : option (list (list Q)) :=
  match reactive_fluxes T pi q with
  | Some F => Some (clip_neg (msub F (transpose (length pi) F)))
  | None => None
  end.

(* the sparse branch of tpt.net_fluxes after the repair of D6:  (fluxes - fluxes.T).maximum(0) *)
Definition qmax0 (x : Q) : Q := if Qle_bool 0 x then x else 0.

Definition net_fluxes_sparse (T : list (list Q)) (pi q : list Q) : option (list (list Q)) :=
  match reactive_fluxes T pi q with
  | Some F => Some (map (map qmax0) (msub F (transpose (length pi) F)))
  | None => None
  end.

(* tpt.reactive_populations: densities = populations * q+ * q-;  densities / sum(densities).
   A zero normaliser (0/0 = nan in NumPy: no probability vector exists) is None. *)
Definition densities (pi q : list Q) : list Q := vmul (vmul pi q) (reverse_committors q).

Definition reactive_populations (pi q : list Q) : option (list Q) :=
  if (1 <=? length pi)%nat && (length q =? length pi)%nat then
    let d := densities pi q in
    let s := qsum d in
    if Qeq_bool s 0 then None else Some (map (fun x => x / s) d)
  else None.

(* ---------------------------------------------------------------- derived observations *)
Definition outflow (M : list (list Q)) (n i : nat) : Q := sumn (fun j => ent M i j) n.
Definition inflow (M : list (list Q)) (n i : nat) : Q := sumn (fun j => ent M j i) n.

(* ---------------------------------------------------------------- executable hypothesis tests
   (evaluated by the harness on every case; proved sound in Proof/FluxProofs.v) *)
Definition memb (i : nat) (l : list nat) : bool := existsb (Nat.eqb i) l.

Fixpoint nodupb (l : list nat) : bool :=
  match l with [] => true | x :: r => negb (memb x r) && nodupb r end.

Definition all2 (n : nat) (p : nat -> nat -> bool) : bool :=
  forallb (fun i => forallb (p i) (seq 0 n)) (seq 0 n).

(* source and sink sets: non-empty, duplicate-free, inside 0..n-1, disjoint *)
Definition sets_ok_b (n : nat) (src snk : list nat) : bool :=
  negb (Nat.eqb (length src) 0) && negb (Nat.eqb (length snk) 0) &&
  nodupb (src ++ snk) && forallb (fun i => (i <? n)%nat) (src ++ snk).

(* rows sum to one, entries non-negative *)
Definition stochastic_b (n : nat) (T : list (list Q)) : bool :=
  forallb (fun i => Qeq_bool (sumn (fun j => ent T i j) n) 1) (seq 0 n) &&
  all2 n (fun i j => Qle_bool 0 (ent T i j)).

(* detailed balance pi_i T_ij = pi_j T_ji, pi non-negative *)
Definition reversible_b (n : nat) (T : list (list Q)) (pi : list Q) : bool :=
  all2 n (fun i j => Qeq_bool (vnth pi i * ent T i j) (vnth pi j * ent T j i)) &&
  forallb (fun i => Qle_bool 0 (vnth pi i)) (seq 0 n).

(* the committor equations: 0 on sources, 1 on sinks, harmonic elsewhere; and 0 <= q <= 1 *)
Definition committor_b (n : nat) (T : list (list Q)) (src snk : list nat) (q : list Q) : bool :=
  forallb (fun i =>
    if memb i src then Qeq_bool (vnth q i) 0
    else if memb i snk then Qeq_bool (vnth q i) 1
    else Qeq_bool (vnth q i) (sumn (fun j => ent T i j * vnth q j) n)) (seq 0 n) &&
  forallb (fun i => Qle_bool 0 (vnth q i) && Qle_bool (vnth q i) 1) (seq 0 n).

Definition hyps_b (T : list (list Q)) (pi q : list Q) (src snk : list nat) : bool :=
  let n := length pi in
  shapes_ok T pi q && sets_ok_b n src snk && stochastic_b n T && reversible_b n T pi &&
  committor_b n T src snk q.
