(* Model/Dist.v -- executable model of enspara/geometry/libdist.pyx (euclidean, manhattan, hamming).
   Definitions only; proofs are in Proof/DistProofs.v.

   * an ndarray is a flat buffer plus a view (offset, strides in elements, shape): C-ordered,
     Fortran-ordered, sliced and negative-stride arrays are all instances;  X[i,j] is the strided
     address, as for Cython's `np.ndarray[T, ndim=2]` buffer access;
   * validation is the TRANSLATED code (Gen/DistValidGen.v), followed by the fused-type dispatch;
   * the kernels are modelled loop by loop as parallel-for phases over the shared output array
     (Base/PFor.v): iteration i executes micro-operations that read X[i,.], y and cell i of out and
     write cell i of out only.  euclidean/manhattan: a zeroing prange, then an accumulating prange
     (implicit barrier between them); hamming: one prange doing both.  The final `sqrt` (euclidean)
     and `/ n_features` (hamming) are applied by the harness to the exact value the model returns;
   * element values are integers (float data is handed over scaled by a power of two, see
     [scale]); accumulators are generic: [Z] for the ideal arithmetic, [option Z] for the model of
     IEEE double arithmetic that is defined exactly where double arithmetic is exact (integers of
     magnitude <= 2^53 -- every operation whose exact result is such an integer returns it);
   * [old_*] is the arithmetic of the code before the repair of defect D9 (difference taken in the
     element type: C `int` for int8/16/32, 64-bit for int64), kept for the refutation theorem. *)
From Coq Require Import List ZArith QArith Qabs Bool.
From EV Require Import PFor DistBase DistValidGen.
Import ListNotations.
Open Scope Z_scope.

Inductive metric := Euclid | Manhattan | Hamming.

(* the fused types the kernels are compiled for: FLOAT_TYPE_T / INTEGRAL_TYPE_T *)
Definition supports (mt : metric) (d : dtype) : bool :=
  match mt, d with
  | Hamming, (I8 | I16 | I32 | I64 | U8 | U16 | U32 | U64) => true
  | Euclid, (I8 | I16 | I32 | I64 | F32 | F64) => true
  | Manhattan, (I8 | I16 | I32 | I64 | F32 | F64) => true
  | _, _ => false
  end.

(* ------------------------------------------------------------------ arrays and views *)
Record ndarr := { buf : list Z; dt : dtype; shp : list Z; off : Z; strd : list Z }.

Definition obj (a : ndarr) : aobj := {| shape := shp a; adt := dt a |}.
Definition stride (a : ndarr) (k : nat) : Z := nth k (strd a) 0.
Definition dim (a : ndarr) (k : nat) : nat := Z.to_nat (nth k (shp a) 0).
Definition addr2 (a : ndarr) (i j : nat) : Z := off a + Z.of_nat i * stride a 0 + Z.of_nat j * stride a 1.
Definition addr1 (a : ndarr) (j : nat) : Z := off a + Z.of_nat j * stride a 0.
Definition get2 (a : ndarr) (i j : nat) : Z := nth (Z.to_nat (addr2 a i j)) (buf a) 0.
Definition get1 (a : ndarr) (j : nat) : Z := nth (Z.to_nat (addr1 a j)) (buf a) 0.

(* the logical matrix / vector an array denotes *)
Definition rows (a : ndarr) : list (list Z) :=
  map (fun i => map (fun j => get2 a i j) (seq 0 (dim a 1))) (seq 0 (dim a 0)).
Definition vec (a : ndarr) : list Z := map (get1 a) (seq 0 (dim a 0)).

(* standard layouts of a logical n x m matrix given in row-major order *)
Definition c_array (d : dtype) (n m : nat) (flat : list Z) : ndarr :=
  {| buf := flat; dt := d; shp := [Z.of_nat n; Z.of_nat m]; off := 0; strd := [Z.of_nat m; 1] |}.
(* Fortran order: the buffer holds the columns one after the other *)
Definition f_array (d : dtype) (n m : nat) (flat_colmajor : list Z) : ndarr :=
  {| buf := flat_colmajor; dt := d; shp := [Z.of_nat n; Z.of_nat m]; off := 0; strd := [1; Z.of_nat n] |}.
(* basic slicing a[r0::rs, c0::cs] keeping nr x nc elements (rs, cs may be negative) *)
Definition slice2 (a : ndarr) (r0 rs : Z) (nr : nat) (c0 cs : Z) (nc : nat) : ndarr :=
  {| buf := buf a; dt := dt a; shp := [Z.of_nat nr; Z.of_nat nc];
     off := off a + r0 * stride a 0 + c0 * stride a 1;
     strd := [rs * stride a 0; cs * stride a 1] |}.
Definition transpose2 (a : ndarr) : ndarr :=
  {| buf := buf a; dt := dt a; shp := [nth 1 (shp a) 0; nth 0 (shp a) 0]; off := off a;
     strd := [stride a 1; stride a 0] |}.

(* every element of the view lies inside the buffer (NumPy's invariant for its own arrays) *)
Definition view_ok2 (a : ndarr) : Prop :=
  forall i j, (i < dim a 0)%nat -> (j < dim a 1)%nat ->
              0 <= addr2 a i j < Z.of_nat (length (buf a)).
Definition view_ok1 (a : ndarr) : Prop :=
  forall j, (j < dim a 0)%nat -> 0 <= addr1 a j < Z.of_nat (length (buf a)).
(* executable version: an affine map is extremal at the corners *)
Definition in_buf (a : ndarr) (z : Z) : bool := (0 <=? z) && (z <? Z.of_nat (length (buf a))).
Definition view_ok2b (a : ndarr) : bool :=
  match dim a 0, dim a 1 with
  | O, _ | _, O => true
  | S n, S m => in_buf a (addr2 a 0 0) && in_buf a (addr2 a n 0) &&
                in_buf a (addr2 a 0 m) && in_buf a (addr2 a n m)
  end.
Definition view_ok1b (a : ndarr) : bool :=
  match dim a 0 with O => true | S m => in_buf a (addr1 a 0) && in_buf a (addr1 a m) end.

(* ------------------------------------------------------------------ the kernels as prange phases *)
Section Kernel.
  Context {A : Type}.
  Variable zero : A.
  Variable step : Z -> Z -> A -> A.      (* step X[i,j] y[j] out[i] : one `out[i] += ...` *)

  Definition zero_prog (i : nat) : list (A -> A) := [fun _ => zero].
  Definition acc_prog (X y : ndarr) (m : nat) (i : nat) : list (A -> A) :=
    map (fun j a => step (get2 X i j) (get1 y j) a) (seq 0 m).

  (* _euclidean / _manhattan: `for i in prange: out[i] = 0` then
     `for i in prange: for j in range(n_features): out[i] += ...`; s1, s2 are the orders in which
     the iterations of the two loops happen to be executed *)
  Definition kernel_two_loops (X y : ndarr) (m : nat) (s1 s2 : list nat) (out : list A) : list A :=
    run_ops (sched_ops (acc_prog X y m) s2) (run_ops (sched_ops zero_prog s1) out).
  (* _hamming: one prange whose body zeroes and accumulates *)
  Definition ham_prog (X y : ndarr) (m : nat) (i : nat) : list (A -> A) :=
    zero_prog i ++ acc_prog X y m i.
  Definition kernel_one_loop (X y : ndarr) (m : nat) (s : list nat) (out : list A) : list A :=
    run_ops (sched_ops (ham_prog X y m) s) out.

  (* what every kernel is supposed to leave in cell i *)
  Definition row_value (X y : ndarr) (m i : nat) : A :=
    fold_left (fun a j => step (get2 X i j) (get1 y j) a) (seq 0 m) zero.
End Kernel.

(* ------------------------------------------------------------------ arithmetic *)
(* ideal *)
Definition step_ideal (mt : metric) (a b acc : Z) : Z :=
  match mt with
  | Euclid => acc + (a - b) * (a - b)
  | Manhattan => acc + Z.abs (a - b)
  | Hamming => acc + (if b =? a then 0 else 1)
  end.

(* IEEE double, where exact *)
Definition B53 : Z := 2 ^ 53.
Definition dbl (z : Z) : option Z := if Z.abs z <=? B53 then Some z else None.
Definition mdiff (a b : Z) : option Z :=
  match dbl a, dbl b with Some a', Some b' => dbl (a' - b') | _, _ => None end.
Definition step_mach (mt : metric) (a b : Z) (acc : option Z) : option Z :=
  match mt, acc with
  | _, None => None
  | Hamming, Some s => dbl (s + (if b =? a then 0 else 1))
  | Manhattan, Some s => match mdiff a b with Some d => dbl (s + Z.abs d) | None => None end
  | Euclid, Some s =>
      match mdiff a b with
      | Some d => match dbl (d * d) with Some q => dbl (s + q) | None => None end
      | None => None
      end
  end.

(* the code before the repair of D9: difference (and for int64 the square) in the element type *)
Definition wrap (bits z : Z) : Z := (z + 2 ^ (bits - 1)) mod 2 ^ bits - 2 ^ (bits - 1).
Definition old_diff (d : dtype) (a b : Z) : Z :=
  match d with I64 => wrap 64 (a - b) | _ => wrap 32 (a - b) end.
Definition step_old (d : dtype) (mt : metric) (a b acc : Z) : Z :=
  match mt with
  | Euclid => acc + match d with
                    | I64 => wrap 64 (old_diff d a b * old_diff d a b)
                    | _ => old_diff d a b * old_diff d a b
                    end
  | Manhattan => acc + Z.abs (old_diff d a b)
  | Hamming => acc + (if b =? a then 0 else 1)
  end.

(* ------------------------------------------------------------------ a whole call *)
Inductive dres (A : Type) := DErr (e : verr) | DOk (cells : list A).
Arguments DErr {A} e.
Arguments DOk {A} cells.

Section Call.
  Context {A : Type}.
  Variable zero : A.
  Variable step : metric -> Z -> Z -> A -> A.

  Definition run_kernel (mt : metric) (X y : ndarr) (s1 s2 : list nat) (out : list A) : list A :=
    let m := dim y 0 in
    match mt with
    | Hamming => kernel_one_loop zero (step mt) X y m s2 out
    | _ => kernel_two_loops zero (step mt) X y m s1 s2 out
    end.

  (* out : the caller's buffer as (its shape/dtype, its logical cells) *)
  Definition distance_sched (mt : metric) (X y : ndarr) (out : option (aobj * list A))
             (sched : nat -> list nat * list nat) : dres A :=
    match gen_prepare (obj X) (obj y) (option_map fst out) with
    | VErr e => DErr e
    | r =>
        if negb (dtype_eqb (dt X) (dt y) && supports mt (dt X)) then DErr TypeErr
        else
          let cells := match r, out with
                       | VAlloc n, _ => repeat zero (Z.to_nat n)
                       | _, Some (_, c) => c
                       | _, None => []
                       end in
          let n := length cells in          (* n_samples = len(out) *)
          DOk (run_kernel mt X y (fst (sched n)) (snd (sched n)) cells)
    end.

  Definition distance (mt : metric) (X y : ndarr) (out : option (aobj * list A)) : dres A :=
    distance_sched mt X y out (fun n => (seq 0 n, seq 0 n)).
End Call.

Definition distance_ideal := distance 0 step_ideal.
Definition distance_mach := distance (Some 0) step_mach.
(* magnitude of the inputs of a row, sum_j |x_j| + |y_j| (used for error bounds only) *)
Definition step_mag (mt : metric) (a b acc : Z) : Z := acc + Z.abs a + Z.abs b.
Definition distance_mag := distance 0 step_mag.

(* the specification: per row, the norm of x - y *)
Definition zsum (l : list Z) : Z := fold_right Z.add 0 l.
Definition spec_row (mt : metric) (x y : list Z) : Z :=
  zsum (map (fun p => step_ideal mt (fst p) (snd p) 0) (combine x y)).
Definition spec (mt : metric) (X : list (list Z)) (y : list Z) : list Z :=
  map (fun x => spec_row mt x y) X.

(* ------------------------------------------------------------------ comparison with the real code *)
(* float data is handed to the model as integers v * scale (scale a power of two, 1 for integer
   dtypes); manhattan then comes back scaled by scale, the squared euclidean by scale^2. *)
Definition qtol (tol a b : Q) : bool :=
  Qle_bool (Qabs (a - b)) (tol * (if Qle_bool 1 (Qabs b) then Qabs b else 1)).
Definition half_ulp : Q := 1 # (2 ^ 53).
(* r is (within rounding) the square root of s *)
Definition sqrt_ok (s r : Q) : bool :=
  Qle_bool 0 r && Qle_bool (Qabs (r * r - s)) (s * (3 # (2 ^ 53))).

(* outside the exact range the operands are rounded on conversion to double, so the error is
   bounded relative to the magnitude mag = sum_j (|x_j| + |y_j|) of the inputs, not of the result *)
Definition loose_tol : Q := 1 # 1000000000000.
Definition cell_ok (mt : metric) (scale : positive) (m : nat) (impl : Q) (mach : option Z) (ideal mag : Z) : bool :=
  let T := (loose_tol * (if Qle_bool 1 (mag # scale) then mag # scale else 1))%Q in
  match mt with
  | Manhattan =>
      match mach with
      | Some v => Qeq_bool impl (v # scale)
      | None => Qle_bool (Qabs (impl - (ideal # scale))) T
      end
  | Euclid =>
      match mach with
      | Some v => sqrt_ok (v # (scale * scale)) impl
      | None => let S := (ideal # (scale * scale))%Q in
                Qle_bool 0 impl && Qle_bool S ((impl + T) * (impl + T)) &&
                (Qle_bool impl T || Qle_bool ((impl - T) * (impl - T)) S)
      end
  | Hamming =>
      match mach with
      | Some v => qtol half_ulp impl (v # Pos.of_nat m)
      | None => false
      end
  end.

Fixpoint cells_ok (mt : metric) (scale : positive) (m : nat) (impl : list Q) (mach : list (option Z))
         (ideal mag : list Z) : bool :=
  match impl, mach, ideal, mag with
  | [], [], [], [] => true
  | q :: impl', a :: mach', z :: ideal', g :: mag' =>
      cell_ok mt scale m q a z g && cells_ok mt scale m impl' mach' ideal' mag'
  | _, _, _, _ => false
  end.

(* impl = None: the real call raised;  Some l: the returned float64 vector as exact rationals *)
Definition agrees (mt : metric) (scale : positive) (X y : ndarr) (out : option (aobj * list Z))
           (impl : option (list Q)) : bool :=
  let outm := option_map (fun p => (fst p, map (fun z => Some z) (snd p))) out in
  match distance_mach mt X y outm, distance_ideal mt X y out, distance_mag mt X y out, impl with
  | DErr _, DErr _, _, None => true
  | DOk mach, DOk ideal, DOk mag, Some l => cells_ok mt scale (dim y 0) l mach ideal mag
  | _, _, _, _ => false
  end.
