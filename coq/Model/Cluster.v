(* C01/C02/C09/C10: k-centers, nearest-centre assignment, k-medoids (PAM), k-hybrid as state
   machines over an abstract distance oracle D c f = distance from frame f to the frame c used
   as a centre (entry f of distance_method(X, X[c])).  Executable definitions only.

   The state keeps, per frame, a record (frame id, label, distance) -- the code's `assignments`
   and `distances` arrays zipped with the frame index -- and the list of centre frame ids. *)
From Coq Require Import List ZArith QArith Bool Arith.
Import ListNotations.

Record fr := mkfr { fid : nat; lab : nat; dist : Q }.
Definition st : Type := (list nat * list fr)%type.

Definition Qlt_b (a b : Q) : bool := negb (Qle_bool b a).

(* distance oracle from a matrix: row c = distance_method(X, X[c]) *)
Definition Dm (m : list (list Q)) (c f : nat) : Q := nth f (nth c m []) 0.

Section WithD.
  Variable D : nat -> nat -> Q.

  (* np.argmax / np.max: first maximum *)
  Fixpoint argmax_from (best : fr) (l : list fr) : fr :=
    match l with
    | [] => best
    | x :: r => if Qlt_b (dist best) (dist x) then argmax_from x r else argmax_from best r
    end.
  Definition argmax (l : list fr) : option fr :=
    match l with [] => None | x :: r => Some (argmax_from x r) end.
  Definition maxdist (l : list fr) : Q :=
    match argmax l with None => 0 | Some m => dist m end.

  (* ---------------------------------------------------------------- nearest-centre sweep
     assign_to_nearest_center: running strict minimum over the centre list, in order *)
  Fixpoint nearest_from (f : nat) (i : nat) (bi : nat) (bd : Q) (cs : list nat) : nat * Q :=
    match cs with
    | [] => (bi, bd)
    | c :: r => if Qlt_b (D c f) bd then nearest_from f (S i) i (D c f) r
                else nearest_from f (S i) bi bd r
    end.
  (* distances start at +inf: the first centre always wins *)
  Definition nearest (f : nat) (cs : list nat) : option (nat * Q) :=
    match cs with
    | [] => None
    | c :: r => Some (nearest_from f 1 0%nat (D c f) r)
    end.
  Definition nearest_fr (cs : list nat) (f : nat) : fr :=
    match nearest f cs with
    | Some (i, d) => mkfr f i d
    | None => mkfr f 0 0
    end.
  Definition nearest_state (cs : list nat) (n : nat) : st := (cs, map (nearest_fr cs) (seq 0 n)).

  (* ---------------------------------------------------------------- k-centers *)
  (* inds = dist < distances; distances[inds] = dist[inds]; assignments[inds] = len(center_inds) *)
  Definition kc_update (c k : nat) (x : fr) : fr :=
    let d := D c (fid x) in
    if Qlt_b d (dist x) then mkfr (fid x) k d else x.
  (* triangle-inequality shortcut: recompute only frames with distances > cc_dists[assignment]/2,
     where cc_dists = distance_method(traj[center_inds], new_center) *)
  Definition kc_update_ti (ctrs : list nat) (c k : nat) (x : fr) : fr :=
    let cc := D c (nth (lab x) ctrs 0%nat) in
    if Qlt_b (cc / (2#1)) (dist x) then kc_update c k x else x.
  Definition kc_iter (ti : bool) (s : st) : st :=
    match argmax (snd s) with
    | None => s
    | Some m =>
        let c := fid m in let k := length (fst s) in
        (fst s ++ [c], map (if ti then kc_update_ti (fst s) c k else kc_update c k) (snd s))
    end.
  (* while len(ctr_inds) < n_clusters and maxdist > dist_cutoff   (n_clusters = None means inf) *)
  Definition kc_guard (nclu : option nat) (cutoff : Q) (s : st) : bool :=
    (match nclu with None => true | Some k => length (fst s) <? k end) && Qlt_b cutoff (maxdist (snd s)).
  Fixpoint kc_loop (fuel : nat) (nclu : option nat) (cutoff : Q) (ti : bool) (s : st) : st :=
    match fuel with
    | O => s
    | S fuel' => if kc_guard nclu cutoff s then kc_loop fuel' nclu cutoff ti (kc_iter ti s) else s
    end.
  (* cold start: distances all +inf, so the first iteration picks frame 0 and assigns everything
     to it (needs n_clusters >= 1, n >= 1); the state after that first iteration: *)
  Definition kc_first (n : nat) : st := ([0%nat], map (fun f => mkfr f 0 (D 0 f)) (seq 0 n)).
  Definition kcenters_cold (nclu : option nat) (cutoff : Q) (ti : bool) (n : nat) : st :=
    kc_loop (S n) nclu cutoff ti (kc_first n).
  (* warm start from initial centres that are frames of the data *)
  Definition kcenters_warm (nclu : option nat) (cutoff : Q) (ti : bool) (init : list nat) (n : nat) : st :=
    kc_loop (S n) nclu cutoff ti (nearest_state init n).

  (* ---------------------------------------------------------------- k-medoids (PAM) *)
  Fixpoint replace_nth {A} (i : nat) (x : A) (l : list A) : list A :=
    match l, i with
    | [], _ => []
    | _ :: r, O => x :: r
    | y :: r, S i' => y :: replace_nth i' x r
    end.
  (* one frame of the three-way reassignment for cluster cid, proposal frame p, candidate medoids cs' *)
  Definition pam_frame (cid p : nat) (cs' : list nat) (x : fr) : fr :=
    let nd := D p (fid x) in
    if Qlt_b nd (dist x) then mkfr (fid x) cid nd                     (* dst_dn *)
    else if negb (lab x =? cid) then x                                 (* dst_up_assig_other *)
    else nearest_fr cs' (fid x).                                       (* dst_up_assig_this *)
  Definition sumsq (l : list fr) : Q := fold_right (fun x acc => dist x * dist x + acc) 0 l.
  (* accept iff new_cost < old_cost (means over the same n > 0 frames compare like sums) *)
  Definition pam_update (s : st) (cid p : nat) : st :=
    let cs' := replace_nth cid p (fst s) in
    let fs' := map (pam_frame cid p cs') (snd s) in
    if Qlt_b (sumsq fs') (sumsq (snd s)) then (cs', fs') else s.
  (* one sweep: for cid in range(k) with proposals[cid] *)
  Fixpoint pam_sweep_from (cid : nat) (props : list nat) (s : st) : st :=
    match props with
    | [] => s
    | p :: r => pam_sweep_from (S cid) r (pam_update s cid p)
    end.
  Definition pam_sweep (s : st) (props : list nat) : st := pam_sweep_from 0 props s.
  Definition kmedoids (s : st) (sweeps : list (list nat)) : st := fold_left pam_sweep sweeps s.
  Definition hybrid_cold (nclu : option nat) (cutoff : Q) (n : nat) (sweeps : list (list nat)) : st :=
    kmedoids (kcenters_cold nclu cutoff false n) sweeps.

  (* find_cluster_centers: for each label present (ascending), first member of minimal distance *)
  Fixpoint argmin_label (c : nat) (best : option fr) (l : list fr) : option fr :=
    match l with
    | [] => best
    | x :: r =>
        if lab x =? c then
          match best with
          | None => argmin_label c (Some x) r
          | Some b => if Qlt_b (dist x) (dist b) then argmin_label c (Some x) r else argmin_label c best r
          end
        else argmin_label c best r
    end.
End WithD.

(* observable result: centre indices, labels, distances *)
Definition labels (s : st) : list nat := map lab (snd s).
Definition dists (s : st) : list Q := map dist (snd s).
