(* Code-shaped skeletons of find_cluster_centers / compute_batches with their tests as parameters. *)
From Coq Require Import List ZArith QArith Bool Arith.
From EV Require Import Cluster.
Import ListNotations.

Fixpoint cb_loop_skel (fits : Z -> Z -> Z -> bool) (bs : Z) (lens : list Z) (i : nat) (cur_sz : Z)
         (cur : list nat) (done : list (list nat)) : list (list nat) :=
  match lens with
  | [] => done ++ [cur]
  | l :: r => if fits cur_sz l bs then cb_loop_skel fits bs r (S i) (cur_sz + l)%Z (cur ++ [i]) done
              else cb_loop_skel fits bs r (S i) l [i] (done ++ [cur])
  end.

(* per label: members selected by `member`, running first minimum by `better` *)
Fixpoint argmin_label_skel (member : nat -> nat -> bool) (better : Q -> Q -> bool)
         (c : nat) (best : option fr) (l : list fr) : option fr :=
  match l with
  | [] => best
  | x :: r =>
      if member (lab x) c then
        match best with
        | None => argmin_label_skel member better c (Some x) r
        | Some b => if better (dist x) (dist b) then argmin_label_skel member better c (Some x) r
                    else argmin_label_skel member better c best r
        end
      else argmin_label_skel member better c best r
  end.
