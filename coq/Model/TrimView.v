(* C11: reading the result of the GENERATED trim_disconnected / MSM.fit (Gen/TrimGen.v) as a
   [trim_result] of Model/Trim.v, and the correspondence check phrased on the generated code.
   Executable definitions only. *)
From Coq Require Import List ZArith Bool.
From EV Require Import Trim TrimBase TrimGen.
Import ListNotations.

(* what a caller can observe of (mapping, trimmed_counts): mapping.to_original, mapping.to_mapped
   (the generated property), the cells and the type of trimmed_counts; the kept ids are the values of
   to_original in insertion order.  None: reading an attribute raises. *)
Definition of_gen (g : tm_obj * typed_mat) : option trim_result :=
  match slot_to_original (fst g), gen_tm_to_mapped (fst g) with
  | Some o, Some m =>
      Some {| tr_keep := map snd o; tr_counts := snd (snd g); tr_to_original := o;
              tr_to_mapped := m; tr_container := fst (snd g) |}
  | _, _ => None
  end.
Definition bind_gen (x : option (tm_obj * typed_mat)) : option trim_result :=
  match x with None => None | Some g => of_gen g end.

(* the implementation's result compared with the generated code run on the very input it was
   given (for a sparse container: its stored entries, duplicates included) *)
Definition gen_impl_agrees (inp : counts_in) (thr : Z) (renumber : bool) (r : option trim_result) : bool :=
  agrees_with (bind_gen (gen_trim_disconnected inp thr renumber)) thr (toarray inp) renumber (py_type inp) r.
Definition gen_fit_agrees (trim : bool) (inp : counts_in) (r : option trim_result) : bool :=
  if trim then agrees_with (bind_gen (gen_fit_trim true inp)) 1 (toarray inp) true (py_type inp) r
  else match bind_gen (gen_fit_trim false inp), r with
       | Some m, Some r => result_eqb m r
       | None, None => true
       | _, _ => false
       end.

(* TrimMapping(list of pairs) on its own *)
Definition tm_view (o : tm_obj) : option (dict * dict) :=
  match slot_to_original o, gen_tm_to_mapped o with
  | Some a, Some b => Some (a, b)
  | _, _ => None
  end.
Definition gen_mapping_agrees (transformations : list (nat * nat)) (r : option (dict * dict)) : bool :=
  match tm_view (gen_tm_init (PyList transformations)), r with
  | None, None => true
  | Some m, Some r => dict_equiv (fst m) (fst r) && dict_equiv (snd m) (snd r)
  | _, _ => false
  end.
