(* C10: per-trajectory bookkeeping.  Specification-level definitions and the hand models of
   ClusterResult.partition, find_cluster_centers and compute_batches.  Executable only. *)
From Coq Require Import List ZArith QArith Bool Arith.
From EV Require Import PySlice PartitionBase PartitionGen Cluster.
Import ListNotations.

Definition zsum (l : list Z) : Z := fold_right Z.add 0%Z l.
(* flat index of frame f of trajectory t *)
Definition flat_of (lens : list Z) (t : nat) (f : Z) : Z := (zsum (firstn t lens) + f)%Z.

(* ClusterResult.partition: rectangular output iff all lengths are equal *)
Definition square (lens : list Z) : bool :=
  match lens with [] => true | l0 :: _ => forallb (Z.eqb l0) lens end.
Record partitioned := mkpart { p_square : bool; p_asg : option (list (list nat));
                               p_dst : option (list (list Q)); p_ctr : list (Z * Z) }.
Definition partition_result (ctrs : list Z) (asg : list nat) (dst : list Q) (lens : list Z) : partitioned :=
  mkpart (square lens) (gen_partition_list asg lens) (gen_partition_list dst lens)
         (gen_partition_indices ctrs lens).

(* find_cluster_centers: np.unique(assignments) ascending; per label the first member of minimal distance *)
Definition labels_present (l : list fr) : list nat :=
  filter (fun c => existsb (fun x => (lab x =? c)%nat) l) (seq 0 (S (fold_right Nat.max 0%nat (map lab l)))).
Definition find_cluster_centers (l : list fr) : list nat :=
  flat_map (fun c => match argmin_label c None l with Some b => [fid b] | None => [] end) (labels_present l).

(* compute_batches: consecutive groups whose total stays below batch_size *)
Fixpoint cb_loop (bs : Z) (lens : list Z) (i : nat) (cur_sz : Z) (cur : list nat) (done : list (list nat))
  : list (list nat) :=
  match lens with
  | [] => done ++ [cur]
  | l :: r => if (cur_sz + l <? bs)%Z then cb_loop bs r (S i) (cur_sz + l)%Z (cur ++ [i]) done
              else cb_loop bs r (S i) l [i] (done ++ [cur])
  end.
Definition compute_batches (lens : list Z) (bs : Z) : list (list nat) := cb_loop bs lens 0 0%Z [] [].
