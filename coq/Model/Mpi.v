(* C14: bulk-synchronous model of enspara's MPI-striped clustering and reductions.
   Executable definitions only (proofs: Proof/MpiProofs.v, Proof/MpiKc.v).

   World size P >= 1.  Trajectory t lives on rank t mod P (`x[rank::size]` everywhere in the code);
   a rank's local array is the concatenation of its trajectories in order.  A collective is a total
   function of the vector of per-rank contributions (that is what MPI guarantees irrespective of the
   order in which ranks arrive; trusted), so one model execution stands for all arrival orders.

   The serial algorithms are the state machines of Model/Cluster.v over a distance oracle
   D c f = entry f of distance_method(X, X[c]) (c, f global frame ids).  A distributed state keeps
   per rank the list of local frame records; each record carries the *global* id of its frame
   (fid), which is what the broadcast frame data stands for when it is handed to the metric. *)
From Coq Require Import List ZArith QArith Bool Arith.
From EV Require Import Cluster.
Import ListNotations.

  (* Python l[k::P]  (P >= 1): positions k, k+P, k+2P, ... *)
  Fixpoint every {A} (P k : nat) (l : list A) : list A :=
    match l with
    | [] => []
    | x :: t => match k with O => x :: every P (P - 1) t | S k' => every P k' t end
    end.
  (* what the ranks 0..P-1 own *)
  Definition stripes {A} (P : nat) (l : list A) : list (list A) := map (fun r => every P r l) (seq 0 P).

  (* RaggedArray(data, lengths=lens): its rows *)
  Fixpoint split_by {A} (lens : list nat) (data : list A) : list (list A) :=
    match lens with
    | [] => []
    | L :: r => firstn L data :: split_by r (skipn L data)
    end.

  (* rank r's local array of a global per-frame array g: RaggedArray(g, lens)[r::P].flatten() *)
  Definition local_of {A} (P r : nat) (lens : list nat) (g : list A) : list A :=
    concat (every P r (split_by lens g)).
  Definition scatter {A} (P : nat) (lens : list nat) (g : list A) : list (list A) :=
    map (fun r => local_of P r lens g) (seq 0 P).

  (* global[k::P] = news  (row-wise; the caller checks that the counts agree) *)
  Fixpoint put_every {A} (P k : nat) (news l : list A) : list A :=
    match l with
    | [] => []
    | x :: t =>
        match k with
        | O => match news with
               | [] => x :: put_every P (P - 1) [] t
               | y :: ns => y :: put_every P (P - 1) ns t
               end
        | S k' => x :: put_every P k' news t
        end
    end.

Definition sum_nat (l : list nat) : nat := fold_right Nat.add 0%nat l.

(* ---------------------------------------------------------------- reassembly
   assemble_striped_ragged_array(local_array, global_lengths), as executed on every rank:
     global_ra = RaggedArray(-1 ..., lengths)
     for rank in range(size): rank_array = bcast(local_array, root=rank)
         local_lengths = global_lengths[rank::size]
         global_ra[rank::size] = RaggedArray(rank_array, lengths=local_lengths)     (> 1 row)
         global_ra[rank] = rank_array                                               (exactly 1 row)
   None = the code raises (a rank owning no trajectory, or a local array whose length is not the
   sum of the lengths of the trajectories the rank owns). *)
Section Assemble.
  Context {A : Type}.
  Variable fill : A.
  Definition assemble_step (P : nat) (lens : list nat) (locals : list (list A))
             (acc : option (list (list A))) (r : nat) : option (list (list A)) :=
    match acc with
    | None => None
    | Some g =>
        let ll := every P r lens in
        let loc := nth r locals [] in
        match ll with
        | [] => None
        | _ => if Nat.eqb (length loc) (sum_nat ll) then Some (put_every P r (split_by ll loc) g) else None
        end
    end.
  Definition assemble_rows (P : nat) (lens : list nat) (locals : list (list A)) : option (list (list A)) :=
    if negb (Nat.eqb (length locals) P) then None
    else fold_left (assemble_step P lens locals) (seq 0 P)
                   (Some (split_by lens (repeat fill (sum_nat lens)))).
  Definition assemble (P : nat) (lens : list nat) (locals : list (list A)) : option (list A) :=
    option_map (@concat A) (assemble_rows P lens locals).
End Assemble.

(* assemble_striped_array(local_arr) for 1-D arrays of positive numbers (trajectory lengths):
   size 1 returns the local array; otherwise global[i::size] = bcast(local, root=i); raises when a
   local entry is <= 0. *)
Definition assemble_flat (P : nat) (locals : list (list nat)) : option (list nat) :=
  if negb (Nat.eqb (length locals) P) then None
  else if Nat.eqb P 1 then Some (nth 0 locals [])
  else if negb (forallb (forallb (fun x => Nat.ltb 0 x)) locals) then None
  else
    let total := sum_nat (map (@length nat) locals) in
    fold_left (fun acc r =>
                 match acc with
                 | None => None
                 | Some g => let loc := nth r locals [] in
                             if Nat.eqb (length loc) (length (every P r g)) then Some (put_every P r loc g) else None
                 end) (seq 0 P) (Some (repeat 0%nat total)).

(* ---------------------------------------------------------------- index maps *)
(* flat position <-> (row, column) of a RaggedArray with the given row lengths (ra.where / _convert_from_1d) *)
Fixpoint unflat (lens : list nat) (p : nat) : option (nat * nat) :=
  match lens with
  | [] => None
  | L :: r => if Nat.ltb p L then Some (0%nat, p)
              else match unflat r (p - L) with Some (t, f) => Some (S t, f) | None => None end
  end.
Definition flat (lens : list nat) (tf : nat * nat) : nat := (sum_nat (firstn (fst tf) lens) + snd tf)%nat.

(* global frame ids of rank r's local frames, in local order:
   RaggedArray(arange(sum(lengths)), lengths)[r::size].flatten() *)
Definition local_ids (P r : nat) (lens : list nat) : list nat := local_of P r lens (seq 0 (sum_nat lens)).

(* convert_local_indices: (owner rank, local frame) -> global frame; None = IndexError *)
Definition convert_local (P : nat) (lens : list nat) (ri : nat * nat) : option nat :=
  nth_error (local_ids P (fst ri) lens) (snd ri).

(* ctr_ids_mpi on a (trajectory, frame) pair: rank = t mod P; offset of local trajectory t / P among
   the owned ones + frame; None = IndexError *)
Definition ctr_pair_mpi (P : nat) (lens : list nat) (tf : nat * nat) : option (nat * nat) :=
  let r := (fst tf mod P)%nat in
  let owned := every P r lens in
  let j := (fst tf / P)%nat in
  match nth_error owned j with
  | None => None
  | Some L => if Nat.ltb (snd tf) L then Some (r, (sum_nat (firstn j owned) + snd tf)%nat) else None
  end.
(* ctr_ids_mpi on a global frame id: first located in the RaggedArray of global ids *)
Definition ctr_ids_mpi (P : nat) (lens : list nat) (g : nat) : option (nat * nat) :=
  match unflat lens g with None => None | Some tf => ctr_pair_mpi P lens tf end.

(* ---------------------------------------------------------------- randind
   n_states = allgather(len(local)); g = rank 0's draw from [0, sum n_states), broadcast;
   concat = concatenate([arange(total)[r::size] for r]); a = RaggedArray(concat, lengths=n_states);
   (owner, local) = first hit of ra.where(a == g) *)
Fixpoint index_of (x : nat) (l : list nat) : option nat :=
  match l with
  | [] => None
  | y :: r => if Nat.eqb x y then Some 0%nat else option_map S (index_of x r)
  end.
Definition randind (n_states : list nat) (g : nat) : option (nat * nat) :=
  let P := length n_states in
  let total := sum_nat n_states in
  match index_of g (concat (stripes P (seq 0 total))) with
  | None => None
  | Some p => unflat n_states p
  end.

(* ---------------------------------------------------------------- reductions *)
Definition qmax2 (a b : Q) : Q := if Qlt_b a b then b else a.
(* np.max of a non-empty array / allreduce(MAX) as a fold in rank order; None = empty (np.max raises) *)
Definition maxq (l : list Q) : option Q :=
  match l with [] => None | x :: r => Some (fold_left qmax2 r x) end.
Fixpoint all_some {B} (l : list (option B)) : option (list B) :=
  match l with
  | [] => Some []
  | None :: _ => None
  | Some x :: r => match all_some r with Some r' => Some (x :: r') | None => None end
  end.
(* striped_array_max: allreduce(local.max(), MAX) *)
Definition striped_max (locals : list (list Q)) : option Q :=
  match all_some (map maxq locals) with None => None | Some ms => maxq ms end.
Definition sumq (l : list Q) : Q := fold_right Qplus 0 l.
(* striped_array_mean: allreduce(sum) / allreduce(len) *)
Definition striped_mean (locals : list (list Q)) : Q :=
  sumq (map sumq locals) / inject_Z (Z.of_nat (sum_nat (map (@length Q) locals))).
Definition mean (g : list Q) : Q := sumq g / inject_Z (Z.of_nat (length g)).

(* ---------------------------------------------------------------- distributed k-centers *)
Record dstate := mkds {
  dctr : list (nat * nat);      (* center_inds: (owner rank, local index) *)
  dcid : list nat;              (* `centers`: the broadcast frames, named by their global id *)
  dloc : list (list fr) }.      (* per rank: (global id, assignment, distance) of the local frames *)

(* np.argmax / np.max of a local array: first maximum *)
Fixpoint argmax_idx_from (bi : nat) (bv : Q) (i : nat) (l : list Q) : nat * Q :=
  match l with
  | [] => (bi, bv)
  | v :: r => if Qlt_b bv v then argmax_idx_from i v (S i) r else argmax_idx_from bi bv (S i) r
  end.
Definition argmax_idx (l : list Q) : option (nat * Q) :=
  match l with [] => None | v :: r => Some (argmax_idx_from 0 v 1 r) end.

Section WithD.
  Variable D : nat -> nat -> Q.

  (* _kcenters_iteration_mpi with len(center_inds) > 0:
       dist_locs = allgather(argmax(distances)); dist_vals = allgather(max(distances))
       owner = argmax(dist_vals); index = dist_locs[owner]; new_center = Bcast of the owner's frame
       new_dists = metric(traj, new_center) (or the triangle-inequality recomputation)
       inds = new_dists < distances; ...; center_inds.append((owner, index)) *)
  Definition kc_iter_mpi (ti : bool) (ds : dstate) : option dstate :=
    match all_some (map (fun loc => argmax_idx (map dist loc)) (dloc ds)) with
    | None => None
    | Some gathered =>
        match argmax_idx (map snd gathered) with
        | None => None
        | Some (owner, _) =>
            let index := fst (nth owner gathered (0%nat, 0)) in
            match nth_error (nth owner (dloc ds) []) index with
            | None => None
            | Some m =>
                let c := fid m in
                let k := length (dctr ds) in
                Some (mkds (dctr ds ++ [(owner, index)]) (dcid ds ++ [c])
                           (map (map (if ti then kc_update_ti D (dcid ds) c k else kc_update D c k)) (dloc ds)))
            end
        end
    end.
  Definition dists_of (ds : dstate) : list (list Q) := map (map dist) (dloc ds).
  (* while len(ctr_inds) < n_clusters and striped_array_max(distances) > dist_cutoff *)
  Definition kc_guard_mpi (nclu : option nat) (cutoff : Q) (ds : dstate) : option bool :=
    match striped_max (dists_of ds) with
    | None => None
    | Some m => Some ((match nclu with None => true | Some k => length (dctr ds) <? k end) && Qlt_b cutoff m)
    end.
  Fixpoint kc_loop_mpi (fuel : nat) (nclu : option nat) (cutoff : Q) (ti : bool) (ds : dstate) : option dstate :=
    match fuel with
    | O => Some ds
    | S fuel' =>
        match kc_guard_mpi nclu cutoff ds with
        | None => None
        | Some false => Some ds
        | Some true => match kc_iter_mpi ti ds with None => None | Some ds' => kc_loop_mpi fuel' nclu cutoff ti ds' end
        end
    end.
  (* cold start: no centre yet => owner 0, index 0; all distances are +inf so every frame is
     assigned to it (state after that first iteration), ids = per-rank global ids of local frames *)
  Definition kc_first_mpi (ids : list (list nat)) : option dstate :=
    match nth_error (nth 0 ids []) 0 with
    | None => None
    | Some c => Some (mkds [(0%nat, 0%nat)] [c] (map (map (fun f => mkfr f 0 (D c f))) ids))
    end.
  Definition kcenters_mpi (P : nat) (lens : list nat) (nclu : option nat) (cutoff : Q) (ti : bool) : option dstate :=
    match kc_first_mpi (scatter P lens (seq 0 (sum_nat lens))) with
    | None => None
    | Some ds => kc_loop_mpi (S (sum_nat lens)) nclu cutoff ti ds
    end.

  (* ------------------------------------------------------------ distributed PAM step
     proposal (r, i): the frame is Bcast from its owner; per-frame three-way reassignment exactly as
     in the serial code; cost = striped mean of squared distances; accept iff new < old *)
  Definition sq_cost (locs : list (list fr)) : Q := striped_mean (map (map (fun x => dist x * dist x)) locs).
  Definition pam_update_mpi (ds : dstate) (cid : nat) (prop : nat * nat) : option dstate :=
    match nth_error (nth (fst prop) (dloc ds) []) (snd prop) with
    | None => None
    | Some m =>
        let p := fid m in
        let cs' := replace_nth cid p (dcid ds) in
        let locs' := map (map (pam_frame D cid p cs')) (dloc ds) in
        if Qlt_b (sq_cost locs') (sq_cost (dloc ds))
        then Some (mkds (replace_nth cid prop (dctr ds)) cs' locs')
        else Some ds
    end.
  (* _propose_new_center_amongst in MPI mode: state_inds = where(assignments == cid) on each rank;
     (r, idx) = randind(state_inds) from rank 0's draw g; i = state_inds[idx] on rank r *)
  Fixpoint members_from (cid i : nat) (l : list fr) : list nat :=
    match l with
    | [] => []
    | x :: r => if lab x =? cid then i :: members_from cid (S i) r else members_from cid (S i) r
    end.
  Definition propose_mpi (ds : dstate) (cid g : nat) : option (nat * nat) :=
    let mem := map (members_from cid 0) (dloc ds) in
    match randind (map (@length nat) mem) g with
    | None => None
    | Some (r, idx) => match nth_error (nth r mem []) idx with Some i => Some (r, i) | None => None end
    end.
  (* one sweep over cid = 0..k-1 with the recorded draws *)
  Fixpoint pam_sweep_mpi_from (cid : nat) (draws : list nat) (ds : dstate) : option dstate :=
    match draws with
    | [] => Some ds
    | g :: r => match propose_mpi ds cid g with
                | None => None
                | Some prop => match pam_update_mpi ds cid prop with
                               | None => None
                               | Some ds' => pam_sweep_mpi_from (S cid) r ds'
                               end
                end
    end.
  Fixpoint kmedoids_mpi (sweeps : list (list nat)) (ds : dstate) : option dstate :=
    match sweeps with
    | [] => Some ds
    | s :: r => match pam_sweep_mpi_from 0 s ds with None => None | Some ds' => kmedoids_mpi r ds' end
    end.
  Definition hybrid_mpi (P : nat) (lens : list nat) (nclu : option nat) (cutoff : Q) (sweeps : list (list nat)) : option dstate :=
    match kcenters_mpi P lens nclu cutoff false with None => None | Some ds => kmedoids_mpi sweeps ds end.
  (* any sequence of PAM steps with explicit proposals: (cluster id, (owner rank, local index)) *)
  Fixpoint pam_steps_mpi (steps : list (nat * (nat * nat))) (ds : dstate) : option dstate :=
    match steps with
    | [] => Some ds
    | (cid, prop) :: r => match pam_update_mpi ds cid prop with None => None | Some ds' => pam_steps_mpi r ds' end
    end.
End WithD.

(* ---------------------------------------------------------------- MPI warm start
   kcenters(local, init_centers=C, mpi_mode=True): every rank computes
     assignments, distances = assign_to_nearest_center(local traj, C)
   and the centre pairs come from _find_cluster_centers_mpi: each rank runs util.find_cluster_centers on its
   local arrays (per label present: first local frame of minimal distance), the per-label
   (distance, local index) entries are allgathered, and for every label present on some rank (ascending) the
   pair is (first rank of minimal distance, that rank's local index). *)
Fixpoint argmin_label_idx (c i : nat) (best : option (Q * nat)) (l : list fr) : option (Q * nat) :=
  match l with
  | [] => best
  | x :: r =>
      if lab x =? c then
        match best with
        | None => argmin_label_idx c (S i) (Some (dist x, i)) r
        | Some (bd, _) => if Qlt_b (dist x) bd then argmin_label_idx c (S i) (Some (dist x, i)) r
                          else argmin_label_idx c (S i) best r
        end
      else argmin_label_idx c (S i) best r
  end.
Fixpoint first_min_rank (r : nat) (best : option (Q * (nat * nat))) (l : list (option (Q * nat))) : option (nat * nat) :=
  match l with
  | [] => option_map snd best
  | None :: t => first_min_rank (S r) best t
  | Some (d, i) :: t =>
      match best with
      | None => first_min_rank (S r) (Some (d, (r, i))) t
      | Some (bd, _) => if Qlt_b d bd then first_min_rank (S r) (Some (d, (r, i))) t
                        else first_min_rank (S r) best t
      end
  end.
Definition warm_pair (locs : list (list fr)) (c : nat) : option (nat * nat) :=
  first_min_rank 0 None (map (argmin_label_idx c 0 None) locs).
Definition warm_ctr_pairs (k : nat) (locs : list (list fr)) : list (nat * nat) :=
  flat_map (fun c => match warm_pair locs c with Some p => [p] | None => [] end) (seq 0 k).
(* init = the supplied centres, named by the global ids of the frames they are (non-empty); then the loop *)
Definition kcenters_warm_mpi (D : nat -> nat -> Q) (P : nat) (lens : list nat) (init : list nat)
           (nclu : option nat) (cutoff : Q) (ti : bool) : option dstate :=
  match init with
  | [] => None
  | _ => let locs := map (map (nearest_fr D init)) (scatter P lens (seq 0 (sum_nat lens))) in
         kc_loop_mpi D (S (sum_nat lens)) nclu cutoff ti (mkds (warm_ctr_pairs (length init) locs) init locs)
  end.

(* ---------------------------------------------------------------- striped loading
   rank r loads keys / files  all_keys[r::size]; with a stride every row is row[::stride] *)
Definition keys_of {A} (P r : nat) (keys : list A) : list A := every P r keys.
Definition strided_len (stride L : nat) : nat := length (every stride 0 (repeat tt L)).
Definition loaded (P r stride : nat) (lens : list nat) : list nat :=
  concat (every P r (map (every stride 0) (split_by lens (seq 0 (sum_nat lens))))).

(* ---------------------------------------------------------------- comparison helpers for case files *)
Fixpoint nl_eqb (a b : list nat) : bool :=
  match a, b with
  | [], [] => true
  | x :: a', y :: b' => Nat.eqb x y && nl_eqb a' b'
  | _, _ => false
  end.
Fixpoint ql_eqb (a b : list Q) : bool :=
  match a, b with
  | [], [] => true
  | x :: a', y :: b' => Qeq_bool x y && ql_eqb a' b'
  | _, _ => false
  end.
Fixpoint ll_eqb {B} (e : list B -> list B -> bool) (a b : list (list B)) : bool :=
  match a, b with
  | [], [] => true
  | x :: a', y :: b' => e x y && ll_eqb e a' b'
  | _, _ => false
  end.
Fixpoint pl_eqb (a b : list (nat * nat)) : bool :=
  match a, b with
  | [], [] => true
  | (x1, x2) :: a', (y1, y2) :: b' => Nat.eqb x1 y1 && Nat.eqb x2 y2 && pl_eqb a' b'
  | _, _ => false
  end.
Definition opair_eqb (a b : option (nat * nat)) : bool :=
  match a, b with
  | None, None => true
  | Some (x1, x2), Some (y1, y2) => Nat.eqb x1 y1 && Nat.eqb x2 y2
  | _, _ => false
  end.
Definition onat_eqb (a b : option nat) : bool :=
  match a, b with None, None => true | Some x, Some y => Nat.eqb x y | _, _ => false end.
(* distributed state vs what the ranks returned: (centre pairs, per-rank labels, per-rank distances) *)
Definition ds_eqb (ods : option dstate) (r : option (list (nat * nat) * list (list nat) * list (list Q))) : bool :=
  match ods, r with
  | None, None => true
  | Some ds, Some (c, a, d) =>
      pl_eqb (dctr ds) c && ll_eqb nl_eqb (map (map lab) (dloc ds)) a && ll_eqb ql_eqb (map (map dist) (dloc ds)) d
  | _, _ => false
  end.
Definition ds_show (ods : option dstate) :=
  match ods with
  | None => None
  | Some ds => Some (dctr ds, dcid ds, map (map lab) (dloc ds), map (map dist) (dloc ds))
  end.
