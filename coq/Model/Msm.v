(* C16: the MSM estimator (enspara/msm/msm.py), eigenspectrum post-processing
   (enspara/msm/transition_matrices.py), implied-timescale pipeline (enspara/msm/timescales.py) and
   ensemble propagation (enspara/msm/synthetic_data.py).  Executable definitions only.

   The configuration dataflow (constructor -> attributes -> arguments of the three calls in fit,
   config dict, load) is NOT written here: it is Gen/MsmCfgGen.v, regenerated from the source.
   This file instantiates its callees with the models of C03 (Counts), C11 (Trim), C04 (Builders)
   and states the function pipeline the estimator is compared with. *)
From Coq Require Import List ZArith QArith Qabs Bool Arith.
From EV Require Import MsmBase MsmCfgGen.
From EV Require Counts Trim Builders.
Import ListNotations.

(* ------------------------------------------------------------------ callees of fit *)
Definition assigns := list (list Z).
Definition counts := Trim.mat.                       (* list (list Z) *)

(* assigns_to_counts: lag < 1 -> DataInvalid; otherwise the C03 model; the coo_matrix of ones *)
Definition counts_fn (a : assigns) (lag : Z) (maxn : option Z) (sliding : bool) : option counts :=
  if (lag <? 1)%Z then None
  else option_map (map (map Z.of_nat)) (Counts.counts_matrix sliding lag maxn a).

(* assigns_to_counts returns a coo_matrix; trim_disconnected gives back the same container *)
Definition coo : Trim.container := Trim.Sparse 0.

(* trim_disconnected(counts, threshold, renumber_states) -> (mapping, trimmed counts) *)
Definition trim_fn (C : counts) (thr : Z) (renumber : bool) : option (Trim.trim_result * counts) :=
  option_map (fun r => (r, Trim.tr_counts r)) (Trim.trim_disconnected thr C renumber coo).

(* TrimMapping(zip(range(n), range(n))) *)
Definition identity_mapping (C : counts) : Trim.trim_result :=
  let ids := seq 0 (length C) in
  let to_orig := Trim.tm_to_original (combine ids ids) in
  {| Trim.tr_keep := ids; Trim.tr_counts := C; Trim.tr_to_original := to_orig;
     Trim.tr_to_mapped := Trim.tm_to_mapped to_orig; Trim.tr_container := coo |}.

Definition toQ (C : counts) : Builders.mat := map (map inject_Z) C.

(* self.method(tcounts).  For mle the symmetric matrix X produced by the iteration (property C12)
   is an input of the model, as in C04. *)
Definition call_builder (X : Builders.mat) (f : builder_fn) (C : counts) : option Builders.result :=
  match bf_name f with
  | Normalize => Builders.normalize_builder (toQ C) Builders.NoPrior (bf_eq f)
  | Transpose => Builders.transpose_builder (toQ C) Builders.NoPrior (bf_eq f)
  | Mle => Builders.mle_builder (toQ C) Builders.NoPrior (bf_eq f) X
  end.

Definition fit_result := (Trim.trim_result * Builders.result)%type.

(* MSM.fit: the generated dataflow over these callees *)
Definition msm_fit (X : Builders.mat) (self : self_t) (a : assigns) : option fit_result :=
  MsmCfgGen.fit counts_fn trim_fn identity_mapping (call_builder X) self a.

(* MSM(lag_time, method, trim, sliding_window, max_n_states).fit(a) *)
Definition msm_estimator (X : Builders.mat) (lag : Z) (m : method_arg) (trim sliding : bool)
  (maxn : option Z) (a : assigns) : option fit_result :=
  msm_fit X (init lag m trim sliding maxn) a.

(* The function pipeline of the property: counting, then optional trimming (Trim.msm_fit is
   C11's statement of "trim_disconnected or the identity mapping"), then the builder. *)
Definition pipeline (X : Builders.mat) (lag : Z) (sliding : bool) (maxn : option Z) (trim : bool)
  (b : builder_fn) (a : assigns) : option fit_result :=
  match counts_fn a lag maxn sliding with
  | None => None
  | Some C =>
      match Trim.msm_fit trim C coo with
      | None => None
      | Some r =>
          match call_builder X b (Trim.tr_counts r) with
          | None => None
          | Some res => Some (r, res)
          end
      end
  end.

(* everything after the choice of the kept component (used by the check when SciPy breaks a tie
   between components of equal weight differently from the model, see Trim.acceptable_keep) *)
Definition fit_with_keep (X : Builders.mat) (self : self_t) (a : assigns) (ks : list nat)
  : option fit_result :=
  match counts_fn a (a_lag_time self) (a_max_n_states self) (a_sliding_window self) with
  | None => None
  | Some C =>
      let r := Trim.trim_with C true coo ks in
      match call_builder X (a_method self) (Trim.tr_counts r) with
      | None => None
      | Some res => Some (r, res)
      end
  end.

(* timescales.implied_timescales: n_states = assigns.max() + 1;
   n_times: None -> floor(n_states / 10) + 1; capped at n_states - 1 *)
Definition imp_n_states (a : assigns) : Z := (Counts.zmax_list (concat a) + 1)%Z.
Definition imp_n_times (n_states : Z) (n_times : option Z) : Z :=
  let t := match n_times with Some t => t | None => (n_states / 10 + 1)%Z end in
  if (n_states - 1 <? t)%Z then (n_states - 1)%Z else t.

(* timescales.calc_imp_times up to the transition matrix *)
Definition imp_tprobs (X : Builders.mat) (b : builder_fn) (a : assigns) (lag n_states : Z)
  (sliding trim : bool) : option Builders.mat :=
  option_map (fun r : Builders.result => snd (fst r))
    (MsmCfgGen.imp_pipeline counts_fn trim_fn (call_builder X b) a lag n_states sliding trim).

(* ------------------------------------------------------------------ eigenspectrum post-processing *)
Open Scope Q_scope.

Definition cplx := (Q * Q)%type.
Definition re (z : cplx) : Q := fst z.
Definition im (z : cplx) : Q := snd z.
Definition cadd (a b : cplx) : cplx := (re a + re b, im a + im b).
Definition cmul (a b : cplx) : cplx := (re a * re b - im a * im b, re a * im b + im a * re b).
Definition cnorm2 (a : cplx) : Q := re a * re a + im a * im a.
Definition cdiv (a b : cplx) : cplx :=
  ((re a * re b + im a * im b) / cnorm2 b, (im a * re b - re a * im b) / cnorm2 b).
Definition csum (l : list cplx) : cplx := fold_right cadd (0, 0) l.
Definition czero (z : cplx) : bool := Qeq_bool (re z) 0 && Qeq_bool (im z) 0.

(* order = np.argsort(-np.real(vals)): indices by descending real part; equal keys keep their
   original order (NumPy's sort of <= 16 elements is an insertion sort; for longer inputs the
   order inside a group of equal real parts is not specified by NumPy) *)
Fixpoint ins (x : Q * nat) (l : list (Q * nat)) : list (Q * nat) :=
  match l with
  | [] => [x]
  | y :: r => if Qle_bool (fst y) (fst x) then x :: l else y :: ins x r
  end.
Definition sort_desc (l : list (Q * nat)) : list (Q * nat) := fold_right ins [] l.
Definition order (vals : list cplx) : list nat :=
  map snd (sort_desc (combine (map re vals) (seq 0 (length vals)))).

(* vals[order]; vecs[:, order] -- eigenvectors are kept as a list of columns *)
Definition reorder {A} (d : A) (l : list A) (ord : list nat) : list A := map (fun k => nth k l d) ord.

(* vecs[:, 0] /= vecs[:, 0].sum() *)
Definition normalize_vec (v : list cplx) : list cplx := let s := csum v in map (fun x => cdiv x s) v.

(* n_eigs: None -> all; < 2 -> ValueError; more than there are -> all (with a warning) *)
Definition eig_post (n_eigs : option Z) (vals : list cplx) (vecs : list (list cplx))
  : option (list Q * list (list Q)) :=
  let n := length vals in
  let ne := match n_eigs with None => Z.of_nat n | Some k => k end in
  if match n_eigs with Some k => (k <? 2)%Z | None => false end then None
  else
    let ord := order vals in
    let vals' := reorder (0, 0) vals ord in
    match reorder [] vecs ord with
    | [] => None                                 (* vecs[:, 0] on an empty matrix *)
    | v0 :: rest =>
        if czero (csum v0) then None             (* division by zero: nan/inf in NumPy *)
        else
          let vecs' := normalize_vec v0 :: rest in
          Some (map re (firstn (Z.to_nat ne) vals'), map (map re) (firstn (Z.to_nat ne) vecs'))
    end.

(* ------------------------------------------------------------------ synthetic_ensemble *)
Definition sq_ok (T : Builders.mat) (p : list Q) : bool :=
  Builders.is_square T && Nat.eqb (length p) (length T).

(* T_op.rmatvec(p) = p . T   (each entry kept in lowest terms: values are unchanged, the
   representation stays small over many steps) *)
Definition step (T : Builders.mat) (p : list Q) : list Q :=
  map (fun j => Qred (Builders.vecmat p T j)) (seq 0 (length T)).

Fixpoint iterate (T : Builders.mat) (p : list Q) (n : nat) : list Q :=
  match n with
  | O => p
  | S k => step T (iterate T p k)
  end.

(* the populations after 0, 1, ..., n steps *)
Definition trajectory (T : Builders.mat) (p : list Q) (n : nat) : list (list Q) :=
  map (iterate T p) (seq 0 (S n)).

Definition dot (a b : list Q) : Q := Builders.qsum (map (fun ab => fst ab * snd ab) (combine a b)).

(* range(n_steps - 1) iterations; the starting populations are the first observation.  A shape
   mismatch is noticed by rmatvec, i.e. only if at least one step is taken. *)
Definition n_iter (n_steps : Z) : nat := Z.to_nat (n_steps - 1).

(* observable_per_state=None: (p, [p_0; ...; p_k]) *)
Definition ensemble (T : Builders.mat) (p0 : list Q) (n_steps : Z) : option (list Q * list (list Q)) :=
  if sq_ok T p0 || Nat.eqb (n_iter n_steps) 0 then Some (iterate T p0 (n_iter n_steps), trajectory T p0 (n_iter n_steps)) else None.

(* with an observable: (p, [p_0 . obs; ...]) *)
Definition ensemble_obs (T : Builders.mat) (p0 : list Q) (n_steps : Z) (obs : list Q)
  : option (list Q * list Q) :=
  if (sq_ok T p0 || Nat.eqb (n_iter n_steps) 0) && Nat.eqb (length obs) (length p0)
  then Some (iterate T p0 (n_iter n_steps), map (fun p => dot p obs) (trajectory T p0 (n_iter n_steps)))
  else None.

(* matrix power, for the statement of propagate_power *)
Definition mident (n : nat) : Builders.mat := Builders.mk n (fun i j => if Nat.eqb i j then 1 else 0).
Definition mmul (A B : Builders.mat) : Builders.mat :=
  Builders.mk (length A) (fun i j =>
    Builders.qsum (map (fun k => Builders.ent A i k * Builders.ent B k j) (seq 0 (length A)))).
Fixpoint mpow (T : Builders.mat) (n : nat) : Builders.mat :=
  match n with
  | O => mident (length T)
  | S k => mmul (mpow T k) T
  end.

(* ------------------------------------------------------------------ helpers for generated case files *)
Definition tol9 : Q := 1 # 1000000000.

(* the observable part of the mapping: kept states in new order, both dictionaries.  (The counts
   between trimming and the builder are not an attribute of the estimator; the builder's returned
   counts are compared through result_close.) *)
Definition mapping_eqb (a b : Trim.trim_result) : bool :=
  Trim.nl_eqb (Trim.tr_keep a) (Trim.tr_keep b)
  && Trim.dict_equiv (Trim.tr_to_original a) (Trim.tr_to_original b)
  && Trim.dict_equiv (Trim.tr_to_mapped a) (Trim.tr_to_mapped b).

Definition fit_close (m r : fit_result) : bool :=
  mapping_eqb (fst m) (fst r) && Builders.result_close tol9 (Some (snd m)) (Some (snd r)).

(* what the harness can observe of a TrimMapping *)
Definition observed_mapping (keep : list nat) (to_orig to_mapped : Trim.dict) : Trim.trim_result :=
  {| Trim.tr_keep := keep; Trim.tr_counts := []; Trim.tr_to_original := to_orig;
     Trim.tr_to_mapped := to_mapped; Trim.tr_container := coo |}.

(* The implementation's fit (None = it raised) is what the model allows: equal mapping / counts /
   container and probabilities within 1e-9; when the kept component differs, it must be another
   component of maximum weight and everything downstream must follow from that choice. *)
Definition fit_agrees (X : Builders.mat) (self : self_t) (a : assigns) (r : option fit_result) : bool :=
  match msm_fit X self a, r with
  | None, None => true
  | Some m, Some r =>
      if Trim.nl_eqb (Trim.tr_keep (fst m)) (Trim.tr_keep (fst r)) then fit_close m r
      else
        a_trim self &&
        match counts_fn a (a_lag_time self) (a_max_n_states self) (a_sliding_window self) with
        | Some C =>
            Trim.acceptable_keep 1 C (Trim.tr_keep (fst r)) &&
            match fit_with_keep X self a (Trim.tr_keep (fst r)) with
            | Some m' => fit_close m' r
            | None => false
            end
        | None => false
        end
  | _, _ => false
  end.

Definition qpair_close (a b : option (list Q * list (list Q))) : bool :=
  match a, b with
  | None, None => true
  | Some (x, X), Some (y, Y) => Builders.vec_close tol9 x y && Builders.mat_close tol9 X Y
  | _, _ => false
  end.

Definition ql_eqb (a b : list Q) : bool := Builders.list_all2 Qeq_bool a b.
Definition ens_eqb (a b : option (list Q * list (list Q))) : bool :=
  match a, b with
  | None, None => true
  | Some (x, X), Some (y, Y) => ql_eqb x y && Builders.list_all2 ql_eqb X Y
  | _, _ => false
  end.
Definition ens_obs_eqb (a b : option (list Q * list Q)) : bool :=
  match a, b with
  | None, None => true
  | Some (x, X), Some (y, Y) => ql_eqb x y && ql_eqb X Y
  | _, _ => false
  end.
Definition optmat_close (a b : option Builders.mat) : bool :=
  match a, b with
  | None, None => true
  | Some x, Some y => Builders.mat_close tol9 x y
  | _, _ => false
  end.
