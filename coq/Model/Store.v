(* C15: storing / bulk loading.  Executable definitions only (no proofs).
   Anchors: enspara/ra/ra.py save, load; enspara/util/load.py sound_trajectory,
   load_as_concatenated, _load_to_position; enspara/mpi/io.py load_h5_as_striped,
   load_npy_as_striped.
   Values are carried as integers (the harness hands over the *bit pattern* of every array item,
   so "equal" in the model means bit-identical); an element of a row is the flattened list of the
   items of its trailing dimensions.  Strings are lists of character codes. *)
From Coq Require Import List ZArith Bool.
From EV Require Import PySlice.
Import ListNotations.
Open Scope nat_scope.

(* ------------------------------------------------------------------ strings *)
Definition str := list nat.

(* Python's < on str: code-point lexicographic, a proper prefix is smaller *)
Fixpoint lex_ltb (a b : str) : bool :=
  match a, b with
  | [], [] => false
  | [], _ :: _ => true
  | _ :: _, [] => false
  | x :: a', y :: b' => if x <? y then true else if y <? x then false else lex_ltb a' b'
  end.

Fixpoint str_eqb (a b : str) : bool :=
  match a, b with
  | [], [] => true
  | x :: a', y :: b' => (x =? y) && str_eqb a' b'
  | _, _ => false
  end.

(* str(n): decimal digits, most significant first *)
Fixpoint digits_fuel (fuel n : nat) (acc : list nat) : list nat :=
  match fuel with
  | 0 => acc
  | S f => if n <? 10 then n :: acc else digits_fuel f (n / 10) (n mod 10 :: acc)
  end.
Definition digits (n : nat) : list nat := digits_fuel (S n) n [].
Definition chr_digit (d : nat) : nat := 48 + d.
Definition str_of_nat (n : nat) : str := map chr_digit (digits n).

(* s.zfill(w) for an unsigned s *)
Definition zfill (w : nat) (s : str) : str := repeat 48 (w - length s) ++ s.

(* save: n_zeros = len(str(len(array.lengths))) + 1 *)
Definition n_zeros (nrows : nat) : nat := length (str_of_nat nrows) + 1.
(* save: t = tag + '_' + str(i).zfill(n_zeros) *)
Definition key (tag : str) (w i : nat) : str := tag ++ 95 :: zfill w (str_of_nat i).

(* sorted(names): PyTables lists the children of a group "alphanumerically sorted by node name"
   (Group._f_iter_nodes: `for name in sorted(self._v_children)`) *)
Fixpoint insert_key (k : str) (l : list str) : list str :=
  match l with
  | [] => [k]
  | h :: t => if lex_ltb h k then h :: insert_key k t else k :: l
  end.
Definition sort_keys (l : list str) : list str := fold_right insert_key [] l.

(* ------------------------------------------------------------------ arrays and files *)
Definition elem := list Z.

Record node := mkNode { nkey : str; ndtype : nat; ntail : list nat; nrows : list elem }.
Definition h5file := list node.

Inductive arr :=
| Nd (dt : nat) (tail : list nat) (elems : list elem)          (* ndarray, shape (len elems, *tail) *)
| Ra (dt : nat) (tail : list nat) (rows : list (list elem)).   (* RaggedArray, rows over one flat buffer *)

Fixpoint enum_from {A} (i : nat) (l : list A) : list (nat * A) :=
  match l with [] => [] | x :: r => (i, x) :: enum_from (S i) r end.

Definition has_zero_dim (len : nat) (tail : list nat) : bool :=
  (len =? 0) || existsb (fun d => d =? 0) tail.

(* ra.save.  None: PyTables refuses a CArray with a zero dimension (ValueError). *)
Definition save (tag : str) (a : arr) : option h5file :=
  match a with
  | Nd dt tail elems =>
      if has_zero_dim (length elems) tail then None
      else Some [mkNode (key tag 1 0) dt tail elems]
  | Ra dt tail rows =>
      if existsb (fun r => has_zero_dim (length r) tail) rows then None
      else let w := n_zeros (length rows) in
           Some (map (fun ir => mkNode (key tag w (fst ir)) dt tail (snd ir)) (enum_from 0 rows))
  end.

(* ------------------------------------------------------------------ strided lengths, buffers *)
(* (n + stride - 1) // stride  and  math.ceil(n / stride) *)
Definition ceil_len (n : nat) (stride : Z) : nat := Z.to_nat ((Z.of_nat n + stride - 1) / stride).

(* x[::stride] *)
Definition strided {A} (stride : Z) (l : list A) : list A := slice_list l None None (Some stride).

Fixpoint set_at {A} (buf : list A) (i : nat) (v : A) : list A :=
  match buf, i with
  | [], _ => []
  | _ :: r, 0 => v :: r
  | x :: r, S i' => x :: set_at r i' v
  end.

(* the single-item writes making up  buf[pos : pos+len(xs)] = xs *)
Definition window_writes {A} (pos : nat) (xs : list A) : list (nat * A) :=
  combine (seq pos (length xs)) xs.

Definition apply_writes {A} (ws : list (nat * A)) (buf : list A) : list A :=
  fold_left (fun b w => set_at b (fst w) (snd w)) ws buf.

(* buf[pos:pos+len(xs)] = xs ; None: the window leaves the buffer (NumPy raises on the
   truncated slice) *)
Definition write_window {A} (buf : list A) (pos : nat) (xs : list A) : option (list A) :=
  if pos + length xs <=? length buf then Some (apply_writes (window_writes pos xs) buf) else None.

Definition sum_nat (l : list nat) : nat := fold_right Nat.add 0 l.

(* start = 0; for x in blocks: end = start + len(x); buf[start:end] = x; start = end *)
Fixpoint fill_from {A} (start : nat) (blocks : list (list A)) (buf : list A) : option (list A) :=
  match blocks with
  | [] => Some buf
  | x :: r => match write_window buf start x with
              | None => None
              | Some b => fill_from (start + length x) r b
              end
  end.

Definition zero_elem (tail : list nat) : elem := repeat 0%Z (fold_right Nat.mul 1 tail).

(* ------------------------------------------------------------------ ra.load *)
Inductive loaded :=
| LNd (dt : nat) (tail : list nat) (elems : list elem)
| LRa (dt : nat) (tail : list nat) (lengths : list nat) (data : list elem)
| LErr (code : nat).
(* error codes: 1 NoSuchNodeError, 2 IndexError (empty key list), 3 DataInvalid,
   4 ValueError/ZeroDivisionError (stride < 1), 5 ValueError from a buffer write,
   6 ImproperlyConfigured, 7 AssertionError *)

Fixpoint find_node (k : str) (f : h5file) : option node :=
  match f with
  | [] => None
  | n :: r => if str_eqb (nkey n) k then Some n else find_node k r
  end.

Fixpoint find_all (f : h5file) (ks : list str) : option (list node) :=
  match ks with
  | [] => Some []
  | k :: r => match find_node k f, find_all f r with
              | Some n, Some ns => Some (n :: ns)
              | _, _ => None
              end
  end.

Definition nl_eqb (a b : list nat) : bool :=
  (length a =? length b) && forallb (fun p => fst p =? snd p) (combine a b).

(* keys = None here stands for Python's Ellipsis (all nodes, as listed) *)
Definition load (f : h5file) (keys : option (list str)) (stride : Z) : loaded :=
  let ks := match keys with None => sort_keys (map nkey f) | Some ks => ks end in
  if (stride <? 1)%Z then LErr 4 else
  match ks with
  | [k] => match find_node k f with
           | None => LErr 1
           | Some n => LNd (ndtype n) (ntail n) (strided stride (nrows n))
           end
  | _ =>
    match find_all f ks with
    | None => LErr 1
    | Some [] => LErr 2
    | Some ((n0 :: _) as nds) =>
      if negb (forallb (fun n => length (ntail n) =? length (ntail n0)) nds) then LErr 3
      else if negb (forallb (fun n => nl_eqb (ntail n) (ntail n0)) nds) then LErr 3
      else if negb (forallb (fun n => ndtype n =? ndtype n0) nds) then LErr 3
      else
        let lengths := map (fun n => ceil_len (length (nrows n)) stride) nds in
        let buf := repeat (zero_elem (ntail n0)) (sum_nat lengths) in
        match fill_from 0 (map (fun n => strided stride (nrows n)) nds) buf with
        | None => LErr 5
        | Some data => LRa (ndtype n0) (ntail n0) lengths data
        end
    end
  end.

Definition save_load (tag : str) (a : arr) (keys : option (list str)) (stride : Z) : option loaded :=
  match save tag a with
  | None => None
  | Some f => Some (load f keys stride)
  end.

(* ------------------------------------------------------------------ load_as_concatenated *)
(* One trajectory file as the loader sees it: the number of frames md.open reports, the stride
   and whether a `frame=` keyword is present in its load arguments, and what
   md.load(filename, **kwargs).xyz returns (frames, each flattened). *)
Record trjfile := mkTrj { t_nframes : nat; t_stride : Z; t_frame_kw : bool; t_loaded : list elem }.

(* sound_trajectory / the `frame` special case *)
Definition sounded (t : trjfile) : nat :=
  if t_frame_kw t then 1 else ceil_len (t_nframes t) (t_stride t).

(* zip([sum(lengths[0:i]) for i in range(len(lengths))], ...) *)
Definition offsets (lengths : list nat) : list nat :=
  map (fun i => sum_nat (firstn i lengths)) (seq 0 (length lengths)).

(* _load_to_position *)
Definition job_writes (job : nat * list elem) : list (nat * elem) :=
  window_writes (fst job) (snd job).

Fixpoint run_jobs (jobs : list (nat * list elem)) (buf : list elem) : option (list elem) :=
  match jobs with
  | [] => Some buf
  | j :: r => match write_window buf (fst j) (snd j) with
              | None => None
              | Some b => run_jobs r b
              end
  end.

Definition pick_jobs {A} (jobs : list A) (sched : list nat) : list A :=
  flat_map (fun i => match nth_error jobs i with Some j => [j] | None => [] end) sched.

(* `sched` is the order in which the workers' writes land (any permutation of the job numbers);
   `hint` the optional lengths argument.  Result: (lengths, xyz). *)
Definition load_as_concatenated (sched : list nat) (hint : option (list nat)) (zero : elem)
           (files : list trjfile) : loaded + (list nat * list elem) :=
  let lengths := match hint with Some l => l | None => map sounded files end in
  if negb (length lengths =? length files) then inl (LErr 6) else
  let total := sum_nat lengths in
  let jobs := combine (offsets lengths) (map t_loaded files) in
  match run_jobs (pick_jobs jobs sched) (repeat zero total) with
  | None => inl (LErr 5)
  | Some buf =>
      if negb (sum_nat (map (fun t => length (t_loaded t)) files) =? total) then inl (LErr 3)
      else inr (lengths, buf)
  end.

(* ------------------------------------------------------------------ striped loaders *)
(* x[rank::size] *)
Definition stripe {A} (rank size : nat) (l : list A) : list A :=
  slice_list l (Some (Z.of_nat rank)) None (Some (Z.of_nat size)).

(* load_h5_as_striped (repaired: global lengths are strided lengths) *)
Definition load_h5_as_striped (rank size : nat) (f : h5file) (stride : Z)
  : loaded + (list nat * list elem) :=
  let all_keys := sort_keys (map nkey f) in
  match find_all f all_keys with
  | None => inl (LErr 1)
  | Some nds =>
    let global_lengths := map (fun n => ceil_len (length (nrows n)) stride) nds in
    match load f (Some (stripe rank size all_keys)) stride with
    | LRa _ _ _ data => inr (global_lengths, data)
    | LNd _ _ elems =>
        if length (stripe rank size global_lengths) =? 1 then inr (global_lengths, elems)
        else inl (LErr 7)
    | LErr c => inl (LErr c)
    end
  end.

(* load_npy_as_striped (repaired): every file is an ndarray (dtype, tail, elems) *)
Definition load_npy_as_striped (rank size : nat) (files : list (nat * list nat * list elem)) (stride : Z)
  : loaded + (list nat * list elem) :=
  match files with
  | [] => inl (LErr 2)
  | (dt0, tail0, _) :: _ =>
    if negb (forallb (fun x => nl_eqb (snd (fst x)) tail0) files) then inl (LErr 6)
    else if negb (forallb (fun x => fst (fst x) =? dt0) files) then inl (LErr 6)
    else if (stride <? 1)%Z then inl (LErr 4)
    else
      let global_lengths := map (fun x => ceil_len (length (snd x)) stride) files in
      let local_lengths := stripe rank size global_lengths in
      let buf := repeat (zero_elem tail0) (sum_nat local_lengths) in
      let blocks := map (fun x => strided stride (snd x)) (stripe rank size files) in
      match blocks with
      | [] => inl (LErr 7)
      | _ => match fill_from 0 blocks buf with
             | None => inl (LErr 5)
             | Some data =>
                 if sum_nat (map (@length elem) blocks) =? length buf then inr (global_lengths, data)
                 else inl (LErr 7)
             end
      end
  end.

(* ------------------------------------------------------------------ harness glue (executable) *)
(* names of the nodes `save` writes, in row order; a request for row i is a request for key i *)
Definition arr_keys (tag : str) (a : arr) : list str :=
  match a with
  | Nd _ _ _ => [key tag 1 0]
  | Ra _ _ rows => map (key tag (n_zeros (length rows))) (seq 0 (length rows))
  end.

Definition save_load_rows (tag : str) (a : arr) (idxs : option (list nat)) (stride : Z) : option loaded :=
  save_load tag a (option_map (map (fun i => nth i (arr_keys tag a) [])) idxs) stride.

Definition save_striped (tag : str) (a : arr) (stride : Z) : option (loaded + (list nat * list elem)) :=
  match save tag a with
  | None => None
  | Some f => Some (load_h5_as_striped 0 1 f stride)
  end.

Fixpoint leqb {A} (e : A -> A -> bool) (a b : list A) : bool :=
  match a, b with
  | [], [] => true
  | x :: a', y :: b' => e x y && leqb e a' b'
  | _, _ => false
  end.
Definition elem_eqb : elem -> elem -> bool := leqb Z.eqb.

Definition loaded_eqb (x y : loaded) : bool :=
  match x, y with
  | LNd d t e, LNd d' t' e' => (d =? d') && leqb Nat.eqb t t' && leqb elem_eqb e e'
  | LRa d t l e, LRa d' t' l' e' =>
      (d =? d') && leqb Nat.eqb t t' && leqb Nat.eqb l l' && leqb elem_eqb e e'
  | LErr c, LErr c' => c =? c'
  | _, _ => false
  end.

Definition res_eqb (x y : loaded + (list nat * list elem)) : bool :=
  match x, y with
  | inl a, inl b => loaded_eqb a b
  | inr (l, d), inr (l', d') => leqb Nat.eqb l l' && leqb elem_eqb d d'
  | _, _ => false
  end.

Definition opt_eqb {A} (e : A -> A -> bool) (x y : option A) : bool :=
  match x, y with
  | None, None => true
  | Some a, Some b => e a b
  | _, _ => false
  end.

(* ------------------------------------------------------------------ reading a result as rows *)
Fixpoint split_rows {A} (lengths : list nat) (data : list A) : list (list A) :=
  match lengths with
  | [] => []
  | n :: r => firstn n data :: split_rows r (skipn n data)
  end.

(* a file holding a single array loads as an ndarray by documented design: it is one row *)
Definition loaded_rows (l : loaded) : option (list (list elem)) :=
  match l with
  | LNd _ _ e => Some [e]
  | LRa _ _ ls d => Some (split_rows ls d)
  | LErr _ => None
  end.

Definition loaded_meta (l : loaded) : option (nat * list nat) :=
  match l with
  | LNd dt tail _ => Some (dt, tail)
  | LRa dt tail _ _ => Some (dt, tail)
  | LErr _ => None
  end.
