(* C07: the entry points of enspara/tpt/core.py over the definitions regenerated from its source
   (Gen/TptGen.v, written by translator/tr_tpt.py).  Only the input guards (square matrix, state
   indices inside it: the code's IndexError) and the conversion of result arrays to lists are
   written by hand here; Proof/TptGenProofs.v proves these equal to Model/TPT.v's functions.
   Definitions only. *)
From Coq Require Import List QArith Bool Arith.
From EV Require Import TPT TptBase TptGen.
Import ListNotations.
Open Scope Q_scope.

Definition committors_g (n : nat) (T : mat) (src snk : list nat) : option (list Q) :=
  if wfb n T && idxb n src && idxb n snk then
    option_map (v_list n) (gen_committors (mget T) src snk n)
  else None.

Definition mfpts_sinks_g (n : nat) (T : mat) (snk : list nat) (lag : Q) : option (list Q) :=
  if wfb n T && idxb n snk then option_map (v_list n) (gen_mfpts_sinks (mget T) snk lag n) else None.

Definition mfpts_all_g (n : nat) (T : mat) (pi : list Q) (lag : Q) : option mat :=
  if wfb n T && Nat.eqb (length pi) n && forallb (fun j => negb (Qeq_bool (vget pi j) 0)) (seq 0 n) then
    option_map (a_list n n) (gen_mfpts_all (mget T) (vget pi) lag n)
  else None.

(* populations=None: eq_probs is not translated; the stand-in of Model/TPT.v *)
Definition mfpts_all_default_g (n : nat) (T : mat) (lag : Q) : option mat :=
  match stationary n T with
  | Some pi => mfpts_all_g n T pi lag
  | None => None
  end.
