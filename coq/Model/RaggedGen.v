(* C05 -- RaggedArray.__getitem__ re-assembled from the definitions that translator/tr_ragged.py
   regenerates from enspara/ra/ra.py (Gen/RaGen.v): wherever Model/Ragged.v:get_c uses its hand-written
   conv2d / starts_of / sl_indices / conv1d / iis_from_slices / iis_from_list, [get_g] uses gen_conv2d /
   gen_starts / gen_slice_to_list / gen_conv1d / gen_iis_from_slices / gen_iis_from_list, and gen_c2_pairs for
   its bpairs.  Python ints are Z
   on this side (lengths and starts as the code sees them).  The forms NumPy handles alone (a[r], a[s:e:k],
   a[[..]], a[r, s:e:k]) are those of get_c.  No proofs here (Proof/RaGenProofs.v shows get_g = get_c). *)
From Coq Require Import List ZArith Bool.
From EV Require Import PySlice RaBase RaGen Ragged.
Import ListNotations.

Set Implicit Arguments.

(* self.lengths and self.starts as Python integers *)
Definition zlens {A} (s : conc A) : list Z := map Z.of_nat (lens s).
Definition zstarts {A} (s : conc A) : list Z := gen_starts (zlens s).

(* self._data[_convert_from_2d(iis, lengths=self.lengths, starts=self.starts)] *)
Definition gather_g {A} (s : conc A) (pairs : list (Z * Z)) : option (list A) :=
  match map_opt (fun p => gen_conv2d (zlens s) (zstarts s) (fst p) (snd p)) pairs with
  | None => None
  | Some fl => map_opt (np_index (data s)) fl
  end.

(* _slice_to_list(first_dimension, length=len(self.lengths)) *)
Definition slice_rows_g (n : nat) (rsl : pslice) : option (list Z) :=
  match gen_slice_to_list rsl (py_int (Z.of_nat n)) with
  | PyOk l => Some l
  | PyRaise => None
  end.

(* ra.where(mask) for a boolean RaggedArray built from nested lists *)
Definition where_g (m : list (list bool)) : option (list (Z * Z)) :=
  let mc := ctor_nested m in
  map_opt (fun ii => gen_conv1d (zstarts mc) (Z.of_nat ii)) (true_positions_from 0 (data mc)).

Definition get_g {A} (s : conc A) (i : idx) : result A :=
  match i with
  | Elem r c => flat_result (gather_g s [(r, c)])
  | Pairs rs cs => match gen_c2_pairs rs cs with Some ps => flat_result (gather_g s ps) | None => Err end
  | PairsScalar rs c => flat_result (gather_g s (map (fun r => (r, c)) rs))
  | ElemList r cs => flat_result (gather_g s (map (fun c => (r, c)) cs))
  | Sl2SS rsl csl =>
      match slice_rows_g (length (lens s)) rsl with
      | None => Err
      | Some rows => match gen_iis_from_slices (zlens s) rows csl with
                     | None => Err
                     | Some (iis, nl) => rebuild (gather_g s iis) nl
                     end
      end
  | Sl2LS rs csl =>
      match gen_iis_from_slices (zlens s) rs csl with
      | None => Err
      | Some (iis, nl) => rebuild (gather_g s iis) nl
      end
  | Sl2SI rsl c =>
      match slice_rows_g (length (lens s)) rsl with
      | None => Err
      | Some rows => let '(iis, nl) := gen_iis_from_list rows [c] in rebuild (gather_g s iis) nl
      end
  | Sl2SL rsl cs =>
      match slice_rows_g (length (lens s)) rsl with
      | None => Err
      | Some rows => let '(iis, nl) := gen_iis_from_list rows cs in rebuild (gather_g s iis) nl
      end
  | Mask m => match where_g m with
              | None => Err
              | Some ps => flat_result (gather_g s ps)
              end
  | Row _ | Rows _ | RowList _ | RowSl _ _ => get_c s i
  end.

(* a column slice with a zero step raises only when at least one row is selected (slice.indices is called
   per selected row); Model/Ragged.v makes every zero step an error, so the two sides are compared on: *)
Definition col_step_ok (i : idx) : bool :=
  match i with
  | Sl2SS _ csl => sl_ok csl
  | Sl2LS _ csl => sl_ok csl
  | _ => true
  end.

(* comparison helper for case files *)
Definition where_g_eqb (w : option (list (Z * Z))) (rs cs : list nat) : bool :=
  match w with
  | None => false
  | Some ps => zlist_eqb (map fst ps) (map Z.of_nat rs) && zlist_eqb (map snd ps) (map Z.of_nat cs)
  end.
