(* C12: the reversible maximum-likelihood (Prinz) iteration of enspara/msm/builders.py:_prinz_mle_py
   and enspara/msm/libmsm.pyx:_mle_prinz_dense.

   This file holds the hand-written part of the model (definitions only):
   - `Ops K`: the arithmetic the update formulas use, abstract in the number type, so that the
     formulas generated from the source (Gen/PrinzGen.v) are instantiated at Q (executable, used by
     the correspondence run) and at R (theorems, Proof/PrinzProofs.v);
   - the loop skeleton: one sweep = the diagonal loop `for i in range(n)` followed by the pair loop
     `for i in range(n-1): for j in range(i+1, n)`, acting on the state (X, X_rs) exactly as the code
     does (X_rs is the *running* row sum that the code maintains, not a recomputed one);
   - initialisation X = C + C.T, X_rs = X.sum(1), C_rs = C.sum(1), the two guards
     `assert all(X_rs > 0)`, `assert all(C_rs > 0)` (None = AssertionError), k sweeps, and the final
     normalisation T = X / X.sum(-1), pi = X_rs / X_rs.sum();
   - the certificate checker used on the implementation's returned (T, pi).
   Round 1 modelled the number of sweeps as a parameter (`prinz_run`).  Round 2 adds the stopping rule
   (end of this file): the pseudo log-likelihood `logl` accumulated inside each sweep from the values
   just written, the test `abs(logl - oldlogl) > tol` (both translated from the source into
   Gen/PrinzGen.v over `Ops` + `LOps`), the iteration cap `range(max_iter)` and the warning condition
   `n_iter == max_iter - 1` (`prinz_loop`, `prinz_run_stop`).  Not modelled: IEEE rounding. *)
From Coq Require Import List ZArith QArith Qabs Qreduction Bool Arith.
Import ListNotations.

Record Ops (K : Type) := mkOps {
  kadd : K -> K -> K; ksub : K -> K -> K; kmul : K -> K -> K; kdiv : K -> K -> K; kopp : K -> K;
  kofZ : Z -> K; ksqrt : K -> K;
  kltb : K -> K -> bool;       (* a < b *)
  keqb : K -> K -> bool }.     (* a == b *)
Arguments kadd {K} _ _ _. Arguments ksub {K} _ _ _. Arguments kmul {K} _ _ _. Arguments kdiv {K} _ _ _.
Arguments kopp {K} _ _. Arguments kofZ {K} _ _. Arguments ksqrt {K} _ _.
Arguments kltb {K} _ _ _. Arguments keqb {K} _ _ _.

(* ---- state and loop skeleton *)
Definition upd1 {K} (f : nat -> K) (i : nat) (v : K) : nat -> K :=
  fun a => if Nat.eqb a i then v else f a.
Definition upd2 {K} (f : nat -> nat -> K) (i j : nat) (v : K) : nat -> nat -> K :=
  fun a b => if Nat.eqb a i && Nat.eqb b j then v else f a b.

Definition state (K : Type) : Type := ((nat -> nat -> K) * (nat -> K))%type.

(* index pairs in the order of `for i in range(n-1): for j in range(i+1, n)` *)
Definition pairs (n : nat) : list (nat * nat) :=
  flat_map (fun i => map (fun j => (i, j)) (seq (S i) (n - S i))) (seq 0 (n - 1)).

Section Skeleton.
  Context {K : Type}.
  (* the two translated loop bodies:
     dg C_ii Crs_i Xrs_i X_ii = (X_ii', Xrs_i')
     od C_ij C_ji Crs_i Crs_j Xrs_i Xrs_j X_ij X_ji = (X_ij', X_ji', Xrs_i', Xrs_j') *)
  Variable dg : K -> K -> K -> K -> K * K.
  Variable od : K -> K -> K -> K -> K -> K -> K -> K -> K * K * K * K.
  Variable C : nat -> nat -> K.
  Variable Crs : nat -> K.

  Definition diag_step (s : state K) (i : nat) : state K :=
    let '(x, r) := dg (C i i) (Crs i) (snd s i) (fst s i i) in
    (upd2 (fst s) i i x, upd1 (snd s) i r).

  Definition off_step (s : state K) (ij : nat * nat) : state K :=
    let i := fst ij in
    let j := snd ij in
    let '(xij, xji, ri, rj) :=
      od (C i j) (C j i) (Crs i) (Crs j) (snd s i) (snd s j) (fst s i j) (fst s j i) in
    (upd2 (upd2 (fst s) i j xij) j i xji, upd1 (upd1 (snd s) i ri) j rj).

  Definition sweep (n : nat) (s : state K) : state K :=
    fold_left off_step (pairs n) (fold_left diag_step (seq 0 n) s).
End Skeleton.

(* ---- sums, initialisation, normalisation (generic) *)
Definition sumK {K} (o : Ops K) (n : nat) (f : nat -> K) : K :=
  fold_left (fun acc j => kadd o acc (f j)) (seq 0 n) (kofZ o 0).

Definition init_state {K} (o : Ops K) (n : nat) (C : nat -> nat -> K) : state K :=
  let X := fun i j => kadd o (C i j) (C j i) in
  (X, fun i => sumK o n (X i)).

Definition all_pos {K} (o : Ops K) (n : nat) (f : nat -> K) : bool :=
  forallb (fun i => kltb o (kofZ o 0) (f i)) (seq 0 n).

Definition tab1 {K} (n : nat) (f : nat -> K) : list K := map f (seq 0 n).
Definition tab2 {K} (n : nat) (f : nat -> nat -> K) : list (list K) := map (fun i => tab1 n (f i)) (seq 0 n).

Definition normalise {K} (o : Ops K) (n : nat) (s : state K) : list (list K) * list K :=
  (tab2 n (fun i j => kdiv o (fst s i j) (sumK o n (fst s i))),
   tab1 n (fun i => kdiv o (snd s i) (sumK o n (snd s)))).

(* k sweeps of the iteration given the two loop bodies; None = one of the two guards fails *)
Definition prinz_run {K} (o : Ops K)
    (swp : (nat -> nat -> K) -> (nat -> K) -> nat -> state K -> state K)
    (n : nat) (C : nat -> nat -> K) (k : nat) : option (list (list K) * list K) :=
  let s0 := init_state o n C in
  let Crs := fun i => sumK o n (C i) in
  if all_pos o n (snd s0) && all_pos o n Crs then
    Some (normalise o n (Nat.iter k (swp C Crs n) s0))
  else None.

(* ---- the executable instance: rationals in lowest terms; +, -, * are exact; quotients and square
        roots are rounded down to a multiple of 2^-p (a dyadic rational within 2^-p of the exact
        value, exact whenever the value is itself such a multiple), which keeps the numbers small *)
Definition qround (p : positive) (x : Q) : Q := Qred ((Qnum x * 2 ^ Zpos p) / Zpos (Qden x) # (2 ^ p)).

Definition qsqrt (p : positive) (x : Q) : Q :=
  if Qle_bool x 0 then 0
  else Qred (Z.sqrt ((Qnum x * 4 ^ Zpos p) / Zpos (Qden x)) # (2 ^ p)).

Definition QOps (p : positive) : Ops Q :=
  mkOps Q (fun a b => Qred (a + b)) (fun a b => Qred (a - b)) (fun a b => Qred (a * b))
        (fun a b => qround p (a / b)) (fun a => Qred (- a)) inject_Z (qsqrt p)
        (fun a b => negb (Qle_bool b a)) Qeq_bool.

Definition mat_fun (M : list (list Q)) : nat -> nat -> Q := fun i j => nth j (nth i M []) 0.
Definition vec_fun (v : list Q) : nat -> Q := fun i => nth i v 0.

(* ---- certificate checker for a returned pair (T, pi) against the counts C (all exact):
        pi and T are non-negative, sum(pi) and every row of T are 1 within tol1, detailed balance
        pi_i T_ij = pi_j T_ji within tol1, and the Prinz self-consistency equations in the form
        T_ij c_i + T_ji c_j = c_ij + c_ji  (that is x_ij (c_i/x_i + c_j/x_j) = c_ij + c_ji for
        x_ij = pi_i T_ij) within tol2 * (c_i + c_j). *)
Definition qsumn (n : nat) (f : nat -> Q) : Q := fold_left (fun acc j => acc + f j) (seq 0 n) 0.
Definition qle_abs (x t : Q) : bool := Qle_bool (Qabs x) t.
Definition all2 (n : nat) (f : nat -> nat -> bool) : bool :=
  forallb (fun i => forallb (f i) (seq 0 n)) (seq 0 n).

Definition shape_ok (n : nat) (T : list (list Q)) (pi : list Q) : bool :=
  Nat.eqb (length T) n && forallb (fun r => Nat.eqb (length r) n) T && Nat.eqb (length pi) n.

Definition stochastic_ok (tol1 : Q) (n : nat) (T : nat -> nat -> Q) (pi : nat -> Q) : bool :=
  forallb (fun i => Qle_bool 0 (pi i)) (seq 0 n)
  && qle_abs (qsumn n pi - 1) tol1
  && all2 n (fun i j => Qle_bool 0 (T i j))
  && forallb (fun i => qle_abs (qsumn n (T i) - 1) tol1) (seq 0 n).

Definition balance_ok (tol1 : Q) (n : nat) (T : nat -> nat -> Q) (pi : nat -> Q) : bool :=
  all2 n (fun i j => qle_abs (pi i * T i j - pi j * T j i) tol1).

Definition sc_residual (C T : nat -> nat -> Q) (Crs : nat -> Q) (i j : nat) : Q :=
  T i j * Crs i + T j i * Crs j - (C i j + C j i).

Definition selfcons_ok (tol2 : Q) (n : nat) (C T : nat -> nat -> Q) : bool :=
  let Crs := fun i => qsumn n (C i) in
  all2 n (fun i j => qle_abs (sc_residual C T Crs i j) (tol2 * (Crs i + Crs j))).

Definition cert_ok (tol1 tol2 : Q) (check_sc : bool) (C T : list (list Q)) (pi : list Q) : bool :=
  let n := length C in
  shape_ok n T pi
  && stochastic_ok tol1 n (mat_fun T) (vec_fun pi)
  && balance_ok tol1 n (mat_fun T) (vec_fun pi)
  && (negb check_sc || selfcons_ok tol2 n (mat_fun C) (mat_fun T)).

(* ---- comparison of a model result with an implementation result *)
Definition q_near (tol a b : Q) : bool := Qle_bool (Qabs (a - b)) tol.
Fixpoint all2l {A} (e : A -> A -> bool) (a b : list A) : bool :=
  match a, b with
  | [], [] => true
  | x :: a', y :: b' => e x y && all2l e a' b'
  | _, _ => false
  end.
Definition result_near (tol : Q) (m e : option (list (list Q) * list Q)) : bool :=
  match m, e with
  | None, None => true
  | Some (T, pi), Some (T', pi') => all2l (all2l (q_near tol)) T T' && all2l (q_near tol) pi pi'
  | _, _ => false
  end.

(* ====================================================================== the stopping rule (round 2)
   Extra operations used only by the pseudo log-likelihood and the convergence test. *)
Record LOps (K : Type) := mkLOps {
  klog : K -> K;        (* np.log *)
  klog10 : K -> K;      (* C's log10 *)
  kabs : K -> K }.
Arguments klog {K} _ _. Arguments klog10 {K} _ _. Arguments kabs {K} _ _.

Section Loop.
  Context {K : Type}.
  Variable o : Ops K.
  Variable dg : K -> K -> K -> K -> K * K.
  Variable od : K -> K -> K -> K -> K -> K -> K -> K -> K * K * K * K.
  (* the translated `logl +=` terms, evaluated on the values just stored:
     dgl C_ii Crs_i Xrs_i X_ii;  odl C_ij C_ji Crs_i Crs_j Xrs_i Xrs_j X_ij X_ji *)
  Variable dgl : K -> K -> K -> K -> K.
  Variable odl : K -> K -> K -> K -> K -> K -> K -> K -> K.
  (* the translated test `abs(logl - oldlogl) > tol` :  cont tol logl oldlogl *)
  Variable cont : K -> K -> K -> bool.
  Variable C : nat -> nat -> K.
  Variable Crs : nat -> K.

  Definition diag_step_l (sl : state K * K) (i : nat) : state K * K :=
    let s' := diag_step dg C Crs (fst sl) i in
    (s', kadd o (snd sl) (dgl (C i i) (Crs i) (snd s' i) (fst s' i i))).

  Definition off_step_l (sl : state K * K) (ij : nat * nat) : state K * K :=
    let s' := off_step od C Crs (fst sl) ij in
    let i := fst ij in let j := snd ij in
    (s', kadd o (snd sl) (odl (C i j) (C j i) (Crs i) (Crs j) (snd s' i) (snd s' j) (fst s' i j) (fst s' j i))).

  (* one pass of the body of `for n_iter in range(max_iter)`: `logl = 0`, the two loops *)
  Definition sweep_l (n : nat) (s : state K) : state K * K :=
    fold_left off_step_l (pairs n) (fold_left diag_step_l (seq 0 n) (s, kofZ o 0)).

  (* `for n_iter in range(max_iter): <sweep>; if abs(logl - oldlogl) > tol: oldlogl = logl else: break`.
     fuel = iterations still allowed, done = sweeps executed so far.
     Result: (state, sweeps executed, left by `break`). *)
  Fixpoint prinz_loop (n : nat) (tol : K) (fuel done : nat) (s : state K) (oldlogl : K) : state K * nat * bool :=
    match fuel with
    | O => (s, done, false)
    | S f => let sl := sweep_l n s in
             if cont tol (snd sl) oldlogl then prinz_loop n tol f (S done) (fst sl) (snd sl)
             else (fst sl, S done, true)
    end.
End Loop.

(* the whole function for max_iter >= 1 (`oldlogl = 0` initially).  After the loop the Python variable
   n_iter is (sweeps executed - 1), so `if n_iter == max_iter - 1: warnings.warn(..)` fires exactly when
   the number of executed sweeps equals max_iter -- also when the `break` happened in that last pass.
   Result: None = a guard failed; Some ((T, pi), sweeps, warned). *)
Definition prinz_run_stop {K} (o : Ops K) dg od dgl odl cont
    (n : nat) (C : nat -> nat -> K) (tol : K) (max_iter : nat)
    : option ((list (list K) * list K) * nat * bool) :=
  let s0 := init_state o n C in
  let Crs := fun i => sumK o n (C i) in
  if all_pos o n (snd s0) && all_pos o n Crs then
    let '(s, k, _) := prinz_loop o dg od dgl odl cont C Crs n tol max_iter 0 s0 (kofZ o 0) in
    Some (normalise o n s, k, Nat.eqb k max_iter)
  else None.

(* ---- executable logarithm on Q: ln x to within about 2^-p (fixed point with 16 guard bits).
        x = m * 2^e with 1/2 <= m <= 2;  ln m = 2 atanh((m-1)/(m+1)), |argument| <= 1/3;  ln 2 = 2 atanh(1/3) *)
Fixpoint atanh_fix (S z2 : Z) (pw : Z) (k : nat) (d : Z) (acc : Z) : Z :=
  match k with
  | O => acc
  | S k' => atanh_fix S z2 ((pw * z2) / S) k' (d + 2) (acc + pw / d)
  end.
Definition atanh_q (p : positive) (z : Q) : Z :=      (* S * atanh z, |z| <= 1/3 *)
  let S := (2 ^ (Zpos p + 16))%Z in
  let zi := ((Qnum z * S) / Zpos (Qden z))%Z in
  atanh_fix S ((zi * zi) / S)%Z zi (Pos.to_nat p / 3 + 8) 1%Z 0%Z.
Definition qlog (p : positive) (x : Q) : Q :=
  if Qle_bool x 0 then 0
  else
    let e := (Z.log2 (Qnum x) - Z.log2 (Zpos (Qden x)))%Z in
    let m := if (0 <=? e)%Z then x / inject_Z (2 ^ e) else x * inject_Z (2 ^ (- e)) in
    let S := (2 ^ (Zpos p + 16))%Z in
    let lm := (2 * atanh_q p ((m - 1) / (m + 1)))%Z in
    let l2 := (2 * atanh_q p (1 # 3))%Z in
    qround p (Qred ((lm + e * l2) # 1) / inject_Z S).

Definition QLOps (p : positive) : LOps Q :=
  let l10 := qlog p 10 in
  mkLOps Q (qlog p) (fun x => qround p (qlog p x / l10)) (fun x => Qred (Qabs x)).

(* ---- comparison of the model's stopping point with the implementation's sweep count N (obtained by
        probing max_iter: the warning appears iff at least max_iter sweeps were executed).  Exact
        agreement, or -- when |logl - oldlogl| is within rounding of tol in the doubles -- N between the
        model's counts for tol (1 +- 1/1000). *)
Definition stop_count {A} (r : option (A * nat * bool)) : option (nat * bool) :=
  match r with Some (_, k, w) => Some (k, w) | None => None end.
Definition stop_agrees {A} (run : Q -> nat -> option (A * nat * bool)) (tol : Q) (N : nat) : bool :=
  match stop_count (run tol (S N)) with
  | Some (k, w) =>
      if Nat.eqb k N && negb w then true
      else match stop_count (run (tol * (1001 # 1000)) (S N)), stop_count (run (tol * (999 # 1000)) (S N)) with
           | Some (klo, _), Some (khi, _) => Nat.leb klo N && Nat.leb N khi
           | _, _ => false
           end
  | None => false
  end.
