(* C18: joint-count tables (enspara/info_theory/libinfo.pyx: matrix_bincount2d;
   enspara/info_theory/mutual_info.py: joint_counts, the pooling loop of mi_matrix).
   Executable definitions only.

   A feature trajectory is a list of frames, a frame a list of integer state ids (one per feature):
   X : list (list Z) is the ndarray of shape (n_frames, n_features).  A table of joint counts is
   the nested list jc[a][b][i][j] (shape n_features_a x n_features_b x n_a x n_b) of nat. *)
From Coq Require Import List ZArith Bool Arith.
Import ListNotations.

Definition tbl2 := list (list nat).
Definition tbl4 := list (list tbl2).

(* in-place update of one slot; an index outside the list changes nothing *)
Fixpoint upd {A} (i : nat) (f : A -> A) (l : list A) : list A :=
  match l, i with
  | [], _ => []
  | x :: r, O => f x :: r
  | x :: r, S k => x :: upd k f r
  end.

(* jc[a, b, i, j] += 1 *)
Definition incr4 (jc : tbl4) (a b i j : nat) : tbl4 := upd a (upd b (upd i (upd j S))) jc.
Definition get4 (jc : tbl4) (a b i j : nat) : nat := nth j (nth i (nth b (nth a jc []) []) []) 0%nat.

(* np.zeros((a.shape[1], b.shape[1], n_a, n_b), dtype=np.uint32) *)
Definition zeros2 (n m : nat) : tbl2 := repeat (repeat 0%nat m) n.
Definition zeros4 (fa fb n m : nat) : tbl4 := repeat (repeat (zeros2 n m) fb) fa.

Definition width (X : list (list Z)) : nat := match X with [] => 0%nat | r :: _ => length r end.
Definition rect (X : list (list Z)) : bool := forallb (fun r => length r =? width X)%nat X.
(* a[t, a_row] *)
Definition cell (X : list (list Z)) (t a : nat) : Z := nth a (nth t X []) 0%Z.

(* One elementary step of the kernel: iteration (a_row, b_row, t) of the triple loop
     i = a[t, a_row]; j = b[t, b_row]; jc[a_row, b_row, i, j] += 1 *)
Definition event := (nat * nat * nat)%type.
Definition step (X Y : list (list Z)) (jc : tbl4) (e : event) : tbl4 :=
  let '(a, b, t) := e in incr4 jc a b (Z.to_nat (cell X t a)) (Z.to_nat (cell Y t b)).
(* the kernel run under a schedule = the order in which the elementary steps are executed *)
Definition run (X Y : list (list Z)) (sched : list event) (jc0 : tbl4) : tbl4 :=
  fold_left (step X Y) sched jc0.
(* the order of the sequential program:
     for a_row in prange(a.shape[1]): for b_row in range(b.shape[1]): for t in range(a.shape[0]) *)
Definition serial_events (fa fb T : nat) : list event :=
  flat_map (fun a => flat_map (fun b => map (fun t => (a, b, t)) (seq 0 T)) (seq 0 fb)) (seq 0 fa).

(* the assertions of matrix_bincount2d (repaired code: negative ids are rejected too).
   a.max()/a.min() raise on a zero-size array, so an empty side is an error as well. *)
Definition valid_side (X : list (list Z)) (n : Z) : bool :=
  rect X && negb (match concat X with [] => true | _ => false end) &&
  forallb (fun v => (0 <=? v)%Z && (v <? n)%Z) (concat X).

Definition matrix_bincount2d_sched (sched : nat -> nat -> nat -> list event)
           (X Y : list (list Z)) (n_a n_b : Z) : option tbl4 :=
  if (length X =? length Y)%nat && valid_side X n_a && valid_side Y n_b
  then Some (run X Y (sched (width X) (width Y) (length X))
                 (zeros4 (width X) (width Y) (Z.to_nat n_a) (Z.to_nat n_b)))
  else None.

Definition matrix_bincount2d := matrix_bincount2d_sched serial_events.

(* mutual_info.joint_counts: default state counts max+1, Y=None means X against itself.
   (The dtype harmonisation of the repaired code is value preserving, so the model is over Z.) *)
Definition zmax_list (l : list Z) : option Z :=
  match l with [] => None | x :: r => Some (fold_left Z.max r x) end.
Definition default_n (n : option Z) (X : list (list Z)) : option Z :=
  match n with Some v => Some v | None => option_map (fun m => (m + 1)%Z) (zmax_list (concat X)) end.

Definition joint_counts (X : list (list Z)) (Y : option (list (list Z))) (n_x n_y : option Z)
  : option tbl4 :=
  match default_n n_x X with
  | None => None
  | Some nx =>
    match Y with
    | None => matrix_bincount2d X X nx nx
    | Some Y' =>
      match default_n n_y Y' with
      | None => None
      | Some ny => matrix_bincount2d X Y' nx ny
      end
    end
  end.

(* Specification: the number of frames t in which feature a of X is in state i and feature b of Y
   in state j. *)
Fixpoint cnt {A} (p : A -> bool) (l : list A) : nat :=
  match l with [] => 0%nat | x :: r => ((if p x then 1 else 0) + cnt p r)%nat end.
Definition count_frames (X Y : list (list Z)) (a b : nat) (i j : Z) : nat :=
  cnt (fun t => (cell X t a =? i)%Z && (cell Y t b =? j)%Z) (seq 0 (length X)).
(* the same, read off the list of (frame of X, frame of Y) pairs *)
Definition count_pairs (XY : list (list Z * list Z)) (a b : nat) (i j : Z) : nat :=
  cnt (fun xy => (nth a (fst xy) 0 =? i)%Z && (nth b (snd xy) 0 =? j)%Z) XY.

(* mi_matrix: jc += jc_i over the trajectories; differing shapes are DataInvalid, no trajectory at
   all is an error *)
Fixpoint zipw {A} (f : A -> A -> A) (l1 l2 : list A) : list A :=
  match l1, l2 with
  | x :: r, y :: s => f x y :: zipw f r s
  | _, _ => []
  end.
Definition add4 : tbl4 -> tbl4 -> tbl4 := zipw (zipw (zipw (zipw Nat.add))).
(* jc.shape: np.zeros((a.shape[1], b.shape[1], n_a, n_b)); n_a, n_b are the same for every
   trajectory, so `jc.shape != jc_i.shape` compares the two feature counts *)
Definition same_shape (X0 Y0 X Y : list (list Z)) : bool :=
  (width X =? width X0)%nat && (width Y =? width Y0)%nat.

Fixpoint pool_from (X0 Y0 : list (list Z)) (acc : tbl4) (XYs : list (list (list Z) * list (list Z)))
         (nx ny : Z) : option tbl4 :=
  match XYs with
  | [] => Some acc
  | (X, Y) :: rest =>
    match matrix_bincount2d X Y nx ny with
    | None => None
    | Some jc => if same_shape X0 Y0 X Y then pool_from X0 Y0 (add4 acc jc) rest nx ny else None
    end
  end.
Definition pooled_counts (XYs : list (list (list Z) * list (list Z))) (nx ny : Z) : option tbl4 :=
  match XYs with
  | [] => None
  | (X, Y) :: rest =>
    match matrix_bincount2d X Y nx ny with
    | None => None
    | Some jc => pool_from X Y jc rest nx ny
    end
  end.
