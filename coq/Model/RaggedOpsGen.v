(* C06 -- meaning of the regenerated write-path structure (Gen/RaOpsGen.v) on the three-slot state of
   Model/RaggedOps.v.  Each effect changes exactly the slot(s) the corresponding Python statement assigns;
   nothing here re-synchronises anything by itself, so a branch that forgets to rebuild a representation
   yields a state whose slots disagree (and differs from RaggedOps.step).
   Executable definitions only; proofs are in Proof/RaOpsGenProofs.v. *)
From Coq Require Import List ZArith Bool.
From EV Require Import PySlice RaBase RaGen RaOpsBase RaOpsGen RaggedOps.
Import ListNotations.
Open Scope Z_scope.

(* ------------------------------------------------------------------ index form of a model operation *)
Definition kind_of (o : op) : ikind :=
  match o with
  | SetRow _ _ | AugRow _ _ _ => KInt
  | SetRows (RSlice _ _ _) _ | AugRows (RSlice _ _ _) _ _ => KSlice
  | SetRows (RList _) _ | AugRows (RList _) _ _ => KList
  | SetRowSl _ _ _ _ _ => KIntSl
  | Set2D (RSlice _ _ _) (CSlice _ _ _) _ | Aug2D (RSlice _ _ _) (CSlice _ _ _) _ _ => KSlSl
  | Set2D (RSlice _ _ _) (CInt _) _ | Aug2D (RSlice _ _ _) (CInt _) _ _ => KSlInt
  | Set2D (RSlice _ _ _) (CList _) _ | Aug2D (RSlice _ _ _) (CList _) _ _ => KSlList
  | Set2D (RList _) (CSlice _ _ _) _ | Aug2D (RList _) (CSlice _ _ _) _ _ => KListSl
  | Set2D (RList _) _ _ | Aug2D (RList _) _ _ _ => KPair
  | SetMask _ _ | AugMask _ _ _ => KMask
  | Append _ | AppendFlat _ => KInt        (* not a __setitem__ *)
  end.
Definition is_setitem (o : op) : bool :=
  match o with Append _ | AppendFlat _ => false | _ => true end.

(* ------------------------------------------------------------------ the flat write *)
(* iis_1d = _convert_from_2d(iis, lengths=self.lengths, starts=self.starts), cell by cell, with the
   regenerated arithmetic (wraps, bound test, starts[r] + c) *)
Definition zl (ls : list nat) : list Z := map Z.of_nat ls.
Definition flat_iis (ls : list nat) (cs : list (Z * Z)) : res (list nat) :=
  of_opt EIndex (all_some (map (fun rc => option_map Z.to_nat (gen_w_offset (zl ls) (fst rc) (snd rc))) cs)).

(* the (row, col) pairs of the operation: computed from self.lengths before anything is written *)
Definition op_cells (ls : list nat) (o : op) : res (list (Z * Z)) :=
  match o with
  | Set2D rs cs _ | Aug2D rs cs _ _ => cells_of ls rs cs
  | SetMask m _ | AugMask m _ _ => mask_cells m
  | _ => Err EReject
  end.

(* self._data[iis_1d] = value_1d : the new flat data (value_1d of an augmented assignment is the old
   content of the selected cells, combined with the operand) *)
Definition flat_data (s : st Z) (o : op) : res (list Z) :=
  bind (op_cells (lens s) o) (fun cs =>
  bind (flat_iis (lens s) cs) (fun iis =>
  match o with
  | Set2D _ _ v | SetMask _ v =>
      bind (bval_1d v) (fun v1 =>
      match bcast (length iis) v1 with
      | None => Err EReject
      | Some vals => Ok (write_at (data s) iis vals)
      end)
  | Aug2D _ _ b k | AugMask _ b k =>
      Ok (write_at (data s) iis (map (fun i => bin b (nth i (data s) 0) k) iis))
  | _ => Err EReject
  end)).

(* ------------------------------------------------------------------ one __setitem__ branch *)
(* tmp is the local `new_array` *)
Fixpoint exec (p : list weff) (o : op) (s : st Z) (tmp : list (list Z)) : res (st Z) :=
  match p with
  | [] => Ok s
  | WRowCopy :: p' => bind (step_s (rows s) o) (fun rs' => exec p' o s rs')
  | WCtorCopy :: p' => exec p' o (of_rows tmp) tmp
  | WRowInPlace :: p' => bind (step_s (rows s) o) (fun rs' => exec p' o (mkst (data s) rs' (lens s)) tmp)
  | WCtorView :: p' => exec p' o (of_rows (rows s)) tmp
  | WFlat :: p' => bind (flat_data s o) (fun d' => exec p' o (mkst d' (rows s) (lens s)) tmp)
  | WRebuild :: p' => exec p' o (mkst (data s) (partition (data s) (lens s)) (lens s)) tmp
  | WWhere :: _ => Err EReject
  end.

Definition run_setitem (paths : ikind -> list weff) (o : op) (s : st Z) : res (st Z) :=
  match paths (kind_of o) with
  | [WWhere] => exec (paths KPair) o s []
  | p => exec p o s []
  end.

(* ------------------------------------------------------------------ append *)
Fixpoint exec_app (p : list aeff) (vs : list (list Z)) (s : st Z) : st Z :=
  match p with
  | [] => s
  | ACtorValues :: p' => exec_app p' vs (of_rows vs)
  | AData :: p' => exec_app p' vs (mkst (data s ++ concat vs) (rows s) (lens s))
  | ALens :: p' => exec_app p' vs (mkst (data s) (rows s) (lens s ++ map (@length Z) vs))
  | ARebuild :: p' => exec_app p' vs (mkst (data s) (partition (data s) (lens s)) (lens s))
  end.

(* np.concatenate of no rows raises before anything is assigned (general branch) *)
Definition run_append (empty_path path : list aeff) (vs : list (list Z)) (s : st Z) : res (st Z) :=
  match data s with
  | [] => Ok (exec_app empty_path vs s)
  | _ => match vs with [] => Err EReject | _ => Ok (exec_app path vs s) end
  end.

(* ------------------------------------------------------------------ the regenerated step *)
Definition gen_step (s : st Z) (o : op) : res (st Z) :=
  match o with
  | Append vs => run_append gen_append_empty_path gen_append_path vs s
  | AppendFlat _ => Err EReject           (* np.concatenate of scalars raises before anything is assigned *)
  | _ => run_setitem gen_setitem_path o s
  end.

(* ------------------------------------------------------------------ constructor *)
Section Ctor.
  Context {A : Type}.
  (* input: nested rows, or a flat sequence with (possibly) given lengths *)
  Definition exec_ceff (e : ceff) (nested : list (list A)) (flat : list A) (given : list nat) (s : st A) : res (st A) :=
    match e with
    | CData DConcat | CData DObjRows => Ok (mkst (concat nested) (rows s) (lens s))
    | CData DArrCopyFlag | CData DArrFresh => Ok (mkst flat (rows s) (lens s))
    | CLens LRowLens => Ok (mkst (data s) (rows s) (map (@length A) nested))
    | CLens LSingle => Ok (mkst (data s) (rows s) [length flat])
    | CLens LEmpty => Ok (mkst (data s) (rows s) [])
    | CLens LGivenCopy => Ok (mkst (data s) (rows s) given)
    | CRows RPartSelf => Ok (mkst (data s) (partition (data s) (lens s)) (lens s))
    | CRows RReshapeOne => Ok (mkst (data s) [data s] (lens s))
    | CRows REmptyList => Ok (mkst (data s) [] (lens s))
    | CRows RPartGiven | CRows RReshapeRect =>        (* partition_list / reshape raise unless the lengths add up *)
        if Nat.eqb (sum given) (length (data s)) then Ok (mkst (data s) (partition (data s) given) (lens s))
        else Err EReject
    end.
  Fixpoint exec_ctor (p : list ceff) nested flat given (s : st A) : res (st A) :=
    match p with
    | [] => Ok s
    | e :: p' => bind (exec_ceff e nested flat given s) (exec_ctor p' nested flat given)
    end.
  Definition blank : st A := mkst [] [] [].
  Definition is_rect_lens (ls : list nat) : bool :=
    match ls with [] => false | l :: t => forallb (Nat.eqb l) t end.
  (* RaggedArray(rows) and RaggedArray(flat, lengths=ls) through the regenerated constructor *)
  Definition gen_of_rows (rs : list (list A)) : res (st A) :=
    match rs with
    | [] => exec_ctor gen_ctor_empty [] [] [] blank
    | _ => exec_ctor gen_ctor_nested rs [] [] blank
    end.
  Definition gen_of_flat (d : list A) (ls : list nat) : res (st A) :=
    exec_ctor (if is_rect_lens ls then gen_ctor_given_rect else gen_ctor_given_ragged) [] d ls blank.
End Ctor.

(* map_operator / __invert__: RaggedArray(array=f(self._data), lengths=self.lengths) *)
Definition exec_opcall {A B} (c : opcall) (f : A -> B) (s : st A) : res (st B) :=
  match oc_array c, oc_lengths c with
  | MSelfDataMapped, LASelf => gen_of_flat (map f (data s)) (lens s)
  end.

(* size, by either definition *)
Definition den_size {A} (d : sizedef) (s : st A) : nat :=
  match d with SzLenData => length (data s) | SzDataSize => length (data s) end.
