(* Helpers for harness-generated case files (Cases/*.v, never committed). *)
From Coq Require Import List ZArith QArith Qabs Bool.
Import ListNotations.

Fixpoint failing_from (i : nat) (l : list bool) : list nat :=
  match l with
  | [] => []
  | b :: r => if b then failing_from (S i) r else i :: failing_from (S i) r
  end.
Definition failing (l : list bool) : list nat := failing_from 0 l.

Fixpoint list_eqb {A} (e : A -> A -> bool) (a b : list A) : bool :=
  match a, b with
  | [], [] => true
  | x :: a', y :: b' => e x y && list_eqb e a' b'
  | _, _ => false
  end.
Definition opt_eqb {A} (e : A -> A -> bool) (a b : option A) : bool :=
  match a, b with
  | None, None => true
  | Some x, Some y => e x y
  | _, _ => false
  end.
Definition pair_eqb {A B} (ea : A -> A -> bool) (eb : B -> B -> bool) (a b : A * B) : bool :=
  ea (fst a) (fst b) && eb (snd a) (snd b).
Definition zl_eqb := list_eqb Z.eqb.
Definition zll_eqb := list_eqb zl_eqb.
Definition nl_eqb := list_eqb Nat.eqb.
Definition ql_eqb := list_eqb Qeq_bool.
Definition qll_eqb := list_eqb ql_eqb.
(* |a - b| <= tol * max(1,|b|) *)
Definition q_close (tol a b : Q) : bool :=
  Qle_bool (Qabs (a - b)) (tol * (if Qle_bool 1 (Qabs b) then Qabs b else 1)).
Definition ql_close tol := list_eqb (q_close tol).
Definition qll_close tol := list_eqb (ql_close tol).
