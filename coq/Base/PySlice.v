(* Python slice semantics (CPython PySlice_AdjustIndices / slice.indices) on lists. *)
From Coq Require Import List ZArith Lia Bool.
Import ListNotations.
Open Scope Z_scope.

(* start/stop adjusted for a sequence of length len; step <> 0 *)
Definition adjust (len : Z) (start stop : option Z) (step : Z) : Z * Z :=
  let lower := if step <? 0 then -1 else 0 in
  let upper := if step <? 0 then len - 1 else len in
  let s := match start with
           | None => if step <? 0 then upper else lower
           | Some s => if s <? 0 then Z.max (s + len) lower else Z.min s upper
           end in
  let e := match stop with
           | None => if step <? 0 then lower else upper
           | Some e => if e <? 0 then Z.max (e + len) lower else Z.min e upper
           end in
  (s, e).

(* number of elements of range(s, e, step) *)
Definition range_len (s e step : Z) : nat :=
  if 0 <? step then Z.to_nat ((e - s + step - 1) / step)
  else if step <? 0 then Z.to_nat ((s - e + (- step) - 1) / (- step))
  else 0%nat.

Definition zrange (s e step : Z) : list Z :=
  map (fun k => s + Z.of_nat k * step) (seq 0 (range_len s e step)).

Definition step_of (o : option Z) : Z := match o with None => 1 | Some k => k end.

(* indices selected by l[start:stop:step] for a sequence of length len *)
Definition slice_indices (len : nat) (start stop step : option Z) : list Z :=
  let k := step_of step in
  let '(s, e) := adjust (Z.of_nat len) start stop k in
  zrange s e k.

Definition pick {A} (l : list A) (i : Z) : list A :=
  if i <? 0 then [] else match nth_error l (Z.to_nat i) with Some x => [x] | None => [] end.

Definition slice_list {A} (l : list A) (start stop step : option Z) : list A :=
  flat_map (pick l) (slice_indices (length l) start stop step).
