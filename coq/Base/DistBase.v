(* Base/DistBase.v -- the small vocabulary the translated validation code of
   enspara/geometry/libdist.pyx (Gen/DistValidGen.v) is written in.  Definitions only. *)
From Coq Require Import List ZArith Bool.
Import ListNotations.
Open Scope Z_scope.

(* NumPy element types the kernels are compiled for, and "anything else" *)
Inductive dtype := I8 | I16 | I32 | I64 | U8 | U16 | U32 | U64 | F32 | F64 | OtherT.

Definition dtype_code (d : dtype) : Z :=
  match d with I8 => 0 | I16 => 1 | I32 => 2 | I64 => 3 | U8 => 4 | U16 => 5 | U32 => 6 | U64 => 7
             | F32 => 8 | F64 => 9 | OtherT => 10 end.
Definition dtype_eqb (a b : dtype) : bool := dtype_code a =? dtype_code b.

(* what the validation code looks at: .shape and .dtype of an array object *)
Record aobj := { shape : list Z; adt : dtype }.

Inductive verr := DataInvalid | IndexErr | TypeErr.
(* outcome of _prepare_for_2d_to_1d_distance: an exception, a freshly allocated zeroed float64
   vector of the given length, or the caller's buffer *)
Inductive vres := VErr (e : verr) | VAlloc (n : Z) | VUse.

Definition rank (a : aobj) : Z := Z.of_nat (length (shape a)).
(* a.shape[i] for a literal i >= 0; IndexError (None) past the rank *)
Definition shape_at (a : aobj) (i : Z) : option Z :=
  if i <? 0 then None else nth_error (shape a) (Z.to_nat i).
Definition is_f64 (a : aobj) : bool := dtype_eqb (adt a) F64.

(* `if a.shape[i] != b.shape[j]: ...` -- evaluating a subscript may raise IndexError *)
Definition ne_at (a : aobj) (i : Z) (b : aobj) (j : Z) (k : bool -> vres) : vres :=
  match shape_at a i, shape_at b j with
  | Some u, Some v => k (negb (u =? v))
  | _, _ => VErr IndexErr
  end.
(* `out = np.zeros((a.shape[i]), dtype=np.float64)` followed by `return out` *)
Definition alloc_at (a : aobj) (i : Z) : vres :=
  match shape_at a i with Some n => VAlloc n | None => VErr IndexErr end.
(* a call statement of a checking function: raise or continue *)
Definition check_then (c : option verr) (k : vres) : vres :=
  match c with Some e => VErr e | None => k end.
