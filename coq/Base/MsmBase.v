(* C16: the types the generated configuration dataflow (Gen/MsmCfgGen.v) is written over.
   Definitions only. *)
From Coq Require Import ZArith.

(* the attributes of enspara.msm.builders that can serve as MSM method *)
Inductive builder_name := Normalize | Transpose | Mle.

(* a callable handed to MSM: one of the builders, possibly wrapped as
   functools.partial(builder, calculate_eq_probs=bf_eq) *)
Record builder_fn := { bf_name : builder_name; bf_eq : bool }.

(* the constructor's `method` argument: a callable, or the name of a builder *)
Inductive method_arg := ByCallable (f : builder_fn) | ByName (n : builder_name).

(* getattr(builders, name): the plain builder (calculate_eq_probs defaults to True) *)
Definition builders_getattr (n : builder_name) : builder_fn := {| bf_name := n; bf_eq := true |}.

(* if callable(method): method else: getattr(builders, method) *)
Definition resolve_method (m : method_arg) : builder_fn :=
  match m with
  | ByCallable f => f
  | ByName n => builders_getattr n
  end.
