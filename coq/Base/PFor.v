(* Base/PFor.v -- schedule independence of a parallel-for over a shared array.

   Generic, self-contained (stdlib only).  The setting is the one of an OpenMP / Cython
   `prange`: iteration [i] executes a little program of read-modify-write micro-operations,
   every one of which reads and writes ONLY cell [i] of the shared array (anything else it reads
   is immutable data captured in the closure).  An execution is a list of tagged micro-ops
   [(cell, f)], applied left to right.

   Main results
   * [run_ops_ext]            two executions with the same per-cell projection give the same array;
   * [pfor_schedule_indep]    executing whole iterations in any permutation gives the same array;
   * [pfor_chunked_indep]     any partition of the iterations into chunks (threads), chunks run one
                              after the other in any order, gives the sequential result;
   * [pfor_interleaving_indep] any fine-grained interleaving of the threads' micro-op streams
                              (each thread keeps its program order) gives the sequential result;
   * [pfor_seq_spec]          the sequential result: cell i becomes [apply_all (prog i) (cell i)];
   * [pfor_body_*]            the same for bodies given as functions of the whole array that are
                              shown to depend on their own cell only ("reads no other iteration's
                              cell").
   Out-of-range writes are no-ops in this model ([modify] past the end); in-bounds-ness is a
   separate obligation of the user (see Proof/DistProofs.v). *)
From Coq Require Import List Arith Lia Permutation Bool.
Import ListNotations.

Set Implicit Arguments.

Section PFor.
  Context {A : Type}.

  (* ---------------------------------------------------------------- definitions *)
  Fixpoint modify (i : nat) (f : A -> A) (l : list A) {struct l} : list A :=
    match l, i with
    | [], _ => []
    | h :: t, O => f h :: t
    | h :: t, S i' => h :: modify i' f t
    end.

  Definition op : Type := (nat * (A -> A))%type.

  Definition run_ops (ops : list op) (o : list A) : list A :=
    fold_left (fun o p => modify (fst p) (snd p) o) ops o.

  Definition tagged (k : nat) (p : op) : bool := Nat.eqb (fst p) k.
  Definition cell_ops (k : nat) (ops : list op) : list (A -> A) :=
    map snd (filter (tagged k) ops).

  Definition apply_all (fs : list (A -> A)) (a : A) : A := fold_left (fun a f => f a) fs a.

  (* program of one iteration, and of a schedule (list of iteration indices) *)
  Definition iter_ops (prog : nat -> list (A -> A)) (i : nat) : list op := map (pair i) (prog i).
  Definition sched_ops (prog : nat -> list (A -> A)) (s : list nat) : list op :=
    flat_map (iter_ops prog) s.

  Fixpoint mapi_from (k : nat) (g : nat -> A -> A) (l : list A) : list A :=
    match l with
    | [] => []
    | a :: t => g k a :: mapi_from (S k) g t
    end.
  Definition mapi := mapi_from 0.

  (* ---------------------------------------------------------------- basic facts *)
  Lemma modify_length : forall i f l, length (modify i f l) = length l.
  Proof.
    intros i f l; revert i; induction l as [|h t IH]; intros [|i]; simpl; auto.
  Qed.

  Lemma nth_error_modify : forall l i f k,
      nth_error (modify i f l) k =
      if Nat.eqb k i then option_map f (nth_error l k) else nth_error l k.
  Proof.
    induction l as [|h t IH]; intros i f k.
    - simpl. destruct (Nat.eqb k i); destruct k; reflexivity.
    - destruct i as [|i]; destruct k as [|k]; simpl; try reflexivity.
      apply IH.
  Qed.

  Lemma run_ops_length : forall ops o, length (run_ops ops o) = length o.
  Proof.
    induction ops as [|p ops IH]; intros o; simpl; [reflexivity|].
    unfold run_ops in *. simpl. rewrite IH. apply modify_length.
  Qed.

  Lemma run_ops_app : forall a b o, run_ops (a ++ b) o = run_ops b (run_ops a o).
  Proof. intros; unfold run_ops; apply fold_left_app. Qed.

  Lemma apply_all_app : forall a b x, apply_all (a ++ b) x = apply_all b (apply_all a x).
  Proof. intros; unfold apply_all; apply fold_left_app. Qed.

  Lemma cell_ops_app : forall k a b, cell_ops k (a ++ b) = cell_ops k a ++ cell_ops k b.
  Proof. intros; unfold cell_ops; rewrite filter_app, map_app; reflexivity. Qed.

  (* the value of a cell after an execution depends on the micro-ops tagged with that cell only *)
  Lemma run_ops_nth_error : forall ops o k,
      nth_error (run_ops ops o) k = option_map (apply_all (cell_ops k ops)) (nth_error o k).
  Proof.
    induction ops as [|[i f] ops IH]; intros o k.
    - simpl. destruct (nth_error o k); reflexivity.
    - change (run_ops ((i, f) :: ops) o) with (run_ops ops (modify i f o)).
      rewrite IH, nth_error_modify.
      unfold cell_ops, tagged; simpl.
      rewrite (Nat.eqb_sym i k).
      destruct (Nat.eqb k i); simpl.
      + destruct (nth_error o k); reflexivity.
      + reflexivity.
  Qed.

  Lemma nth_error_ext : forall (l1 l2 : list A),
      (forall k, nth_error l1 k = nth_error l2 k) -> l1 = l2.
  Proof.
    induction l1 as [|a l1 IH]; intros [|b l2] H.
    - reflexivity.
    - specialize (H 0); discriminate.
    - specialize (H 0); discriminate.
    - f_equal.
      + specialize (H 0); simpl in H; congruence.
      + apply IH; intros k; apply (H (S k)).
  Qed.

  (* ---------------------------------------------------------------- extensionality *)
  Theorem run_ops_ext : forall ops1 ops2 o,
      (forall k, k < length o -> cell_ops k ops1 = cell_ops k ops2) ->
      run_ops ops1 o = run_ops ops2 o.
  Proof.
    intros ops1 ops2 o H. apply nth_error_ext; intros k.
    rewrite !run_ops_nth_error.
    destruct (lt_dec k (length o)) as [Hk|Hk].
    - rewrite (H k Hk); reflexivity.
    - assert (Hn : nth_error o k = None) by (apply nth_error_None; lia).
      rewrite Hn; reflexivity.
  Qed.

  (* ---------------------------------------------------------------- whole iterations *)
  Lemma cell_ops_iter : forall prog i k,
      cell_ops k (iter_ops prog i) = if Nat.eqb i k then prog i else [].
  Proof.
    intros prog i k. unfold cell_ops, iter_ops.
    induction (prog i) as [|f fs IH]; simpl.
    - destruct (Nat.eqb i k); reflexivity.
    - unfold tagged at 1; simpl. destruct (Nat.eqb i k) eqn:E; simpl.
      + f_equal. exact IH.
      + exact IH.
  Qed.

  Lemma cell_ops_sched : forall prog s k,
      cell_ops k (sched_ops prog s) =
      concat (map (fun i => if Nat.eqb i k then prog i else []) s).
  Proof.
    intros prog s k; induction s as [|i s IH]; simpl; [reflexivity|].
    unfold sched_ops in *; simpl. rewrite cell_ops_app, cell_ops_iter, IH. reflexivity.
  Qed.

  Lemma cell_ops_sched_perm : forall prog s1 s2 k,
      Permutation s1 s2 -> cell_ops k (sched_ops prog s1) = cell_ops k (sched_ops prog s2).
  Proof.
    intros prog s1 s2 k HP. rewrite !cell_ops_sched.
    induction HP as [| x l l' HP IH | x y l | l l' l'' HP1 IH1 HP2 IH2]; simpl.
    - reflexivity.
    - rewrite IH; reflexivity.
    - destruct (Nat.eqb y k) eqn:Ey; destruct (Nat.eqb x k) eqn:Ex; simpl; try reflexivity.
      apply Nat.eqb_eq in Ey, Ex; subst; reflexivity.
    - congruence.
  Qed.

  (* THE SCHEDULE CLAUSE, iteration granularity: any permutation of the iterations. *)
  Theorem pfor_schedule_indep : forall prog s1 s2 o,
      Permutation s1 s2 ->
      run_ops (sched_ops prog s1) o = run_ops (sched_ops prog s2) o.
  Proof.
    intros prog s1 s2 o HP. apply run_ops_ext; intros k _.
    apply cell_ops_sched_perm; exact HP.
  Qed.

  Lemma sched_ops_concat : forall prog chunks,
      sched_ops prog (concat chunks) = concat (map (sched_ops prog) chunks).
  Proof.
    intros prog chunks; induction chunks as [|c cs IH]; simpl; [reflexivity|].
    unfold sched_ops in *. rewrite flat_map_app, IH. reflexivity.
  Qed.

  (* any partition into chunks, chunks executed one after the other in the given order *)
  Theorem pfor_chunked_indep : forall prog chunks n o,
      Permutation (concat chunks) (seq 0 n) ->
      run_ops (concat (map (sched_ops prog) chunks)) o = run_ops (sched_ops prog (seq 0 n)) o.
  Proof.
    intros prog chunks n o HP. rewrite <- sched_ops_concat.
    apply pfor_schedule_indep; exact HP.
  Qed.

  (* ---------------------------------------------------------------- sequential result *)
  Lemma nth_error_mapi_from : forall g l k j,
      nth_error (mapi_from k g l) j = option_map (g (k + j)) (nth_error l j).
  Proof.
    intros g l; induction l as [|a t IH]; intros k j.
    - destruct j; reflexivity.
    - destruct j as [|j]; simpl.
      + rewrite Nat.add_0_r; reflexivity.
      + rewrite IH. replace (S k + j) with (k + S j) by lia. reflexivity.
  Qed.

  Lemma mapi_length : forall g l, length (mapi g l) = length l.
  Proof.
    intros g l; unfold mapi; generalize 0; induction l as [|a t IH]; intros k; simpl; auto.
  Qed.

  Lemma cell_ops_seq : forall prog n k,
      k < n -> cell_ops k (sched_ops prog (seq 0 n)) = prog k.
  Proof.
    intros prog n k Hk. rewrite cell_ops_sched.
    assert (G : forall a m, a <= k < a + m ->
               concat (map (fun i => if Nat.eqb i k then prog i else []) (seq a m)) = prog k
               /\ forall a', k < a' ->
               concat (map (fun i => if Nat.eqb i k then prog i else []) (seq a' m)) = []).
    { intros a m; revert a; induction m as [|m IH]; intros a Ha; [lia|].
      split.
      - simpl. destruct (Nat.eqb a k) eqn:E.
        + apply Nat.eqb_eq in E; subst a.
          assert (Z : forall m' a', k < a' ->
                    concat (map (fun i => if Nat.eqb i k then prog i else []) (seq a' m')) = []).
          { induction m' as [|m' IHm]; intros a' Ha'; simpl; [reflexivity|].
            destruct (Nat.eqb a' k) eqn:E'; [apply Nat.eqb_eq in E'; lia|].
            simpl. apply IHm; lia. }
          rewrite Z by lia. apply app_nil_r.
        + apply Nat.eqb_neq in E. simpl. apply IH. lia.
      - intros a' Ha'. clear IH.
        revert a' Ha'. generalize (S m) as m'. induction m' as [|m' IHm]; intros a' Ha'; simpl; [reflexivity|].
        destruct (Nat.eqb a' k) eqn:E'; [apply Nat.eqb_eq in E'; lia|].
        simpl. apply IHm; lia. }
    destruct (G 0 n) as [G1 _]; [lia|exact G1].
  Qed.

  Theorem pfor_seq_spec : forall prog n o,
      length o = n ->
      run_ops (sched_ops prog (seq 0 n)) o = mapi (fun i a => apply_all (prog i) a) o.
  Proof.
    intros prog n o Hn. apply nth_error_ext; intros k.
    rewrite run_ops_nth_error. unfold mapi. rewrite nth_error_mapi_from. simpl.
    destruct (lt_dec k n) as [Hk|Hk].
    - rewrite cell_ops_seq by exact Hk. reflexivity.
    - assert (Hnone : nth_error o k = None) by (apply nth_error_None; lia).
      rewrite Hnone; reflexivity.
  Qed.

  (* ---------------------------------------------------------------- fine-grained interleavings *)
  Inductive Interleave {X : Type} : list (list X) -> list X -> Prop :=
  | il_nil : forall ts, Forall (fun t => t = []) ts -> Interleave ts []
  | il_step : forall ts1 x t ts2 l,
      Interleave (ts1 ++ t :: ts2) l -> Interleave (ts1 ++ (x :: t) :: ts2) (x :: l).

  Definition nonempty {X : Type} (t : list X) : bool := match t with [] => false | _ => true end.
  Definition busy {X : Type} (ts : list (list X)) : nat := length (filter nonempty ts).

  Lemma busy_app : forall X (a b : list (list X)), busy (a ++ b) = busy a + busy b.
  Proof. intros; unfold busy; rewrite filter_app, app_length; reflexivity. Qed.

  Lemma busy_0_concat : forall X (ts : list (list X)), busy ts = 0 -> concat ts = [].
  Proof.
    intros X ts; induction ts as [|t ts IH]; intros H; simpl; [reflexivity|].
    destruct t as [|x t].
    - simpl. apply IH. exact H.
    - unfold busy in H; simpl in H; discriminate.
  Qed.

  Lemma all_nil_concat : forall X (ts : list (list X)),
      Forall (fun t => t = []) ts -> concat ts = [].
  Proof.
    intros X ts H; induction H as [|t ts Ht _ IH]; simpl; [reflexivity|].
    subst t; exact IH.
  Qed.

  Lemma busy_cons : forall X (t : list X) ts,
      busy (t :: ts) = (if nonempty t then 1 else 0) + busy ts.
  Proof. intros X t ts; unfold busy; simpl; destruct (nonempty t); reflexivity. Qed.

  (* if at most one thread has anything to do, an interleaving is that thread's stream *)
  Lemma interleave_single : forall X (ts : list (list X)) l,
      Interleave ts l -> busy ts <= 1 -> l = concat ts.
  Proof.
    intros X ts l H; induction H as [ts Hn | ts1 x t ts2 l H IH]; intros Hb.
    - symmetry; apply all_nil_concat; exact Hn.
    - rewrite busy_app, busy_cons in Hb. simpl in Hb.
      assert (H1 : busy ts1 = 0) by lia. assert (H2 : busy ts2 = 0) by lia.
      rewrite concat_app; simpl. rewrite (busy_0_concat _ H1), (busy_0_concat _ H2). simpl.
      rewrite app_nil_r. f_equal.
      rewrite IH.
      + rewrite concat_app; simpl. rewrite (busy_0_concat _ H1), (busy_0_concat _ H2).
        simpl. apply app_nil_r.
      + rewrite busy_app, busy_cons, H1, H2.
        destruct (nonempty t); simpl; lia.
  Qed.

  Lemma interleave_filter : forall X (P : X -> bool) (ts : list (list X)) l,
      Interleave ts l -> Interleave (map (filter P) ts) (filter P l).
  Proof.
    intros X P ts l H; induction H as [ts Hn | ts1 x t ts2 l H IH].
    - simpl. apply il_nil. rewrite Forall_forall in *. intros t Ht.
      apply in_map_iff in Ht. destruct Ht as [t' [E Ht']]. subst t.
      rewrite (Hn t' Ht'). reflexivity.
    - rewrite map_app in *. simpl in *. destruct (P x).
      + apply il_step. exact IH.
      + exact IH.
  Qed.

  Lemma interleave_perm : forall X (ts : list (list X)) l,
      Interleave ts l -> Permutation l (concat ts).
  Proof.
    intros X ts l H; induction H as [ts Hn | ts1 x t ts2 l H IH].
    - rewrite all_nil_concat by exact Hn. constructor.
    - rewrite concat_app in *. simpl in *.
      apply Permutation_cons_app. exact IH.
  Qed.

  Lemma filter_tagged_iter_other : forall prog i k,
      i <> k -> filter (tagged k) (iter_ops prog i) = [].
  Proof.
    intros prog i k Hik. unfold iter_ops. induction (prog i) as [|f fs IH]; simpl; [reflexivity|].
    unfold tagged at 1; simpl. apply Nat.eqb_neq in Hik. rewrite Hik. exact IH.
  Qed.

  Lemma filter_tagged_sched_notin : forall prog c k,
      ~ In k c -> filter (tagged k) (sched_ops prog c) = [].
  Proof.
    intros prog c k; induction c as [|i c IH]; intros Hn; simpl; [reflexivity|].
    unfold sched_ops in *; simpl. rewrite filter_app.
    rewrite filter_tagged_iter_other by (intros E; apply Hn; left; exact E).
    simpl. apply IH. intros Hin; apply Hn; right; exact Hin.
  Qed.

  Lemma busy_all_nil : forall X (ts : list (list X)),
      (forall t, In t ts -> t = []) -> busy ts = 0.
  Proof.
    intros X ts; induction ts as [|t ts IH]; intros H; [reflexivity|].
    unfold busy; simpl. rewrite (H t (or_introl eq_refl)). simpl. apply IH.
    intros t' Ht'; apply H; right; exact Ht'.
  Qed.

  Lemma NoDup_app_r : forall (a b : list nat), NoDup (a ++ b) -> NoDup b.
  Proof.
    intros a b; induction a as [|x a IH]; simpl; intros H; [exact H|].
    inversion H; subst. apply IH. assumption.
  Qed.

  Lemma NoDup_app_disjoint : forall (a b : list nat) k,
      NoDup (a ++ b) -> In k a -> In k b -> False.
  Proof.
    intros a b k; induction a as [|x a IH]; simpl; intros Hnd Ha Hb; [exact Ha|].
    inversion Hnd as [|? ? Hnx Hnd']; subst.
    destruct Ha as [E|Ha].
    - subst x. apply Hnx. apply in_or_app; right; exact Hb.
    - apply IH; assumption.
  Qed.

  (* distinct iterations in distinct places: at most one thread touches cell k *)
  Lemma busy_threads_cell : forall prog chunks k,
      NoDup (concat chunks) ->
      busy (map (filter (tagged k)) (map (sched_ops prog) chunks)) <= 1.
  Proof.
    intros prog chunks k; induction chunks as [|c cs IH]; intros Hnd; simpl.
    - unfold busy; simpl; lia.
    - simpl in Hnd. rewrite busy_cons.
      destruct (in_dec Nat.eq_dec k c) as [Hin|Hout].
      + assert (Hz : busy (map (filter (tagged k)) (map (sched_ops prog) cs)) = 0).
        { apply busy_all_nil. intros t Ht.
          apply in_map_iff in Ht. destruct Ht as [u [E Hu]]. subst t.
          apply in_map_iff in Hu. destruct Hu as [c' [E Hc']]. subst u.
          apply filter_tagged_sched_notin. intros Hk.
          apply (@NoDup_app_disjoint c (concat cs) k Hnd Hin).
          apply in_concat; exists c'; split; assumption. }
        rewrite Hz. destruct (nonempty _); simpl; lia.
      + rewrite filter_tagged_sched_notin by exact Hout. simpl.
        apply IH. apply NoDup_app_r in Hnd. exact Hnd.
  Qed.

  (* THE SCHEDULE CLAUSE, micro-operation granularity: the iterations are partitioned into
     chunks (one per thread, any partition, any thread count = length chunks); every thread runs
     its iterations in its own order; the global execution is ANY interleaving of the threads'
     micro-operation streams.  The final array is the sequential one. *)
  Theorem pfor_interleaving_indep : forall prog chunks n l o,
      Permutation (concat chunks) (seq 0 n) ->
      Interleave (map (sched_ops prog) chunks) l ->
      run_ops l o = run_ops (sched_ops prog (seq 0 n)) o.
  Proof.
    intros prog chunks n l o HP HI.
    rewrite <- (@pfor_chunked_indep prog chunks n o HP).
    apply run_ops_ext; intros k _. unfold cell_ops. f_equal.
    assert (Hnd : NoDup (concat chunks)).
    { apply (Permutation_NoDup (Permutation_sym HP)). apply seq_NoDup. }
    pose proof (@interleave_filter _ (tagged k) _ _ HI) as HF.
    apply interleave_single in HF.
    - rewrite HF. clear.
      induction (map (sched_ops prog) chunks) as [|t ts IH]; simpl; [reflexivity|].
      rewrite filter_app, IH. reflexivity.
    - apply busy_threads_cell. exact Hnd.
  Qed.

  (* ---------------------------------------------------------------- bodies over the whole array *)
  (* A body computes the new value of cell i from the whole array; [own_cell_only] says it reads
     no cell other than its own.  [step_body] writes the result to cell i only. *)
  Section Body.
    Variable d : A.
    Variable body : nat -> list A -> A.

    Definition own_cell_only : Prop :=
      forall i o o', length o = length o' -> nth i o d = nth i o' d -> body i o = body i o'.

    Fixpoint upd (i : nat) (a : A) (l : list A) {struct l} : list A :=
      match l, i with
      | [], _ => []
      | h :: t, O => a :: t
      | h :: t, S i' => h :: upd i' a t
      end.

    Definition step_body (o : list A) (i : nat) : list A := upd i (body i o) o.
    Definition run_body (s : list nat) (o : list A) : list A := fold_left step_body s o.

    Lemma upd_length : forall i a l, length (upd i a l) = length l.
    Proof. intros i a l; revert i; induction l as [|h t IH]; intros [|i]; simpl; auto. Qed.

    Lemma upd_modify : forall i a l, upd i a l = modify i (fun _ => a) l.
    Proof. intros i a l; revert i; induction l as [|h t IH]; intros [|i]; simpl; auto. f_equal; apply IH. Qed.

    Lemma nth_upd_same : forall i a l, i < length l -> nth i (upd i a l) d = a.
    Proof.
      intros i a l; revert i; induction l as [|h t IH]; intros [|i] H; simpl in *; try lia; auto.
      apply IH; lia.
    Qed.

    (* the micro-op a body amounts to on an array of length n *)
    Definition body_op (n i : nat) : A -> A := fun a => body i (upd i a (repeat d n)).

    Lemma modify_ext_at : forall i (f g : A -> A) l,
        (forall a, nth_error l i = Some a -> f a = g a) -> modify i f l = modify i g l.
    Proof.
      intros i f g l; revert i; induction l as [|h t IH]; intros [|i] H; simpl; auto.
      - f_equal. apply H. reflexivity.
      - f_equal. apply IH. intros a Ha. apply H. exact Ha.
    Qed.

    Lemma step_body_as_op : forall o i,
        own_cell_only -> step_body o i = modify i (body_op (length o) i) o.
    Proof.
      intros o i Hown. unfold step_body. rewrite upd_modify.
      apply modify_ext_at. intros a Ha. unfold body_op.
      apply Hown.
      - rewrite upd_length, repeat_length. reflexivity.
      - assert (Hi : i < length o) by (apply nth_error_Some; congruence).
        rewrite nth_upd_same by (rewrite repeat_length; exact Hi).
        apply nth_error_nth. exact Ha.
    Qed.

    Lemma run_body_as_ops : forall s o,
        own_cell_only ->
        run_body s o = run_ops (sched_ops (fun i => [body_op (length o) i]) s) o.
    Proof.
      intros s; induction s as [|i s IH]; intros o Hown; [reflexivity|].
      unfold run_body in *. simpl fold_left. rewrite IH by exact Hown.
      rewrite step_body_as_op by exact Hown. rewrite modify_length.
      reflexivity.
    Qed.

    (* "if every iteration writes only its own cell and reads no other iteration's cell then
       executing the iterations in any permutation gives the same array" *)
    Theorem pfor_body_schedule_indep : forall s1 s2 o,
        own_cell_only -> Permutation s1 s2 -> run_body s1 o = run_body s2 o.
    Proof.
      intros s1 s2 o Hown HP. rewrite !run_body_as_ops by exact Hown.
      apply pfor_schedule_indep; exact HP.
    Qed.

    Theorem pfor_body_chunked_indep : forall chunks n o,
        own_cell_only -> Permutation (concat chunks) (seq 0 n) ->
        fold_left (fun o c => run_body c o) chunks o = run_body (seq 0 n) o.
    Proof.
      intros chunks n o Hown HP.
      rewrite <- (pfor_body_schedule_indep o Hown HP).
      clear HP. revert o. induction chunks as [|c cs IH]; intros o; simpl; [reflexivity|].
      rewrite IH. unfold run_body. rewrite fold_left_app. reflexivity.
    Qed.

    Theorem pfor_body_seq_spec : forall n o,
        own_cell_only -> length o = n ->
        run_body (seq 0 n) o = mapi (fun i _ => body i o) o.
    Proof.
      intros n o Hown Hn. rewrite run_body_as_ops by exact Hown.
      rewrite (@pfor_seq_spec _ n o Hn).
      apply nth_error_ext; intros k. unfold mapi. rewrite !nth_error_mapi_from. simpl.
      destruct (nth_error o k) as [a|] eqn:Ha; [|reflexivity]. simpl. f_equal.
      unfold apply_all; simpl. unfold body_op. apply Hown.
      - rewrite upd_length, repeat_length. reflexivity.
      - assert (Hk : k < length o) by (apply nth_error_Some; congruence).
        rewrite nth_upd_same by (rewrite repeat_length; exact Hk).
        symmetry. apply nth_error_nth. exact Ha.
    Qed.
  End Body.
End PFor.
