(* Base/DistKernBase.v -- the vocabulary the translated kernels of enspara/geometry/libdist.pyx
   (_euclidean, _manhattan, _hamming) and the translated enspara/cluster/util.py:_get_distance_method
   (Gen/DistKernGen.v) are written in.  Definitions only.

   A kernel is a list of PHASES, one per `for i in prange(n_samples, nogil=True)` loop of the source
   (OpenMP puts a barrier at the end of each).  A phase maps the value of the prange variable to the
   list of STATEMENTS that iteration executes, in program order (inner `range` loops unrolled by
   [for_range], `if` by [when]).  A statement is an assignment to one cell of the shared array
   `out`: the pair (index of the written cell, right-hand side as a function of the WHOLE array) --
   nothing in the representation forces an iteration to stay on its own cell; that it does is a
   theorem about the generated text (Proof/DistKernGenProofs.v).  The arithmetic of the right-hand
   sides is abstract ([arith]); Model/Dist.v's ideal and exact-double arithmetics are instances. *)
From Coq Require Import List ZArith Bool String.
From EV Require Import PFor.
Import ListNotations.

Set Implicit Arguments.

(* operations of C `double` the kernels use; elements of X and y are integers (Model/Dist.v) *)
Record arith (A : Type) : Type := {
  a_lit : Z -> A;             (* an integer literal converted to double: `out[i] = 0`, `+= 1` *)
  a_cast : Z -> A;            (* <double>X[i, j] *)
  a_sub : A -> A -> A;
  a_add : A -> A -> A;
  a_mul : A -> A -> A;
  a_fabs : A -> A;
  a_sqrt : A -> A;
  a_divn : A -> Z -> A;       (* out[i] /= n_features   (a C long converted to double) *)
  a_ne : Z -> Z -> bool       (* y[j] != X[i, j], compared in the element type *)
}.

Section Stmt.
  Context {A : Type}.
  Variable ar : arith A.

  Definition stmt : Type := (nat * (list A -> A))%type.
  (* out[k] as an r-value *)
  Definition rd (out : list A) (k : nat) : A := nth k out (a_lit ar 0).
  (* out[k] = e   (`out[k] op= e` is generated as  out[k] = out[k] op e) *)
  Definition assign (k : nat) (e : list A -> A) : stmt := (k, e).
  (* if c: ss *)
  Definition when (c : bool) (ss : list stmt) : list stmt := if c then ss else [].
  (* for v in range(n): body v *)
  Definition for_range (n : nat) (body : nat -> list stmt) : list stmt := flat_map body (seq 0 n).

  Definition exec_stmt (o : list A) (s : stmt) : list A := upd (fst s) (snd s o) o.
  Definition exec_stmts (ss : list stmt) (o : list A) : list A := fold_left exec_stmt ss o.

  (* the body of `for i in prange(n_samples)` as a function of i *)
  Definition phase : Type := nat -> list stmt.
  (* the iterations of one prange executed one after the other in the order s *)
  Definition run_phase (ph : phase) (s : list nat) (o : list A) : list A :=
    exec_stmts (flat_map ph s) o.
  (* the pranges of a kernel one after the other, prange k under the order nth k ss *)
  Definition run_phases (phs : list phase) (ss : list (list nat)) (o : list A) : list A :=
    fold_left (fun o p => run_phase (fst p) (snd p) o) (combine phs ss) o.
End Stmt.
Arguments stmt : clear implicits.
Arguments phase : clear implicits.

(* ------------------------------------------------------------------ _get_distance_method *)
(* the argument: a string, a callable object, anything else *)
Inductive marg := MStr (s : string) | MCallable | MOther.
(* what is returned: a module-level name of cluster/util.py, an attribute of a module
   (md.rmsd), the closure over msmbuilder.libdistance.dist (or ImproperlyConfigured when that
   optional package is missing), the argument itself, or ImproperlyConfigured *)
Inductive mres := RName (f : string) | RAttr (m f : string) | RLibdistance | RSelf | RImproperlyConfigured.

(* `metric == 'lit'` and `metric in [...]`: false for non-strings *)
Definition marg_eqb (m : marg) (s : string) : bool :=
  match m with MStr t => String.eqb t s | _ => false end.
Definition marg_in (m : marg) (l : list string) : bool := existsb (marg_eqb m) l.
Definition marg_callable (m : marg) : bool := match m with MCallable => true | _ => false end.

Fixpoint assoc (k : string) (l : list (string * string)) : option string :=
  match l with
  | [] => None
  | (a, b) :: t => if String.eqb a k then Some b else assoc k t
  end.
