(* Base/InfoBase.v -- the small vocabulary the translated text of
   enspara/info_theory/libinfo.pyx:matrix_bincount2d (Gen/InfoGen.v) is written in.
   Definitions only.  A 2-D integer array is a list of frames (rows), as in Model/JointCounts.v. *)
From Coq Require Import List ZArith Bool.
From EV Require Import JointCounts.
Import ListNotations.
Open Scope Z_scope.

(* a.shape[k] for the literal k = 0 (frames) or k = 1 (features) *)
Definition ashape (X : list (list Z)) (k : nat) : Z :=
  match k with O => Z.of_nat (length X) | _ => Z.of_nat (width X) end.

(* a.max() / a.min(): ValueError (None) on a zero-size array *)
Definition zmin_list (l : list Z) : option Z :=
  match l with [] => None | x :: r => Some (fold_left Z.min r x) end.
Definition amax (X : list (list Z)) : option Z := zmax_list (concat X).
Definition amin (X : list (list Z)) : option Z := zmin_list (concat X).

(* `assert x <op> y`: an operand that raises makes the call fail just like a false assertion *)
Definition ocmp (c : Z -> Z -> bool) (x y : option Z) : bool :=
  match x, y with Some u, Some v => c u v | _, _ => false end.

(* np.zeros((d0, d1, d2, d3), dtype=np.uint32) *)
Definition zeros4z (d0 d1 d2 d3 : Z) : tbl4 :=
  zeros4 (Z.to_nat d0) (Z.to_nat d1) (Z.to_nat d2) (Z.to_nat d3).

(* for v in range(n) / prange(n): body   (the sequential order of the iterations) *)
Definition for_range {S} (n : Z) (body : S -> nat -> S) (s : S) : S :=
  fold_left body (seq 0 (Z.to_nat n)) s.

(* a[i0, i1] of a 2-D array; jc[p, q, i, j] += 1 with C integer indices i, j *)
Definition at2 (X : list (list Z)) (i0 i1 : nat) : Z := cell X i0 i1.
Definition incr4z (jc : tbl4) (p q : nat) (i j : Z) : tbl4 := incr4 jc p q (Z.to_nat i) (Z.to_nat j).
