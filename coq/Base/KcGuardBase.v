(* Vocabulary for the translated stopping-criteria code of kcenters (Gen/KcGuardGen.v). *)
From Coq Require Import List ZArith QArith Bool Arith.

(* the n_clusters argument as passed: Python None, np.inf, or an integer *)
Inductive ncarg := NcNone | NcInf | NcInt (k : nat).
(* the dist_cutoff argument: Python None or a number *)
Inductive dcarg := DcNone | DcVal (r : Q).

Definition nc_is_none (a : ncarg) : bool := match a with NcNone => true | _ => false end.
Definition nc_is_inf (a : ncarg) : bool := match a with NcInf => true | _ => false end.
Definition dc_is_none (a : dcarg) : bool := match a with DcNone => true | _ => false end.
Definition dc_eq_zero (a : dcarg) : bool := match a with DcVal r => Qeq_bool r 0 | DcNone => false end.

(* len(ctr_inds) <op> n_clusters with n_clusters = None meaning +inf *)
Definition cmp_count_lt (k : nat) (n : option nat) : bool := match n with None => true | Some m => k <? m end.
Definition cmp_count_le (k : nat) (n : option nat) : bool := match n with None => true | Some m => k <=? m end.
Definition cmp_count_gt (k : nat) (n : option nat) : bool := match n with None => false | Some m => m <? k end.
Definition cmp_count_ge (k : nat) (n : option nat) : bool := match n with None => false | Some m => m <=? k end.
Definition cmp_q_lt (a b : Q) : bool := negb (Qle_bool b a).
Definition cmp_q_le (a b : Q) : bool := Qle_bool a b.
Definition cmp_q_gt (a b : Q) : bool := negb (Qle_bool a b).
Definition cmp_q_ge (a b : Q) : bool := Qle_bool b a.
