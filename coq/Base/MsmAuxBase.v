(* C16 round 3: vocabulary for Gen/MsmAuxGen.v -- the implied-timescale formula of
   timescales.calc_imp_times over R, and the attribute <-> file table of MSM.save / MSM.load.
   Definitions only. *)
From Coq Require Import String.
From Coq Require Import List ZArith Reals.
Import ListNotations.

(* ------------------------------------------------------------------ NumPy over R *)
Definition r_log (v : list R) : list R := map ln v.                     (* np.log(v) *)
Definition r_abs (v : list R) : list R := map Rabs v.                   (* np.abs(v) *)
Definition r_neg (v : list R) : list R := map Ropp v.                   (* -v *)
Definition r_sdiv (s : R) (v : list R) : list R := map (fun x => (s / x)%R) v.   (* s / v *)
Definition r_smul (s : R) (v : list R) : list R := map (fun x => (s * x)%R) v.   (* s * v *)
Definition r_vdiv (v : list R) (s : R) : list R := map (fun x => (x / s)%R) v.   (* v / s *)
(* v[k:], v[:n] with Python's meaning of negative bounds *)
Definition r_slice_from (v : list R) (k : Z) : list R :=
  if (k <? 0)%Z then skipn (List.length v - Z.to_nat (- k)) v else skipn (Z.to_nat k) v.
Definition r_slice_to (v : list R) (n : Z) : list R :=
  if (n <? 0)%Z then firstn (List.length v - Z.to_nat (- n)) v else firstn (Z.to_nat n) v.

(* ------------------------------------------------------------------ MSM.save / MSM.load *)
(* what is written: the fitted attributes and the config dict *)
Inductive io_attr := A_mapping_ | A_tcounts_ | A_tprobs_ | A_eq_probs_ | A_config.

(* how it is written.  precision: significant digits handed to scipy.io.mmwrite (None: SciPy's
   default, exact for integer matrices); np.savetxt with its default format '%.18e' *)
Inductive io_writer :=
| W_mapping_csv                         (* self.mapping_.write(f) *)
| W_mmwrite (precision : option Z)      (* mmwrite(f, x [, precision=]) *)
| W_savetxt                             (* np.savetxt(f, np.array(x)) *)
| W_pickle.                             (* pickle.dump(x, f) *)
Inductive io_reader :=
| R_mapping_csv                         (* TrimMapping.load(fname) *)
| R_mmread                              (* mmread(fname) *)
| R_loadtxt (ndmin : Z)                 (* np.loadtxt(fname, ndmin=) *)
| R_pickle.                             (* pickle.load(f) *)

(* open(..., 'w') / open(..., 'wb') / 'rb' *)
Inductive io_mode := TextMode | BinaryMode.

Record save_row := { sv_key : string; sv_attr : io_attr; sv_writer : io_writer; sv_mode : io_mode }.
Record load_row := { ld_attr : io_attr; ld_reader : io_reader; ld_key : string }.
