(* Fixed loop skeletons of enspara/ra/ra.py:partition_indices and partition_list; the tests and
   updates plugged into them are translated from the source (Gen/PartitionGen.v). *)
From Coq Require Import List ZArith Bool.
From EV Require Import PySlice.
Import ListNotations.
Open Scope Z_scope.

(* for traj_len in traj_lengths: if test: append((trj_index, index)); break   else: update *)
Fixpoint pi_inner (test : Z -> Z -> bool) (upd : Z -> Z -> Z -> Z * Z)
         (lens : list Z) (index trj : Z) : option (Z * Z) :=
  match lens with
  | [] => None                                    (* loop falls through: nothing appended *)
  | l :: r => if test l index then Some (trj, index)
              else let '(index', trj') := upd l index trj in pi_inner test upd r index' trj'
  end.
Definition pi_outer (test : Z -> Z -> bool) (upd : Z -> Z -> Z -> Z * Z)
           (indices lens : list Z) : list (Z * Z) :=
  flat_map (fun i => match pi_inner test upd lens i 0 with Some p => [p] | None => [] end) indices.

(* start = 0; for num in range(len(lens)): stop = ...; append(l[start:stop]); start = ... *)
Fixpoint pl_loop {A} (stop_of : Z -> Z -> Z) (next : Z -> Z -> Z)
         (l : list A) (lens : list Z) (start : Z) : list (list A) :=
  match lens with
  | [] => []
  | len :: r => let stop := stop_of start len in
                slice_list l (Some start) (Some stop) None :: pl_loop stop_of next l r (next start stop)
  end.
