(* Base/InfoPyBase.v -- the vocabulary the translated text of the Python layer of
   enspara/info_theory (mutual_info.py, entropy.py; Gen/MutualInfoGen.v, Gen/EntropyGen.v, written by
   translator/tr_infopy.py) is expressed in.  Definitions only.

   An ndarray is a nested list, one list level per axis.  Count tables hold nat, probability tables
   hold exact rationals (Q); the value of a logarithmic expression is a real number (R) built from
   those rationals through Q2R; the IEEE special values that kl_divergence relies on (nan, +-inf) are
   the constructors of [xr]. *)
From Coq Require Import List ZArith QArith Qabs Qreals Bool Arith Reals.
From EV Require Import JointCounts Info.
Import ListNotations.

(* ------------------------------------------------------------------ shapes, loops, indexing *)
(* x.shape[0], x.shape[1] (the translator emits them only for arrays of rank >= 1, >= 2) *)
Definition dim0 {A} (x : list A) : nat := length x.
Definition dim1 {A} (x : list (list A)) : nat := length (hd [] x).
(* for k in range(n): body   -- sequential order *)
Definition for_n {S} (n : nat) (body : S -> nat -> S) (s : S) : S := fold_left body (seq 0 n) s.
(* x[i, j] of an array of rank >= 3 (a sub-array), v[u], M[u, v] of probability tables *)
Definition sub2of {A} (x : list (list (list A))) (i j : nat) : list A := nth j (nth i x []) [].
Definition at1q (p : list Q) (u : nat) : Q := nth u p 0%Q.
Definition at2q (p : list (list Q)) (u v : nat) : Q := nth v (nth u p []) 0%Q.
(* np.zeros(shape=(n, m)) of doubles; mi[i, j] += x *)
Definition zeros2R (n m : nat) : list (list R) := repeat (repeat 0%R m) n.
Definition iadd2 (mi : list (list R)) (i j : nat) (x : R) : list (list R) :=
  upd i (upd j (fun m => (m + x)%R)) mi.

(* elementwise combination of two arrays along one axis (NumPy requires equal lengths; deeper axes
   and broadcast axes are nested [zip2]s / [map]s emitted by the translator) *)
Fixpoint zip2 {A B C} (f : A -> B -> C) (l1 : list A) (l2 : list B) : list C :=
  match l1, l2 with
  | x :: r, y :: s => f x y :: zip2 f r s
  | _, _ => []
  end.

(* ------------------------------------------------------------------ reductions *)
(* x.sum(axis=-1) of the innermost axis; x.sum(axis=-2) of an innermost 2-D block.  Outer axes are
   [map]s emitted by the translator, one per remaining axis. *)
Definition sum_last (l : list nat) : nat := sumn l.
Definition sum_cols (H : list (list nat)) : list nat :=
  map (fun v => sumn (map (fun row => nth v row 0%nat) H)) (seq 0 (dim1 H)).
(* np.any / np.all of a boolean array *)
Definition np_any (l : list bool) : bool := existsb (fun b => b) l.
Definition np_all (l : list bool) : bool := forallb (fun b => b) l.

(* ------------------------------------------------------------------ masked ufuncs *)
(* ufunc(..., where=mask, out=init): cells where the mask is False keep the value of `out` *)
Definition where_out {A} (mask : bool) (v init : A) : A := if mask then v else init.
(* true division count / count of a selected cell.  (For a zero divisor NumPy produces nan or inf;
   this total function returns c/1 there -- never the model's 0, so the `where=` mask is what the
   equality proofs rest on.) *)
Definition np_true_divide (c n : nat) : Q := Z.of_nat c # Pos.of_nat n.
Definition Rlt_b (x y : R) : bool := if Rlt_dec x y then true else false.
Definition Req_b (x y : R) : bool := if Req_EM_T x y then true else false.

(* ------------------------------------------------------------------ error monad *)
Definition obind {A B} (x : option A) (f : A -> option B) : option B :=
  match x with Some v => f v | None => None end.
(* for x in l: s = body(s, x), an exception (None) leaves the loop *)
Fixpoint for_each {A S} (l : list A) (body : S -> A -> option S) (s : S) : option S :=
  match l with [] => Some s | x :: r => obind (body s x) (for_each r body) end.

(* ------------------------------------------------------------------ state-count vectors *)
(* np.full(dim, k, dtype='int'); np.max of `int or array` (ValueError on an empty array) *)
Definition np_full (dim : nat) (k : Z) : list Z := repeat k dim.
Definition np_max_s (n : Z + list Z) : option Z :=
  match n with inl k => Some k | inr l => zmax_list l end.
(* np.meshgrid(x, y, indexing='ij') -> (G0, G1) with G0[i][j] = x[i], G1[i][j] = y[j];
   the default indexing='xy' gives the transposed grids *)
Definition meshgrid_ij0 (x y : list Z) : list (list Z) := map (fun a => map (fun _ => a) y) x.
Definition meshgrid_ij1 (x y : list Z) : list (list Z) := map (fun _ => y) x.
Definition meshgrid_xy0 (x y : list Z) : list (list Z) := map (fun _ => x) y.
Definition meshgrid_xy1 (x y : list Z) : list (list Z) := map (fun b => map (fun _ => b) x) y.

(* ------------------------------------------------------------------ weighted_mi *)
(* X[:, i] of an integer array, P[:, k] of a rational table (k an integer state id) *)
Definition col_z (X : list (list Z)) (i : nat) : list Z := map (fun row => nth i row 0%Z) X.
Definition col_q (P : list (list Q)) (k : Z) : list Q := map (fun row => nth (Z.to_nat k) row 0%Q) P.
(* np.bincount(col, weights=w, minlength=n): entry u is the total weight of the positions holding u;
   the length is max(n, max(col) + 1).  (A negative entry is a ValueError in NumPy: not modelled.) *)
Definition np_bincount_w (col : list Z) (w : list Q) (minlength : Z) : list Q :=
  map (fun u => qsum (zip2 (fun v wt => (wt * ind (v =? u)%Z)%Q) col w))
      (zrange (Z.max minlength (match zmax_list col with Some m => m + 1 | None => 0 end)%Z)).
(* np.dstack([M_0, M_1, ...])[:, :, k] = M_k: the stack is held as the list of its layers *)
Definition sel_last {A} (layers : list (list A)) (k : Z) : list A := nth (Z.to_nat k) layers [].
(* M.T, np.matmul(A, B) with B a boolean (one-hot) matrix read as 0/1 *)
Definition transpose_q (M : list (list Q)) : list (list Q) :=
  map (fun c => map (fun row => nth c row 0%Q) M) (seq 0 (dim1 M)).
Definition matmul_qb (A : list (list Q)) (B : list (list bool)) : list (list Q) :=
  map (fun arow => map (fun c => qsum (zip2 (fun a brow => (a * ind (nth c brow false))%Q) arow B))
                       (seq 0 (dim1 B))) A.
(* np.meshgrid(x, y) (default indexing='xy') of rational vectors: G0[r][c] = x[c], G1[r][c] = y[r] *)
Definition meshgrid_xy0q (x y : list Q) : list (list Q) := map (fun _ => x) y.
Definition meshgrid_xy1q (x y : list Q) : list (list Q) := map (fun b => map (fun _ => b) x) y.
(* A.sum(axis=0) of a rank-3 array of doubles *)
Definition sum_axis0_R (l : list (list (list R))) : list (list R) :=
  map (fun r => map (fun c => Rsum (map (fun m => nth c (nth r m []) 0%R) l)) (seq 0 (dim1 (hd [] l))))
      (seq 0 (dim0 (hd [] l))).

(* ------------------------------------------------------------------ typed integer arrays *)
Inductive dtype := I8 | I16 | I32 | I64 | U8 | U16 | U32 | U64 | F64.
Definition dtype_eqb (a b : dtype) : bool :=
  match a, b with
  | I8, I8 | I16, I16 | I32, I32 | I64, I64 | U8, U8 | U16, U16 | U32, U32 | U64, U64 | F64, F64 => true
  | _, _ => false
  end.
Inductive dkind := KI | KU | KF.
Definition kind_of (d : dtype) : dkind :=
  match d with I8 | I16 | I32 | I64 => KI | U8 | U16 | U32 | U64 => KU | F64 => KF end.
Definition kind_eqb (a b : dkind) : bool :=
  match a, b with KI, KI | KU, KU | KF, KF => true | _, _ => false end.
Definition bits (d : dtype) : Z :=
  match d with I8 | U8 => 8 | I16 | U16 => 16 | I32 | U32 => 32 | _ => 64 end.
Definition signed_of (b : Z) : dtype :=
  if (b <=? 8)%Z then I8 else if (b <=? 16)%Z then I16 else if (b <=? 32)%Z then I32
  else if (b <=? 64)%Z then I64 else F64.
Definition unsigned_of (b : Z) : dtype :=
  if (b <=? 8)%Z then U8 else if (b <=? 16)%Z then U16 else if (b <=? 32)%Z then U32 else U64.
(* np.promote_types on the integer types: the smallest type holding every value of both; a signed
   and an unsigned type of the same or larger size need the next signed size; (u)int64 with a signed
   type has none: float64 *)
Definition promote_types (a b : dtype) : dtype :=
  match kind_of a, kind_of b with
  | KF, _ | _, KF => F64
  | KI, KI => signed_of (Z.max (bits a) (bits b))
  | KU, KU => unsigned_of (Z.max (bits a) (bits b))
  | KI, KU => if (bits b <? bits a)%Z then a else signed_of (2 * bits b)
  | KU, KI => if (bits a <? bits b)%Z then b else signed_of (2 * bits a)
  end.
(* value range of a type, and C conversion into it (two's complement wrap-around) *)
Definition dmin (d : dtype) : Z := match kind_of d with KI => - 2 ^ (bits d - 1) | _ => 0 end.
Definition dmax (d : dtype) : Z :=
  match kind_of d with KI => 2 ^ (bits d - 1) - 1 | KU => 2 ^ bits d - 1 | KF => 2 ^ 53 end.
Definition wrap (d : dtype) (v : Z) : Z :=
  match kind_of d with
  | KF => v
  | _ => ((v - dmin d) mod 2 ^ bits d + dmin d)%Z
  end.

(* an integer ndarray of rank 1 or 2: element type, rank-1 flag, values (a rank-1 array of length T is
   held as its T x 1 column, which is what X[..., None] makes of it) *)
Record ndarr := { dt : dtype; is1d : bool; vals : list (list Z) }.
Definition expand_last (X : ndarr) : ndarr := {| dt := dt X; is1d := false; vals := vals X |}.
Definition astype (d : dtype) (X : ndarr) : ndarr :=
  {| dt := d; is1d := is1d X; vals := map (map (wrap d)) (vals X) |}.
(* X.max(): a NumPy scalar of X's type (ValueError on an empty array); scalar + 1 stays in that type;
   int(scalar) is an unbounded Python int *)
Definition arr_max (X : ndarr) : option Z := zmax_list (concat (vals X)).
Definition scalar_add (d : dtype) (v k : Z) : Z := wrap d (v + k).
Definition py_int (v : Z) : Z := v.
(* libinfo.matrix_bincount2d(X, Y, n_x, n_y): the fused-type signature takes two rank-2 integer arrays
   of one and the same element type (anything else is a TypeError) *)
Definition call_bincount (X Y : ndarr) (n_x n_y : Z) : option tbl4 :=
  if dtype_eqb (dt X) (dt Y) && negb (kind_eqb (kind_of (dt X)) KF) && negb (is1d X) && negb (is1d Y)
  then matrix_bincount2d (vals X) (vals Y) n_x n_y else None.

(* jc.shape of a 4-D table, jc.shape != jc_i.shape *)
Definition shape4t (jc : tbl4) : nat * nat * nat * nat :=
  (length jc, length (hd [] jc), length (hd [] (hd [] jc)), length (hd [] (hd [] (hd [] jc)))).
Definition shape4t_eqb (s t : nat * nat * nat * nat) : bool :=
  let '(a, b, c, d) := s in let '(a', b', c', d') := t in
  (a =? a')%nat && (b =? b')%nat && (c =? c')%nat && (d =? d')%nat.

(* ------------------------------------------------------------------ IEEE doubles with nan / inf *)
(* kl_divergence computes P * log(P / Q) and repairs the nan cells afterwards; finite values are
   ideal reals, the special values follow IEEE 754 / NumPy *)
Inductive xr := XNaN | XPInf | XNInf | XFin (x : R).
Definition x_sign_inf (neg : bool) : xr := if neg then XNInf else XPInf.
Definition x_div (a b : xr) : xr :=
  match a, b with
  | XFin x, XFin y =>
      if Req_b y 0 then (if Req_b x 0 then XNaN else x_sign_inf (Rlt_b x 0))
      else XFin (x / y)
  | XFin _, (XPInf | XNInf) => XFin 0
  | XPInf, XFin y => x_sign_inf (Rlt_b y 0)
  | XNInf, XFin y => x_sign_inf (negb (Rlt_b y 0))
  | _, _ => XNaN
  end.
Definition x_log (a : xr) : xr :=
  match a with
  | XFin x => if Req_b x 0 then XNInf else if Rlt_b x 0 then XNaN else XFin (ln x)
  | XPInf => XPInf
  | _ => XNaN
  end.
Definition x_mul (a b : xr) : xr :=
  match a, b with
  | XFin x, XFin y => XFin (x * y)
  | XFin x, XPInf | XPInf, XFin x => if Req_b x 0 then XNaN else x_sign_inf (Rlt_b x 0)
  | XFin x, XNInf | XNInf, XFin x => if Req_b x 0 then XNaN else x_sign_inf (negb (Rlt_b x 0))
  | XPInf, XPInf | XNInf, XNInf => XPInf
  | XPInf, XNInf | XNInf, XPInf => XNInf
  | _, _ => XNaN
  end.
Definition x_add (a b : xr) : xr :=
  match a, b with
  | XFin x, XFin y => XFin (x + y)
  | XNaN, _ | _, XNaN => XNaN
  | XPInf, XNInf | XNInf, XPInf => XNaN
  | XPInf, _ | _, XPInf => XPInf
  | XNInf, _ | _, XNInf => XNInf
  end.
Definition x_isnan (a : xr) : bool := match a with XNaN => true | _ => false end.
Definition x_sum (l : list xr) : xr := fold_right x_add (XFin 0) l.
