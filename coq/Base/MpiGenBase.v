(* C14 round 3: vocabulary of the translated MPI layer (Gen/MpiGen.v, written by translator/tr_mpi.py).
   Executable definitions only.  Everything the translator emits is a term over
     - Python / NumPy on non-negative integers and lists (slices through Base/PySlice.v, the shared model of
       CPython's slice adjustment),
     - RaggedArray as its list of rows (split_by / concat / unflat / index_of of Model/Mpi.v),
     - collectives as total functions of the vector of per-rank contributions (MPI semantics, trusted; the same
       reading as Model/Mpi.v): `contrib` below is always the list, in rank order, of what each rank passes in.
   None = the code raises on at least one rank (so the whole SPMD call fails). *)
From Coq Require Import List ZArith QArith Bool Arith.
From EV Require Import PySlice KcGuardBase Cluster Mpi.
Import ListNotations.

(* ---------------------------------------------------------------- Python / NumPy *)
Definition py_range (n : nat) : list nat := seq 0 n.
Definition np_arange (n : nat) : list nat := seq 0 n.
Definition np_sum_n (l : list nat) : nat := sum_nat l.
Definition np_sum_q (l : list Q) : Q := sumq l.
Definition np_square (x : Q) : Q := (x * x)%Q.
(* l[i] for i >= 0; None = IndexError *)
Definition py_index {A} (l : list A) (i : nat) : option A := nth_error l i.
(* np.max / np.argmax of a 1-d array: first maximum; None = ValueError on an empty array *)
Definition np_max (l : list Q) : option Q := maxq l.
Definition np_argmax (l : list Q) : option nat := option_map fst (argmax_idx l).
(* np.all(arr <op> 0) on non-negative integer data *)
Definition np_all_gt0 (l : list nat) : bool := forallb (fun x => Nat.ltb 0 x) l.
Definition np_all_ge0 (l : list nat) : bool := forallb (fun x => Nat.leb 0 x) l.
(* int(a / b) on non-negative ints: true division then truncation = floor division (exact below 2^53) *)
Definition py_int_truediv (a b : nat) : nat := Nat.div a b.

Definition oz (o : option nat) : option Z := option_map Z.of_nat o.
(* l[a:b:c] with non-negative integer bounds *)
Definition nslice {A} (l : list A) (a b c : option nat) : list A := slice_list l (oz a) (oz b) (oz c).

Fixpoint zindex_of (x : Z) (l : list Z) : option nat :=
  match l with
  | [] => None
  | y :: r => if Z.eqb x y then Some 0%nat else option_map S (zindex_of x r)
  end.
(* l[a:b:c] = news  (as many new items as selected places, else ValueError; NumPy's broadcasting of a
   one-item right-hand side is not modelled: every call site assigns equally many items).  Position p
   receives news[j] when p is the j-th selected index and keeps its value otherwise. *)
Definition nput_slice {A} (l : list A) (a b c : option nat) (news : list A) : option (list A) :=
  let idx := slice_indices (length l) (oz a) (oz b) (oz c) in
  if Nat.eqb (length idx) (length news)
  then Some (map (fun px => match zindex_of (Z.of_nat (fst px)) idx with
                            | Some j => match nth_error news j with Some y => y | None => snd px end
                            | None => snd px
                            end) (combine (seq 0 (length l)) l))
  else None.

(* ---------------------------------------------------------------- RaggedArray = its rows *)
(* RaggedArray(data, lengths=lens): raises unless len(data) == sum(lens) *)
Definition ra_make {A} (data : list A) (lens : list nat) : option (list (list A)) :=
  if Nat.eqb (length data) (sum_nat lens) then Some (split_by lens data) else None.
(* ... error_checking=False *)
Definition ra_make_unchecked {A} (data : list A) (lens : list nat) : list (list A) := split_by lens data.
Definition ra_flatten {A} (rows : list (list A)) : list A := concat rows.
Definition ra_data {A} (rows : list (list A)) : list A := concat rows.
Definition ra_lengths {A} (rows : list (list A)) : list nat := map (@length A) rows.
(* rows[i] = v for an integer i: the row keeps its length *)
Definition ra_set_row {A} (rows : list (list A)) (i : nat) (v : list A) : option (list (list A)) :=
  match nth_error rows i with
  | None => None
  | Some old => if Nat.eqb (length old) (length v) then Some (firstn i rows ++ v :: skipn (S i) rows) else None
  end.
(* rows[a:b:c] = news_rows: as many rows, row by row of equal length (guaranteed at the call sites: the
   new rows are cut with the lengths of the rows they replace) *)
Definition ra_put_rows {A} (rows : list (list A)) (a b c : option nat) (news : list (list A)) : option (list (list A)) :=
  nput_slice rows a b c news.
(* rows[[i0, i1, ...]] (fancy index by a list of row numbers) *)
Definition ra_take_rows {A} (rows : list (list A)) (idx : list nat) : option (list (list A)) :=
  all_some (map (nth_error rows) idx).
(* (ra.where(a == x)[0][0], ra.where(a == x)[1][0]): row and column of the first hit in row-major order *)
Definition ra_where_first (rows : list (list nat)) (x : nat) : option (nat * nat) :=
  match index_of x (concat rows) with
  | None => None
  | Some p => unflat (map (@length nat) rows) p
  end.

(* ---------------------------------------------------------------- collectives *)
(* bcast / Bcast(root): every rank receives the root's contribution (d: the value when root is no rank) *)
Definition bcast {X} (contrib : list X) (root : nat) (d : X) : X := nth root contrib d.
Definition bcast_opt {X} (contrib : list X) (root : nat) : option X := nth_error contrib root.
Definition allgather {X} (contrib : list X) : list X := contrib.
Definition allreduce_sum_n (contrib : list nat) : nat := sum_nat contrib.
Definition allreduce_sum_q (contrib : list Q) : Q := sumq contrib.
Definition allreduce_max_q (contrib : list Q) : option Q := maxq contrib.
Definition qmin2 (a b : Q) : Q := if Qlt_b b a then b else a.
Definition allreduce_min_q (contrib : list Q) : option Q :=
  match contrib with [] => None | x :: r => Some (fold_left qmin2 r x) end.
(* per-rank evaluation of an expression that may raise: all ranks must succeed *)
Definition on_ranks {X Y} (f : X -> option Y) (locals : list X) : option (list Y) := all_some (map f locals).
Definition with_rank {X} (locals : list X) : list (nat * X) := combine (seq 0 (length locals)) locals.

(* option plumbing *)
Definition obind {X Y} (o : option X) (f : X -> option Y) : option Y := match o with None => None | Some x => f x end.
Definition fold_opt {S I} (step : S -> I -> option S) (items : list I) (s0 : option S) : option S :=
  fold_left (fun acc i => match acc with None => None | Some s => step s i end) items s0.

(* Python truth of `a / b` for exact rationals *)
Definition q_div (a b : Q) : Q := (a / b)%Q.
Definition q_of_nat (n : nat) : Q := inject_Z (Z.of_nat n).
