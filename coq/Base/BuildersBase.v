(* Base/BuildersBase.v -- the array vocabulary the translated text of enspara/msm/builders.py
   (_apply_prior_counts, _row_normalize, normalize, transpose, mle, the final step of _prinz_mle_py)
   and of transition_matrices.eq_probs (Gen/BuildersGen.v) is written in.  Definitions only.

   An array value is a container kind plus its numbers (a `mat` of Model/Builders.v, exact over Q).
   The kind is what `type(x)`, `scipy.sparse.issparse(x)` and `isinstance(x, np.matrix)` observe; the
   rules by which numpy/scipy operations pick the kind of their result are written down here as
   executed (trusted, and compared with the implementation's own containers on every case).
   Binary `+` of 2-D arrays is defined on square arrays of equal size (the only shapes count
   matrices have); every other shape combination is the outcome Err (numpy raises or broadcasts:
   outside the modelled domain). *)
From Coq Require Import List QArith Qabs Bool Arith.
From EV Require Import Builders.
Import ListNotations.
Open Scope Q_scope.

(* ---- container kinds *)
Inductive spfmt := Csr | Csc | Coo | Lil | Dok | Dia | Bsr.
(* KSp fam f: scipy sparse container of format f; fam = true for the *_array family, false for *_matrix *)
Inductive kind := KArr | KMat | KSp (fam : bool) (f : spfmt).
Record arr := mkarr { a_kind : kind; a_val : mat }.

Definition spfmt_eqb (a b : spfmt) : bool :=
  match a, b with
  | Csr, Csr | Csc, Csc | Coo, Coo | Lil, Lil | Dok, Dok | Dia, Dia | Bsr, Bsr => true
  | _, _ => false
  end.
(* type(x) is type(y) *)
Definition kind_eqb (a b : kind) : bool :=
  match a, b with
  | KArr, KArr | KMat, KMat => true
  | KSp fa f, KSp fb g => Bool.eqb fa fb && spfmt_eqb f g
  | _, _ => false
  end.
Definition type_is (A B : arr) : bool := kind_eqb (a_kind A) (a_kind B).

Definition is_sparse (A : arr) : bool := match a_kind A with KSp _ _ => true | _ => false end.
Definition is_npmatrix (A : arr) : bool := match a_kind A with KMat => true | _ => false end.
Definition is_dok (A : arr) : bool := match a_kind A with KSp _ Dok => true | _ => false end.

(* ---- outcomes of operations that can raise *)
(* NotImpl = NotImplementedError, NoConv = scipy.sparse.linalg.ArpackNoConvergence (the two exception
   classes the translated text has handlers for), Err = any other exception *)
Inductive res (T : Type) := Ok (v : T) | NotImpl | NoConv | Err.
Arguments Ok {T} v.
Arguments NotImpl {T}.
Arguments NoConv {T}.
Arguments Err {T}.
Definition rbind {A B} (r : res A) (k : A -> res B) : res B :=
  match r with Ok v => k v | NotImpl => NotImpl | NoConv => NoConv | Err => Err end.
(* try: r  except NotImplementedError: h *)
Definition try_notimpl {A} (r : res A) (h : res A) : res A :=
  match r with NotImpl => h | _ => r end.
(* try: r  except scipy.sparse.linalg.ArpackNoConvergence: h *)
Definition try_noconv {A} (r : res A) (h : res A) : res A :=
  match r with NoConv => h | _ => r end.
Definition of_opt {A} (o : option A) : res A := match o with Some v => Ok v | None => Err end.
Definition to_opt {A} (r : res A) : option A := match r with Ok v => Some v | _ => None end.
(* assert b *)
Definition rassert {A} (b : bool) (k : res A) : res A := if b then k else Err.

(* ---- kinds of results (numpy / scipy conventions) *)
Definition kind_T (k : kind) : kind :=
  match k with
  | KSp fam Csr => KSp fam Csc
  | KSp fam Csc => KSp fam Csr
  | _ => k
  end.
(* x + y for two 2-D containers: sparse + sparse is CSR of the left family (the only sparse sum
   the builders take is CSR + CSC); sparse + dense and anything with np.matrix give np.matrix *)
Definition kind_add (a b : kind) : kind :=
  match a, b with
  | KArr, KArr => KArr
  | KSp fam _, KSp _ _ => KSp fam Csr
  | _, _ => KMat
  end.
Definition kind_tocsr (k : kind) : kind :=
  match k with KSp fam _ => KSp fam Csr | _ => k end.

(* ---- 2-D arrays *)
Definition same_square (A B : mat) : bool :=
  is_square A && is_square B && Nat.eqb (length B) (length A).

Definition a_shape0 (A : arr) : nat := length (a_val A).           (* x.shape[0], len(x) *)
Definition a_T (A : arr) : arr := mkarr (kind_T (a_kind A)) (mtrans (a_val A)).      (* x.T *)
Definition a_add (A B : arr) : res arr :=                          (* x + y *)
  if same_square (a_val A) (a_val B)
  then Ok (mkarr (kind_add (a_kind A) (a_kind B)) (madd (a_val A) (a_val B)))
  else Err.
(* x + prior_counts with prior_counts a number or an ndarray: scipy refuses sparse + non-zero number
   (NotImplementedError) and returns a sparse copy for sparse + 0; the DOK format adds any number
   itself and stays DOK *)
Definition a_add_prior (A : arr) (p : prior) : res arr :=
  match p with
  | NoPrior => Err
  | PScalar q =>
      if is_sparse A && negb (Qeq_bool q 0) && negb (is_dok A) then NotImpl
      else Ok (mkarr (a_kind A) (map (map (fun x => x + q)) (a_val A)))
  | PMat P => a_add A (mkarr KArr P)
  end.
Definition prior_is_none (p : prior) : bool := match p with NoPrior => true | _ => false end.

Definition a_div_scalar (A : arr) (q : Q) : arr :=                 (* x / q *)
  mkarr (a_kind A) (map (map (fun x => x / q)) (a_val A)).
Definition a_cast (k : kind) (A : arr) : arr := mkarr k (a_val A). (* K(x) for a container class K *)
Definition a_tocsr (A : arr) : arr := mkarr (kind_tocsr (a_kind A)) (a_val A).      (* x.tocsr() *)
Definition a_csr_matrix (A : arr) : arr := mkarr (KSp false Csr) (a_val A).         (* scipy.sparse.csr_matrix(x) *)
Definition a_asfptype (A : arr) : arr := A.                        (* x.asfptype(): numbers unchanged *)
Definition a_astype_float (A : arr) : arr := A.                    (* x.astype(float) *)
Definition a_copy (A : arr) : arr := A.                            (* x.copy() *)
Definition a_np_array (A : arr) : arr := mkarr KArr (a_val A).     (* np.array(x), np.asarray(x) of a dense x *)
Definition a_toarray (A : arr) : arr := mkarr KArr (a_val A).      (* x.toarray() *)
Definition a_todense (A : arr) : arr := mkarr KMat (a_val A).      (* x.todense() *)

Definition a_rowsum (A : arr) : list Q := rowsums (a_val A).                 (* x.sum(axis=1), axis=-1 *)
Definition a_colsum (A : arr) : list Q := rowsums (mtrans (a_val A)).        (* x.sum(axis=0) *)
Definition a_total (A : arr) : Q := total (a_val A).                         (* x.sum() *)

(* x * w.reshape((n, 1)), x / w.reshape((n, 1)): row i scaled by w[i] *)
Definition a_mul_col (A : arr) (w : list Q) : arr :=
  mkarr (a_kind A) (map (fun rw => map (fun x => x * snd rw) (fst rw)) (combine (a_val A) w)).
Definition a_div_col (A : arr) (w : list Q) : arr :=
  mkarr (a_kind A) (map (fun rw => map (fun x => x / snd rw) (fst rw)) (combine (a_val A) w)).
(* x * w.reshape((1, n)): column j scaled by w[j] *)
Definition a_mul_row (A : arr) (w : list Q) : arr :=
  mkarr (a_kind A) (map (fun r => map (fun xw => fst xw * snd xw) (combine r w)) (a_val A)).
Definition a_div_row (A : arr) (w : list Q) : arr :=
  mkarr (a_kind A) (map (fun r => map (fun xw => fst xw / snd xw) (combine r w)) (a_val A)).
(* scipy.sparse.dia_matrix((w, 0), shape).tocsr().dot(x): diag(w) x, a CSR matrix *)
Definition a_diag_dot (w : list Q) (A : arr) : arr :=
  mkarr (KSp false Csr) (map (fun wr => map (fun x => fst wr * x) (snd wr)) (combine w (a_val A))).
(* x.dot(scipy diag(w)) is not used by the builders; x.T-style mutations reach a_T above *)

(* ---- 1-D arrays *)
Definition v_zeros (n : nat) : list Q := repeat 0 n.                         (* np.zeros(n) *)
Definition v_gt (v : list Q) (c : Q) : list bool := map (fun x => negb (Qle_bool x c)) v.   (* v > c *)
Definition v_ge (v : list Q) (c : Q) : list bool := map (fun x => Qle_bool c x) v.          (* v >= c *)
Definition v_ne (v : list Q) (c : Q) : list bool := map (fun x => negb (Qeq_bool x c)) v.   (* v != c *)
Definition v_all (m : list bool) : bool := forallb (fun b => b) m.           (* np.all(m) *)
Fixpoint v_take (m : list bool) (v : list Q) : list Q :=                     (* v[m] *)
  match m, v with
  | true :: m', x :: v' => x :: v_take m' v'
  | false :: m', _ :: v' => v_take m' v'
  | _, _ => []
  end.
Fixpoint v_put (m : list bool) (dst vals : list Q) : list Q :=               (* dst[m] = vals *)
  match m, dst with
  | true :: m', _ :: d' => match vals with x :: vs => x :: v_put m' d' vs | [] => dst end
  | false :: m', y :: d' => y :: v_put m' d' vals
  | _, _ => dst
  end.
Definition v_rdiv (c : Q) (v : list Q) : list Q := map (fun x => c / x) v.   (* c / v *)
Definition v_div_scalar (v : list Q) (q : Q) : list Q := map (fun s => s / q) v.     (* v / q *)
Definition v_total (v : list Q) : Q := qsum v.                               (* v.sum(), np.sum(v) *)

(* np.allclose(v, c) / np.isclose(x, c) with numpy's defaults rtol = 1e-5, atol = 1e-8 *)
Definition q_isclose (x c : Q) : bool :=
  Qle_bool (Qabs (x - c)) ((1 # 100000000) + (1 # 100000) * Qabs c).
Definition v_allclose (v : list Q) (c : Q) : bool := forallb (fun x => q_isclose x c) v.
(* np.allclose(u, v, rtol=0, atol=t) of two vectors of equal length *)
Fixpoint v_allclose2 (t : Q) (u v : list Q) : bool :=
  match u, v with
  | [], [] => true
  | x :: u', y :: v' => Qle_bool (Qabs (x - y)) t && v_allclose2 t u' v'
  | _, _ => false
  end.
(* pi @ T *)
Definition v_matmul (pi : list Q) (T : arr) : list Q :=
  map (vecmat pi (a_val T)) (seq 0 (length (a_val T))).

(* ---- the eigen-solver behind eigenspectrum(T, n_eigs=3, left=True): ARPACK (scipy.sparse.linalg.eigs)
   for sparse T with >= 1000 states, LAPACK otherwise.  It answers with the leading left eigenvector
   scaled to sum one (EigVec), gives up after maxiter restarts (EigNoConv: ArpackNoConvergence), or
   fails in any other way (EigFail).  Only the sparse solver can answer EigNoConv: a dense T never
   reaches ARPACK, so that answer on a dense T is mapped to Err (outside what the code can meet). *)
Inductive eig_ans := EigVec (v : list Q) | EigNoConv | EigFail.
Definition ans_of_opt (o : option (list Q)) : eig_ans :=
  match o with Some v => EigVec v | None => EigFail end.
(* val, vec = eigenspectrum(T, n_eigs=3, left=True, ...); vec[:, 0] *)
Definition eig_of (eig : arr -> eig_ans) (T : arr) : res (unit * list Q) :=
  match eig T with
  | EigVec v => Ok (tt, v)
  | EigNoConv => if is_sparse T then NoConv else Err
  | EigFail => Err
  end.
