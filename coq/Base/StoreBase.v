(* C15: library primitives and fixed loop skeletons for the expressions that translator/tr_store.py
   regenerates from enspara/ra/ra.py (save, load), enspara/util/load.py and enspara/mpi/io.py
   (Gen/StoreGen.v).  Executable definitions only; the scalar expressions, slices and tests plugged
   into the skeletons come from the source, the skeletons themselves are checked by the
   correspondence run. *)
From Coq Require Import List ZArith QArith Qround Bool.
From EV Require Import PySlice Store.
Import ListNotations.
Open Scope Z_scope.

(* ------------------------------------------------------------------ Python builtins *)
(* str(z) of an int *)
Definition py_str (z : Z) : str :=
  if z <? 0 then 45%nat :: str_of_nat (Z.to_nat (- z)) else str_of_nat (Z.to_nat z).
(* s.zfill(w), s without a sign *)
Definition py_zfill (w : Z) (s : str) : str := zfill (Z.to_nat w) s.
(* len(x) *)
Definition zlen {A} (l : list A) : Z := Z.of_nat (length l).
(* sum(x) *)
Definition zsum (l : list Z) : Z := fold_right Z.add 0 l.
(* range(n) *)
Definition py_range0 (n : Z) : list Z := map Z.of_nat (seq 0 (Z.to_nat n)).
(* math.ceil(q) *)
Definition py_ceil (q : Q) : Z := Qceiling q.
(* a / b on ints (exact here; a double in Python: equal to it while a < 2^53) *)
Definition py_truediv (a b : Z) : Q := Qdiv (inject_Z a) (inject_Z b).

(* ------------------------------------------------------------------ buf[lo:hi] = xs *)
(* the window [lo, hi) must lie inside the buffer and have the length of xs (NumPy raises
   otherwise, up to broadcasting of a length-1 value, which the loaders never rely on) *)
Definition assign_slice {A} (buf : list A) (lo hi : Z) (xs : list A) : option (list A) :=
  if (0 <=? lo) && (hi - lo =? zlen xs) then write_window buf (Z.to_nat lo) xs else None.

(* the buffer cells addressed by buf[lo:hi] *)
Definition slice_cells (lo hi : Z) : list Z := map (fun k => lo + Z.of_nat k) (seq 0 (Z.to_nat (hi - lo))).

(* ------------------------------------------------------------------ the fill loops
   start = START
   for raw in raws:            (ra.load: the on-disk node of a key;  load_npy_as_striped: np.load(f))
       e = END(start, raw)
       buf[LO(start, e) : HI(start, e)] = VALUE(raw)
       start = NEXT(start, e)                                                                   *)
Fixpoint fill_loop {A} (value : list A -> list A) (end_of : Z -> list A -> Z) (lo hi next : Z -> Z -> Z)
         (raws : list (list A)) (start : Z) (buf : list A) : option (list A) :=
  match raws with
  | [] => Some buf
  | raw :: rest =>
      let e := end_of start raw in
      match assign_slice buf (lo start e) (hi start e) (value raw) with
      | None => None
      | Some b => fill_loop value end_of lo hi next rest (next start e) b
      end
  end.

(* ------------------------------------------------------------------ load_as_concatenated: lengths
   lengths = pool.starmap(sound_trajectory, [(f, stride) for f, kw in zip(filenames, args)
                                             if 'frame' not in kw])          (results in list order)
   for i, kw in enumerate(args):
       if 'frame' in kw: lengths.insert(i, FRAME_LEN)
   A file is (number of frames on disk, stride, has a frame keyword). *)
Definition trjspec := (Z * Z * bool)%type.

(* list.insert(i, x): past the end appends *)
Fixpoint insert_at {A} (i : nat) (x : A) (l : list A) : list A :=
  match i, l with
  | O, _ => x :: l
  | S i', h :: t => h :: insert_at i' x t
  | S _, [] => [x]
  end.

Definition lac_lengths (sound : Z -> Z -> Z) (frame_len : Z) (files : list trjspec) : list Z :=
  let sounded := map (fun f => sound (fst (fst f)) (snd (fst f)))
                     (filter (fun f => negb (snd f)) files) in
  fold_left (fun acc (p : nat * trjspec) => if snd (snd p) then insert_at (fst p) frame_len acc else acc)
            (enum_from 0 files) sounded.

(* the jobs handed to the workers: zip(OFFSETS(lengths), filenames, args); a worker runs
   (position, filename, kwargs) = spec; xyz = md.load(..).xyz; arr[LO:HI] = xyz *)
Fixpoint run_jobs_with {A} (write : list A -> Z -> list A -> option (list A))
         (jobs : list (Z * list A)) (buf : list A) : option (list A) :=
  match jobs with
  | [] => Some buf
  | j :: r => match write buf (fst j) (snd j) with
              | None => None
              | Some b => run_jobs_with write r b
              end
  end.
