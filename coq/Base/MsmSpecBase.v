(* C16 round 3: the vocabulary Gen/MsmSpecGen.v (regenerated from
   enspara/msm/transition_matrices.py:eigenspectrum, enspara/msm/timescales.py:implied_timescales,
   enspara/msm/synthetic_data.py) is written over.  NumPy-level operations on the data layout of
   Model/Msm.v: complex numbers are pairs over Q (Msm.cplx), a complex matrix is the list of its
   COLUMNS (the eigenvectors), a real matrix a list of rows.  Definitions only. *)
From Coq Require Import List ZArith QArith Bool Arith.
From EV Require Import Msm.
From EV Require Builders.
Import ListNotations.

Definition obind {A B} (x : option A) (f : A -> option B) : option B :=
  match x with Some a => f a | None => None end.

(* ------------------------------------------------------------------ the matrix argument of eigenspectrum *)
(* what eigenspectrum does with T before the solver is called, over an abstract matrix type *)
Record mx_ops (Mx : Type) := {
  mx_T : Mx -> Mx;                 (* T.T *)
  mx_shape0 : Mx -> Z;             (* T.shape[0] *)
  mx_issparse : Mx -> bool;        (* scipy.sparse.issparse(T) *)
  mx_toarray : Mx -> Mx;           (* T.toarray() *)
  mx_tocsr : Mx -> Mx }.           (* T.tocsr() *)
Arguments mx_T {Mx}. Arguments mx_shape0 {Mx}. Arguments mx_issparse {Mx}.
Arguments mx_toarray {Mx}. Arguments mx_tocsr {Mx}.

(* ARPACK's `which` *)
Inductive which_t := LM | SM | LR | SR | LI | SI.
(* v0 = np.random.RandomState(seed).uniform(-1, 1, n) *)
Inductive v0_t := V0SeededUniform (seed n : Z).

(* the solver call eigenspectrum ends up making *)
Inductive solver_call (Mx : Type) :=
| CallEig (M : Mx)                                                       (* scipy.linalg.eig(M) *)
| CallEigs (M : Mx) (k : Z) (which : which_t) (maxiter : Z) (tol : Q) (v0 : v0_t).
                                                                          (* scipy.sparse.linalg.eigs(M, k, which=, maxiter=, tol=, v0=) *)
Arguments CallEig {Mx}. Arguments CallEigs {Mx}.

(* ------------------------------------------------------------------ NumPy on vectors / column lists *)
Definition np_real (v : list cplx) : list Q := map re v.                   (* np.real(v) *)
Definition np_real_m (m : list (list cplx)) : list (list Q) := map (map re) m.
Definition np_neg (v : list Q) : list Q := map Qopp v.                      (* -v *)

(* np.argsort(v): indices that sort v ASCENDING; equal keys keep their order (insertion sort, as
   NumPy does for <= 16 elements; Model/Msm.v has the same caveat for longer inputs) *)
Fixpoint ins_asc (x : Q * nat) (l : list (Q * nat)) : list (Q * nat) :=
  match l with
  | [] => [x]
  | y :: r => if Qle_bool (fst x) (fst y) then x :: l else y :: ins_asc x r
  end.
Definition np_argsort (v : list Q) : list nat :=
  map snd (fold_right ins_asc [] (combine v (seq 0 (length v)))).

(* order[::-1] *)
Definition np_flip {A} (l : list A) : list A := rev l.

(* v[order] (fancy indexing with an index array) / m[:, order] *)
Definition take (v : list cplx) (ord : list nat) : list cplx := map (fun k => nth k v (0, 0)) ord.
Definition take_cols (m : list (list cplx)) (ord : list nat) : list (list cplx) := map (fun k => nth k m []) ord.

(* m[:, k] for a constant k >= 0; v.sum() *)
Definition col (m : list (list cplx)) (k : Z) : list cplx := nth (Z.to_nat k) m [].
Definition np_sum (v : list cplx) : cplx := csum v.

(* m[:, k] /= s  (in place: the other columns are untouched).  None: no such column (IndexError) or
   s = 0 (NumPy would go on with nan/inf; the model treats that as "no value") *)
Fixpoint set_nth {A} (l : list A) (k : nat) (x : A) : list A :=
  match l, k with
  | [], _ => []
  | _ :: r, O => x :: r
  | y :: r, S k' => y :: set_nth r k' x
  end.
Definition col_idiv (m : list (list cplx)) (k : Z) (s : cplx) : option (list (list cplx)) :=
  if (k <? 0)%Z || negb (Z.to_nat k <? length m)%nat || czero s then None
  else Some (set_nth m (Z.to_nat k) (map (fun x => cdiv x s) (col m k))).

(* l[:n] and l[k:] with Python's meaning of negative bounds *)
Definition slice_to {A} (l : list A) (n : Z) : list A :=
  if (n <? 0)%Z then firstn (length l - Z.to_nat (- n)) l else firstn (Z.to_nat n) l.
Definition slice_from {A} (l : list A) (k : Z) : list A :=
  if (k <? 0)%Z then skipn (length l - Z.to_nat (- k)) l else skipn (Z.to_nat k) l.

(* ------------------------------------------------------------------ implied_timescales *)
(* int(np.floor(a / c)) for an integer a and a positive integral constant c (also a // c) *)
Definition py_int_floor_div (a c : Z) : Z := (a / c)%Z.

(* ------------------------------------------------------------------ synthetic_ensemble *)
(* scipy.sparse.linalg.aslinearoperator(T), T.tocsr(): same values *)
Definition aslinearoperator (T : Builders.mat) : Builders.mat := T.
Definition tocsr (T : Builders.mat) : Builders.mat := T.
Definition copy (p : list Q) : list Q := p.

Definition shape_ok (T : Builders.mat) (p : list Q) : bool :=
  Builders.is_square T && Nat.eqb (length p) (length T).

(* T_op.rmatvec(p) = p . T  (= T^H p for a real T); a vector of the wrong length is a ValueError *)
Definition rmatvec (T : Builders.mat) (p : list Q) : option (list Q) :=
  if shape_ok T p then Some (map (fun j => Qred (Builders.vecmat p T j)) (seq 0 (length T))) else None.
(* T_op.matvec(p) = T . p *)
Definition matvec (T : Builders.mat) (p : list Q) : option (list Q) :=
  if shape_ok T p
  then Some (map (fun i => Qred (Builders.qsum (map (fun ab => fst ab * snd ab) (combine (Builders.row T i) p))))
                 (seq 0 (length T)))
  else None.

(* a.dot(b) for two vectors; different lengths: ValueError *)
Definition np_dot (a b : list Q) : option Q :=
  if Nat.eqb (length a) (length b) then Some (Builders.qsum (map (fun ab => fst ab * snd ab) (combine a b))) else None.

(* for i in range(n): state = body(state)   (i unused; the first failure ends the loop) *)
Fixpoint oiter {S} (n : nat) (f : S -> option S) (s : S) : option S :=
  match n with
  | O => Some s
  | Datatypes.S k => obind (f s) (oiter k f)
  end.
Definition for_range {S} (n : Z) (f : S -> option S) (s : S) : option S := oiter (Z.to_nat n) f s.

(* np.array(list of rows / scalars): same values *)
Definition np_array {A} (l : list A) : list A := l.

(* l.append(x) *)
Definition append {A} (l : list A) (x : A) : list A := l ++ [x].

(* ------------------------------------------------------------------ a concrete matrix type *)
(* (is sparse, rows): used by the generated case files and to show the mx_ops laws are satisfiable *)
Definition lmx := (bool * Builders.mat)%type.
Definition lmx_ops : mx_ops lmx :=
  {| mx_T := fun M => (fst M, Builders.mk (length (snd M)) (fun i j => Builders.ent (snd M) j i));
     mx_shape0 := fun M => Z.of_nat (length (snd M));
     mx_issparse := fun M => fst M;
     mx_toarray := fun M => (false, snd M);
     mx_tocsr := fun M => (true, snd M) |}.

(* helpers for the generated case files *)
Definition is_call_eig {Mx} (c : solver_call Mx) : bool := match c with CallEig _ => true | _ => false end.
Definition b2z (b : bool) : Z := if b then 1%Z else 0%Z.
