(* C11 vocabulary: the NumPy / SciPy / Python operations that occur in
   enspara/msm/transition_matrices.py (trim_disconnected, TrimMapping) and in MSM.fit's trimming step.
   Gen/TrimGen.v (written by translator/tr_trim.py from the current source) is a let-chain over
   these words; Proof/TrimGenProofs.v proves the chain equal to the hand model Model/Trim.v.

   Trusted reading of the library calls (not verified against NumPy/SciPy themselves):
   - a scipy.sparse container is its shape plus a list of STORED entries; a cell may be stored
     several times (COO), toarray() adds them up;
   - connected_components = classes of (mutual) reachability along non-zero cells, numbered in the
     order of their smallest state (SciPy's own numbering is not specified; see acceptable_keep);
   - np.argmax = first maximum, raising on an empty sequence;
   - arrays are values: the translator rejects every aliasing assignment, so `x[...] = v` rebinding
     x cannot be observed through another name. *)
From Coq Require Import List ZArith Bool Arith.
From EV Require Import Trim.
Import ListNotations.

(* ------------------------------------------------------------------ the `counts` argument *)
Inductive counts_in :=
| NdArray (a : mat)
| SparseM (format : nat) (nrows ncols : nat) (stored : list (nat * nat * Z)).

(* type(counts) *)
Definition py_type (c : counts_in) : container :=
  match c with NdArray _ => Dense | SparseM f _ _ _ => Sparse f end.
(* scipy.sparse.issparse(counts) *)
Definition issparse (c : counts_in) : bool :=
  match c with NdArray _ => false | SparseM _ _ _ _ => true end.
Definition cell_sum (stored : list (nat * nat * Z)) (i j : nat) : Z :=
  fold_right (fun e acc => match e with (r, c, v) => if (r =? i) && (c =? j) then (v + acc)%Z else acc end)
             0%Z stored.
(* counts.toarray(): duplicates are summed *)
Definition toarray (c : counts_in) : mat :=
  match c with
  | NdArray a => a
  | SparseM _ nr nc st => map (fun i => map (fun j => cell_sum st i j) (seq 0 nc)) (seq 0 nr)
  end.
(* the else-side of `if issparse(counts): counts = counts.toarray()` *)
Definition ndarray_view (c : counts_in) : mat :=
  match c with NdArray a => a | SparseM _ _ _ _ => [] end.
(* counts.shape[0] *)
Definition shape0 (c : counts_in) : nat :=
  match c with NdArray a => length a | SparseM _ nr _ _ => nr end.

(* ------------------------------------------------------------------ matrices *)
(* same shape as a, cell (i,j) = f i j *)
Definition mat_build (a : mat) (f : nat -> nat -> Z) : mat :=
  map (fun i => map (f i) (seq 0 (length (nth i a [])))) (seq 0 (length a)).

(* np.array(a, copy=True) *)
Definition np_array_copy (a : mat) : mat := a.
(* a < t, a <= t, ... elementwise against a scalar *)
Definition np_cmp (f : Z -> Z -> bool) (a : mat) (t : Z) : bmat := map (map (fun x => f x t)) a.
Definition np_lt := np_cmp Z.ltb.
Definition np_le := np_cmp Z.leb.
Definition np_gt := np_cmp Z.gtb.
Definition np_ge := np_cmp Z.geb.
Definition np_eq := np_cmp Z.eqb.
Definition np_ne := np_cmp (fun x y => negb (Z.eqb x y)).
(* a[mask] = v *)
Definition setitem_mask (a : mat) (m : bmat) (v : Z) : mat :=
  mat_build a (fun i j => if bget m i j then v else entry a i j).
(* a[idx, :] = v  and  a[:, idx] = v *)
Definition setitem_rows (a : mat) (idx : list nat) (v : Z) : mat :=
  mat_build a (fun i j => if memb i idx then v else entry a i j).
Definition setitem_cols (a : mat) (idx : list nat) (v : Z) : mat :=
  mat_build a (fun i j => if memb j idx then v else entry a i j).
(* np.zeros((r, c)) *)
Definition np_zeros (r c : nat) : mat := repeat (repeat 0%Z c) r.
(* a[np.ix_(rs, cs)] *)
Definition np_ix_get (a : mat) (rs cs : list nat) : mat :=
  map (fun i => map (fun j => entry a i j) cs) rs.
Fixpoint index_of (x : nat) (l : list nat) : option nat :=
  match l with
  | [] => None
  | y :: r => if y =? x then Some 0 else option_map S (index_of x r)
  end.
(* a[np.ix_(rs, cs)] = v   (rs, cs duplicate-free) *)
Definition np_ix_set (a : mat) (rs cs : list nat) (v : mat) : mat :=
  mat_build a (fun i j => match index_of i rs, index_of j cs with
                          | Some p, Some q => entry v p q
                          | _, _ => entry a i j
                          end).
(* a.sum(axis=1): row sums;  a.sum(axis=0): column sums *)
Definition np_sum_axis1 (a : mat) : list Z := map (fold_right Z.add 0%Z) a.
Definition np_sum_axis0 (a : mat) : list Z :=
  map (fun j => fold_right Z.add 0%Z (map (fun r => nth j r 0%Z) a)) (seq 0 (length (hd [] a))).

(* ------------------------------------------------------------------ vectors *)
Definition np_eq_nat (l : list nat) (k : nat) : list bool := map (fun x => x =? k) l.
Definition np_ne_nat (l : list nat) (k : nat) : list bool := map (fun x => negb (x =? k)) l.
(* v[mask] *)
Definition getitem_mask {A} (v : list A) (m : list bool) : list A :=
  map fst (filter snd (combine v m)).
Definition np_sum (v : list Z) : Z := fold_right Z.add 0%Z v.
(* np.argmax: first maximum; ValueError on an empty sequence *)
Definition np_argmax (v : list Z) : option nat :=
  match v with
  | [] => None
  | _ => Some (best (fun i => nth i v 0%Z) (length v))
  end.
(* np.where(mask) is a 1-tuple of index arrays; [0] takes the array *)
Definition np_where (m : list bool) : list nat := filter (fun i => nth i m false) (seq 0 (length m)).
Definition tuple1_get0 {A} (x : A) : A := x.
Definition np_arange (n : nat) : list nat := seq 0 n.
Definition py_range (n : nat) : list nat := seq 0 n.

(* ------------------------------------------------------------------ connected_components *)
Inductive connection := Strong | Weak.
(* an edge is a non-zero cell; without directed=True and connection="strong" direction is ignored *)
Definition cc_edge (directed : bool) (conn : connection) (a : mat) (i j : nat) : bool :=
  let nz := fun i j => (i <? length a) && (j <? length a) && negb (entry a i j =? 0)%Z in
  match directed, conn with
  | true, Strong => nz i j
  | _, _ => nz i j || nz j i
  end.
Definition cc_reach (directed : bool) (conn : connection) (a : mat) : bmat :=
  warshall (length a) (cc_edge directed conn a) (length a).
(* smallest member of the class of i *)
Definition cc_rep (R : bmat) (n i : nat) : nat := hd i (comp_of R n i).
Definition cc_root (R : bmat) (n k : nat) : bool := cc_rep R n k =? k.
(* label = number of classes whose smallest member is smaller *)
Definition cc_label (R : bmat) (n i : nat) : nat := length (filter (cc_root R n) (seq 0 (cc_rep R n i))).
(* ValueError("graph should be a square array") -> None *)
Definition connected_components (a : mat) (directed : bool) (conn : connection) : option (nat * list nat) :=
  if square a then
    let n := length a in
    let R := cc_reach directed conn a in
    Some (length (filter (cc_root R n) (seq 0 n)), map (cc_label R n) (seq 0 n))
  else None.

(* ------------------------------------------------------------------ Python iterables, TrimMapping *)
(* a zip object is always truthy, a list is truthy iff non-empty *)
Inductive py_iter := PyZip (l : list (nat * nat)) | PyList (l : list (nat * nat)).
Definition iter_items (it : py_iter) : list (nat * nat) := match it with PyZip l => l | PyList l => l end.
Definition truthy (it : py_iter) : bool :=
  match it with PyZip _ => true | PyList [] => false | PyList _ => true end.
Definition py_zip (a b : list nat) : py_iter := PyZip (combine a b).
(* __slots__ = ['to_original']; None = the slot was never assigned (reading it raises AttributeError) *)
Record tm_obj := { slot_to_original : option dict }.
(* d.items() *)
Definition dict_items (d : dict) : list (nat * nat) := d.

(* ------------------------------------------------------------------ typed results *)
(* the returned counts: (type(trimmed_counts), its cells) *)
Definition typed_mat := (container * mat)%type.
Definition np_type (a : mat) : container := Dense.
Definition construct (t : container) (a : mat) : typed_mat := (t, a).
Definition as_typed (a : mat) : typed_mat := (Dense, a).
(* MSM.fit without trimming hands the counts on as they are *)
Definition unchanged (c : counts_in) : typed_mat := (py_type c, toarray c).
