(* C17: statement skeleton of enspara/tpt/path.py (top_path, _remove_bottleneck, _subtract_path_flux,
   paths).  The scalar logic -- every comparison, reduction (min / argmin / argmax), constant, update
   and stopping test -- is a parameter; translator/tr_path.py regenerates those parameters from the
   source into Gen/PathGen.v and instantiates the skeleton there.  The skeleton itself is the loop /
   fancy-indexing shape that the translator recognises statement by statement (anything else is
   rejected).  Definitions only. *)
From Coq Require Import List Arith QArith Qreduction Bool.
From EV Require Import Paths.
Import ListNotations.
Close Scope Q_scope.

(* ------------------------------------------------------------------ what the translator may emit *)
(* comparisons of doubles that may be +-inf (min_fluxes, new_fluxes, flux) *)
Definition e_gt (a b : ext) : bool := eltb b a.
Definition e_lt (a b : ext) : bool := eltb a b.
Definition e_ge (a b : ext) : bool := negb (eltb a b).
Definition e_le (a b : ext) : bool := negb (eltb b a).
(* comparisons of finite doubles (net_flux entries, expl_flux, flux_cutoff) *)
Definition q_gt (a b : Q) : bool := Qltb b a.
Definition q_lt (a b : Q) : bool := Qltb a b.
Definition q_ge (a b : Q) : bool := Qle_bool b a.
Definition q_le (a b : Q) : bool := Qle_bool a b.
(* counter (an int) against num_paths (an int or np.inf = None) *)
Definition ninf_ge (a : nat) (b : option nat) : bool := match b with Some m => m <=? a | None => false end.
Definition ninf_gt (a : nat) (b : option nat) : bool := match b with Some m => m <? a | None => false end.
Definition ninf_le (a : nat) (b : option nat) : bool := match b with Some m => a <=? m | None => true end.
Definition ninf_lt (a : nat) (b : option nat) : bool := match b with Some m => a <? m | None => true end.
(* np.isinf / np.all / np.any *)
Definition is_inf (a : ext) : bool := match a with Fin _ => false | _ => true end.
Definition all_b (l : list bool) : bool := forallb (fun b => b) l.
Definition any_b (l : list bool) : bool := existsb (fun b => b) l.
(* float arithmetic, exact in the model and normalised *)
Definition q_sub (a b : Q) : Q := Qred (a - b).
Definition q_add (a b : Q) : Q := Qred (a + b).
(* reductions over 1-D arrays *)
Definition argmax_e (l : list ext) : nat := argmax l.
Definition argmin_q (l : list Q) : nat := argminQ l.
Definition min_q (l : list Q) : Q := minQ l.
(* np.where(T)-masked assignment of one element: x[T] = v *)
Definition masked (t : bool) (v x : ext) : ext := if t then v else x.

(* ------------------------------------------------------------------ top_path *)
Section TopSkel.
Variable label_other label_source : ext.            (* min_fluxes initialisation *)
Variable pop_index : list ext -> nat.               (* min_fluxes[queue] -> position popped *)
Variable exit_test : list bool -> bool.             (* visited[sinks] -> break *)
Variable neighbor_test : Q -> bool.                 (* net_flux[test_node, j] -> j is a neighbour *)
Variable clip : Q -> ext -> ext.                    (* edge flux, min_fluxes[test_node] -> new_fluxes[j] *)
Variable relax_test : bool -> ext -> ext -> bool.   (* visited[j], new_fluxes[j], min_fluxes[j] -> update j *)
Variable sink_index : list ext -> nat.              (* min_fluxes[sinks] -> position of the end state *)

Definition init_k (srcs : list nat) : st :=
  mkst srcs (fun _ => false) (fun _ => None) (fun x => if memb x srcs then label_source else label_other).

Definition cand_k (f : fmat) (s : st) (u j : nat) : ext := clip (f u j) (mf s u).

Definition neighbors_k (n : nat) (f : fmat) (u : nat) : list nat :=
  filter (fun j => neighbor_test (f u j)) (seq 0 n).

Definition improved_k (n : nat) (f : fmat) (s : st) (visf : nat -> bool) (u : nat) : list nat :=
  filter (fun j => relax_test (visf j) (cand_k f s u j) (mf s j)) (neighbors_k n f u).

Definition step_k (n : nat) (f : fmat) (sinks : list nat) (s : st) : step_res :=
  let i := pop_index (map (mf s) (queue s)) in
  let u := nth i (queue s) 0 in
  let q' := remove_nth i (queue s) in
  let vis' := upd (vis s) u true in
  if exit_test (map vis' sinks) then Stop (mkst q' vis' (prev s) (mf s))
  else
    let ind := improved_k n f s vis' u in
    Continue (mkst (q' ++ ind) vis'
                   (fun x => if memb x ind then Some u else prev s x)
                   (fun x => if memb x ind then cand_k f s u x else mf s x)).

Fixpoint search_k (fuel : nat) (n : nat) (f : fmat) (sinks : list nat) (s : st) : option st :=
  match queue s with
  | [] => Some s
  | _ => match fuel with
         | 0 => None
         | S k => match step_k n f sinks s with
                  | Stop s' => Some s'
                  | Continue s' => search_k k n f sinks s'
                  end
         end
  end.

Definition top_path_k (n : nat) (f : fmat) (srcs sinks : list nat) : res (list nat * ext) :=
  if negb (in_range n srcs && in_range n sinks) then IndexErr
  else match sinks with
       | [] => ValueErr
       | _ =>
         match search_k (search_fuel n srcs) n f sinks (init_k srcs) with
         | None => Fuel
         | Some s =>
           let t := nth (sink_index (map (mf s) sinks)) sinks 0 in
           match backtrack n (prev s) t [] with
           | None => Fuel
           | Some p => Ok (p, mf s t)
           end
         end
       end.
End TopSkel.

(* ------------------------------------------------------------------ path removal *)
Definition setv (f : fmat) (e : nat * nat) (v : Q) : fmat := fun a b => if eqe e a b then v else f a b.

Section RemoveSkel.
Variable amount : list Q -> Q.        (* net_flux[path[:-1], path[1:]] -> what is subtracted *)
Variable sub : Q -> Q -> Q.           (* the in-place operator *)
Variable index : list Q -> nat.       (* net_flux[path[:-1], path[1:]] -> bottleneck_ind *)
Variable value : Q.                   (* what the bottleneck edge is set to *)

(* copy; bottleneck_ind = index(edge values); net_flux[path[ind], path[ind + 1]] = value *)
Definition remove_bottleneck_k (f : fmat) (p : list nat) : fmat :=
  let es := edges p in
  setv f (nth (index (evals f es)) es (0, 0)) value.

(* copy; edge values (op)= amount(edge values); then as above *)
Definition subtract_path_k (f : fmat) (p : list nat) : fmat :=
  let es := edges p in
  let m := amount (evals f es) in
  let f1 : fmat := fun a b => if on_path es a b then sub (f a b) m else f a b in
  setv f1 (nth (index (evals f1 es)) es (0, 0)) value.
End RemoveSkel.

(* ------------------------------------------------------------------ paths *)
Section PathsSkel.
Variable top : nat -> fmat -> list nat -> list nat -> res (list nat * ext).
Variable counter0 : nat.
Variable expl0 : Q.
Variable isinf_test : ext -> bool.                        (* flux -> break before recording *)
Variable expl_update : Q -> Q -> Q -> Q.                  (* expl_flux, flux, total_flux *)
Variable counter_update : nat -> nat.
Variable stop_test : nat -> option nat -> Q -> Q -> bool. (* counter, num_paths, expl_flux, flux_cutoff *)

Fixpoint paths_loop_k (fuel : nat) (remove : fmat -> list nat -> fmat) (n : nat) (srcs sinks : list nat)
         (f : fmat) (total : Q) (npaths : option nat) (cutoff : Q)
         (counter : nat) (expl : Q) (accp : list (list nat)) (accf : list Q)
  : res (list (list nat) * list Q) :=
  match fuel with
  | 0 => Fuel
  | S k =>
    match top n f srcs sinks with
    | Ok (p, fl) =>
      if isinf_test fl then Ok (rev accp, rev accf)
      else match fl with
           | Fin q =>
             let expl' := expl_update expl q total in
             let counter' := counter_update counter in
             if stop_test counter' npaths expl' cutoff
             then Ok (rev (p :: accp), rev (q :: accf))
             else paths_loop_k k remove n srcs sinks (remove f p) total npaths cutoff counter' expl'
                               (p :: accp) (q :: accf)
           | _ => Fuel       (* an infinite flux that the source's test lets through: outside the model *)
           end
    | IndexErr => IndexErr
    | ValueErr => ValueErr
    | Fuel => Fuel
    end
  end.

(* net_flux = copy(net_flux); total_flux = net_flux[sources, :].sum(); the loop *)
Definition paths_k (remove : fmat -> list nat -> fmat) (n : nat) (f : fmat) (srcs sinks : list nat)
           (npaths : option nat) (cutoff : Q) : res (list (list nat) * list Q) :=
  paths_loop_k (n * n + 2) remove n srcs sinks f (total_flux n f srcs) npaths cutoff counter0 expl0 [] [].
End PathsSkel.
