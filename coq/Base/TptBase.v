(* Base/TptBase.v -- the small array vocabulary the translated text of enspara/tpt/core.py
   (Gen/TptGen.v, written by translator/tr_tpt.py) is expressed in.  Definitions only.
   A 2-D float array is a function of (row, column), a 1-D array a function of the position, as in
   Model/TPT.v; shapes are tracked by the translator (it rejects shape mismatches) and appear here
   only where an operation needs an extent (sums, solvers).  An integer index array is a `list nat`.
   Each definition names the NumPy / SciPy expression it stands for. *)
From Coq Require Import List QArith Bool Arith.
From EV Require Import TPT.
Import ListNotations.
Open Scope Q_scope.

Definition arr2 := nat -> nat -> Q.
Definition arr1 := nat -> Q.

(* np.array(x, dtype=int).reshape((-1, 1)).flatten(): the index list itself *)
Definition i_norm (l : list nat) : list nat := l.
(* np.append(a, b) on index arrays *)
Definition i_append (a b : list nat) : list nat := a ++ b.

(* np.eye(n) *)
Definition a_eye (n : nat) : arr2 := fun i j => if Nat.eqb i j then 1 else 0.
(* np.ones(n) *)
Definition v_ones (n : nat) : arr1 := fun _ => 1.
(* X + Y, X - Y, X / Y  (same shape, elementwise) *)
Definition a_add (X Y : arr2) : arr2 := fun i j => X i j + Y i j.
Definition a_sub (X Y : arr2) : arr2 := fun i j => X i j - Y i j.
Definition a_div (X Y : arr2) : arr2 := fun i j => X i j / Y i j.
(* s * X, s * v  (Python scalar times array) *)
Definition a_scale (s : Q) (X : arr2) : arr2 := fun i j => s * X i j.
Definition v_scale (s : Q) (v : arr1) : arr1 := fun i => s * v i.
(* a 1-D array meeting a 2-D one in an elementwise operation: broadcast along the LAST axis,
   i.e. v is repeated as every row *)
Definition a_bcast_row (v : arr1) : arr2 := fun _ j => v j.
(* np.array([v] * n): n copies of v as rows *)
Definition a_tile_rows (v : arr1) (n : nat) : arr2 := fun _ j => v j.
(* np.diag(X) of a square 2-D array; X.T *)
Definition a_diag (X : arr2) : arr1 := fun j => X j j.
Definition a_T (X : arr2) : arr2 := fun i j => X j i.

(* X[:, idx]  (fancy index: a fresh array whose column k is column idx[k] of X) *)
Definition a_takecols (X : arr2) (idx : list nat) : arr2 := fun i k => X i (nth k idx O).
(* X[idx, :]  (row k is row idx[k] of X) *)
Definition a_takerows (X : arr2) (idx : list nat) : arr2 := fun k j => X (nth k idx O) j.

(* X[:, idx] = s ;  X[idx, :] = s  and  X[idx] = s  (2-D) ;  v[idx] = s  (1-D) *)
Definition a_setcols (X : arr2) (idx : list nat) (s : Q) : arr2 :=
  fun i j => if memb j idx then s else X i j.
Definition a_setrows (X : arr2) (idx : list nat) (s : Q) : arr2 :=
  fun i j => if memb i idx then s else X i j.
Definition v_set (v : arr1) (idx : list nat) (s : Q) : arr1 :=
  fun i => if memb i idx then s else v i.
(* X[idx1, idx2] = s  (paired fancy indices: the cells (idx1[k], idx2[k])) *)
Definition a_setpairs (X : arr2) (idx1 idx2 : list nat) (s : Q) : arr2 :=
  fun i j => if existsb (fun k => Nat.eqb (nth k idx1 O) i && Nat.eqb (nth k idx2 O) j)
                        (seq 0 (Nat.min (length idx1) (length idx2)))
             then s else X i j.

(* X.sum(axis=1) of an (r x c) array: one value per row;  X.sum(axis=0): one value per column *)
Definition a_sum_axis1 (r c : nat) (X : arr2) : arr1 := fun i => sumq c (fun k => X i k).
Definition a_sum_axis0 (r c : nat) (X : arr2) : arr1 := fun k => sumq r (fun i => X i k).

(* the linear solvers, all through Model/TPT.v's certificate-checked exact solver (None = singular):
   scipy.sparse.linalg.spsolve(A, R) with an (n x m) right-hand side, np.linalg.solve(A, c) with a
   1-D right-hand side, np.linalg.inv(A) *)
Definition a_solve (n m : nat) (A R : arr2) : option arr2 :=
  option_map mget (solve_checked n m A R).
Definition a_solve_vec (n : nat) (A : arr2) (c : arr1) : option arr1 :=
  option_map (fun X i => mget X i O) (solve_checked n 1 A (fun i _ => c i)).
Definition a_inv (n : nat) (A : arr2) : option arr2 :=
  option_map mget (solve_checked n n A (a_eye n)).

(* `X = solver(...)` followed by the rest of the function *)
Definition obind {A B} (x : option A) (f : A -> option B) : option B :=
  match x with Some a => f a | None => None end.

(* what the callers see: the first n (x m) values of a result array *)
Definition v_list (n : nat) (v : arr1) : list Q := map v (seq 0 n).
Definition a_list (n m : nat) (X : arr2) : mat := tab n m X.
