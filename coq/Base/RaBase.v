(* Fixed skeletons for the read path of enspara/ra/ra.py (RaggedArray).  The scalar tests and
   expressions plugged into them are translated from the source by translator/tr_ragged.py
   (Gen/RaGen.v).  Three parts:
   1. a dynamic scalar fragment (values that are an int or None, operations that raise) used for the
      whole body of _slice_to_list;
   2. NumPy primitives used by the vectorised code (integer indexing, cumsum);
   3. per-element skeletons of _handle_negative_indices + _convert_from_2d, of _convert_from_1d, and
      of the pair generators _get_iis_from_slices / _get_iis_from_list.
   No proofs here (Proof/RaGenProofs.v). *)
From Coq Require Import List ZArith Bool.
From EV Require Import PySlice.
Import ListNotations.
Open Scope Z_scope.

(* ------------------------------------------------------------------ 1. dynamic scalar fragment *)
(* outcome of evaluating a Python expression/block: a value, or an exception *)
Inductive pyres (T : Type) : Type :=
| PyOk (v : T)
| PyRaise.
Arguments PyOk {T} v.
Arguments PyRaise {T}.

Definition py_bind {T U} (m : pyres T) (f : T -> pyres U) : pyres U :=
  match m with PyOk v => f v | PyRaise => PyRaise end.

(* a Python value that is an int or None *)
Definition pyv := option Z.
Definition py_int (z : Z) : pyv := Some z.
Definition py_none : pyv := None.
Definition is_none (v : pyv) : bool := match v with None => true | Some _ => false end.

(* int-int operations; an operand that is None raises TypeError *)
Definition py_lift2 {T} (f : Z -> Z -> T) (a b : pyv) : pyres T :=
  match a, b with Some x, Some y => PyOk (f x y) | _, _ => PyRaise end.
Definition py_lt := py_lift2 Z.ltb.
Definition py_le := py_lift2 Z.leb.
Definition py_gt := py_lift2 Z.gtb.
Definition py_ge := py_lift2 Z.geb.
Definition py_add := py_lift2 (fun x y => py_int (x + y)).
Definition py_sub := py_lift2 (fun x y => py_int (x - y)).

(* slice object: (start, stop, step), each an int or None *)
Definition pyslice := (pyv * pyv * pyv)%type.
Definition sl_start (s : pyslice) : pyv := fst (fst s).
Definition sl_stop (s : pyslice) : pyv := snd (fst s).
Definition sl_step (s : pyslice) : pyv := snd s.

(* slice.indices(length): TypeError for None, ValueError for a negative length or a zero step *)
Definition py_slice_indices (s : pyslice) (length : pyv) : pyres (Z * Z * Z) :=
  match length with
  | None => PyRaise
  | Some n =>
    if n <? 0 then PyRaise
    else let k := step_of (sl_step s) in
         if k =? 0 then PyRaise
         else let '(a, b) := adjust n (sl_start s) (sl_stop s) k in PyOk (a, b, k)
  end.
(* range( *t) for a triple produced by slice.indices (step <> 0) *)
Definition py_range3 (t : Z * Z * Z) : list Z := let '(a, b, k) := t in zrange a b k.
(* range(a, b, k): TypeError for None, ValueError for k = 0 *)
Definition py_range (a b k : pyv) : pyres (list Z) :=
  match a, b, k with
  | Some a, Some b, Some k => if k =? 0 then PyRaise else PyOk (zrange a b k)
  | _, _, _ => PyRaise
  end.

(* ------------------------------------------------------------------ 2. NumPy primitives *)
(* a[i] for an integer i: a negative index wraps once, anything else outside raises IndexError *)
Definition np_index {A} (l : list A) (i : Z) : option A :=
  let n := Z.of_nat (length l) in
  if (0 <=? i) && (i <? n) then nth_error l (Z.to_nat i)
  else if (- n <=? i) && (i <? 0) then nth_error l (Z.to_nat (i + n))
  else None.

Fixpoint cumsum_from (acc : Z) (l : list Z) : list Z :=
  match l with
  | [] => []
  | x :: r => (acc + x) :: cumsum_from (acc + x) r
  end.
Definition np_cumsum (l : list Z) : list Z := cumsum_from 0 l.

(* np.broadcast_arrays(first, second) for two index vectors, read as the list of the (row, col) pairs they select:
   equally long vectors element by element, a one-entry vector against every entry of the other;
   None = ValueError (shape mismatch) *)
Definition np_broadcast_pairs (first second : list Z) : option (list (Z * Z)) :=
  if Nat.eqb (length first) (length second) then Some (combine first second)
  else match first, second with
       | _, [c] => Some (map (fun r => (r, c)) first)
       | [r], _ => Some (map (fun c => (r, c)) second)
       | _, _ => None
       end.

(* ------------------------------------------------------------------ 3. per-element skeletons *)
(* _handle_negative_indices followed by the bound test and the offset of _convert_from_2d, for one
   (row, col) pair of the (broadcast) index vectors:
     np.where(first < 0) ... first[neg] += len(starts) ... if (first < 0).sum() > 0: raise
     np.where(second < 0) ... second[neg] += lengths[first[neg]] ... if (second < 0).sum() > 0: raise
     if np.any(lengths[first] <= second): raise
     starts[first] + second
   None = the read raises.  lengths[..] / starts[..] are NumPy integer indexing (np_index). *)
Definition conv2d_skel
           (row_neg : Z -> bool) (row_wrap : Z -> Z -> Z) (row_bad : Z -> bool)
           (col_neg : Z -> bool) (col_wrap : Z -> Z -> Z) (col_bad : Z -> bool)
           (oob : Z -> Z -> bool) (flat : Z -> Z -> Z)
           (lengths starts : list Z) (r c : Z) : option Z :=
  let r1 := if row_neg r then row_wrap r (Z.of_nat (length starts)) else r in
  if row_neg r && row_bad r1 then None
  else match (if col_neg c
              then match np_index lengths r1 with
                   | None => None
                   | Some l => let c1 := col_wrap c l in if col_bad c1 then None else Some c1
                   end
              else Some c) with
       | None => None
       | Some c1 =>
         match np_index lengths r1 with
         | None => None
         | Some l => if oob l c1 then None
                     else match np_index starts r1 with
                          | None => None
                          | Some st => Some (flat st c1)
                          end
         end
       end.

(* np.where(test(starts, ii))[0][-1]: position of the last entry passing the test; None = IndexError *)
Fixpoint last_where_from (test : Z -> bool) (j : Z) (l : list Z) (acc : option Z) : option Z :=
  match l with
  | [] => acc
  | x :: r => last_where_from test (j + 1) r (if test x then Some j else acc)
  end.
(* _convert_from_1d for one flat position ii:
     row = np.where(test)[0][-1];  col = col_of(ii, starts[row]) *)
Definition conv1d_skel (test : Z -> Z -> bool) (col_of : Z -> Z -> Z) (starts : list Z) (ii : Z)
  : option (Z * Z) :=
  match last_where_from (fun st => test st ii) 0 starts None with
  | None => None
  | Some r => match np_index starts r with
              | None => None
              | Some st => Some (r, col_of ii st)
              end
  end.

Fixpoint map_opt_b {A B} (f : A -> option B) (l : list A) : option (list B) :=
  match l with
  | [] => Some []
  | x :: r => match f x, map_opt_b f r with
              | Some y, Some ys => Some (y :: ys)
              | _, _ => None
              end
  end.

(* _get_iis_from_slices: for num in rows: np.arange( *sl.indices(lengths[num]));  np.repeat / np.concatenate.
   None = the read raises (row outside lengths, zero step). *)
Definition iis_from_slices_skel (lengths : list Z) (rows : list Z) (sl : pyslice)
  : option (list (Z * Z) * list nat) :=
  match map_opt_b (fun r => match np_index lengths r with
                            | None => None
                            | Some l => match py_slice_indices sl (py_int l) with
                                        | PyRaise => None
                                        | PyOk t => Some (map (fun c => (r, c)) (py_range3 t))
                                        end
                            end) rows with
  | None => None
  | Some groups => Some (concat groups, map (@length (Z * Z)) groups)
  end.

(* _get_iis_from_list: itertools.product(rows, cols); itertools.repeat(len(cols), len(rows)) *)
Definition iis_from_list_skel (rows cols : list Z) : list (Z * Z) * list nat :=
  (list_prod rows cols, repeat (length cols) (length rows)).
