(* Vocabulary for the WRITE path of enspara/ra/ra.py (RaggedArray.__setitem__, append, map_operator,
   __invert__, __init__, the properties starts / size).  translator/tr_ragged_ops.py walks the current
   source and emits, in these terms, what every branch does to the three slots (Gen/RaOpsGen.v).
   Here: the effect alphabets and the abstract "which representation is current" interpretation of a
   sequence of effects.  Their meaning on the model state is in Model/RaggedOpsGen.v; proofs in
   Proof/RaOpsGenProofs.v.  No proofs here. *)
From Coq Require Import List Bool String.
Import ListNotations.

(* ------------------------------------------------------------------ __setitem__ *)
(* the index forms the dispatch of __setitem__ tells apart *)
Inductive ikind :=
| KInt        (* a[i] = v                                   *)
| KSlice      (* a[i:j:k] = v                               *)
| KList       (* a[[i, ..]] = v                             *)
| KArr        (* a[np.array([i, ..])] = v                   *)
| KSlSl       (* a[i:j:k, p:q:s] = v                        *)
| KSlInt      (* a[i:j:k, c] = v                            *)
| KSlList     (* a[i:j:k, [c, ..]] = v                      *)
| KIntSl      (* a[r, p:q:s] = v                            *)
| KListSl     (* a[[r, ..], p:q:s] = v                      *)
| KPair       (* a[r, c] = v, a[[r, ..], [c, ..]] = v, a[[r, ..], c] = v *)
| KMask.      (* a[boolean RaggedArray] = v                 *)

Definition all_ikinds : list ikind :=
  [KInt; KSlice; KList; KArr; KSlSl; KSlInt; KSlList; KIntSl; KListSl; KPair; KMask].

(* what one statement of a __setitem__ branch does to the object *)
Inductive weff :=
| WRowCopy     (* new_array = np.array(self._array); new_array[iis] = value   -- self untouched *)
| WCtorCopy    (* self.__init__(new_array)                                                     *)
| WRowInPlace  (* self._array[r][s] = value            -- only the row view changes            *)
| WCtorView    (* self.__init__(self._array)                                                   *)
| WFlat        (* self._data[_convert_from_2d(iis, lengths=self.lengths, starts=self.starts)] = value_1d
                                                       -- only the flat data change            *)
| WRebuild     (* self._array = np.array(partition_list(self._data, self.lengths), dtype='O')  *)
| WWhere.      (* iis = where(iis); self.__setitem__(iis, value)  -- continue as KPair          *)

(* which representation holds the current content *)
Inductive truth := TBoth | TRows | TData | TBroken.

Definition truth_step (t : truth) (e : weff) : truth :=
  match t, e with
  | TBoth, WRowCopy => TBoth
  | TBoth, WCtorCopy => TBoth
  | TBoth, WRowInPlace => TRows
  | TRows, WRowInPlace => TRows
  | TBoth, WCtorView => TBoth
  | TRows, WCtorView => TBoth
  | TBoth, WFlat => TData
  | TData, WFlat => TData
  | TBoth, WRebuild => TBoth
  | TData, WRebuild => TBoth
  | _, _ => TBroken          (* a stale representation is read or overwritten; WWhere is resolved before *)
  end.

Definition truth_after (p : list weff) : truth := fold_left truth_step p TBoth.
Definition is_both (t : truth) : bool := match t with TBoth => true | _ => false end.

(* the "resync" flag of a branch: it ends with both representations current *)
Definition resync (paths : ikind -> list weff) (k : ikind) : bool :=
  match paths k with
  | [WWhere] => is_both (truth_after (paths KPair))
  | p => is_both (truth_after p)
  end.

(* who computes the (row, col) cells of a tuple index *)
Inductive cellgen :=
| CGNone             (* no cells: the row view is written                                    *)
| CGSlices           (* _slice_to_list(first, len(lengths)) then _get_iis_from_slices        *)
| CGListInt          (* _slice_to_list then _get_iis_from_list(rows, [second])               *)
| CGList             (* _slice_to_list then _get_iis_from_list(rows, second)                 *)
| CGRowsSlices       (* _get_iis_from_slices(first, second, lengths), first as given         *)
| CGPairs            (* the tuple itself                                                     *)
| CGWhere.           (* where(mask)                                                          *)

Definition expected_cells (k : ikind) : cellgen :=
  match k with
  | KInt | KSlice | KList | KArr | KIntSl => CGNone
  | KSlSl => CGSlices
  | KSlInt => CGListInt
  | KSlList => CGList
  | KListSl => CGRowsSlices
  | KPair => CGPairs
  | KMask => CGWhere
  end.

(* ------------------------------------------------------------------ append *)
Inductive slot := SData | SArray | SLengths.
Definition slot_eqb (a b : slot) : bool :=
  match a, b with SData, SData => true | SArray, SArray => true | SLengths, SLengths => true | _, _ => false end.

Inductive aeff :=
| ACtorValues  (* self.__init__(values)                                                        *)
| AData        (* self._data = np.append(self._data, np.concatenate(values))                   *)
| ALens        (* self.lengths = np.append(self.lengths, [len(i) for i in values])             *)
| ARebuild.    (* self._array = np.array(partition_list(self._data, self.lengths), dtype='O')  *)

Definition aeff_writes (e : aeff) : list slot :=
  match e with
  | ACtorValues => [SData; SArray; SLengths]
  | AData => [SData]
  | ALens => [SLengths]
  | ARebuild => [SArray]
  end.
Definition path_writes (p : list aeff) : list slot := flat_map aeff_writes p.
Definition covers (written slots : list slot) : bool :=
  forallb (fun s => existsb (slot_eqb s) written) slots.

(* the row view is rebuilt after the last change of data / lengths *)
Definition append_fresh_step (fresh : bool) (e : aeff) : bool :=
  match e with ACtorValues => true | AData => false | ALens => false | ARebuild => true end.
Definition append_resync (p : list aeff) : bool := fold_left append_fresh_step p true.

(* ------------------------------------------------------------------ constructor *)
(* where self._data comes from *)
Inductive dsrc :=
| DConcat            (* np.concatenate(array)                    -- always a new buffer        *)
| DObjRows           (* np.array([np.array(j) for i in array for j in i], dtype='O')           *)
| DArrCopyFlag       (* np.array(array, copy=copy)                                             *)
| DArrFresh.         (* np.array(array)                          -- copies by default          *)
Inductive lsrc :=
| LRowLens           (* np.array([len(i) for i in array], dtype=int)                           *)
| LSingle            (* np.array([len(array)], dtype=int)                                      *)
| LEmpty             (* np.array([], dtype=int)                                                *)
| LGivenCopy.        (* np.array(lengths)                        -- copies by default          *)
Inductive rsrc :=
| RPartSelf          (* np.array(partition_list(self._data, self.lengths), dtype='O')          *)
| RPartGiven         (* np.array(partition_list(self._data, lengths), dtype='O')               *)
| RReshapeOne        (* self._data.reshape((1, self.lengths[0]))                               *)
| RReshapeRect       (* self._data.reshape((len(lengths), lengths[0]) + self._data.shape[1:])  *)
| REmptyList.        (* []                                                                     *)
Inductive ceff := CData (d : dsrc) | CLens (l : lsrc) | CRows (r : rsrc).

(* the flat data never share memory with the caller's input when copy has the given value *)
Definition data_fresh (copy : bool) (d : dsrc) : bool :=
  match d with DConcat => true | DObjRows => true | DArrCopyFlag => copy | DArrFresh => true end.
Definition ceff_fresh (copy : bool) (e : ceff) : bool :=
  match e with CData d => data_fresh copy d | CLens _ => true | CRows _ => true end.
(* the row view is cut from the object's own flat data, never from the input *)
Definition path_fresh (copy : bool) (p : list ceff) : bool := forallb (ceff_fresh copy) p.

(* a constructor call made by an operator: RaggedArray(array=<flat>, lengths=<lens>) *)
Inductive mapsrc := MSelfDataMapped.      (* getattr(self._data, operator)(other) / self._data.__invert__() *)
Inductive lenarg := LASelf.               (* self.lengths                                                   *)
Record opcall := mk_opcall {
  oc_unwrap_other : bool;                 (* a RaggedArray operand is replaced by its flat data             *)
  oc_array : mapsrc;
  oc_lengths : lenarg;
  oc_new_object : bool;                   (* the result is a constructor call, never self                   *)
  oc_copy_arg : option bool }.            (* copy= passed to the constructor (None: the default)            *)

(* ------------------------------------------------------------------ derived attributes *)
Inductive sizedef := SzLenData | SzDataSize.     (* len(self._data) | self._data.size *)

(* operator table: (method, name handed to map_operator) *)
Definition optable_ok (t : list (string * string)) : bool :=
  forallb (fun p => String.eqb (fst p) (snd p)) t.
