(* Fixed loop skeleton of enspara/geometry/rotamer.py:_rotamers and the NumPy primitive it uses.
   The tests and updates plugged into it are translated from the source (Gen/RotamerGen.v). *)
From Coq Require Import List ZArith QArith Bool.
Import ListNotations.
Open Scope Z_scope.

(* np.digitize(x, bins) for increasing bins, right=False: number of bins b with b <= x *)
Definition digitize (x : Q) (bins : list Q) : Z :=
  Z.of_nat (length (filter (fun b => Qle_bool b x) bins)).

(* for i in range(n): if test i: r = i; break   (r stays -1 when no i passes) *)
Fixpoint find_first (test : Z -> bool) (l : list Z) : Z :=
  match l with
  | [] => -1
  | i :: r => if test i then i else find_first test r
  end.

Definition zrange0 (n : Z) : list Z := map Z.of_nat (seq 0 (Z.to_nat n)).

(* for i in range(1, n_frames): if ...: cur = ...;  rotamers[i] = cur *)
Fixpoint scan (step : Z -> Q -> Z) (cur : Z) (rest : list Q) : list Z :=
  match rest with
  | [] => []
  | a :: r => let cur' := step cur a in cur' :: scan step cur' r
  end.

Definition rotamers_skeleton (invalid : bool) (n_basins : Z) (first_test : Z -> bool)
           (step : Z -> Q -> Z) (angles : list Q) : option (list Z) :=
  if invalid then None
  else match angles with
       | [] => None                           (* angles[0] raises IndexError *)
       | _ :: rest =>
           let s0 := find_first first_test (zrange0 n_basins) in
           Some (s0 :: scan step s0 rest)
       end.
