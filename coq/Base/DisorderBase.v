(* Fixed vocabulary for the translation of enspara/cards/disorder.py:transitions
   (translator/tr_disorder.py -> Gen/DisorderGen.v).  Executable definitions only.
   1-D integer arrays are `list Z`; 2-D arrays and RaggedArrays are lists of rows (`list (list Z)`),
   rows may have different lengths.  Operations NumPy/RaggedArray reject are `None`. *)
From Coq Require Import List ZArith Bool Arith.
From EV Require Import PySlice.
Import ListNotations.

Definition obind {A B} (o : option A) (f : A -> option B) : option B :=
  match o with Some x => f x | None => None end.

(* a - b on 1-D arrays of equal length (NumPy raises on a shape mismatch; broadcasting of a
   length-1 operand is not modelled and is `None` too) *)
Definition sub_list (a b : list Z) : option (list Z) :=
  if Nat.eqb (length a) (length b)
  then Some (map (fun p => (fst p - snd p)%Z) (combine a b))
  else None.

(* a - b row by row: same number of rows, same length in every row *)
Fixpoint sub_rows (a b : list (list Z)) : option (list (list Z)) :=
  match a, b with
  | [], [] => Some []
  | r :: a', s :: b' =>
      obind (sub_list r s) (fun d => obind (sub_rows a' b') (fun ds => Some (d :: ds)))
  | _, _ => None
  end.

(* a[:, lo:hi:st] : the slice applied to every row *)
Definition slice_rows {A} (a : list (list A)) (lo hi st : option Z) : list (list A) :=
  map (fun r => slice_list r lo hi st) a.

(* element-wise comparison with a constant: `a <op> k` *)
Definition mask_of (test : Z -> bool) (a : list Z) : list bool := map test a.
Definition mask_rows (test : Z -> bool) (a : list (list Z)) : list (list bool) := map (map test) a.

(* enumerate(l) starting at n *)
Definition enum_from {A} (n : nat) (l : list A) : list (nat * A) := combine (seq n (length l)) l.

(* np.where(mask)[0] on a 1-D mask: the indices of the True entries, ascending *)
Definition where1 (m : list bool) : list nat := map fst (filter snd (enum_from 0 m)).

(* np.where / ra.where on a 2-D (or ragged) mask: row-major (row indices, column indices) *)
Definition where2 (m : list (list bool)) : list nat * list nat :=
  let ps := flat_map (fun ir => map (fun j => (fst ir, j)) (where1 (snd ir))) (enum_from 0 m) in
  (map fst ps, map snd ps).

(* np.bincount(xs, minlength=k): counts of 0 .. max(k, 1 + max xs) - 1  (k bins for empty xs) *)
Definition bincount (xs : list nat) (minlength : nat) : list nat :=
  let n := Nat.max minlength (match xs with [] => 0 | _ => S (list_max xs) end) in
  map (fun v => count_occ Nat.eq_dec xs v) (seq 0 n).

(* RaggedArray(flat, lengths=ls): consecutive chunks of flat; DataInvalid unless sum ls = len flat *)
Fixpoint split_by {A} (flat : list A) (ls : list nat) : list (list A) :=
  match ls with
  | [] => []
  | n :: ls' => firstn n flat :: split_by (skipn n flat) ls'
  end.
Definition ragged {A} (flat : list A) (ls : list nat) : option (list (list A)) :=
  if Nat.eqb (list_sum ls) (length flat) then Some (split_by flat ls) else None.

(* the argument of transitions: 1-D array, or 2-D array / RaggedArray (len(shape) is 1 resp. 2) *)
Inductive arr := Arr1 (row : list Z) | Arr2 (rows : list (list Z)).
Definition ndim (a : arr) : Z := match a with Arr1 _ => 1%Z | Arr2 _ => 2%Z end.

(* result: 1-D index array, RaggedArray of indices, exception, or a branch written for the other
   rank was selected (not modelled) *)
Inductive tt_result := TT1 (l : list nat) | TT2 (l : list (list nat)) | TTErr | TTOtherRank.
Definition on_1d (f : list Z -> option (list nat)) (a : arr) : tt_result :=
  match a with
  | Arr1 r => match f r with Some l => TT1 l | None => TTErr end
  | Arr2 _ => TTOtherRank
  end.
Definition on_2d (f : list (list Z) -> option (list (list nat))) (a : arr) : tt_result :=
  match a with
  | Arr2 rs => match f rs with Some l => TT2 l | None => TTErr end
  | Arr1 _ => TTOtherRank
  end.
