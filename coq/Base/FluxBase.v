(* Base/FluxBase.v -- the array vocabulary the translated text of enspara/tpt/tpt.py (Gen/FluxGen.v)
   is written in.  Definitions only.  A 2-d array is a list of rows, a 1-d array a list, exact
   arithmetic over Q, as in Model/Flux.v (whose list helpers map2 / mapi / vnth are reused).
   Each primitive states what ONE NumPy / scipy.sparse operation does to the entries; which
   primitive an operator of the source denotes (e.g. `M * w[:, None]` = row_scale, `M * v` =
   col_scale) is decided by the shape typing of translator/tr_flux.py.
   The broadcasting primitives are written by INDEX (entry (i,j) of the result in terms of entry
   (i,j) of the matrix and entry i resp. j of the vector), not by zipping, so that their agreement
   with the zipping definitions of Model/Flux.v is a theorem (Proof/FluxGenProofs.v), not a
   definitional accident. *)
From Coq Require Import List Arith QArith Bool.
From EV Require Import Flux.
Import ListNotations.
Open Scope Q_scope.

Notation vec := (list Q) (only parsing).
Notation mat := (list (list Q)) (only parsing).

(* a * b          1-d times 1-d of the same length, elementwise *)
Definition hadamard_v (a b : vec) : vec := map2 Qmult a b.

(* A * B / A.multiply(B)     2-d times 2-d of the same shape, elementwise *)
Definition hadamard (A B : mat) : mat := map2 (map2 Qmult) A B.

(* c - v          scalar minus 1-d *)
Definition scalar_sub_vec (c : Q) (v : vec) : vec := map (fun x => c - x) v.

(* M * w[:, None]  /  M.multiply(w[:, None]):  the (n,1) operand is stretched along the columns,
   entry (i,j) of M is multiplied by w_i *)
Definition row_scale (w : vec) (M : mat) : mat :=
  mapi (fun i row => map (fun t => t * vnth w i) row) M.

(* M * v  /  M * v[None, :]  /  M.multiply(v):  the 1-d operand is aligned with the trailing axis,
   entry (i,j) of M is multiplied by v_j *)
Definition col_scale (v : vec) (M : mat) : mat :=
  map (fun row => mapi (fun j t => t * vnth v j) row) M.

(* M.T            (r,c) -> (c,r);  c is read off the first row *)
Definition transpose_m (M : mat) : mat :=
  map (fun j => map (fun row => nth j row 0) M) (seq 0 (length (hd [] M))).

(* A - B          2-d minus 2-d of the same shape *)
Definition mat_sub (A B : mat) : mat := map2 (map2 Qminus) A B.

(* M[(np.arange(n), np.arange(n))] = np.zeros(n):  the cells (k,k), k < n, are overwritten by 0 *)
Definition zero_diag_n (n : nat) (M : mat) : mat :=
  mapi (fun i row => mapi (fun j t => if (i =? j)%nat && (i <? n)%nat then 0 else t) row) M.

(* M[np.where(M < c)] = v *)
Definition set_where_lt (c v : Q) (M : mat) : mat :=
  map (map (fun x => if Qltb x c then v else x)) M.

(* M.maximum(c)   elementwise maximum with a scalar *)
Definition qmaximum (c x : Q) : Q := if Qle_bool c x then x else c.
Definition mat_maximum (c : Q) (M : mat) : mat := map (map (qmaximum c)) M.

(* the positive part of a matrix, the common meaning of the two net-flux branches *)
Definition pos_part_m (M : mat) : mat := map (map (fun x => if Qltb x 0 then 0 else x)) M.

(* np.sum(v) and v / s *)
Definition vec_sum (v : vec) : Q := fold_right Qplus 0 v.
Definition vec_div_scalar (v : vec) (s : Q) : vec := map (fun x => x / s) v.
