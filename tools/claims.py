CLAIMED["C03"] = (
    "Coq proof over a model regenerated from source (translator) + differential correspondence evaluated in Coq",
    "Theorems in coq/Props/C03.v about the pair-extraction slices translated from _transitions_helper on every run and the hand model of assigns_to_counts; the model is run against the real assigns_to_counts on generated trajectory sets (ragged, padded, reordered, split).",
    "translator/tr_counts.py; modelled not verified: coo_matrix duplicate summation and the -1 mask.",
    "DESIGN.md 7 C03")

CLAIMED["C20"] = (
    "Coq proof over a model regenerated from source (translator) + differential correspondence evaluated in Coq",
    "Theorems in coq/Props/C20.v: the translated is_buffered_transition equals 'angle left the widened basin' for the library's three boundary sets, every state, every accepted buffer width and every off-gate angle (finite case split closed by lra), the translated _rotamers run equals the specification automaton by induction over the angle history, zero buffer is binning, states are valid; transition bookkeeping characterised exactly. The generated model is run against the real _rotamers / disorder.transitions.",
    "translator/tr_rotamer.py, py2coq.py; loop skeleton Base/RotamerBase.v checked by correspondence only; np.digitize modelled.",
    "DESIGN.md 7 C20")

CLAIMED["C04"] = (
    "Coq proof over an executable Q-model of normalize/transpose/mle-guard+post-iteration with a certified exact stationary solve; differential correspondence evaluated in Coq over builder x 10 containers x prior x eq_probs",
    "Theorems in coq/Props/C04.v (closed under the global context): row-normalisation is stochastic with T_ij*rowsum = C_ij, transpose satisfies detailed balance and stationarity, any symmetric non-negative X gives a reversible stochastic pair (mle post-iteration), prior counts are applied before estimation, rejection guards, and uniqueness of the stationary vector of an irreducible chain (so the eigen-solver output must match the model).",
    "partial for LAPACK/ARPACK eigenvectors (compared at 1e-9 with the exact unique vector), container kinds, aliasing and dense/sparse agreement (runtime oracle on every container); the mle iteration itself is C12.",
    "DESIGN.md 7 C04")
CLAIMED["C08"] = (
    "Coq proof over an executable Q-model of reactive_fluxes/net_fluxes (dense+sparse branch)/reactive_populations; flux algebra by induction on finite sums; differential correspondence evaluated in Coq",
    "Theorems in coq/Props/C08.v (closed under the global context): flux definition and zero diagonal, net flux is the positive part with at most one direction per pair, conservation at every intermediate state for reversible chains, nothing into sources / out of sinks, source outflow = sink inflow, reactive populations are a probability vector vanishing on sources and sinks.",
    "the forward committor is an input assumed to satisfy the committor equations (produced by core.committors, C07; checked per case exactly on the model's q and to 1e-9 on the code's doubles); NumPy/SciPy broadcasting and sparse ops executed not verified; populations clause applies when the normaliser is non-zero.",
    "DESIGN.md 7 C08")
CLAIMED["C11"] = (
    "Coq proof over an executable model of trim_disconnected/TrimMapping/MSM.fit (Warshall closure, component weight, arg-max, sub-matrix/zeroing, dict model); differential correspondence evaluated in Coq incl. exhaustive digraphs on <= 4 states in the thorough tier",
    "Theorems in coq/Props/C11.v (closed under the global context): closure = reflexive-transitive reachability, kept set is exactly one strongly connected component of maximal total original count, trimmed matrix strongly connected, counts preserved / removed rows and columns zero, mapping is an order-preserving bijection with to_mapped the inverse of to_original, renumbered and in-place variants describe the same model, container kept, MSM.fit reports the same mapping.",
    "scipy connected_components specified as mutual reachability (not verified; label order not modelled; on equal maximal weights any maximiser accepted); NumPy fancy indexing, sparse constructors and dict semantics modelled.",
    "DESIGN.md 7 C11")
CLAIMED["C17"] = (
    "Coq proof over an executable model of top_path/paths with both removal schemes over Q+-inf (invariants over the search loop incl. the full Dijkstra/widest-path invariant); exact differential correspondence evaluated in Coq; oracle by exhaustive simple-path enumeration",
    "Theorems in coq/Props/C17.v (closed under the global context): returned paths are simple source-to-sink paths over positive edges with flux = minimum edge, the top path is bottleneck-optimal over all walks, -inf only when no walk exists, error cases, termination of the model, paths = successive top paths of the residuals, num_paths respected, fluxes antitone for both schemes, subtract: sum <= source outflow; bottleneck: sum <= outflow refuted by two witnesses (known findings reproduced on the code).",
    "'conserved flow reaches the requested fraction' and 'input unchanged' rest on the oracle / array comparison only; NumPy primitives modelled; weights are small integers or halves so float subtraction is exact; explained-fraction cut-off compared only when |sum-cutoff| > 1e-12.",
    "DESIGN.md 7 C17")
CLAIMED["C18"] = (
    "Coq proof: exact joint counts, rejection, pooling, relabelling, frame order, schedule independence over nat/Z/Q; MI/KL laws (Gibbs inequality) over Reals; differential correspondence evaluated in Coq over 8 integer dtypes, layouts, 1..16 threads",
    "Theorems in coq/Props/C18.v: counts are exact under any schedule of the increments, invalid ids / unequal lengths are rejected and nothing else, pooled counts = counts of the concatenation, relabelling and frame reordering permute / preserve the table, channel-capacity divisor grid entry (i,j) = min(n_x[i], n_y[j]), weighted tables under uniform weights = counts/T (closed under the global context); MI >= 0, symmetric, = entropy on the diagonal, <= each marginal entropy, relabelling-invariant, KL >= 0 and zero iff equal (over R).",
    "theorems over R depend on the standard library's ClassicalDedekindReals.sig_forall_dec, sig_not_dec, FunctionalExtensionality.functional_extensionality_dep, Classical_Prop.classic; MI laws are about exact real arithmetic on rectangular count tables, the implementation's doubles are compared at 1e-9 through a double evaluation of the formula (trusted glue); shape lemma for the kernel result and real-valued weighted=plain equality open; dtype/layout/OpenMP covered by correspondence only.",
    "DESIGN.md 7 C18")

_CL_NOTE = ("the model receives the implementation's own distance matrix (exact rationals) and recorded k-medoids proposals; the theorems' "
            "hypotheses on that matrix (zero diagonal, positive off-diagonal) are evaluated in Coq per case (valid_matrix, proved sound); "
            "NumPy argmax/masking/unique and the metric kernels are modelled not verified (kernels: C13); md.rmsd/Trajectory inputs not exercised.")
CLAIMED["C01"] = (
    "Coq proof by invariant over k-centers / nearest-centre / PAM state machines (unbounded n, k, sweeps) + differential correspondence evaluated in Coq on the implementation's distance matrix and recorded random proposals",
    "Theorems in coq/Props/C01.v (closed under the global context): the consistency invariant (centres distinct frames, labels in range, distance = metric distance to the assigned centre, no centre strictly closer, centre frames carry their own label at distance 0) holds after k-centers (cold/warm, count and/or radius, with the triangle shortcut), after nearest-centre assignment, after every accepted or rejected PAM proposal (any proposal frame), hence after any k-medoids / k-hybrid run.",
    _CL_NOTE + " 'inputs not modified' and estimator attribute plumbing are runtime checks.",
    "DESIGN.md 7 C01")
CLAIMED["C02"] = (
    "Coq proof over the k-centers loop (guarded-steps relation, fuel bound, radius monotonicity, shortcut equivalence under the triangle inequality, Gonzalez pigeonhole argument) + differential correspondence evaluated in Coq",
    "Theorems in coq/Props/C02.v (closed under the global context): first centre is frame 0 / supplied centres kept, every iteration appends a frame of currently largest distance (first maximum), the radius never grows, the loop stops exactly when the guard fails and n+1 iterations suffice, the shortcut run equals the plain run for symmetric metrics with the triangle inequality, final radius <= 2 x radius of any set of at most k centres for cold start or one initial centre; refuted for >= 2 initial centres (known finding F1).",
    _CL_NOTE + " The while-guard is modelled by hand (kc_guard) and tied by correspondence with cutoffs placed at, just below and just above attained radii.",
    "DESIGN.md 7 C02")
CLAIMED["C09"] = (
    "Coq proof (PAM accept rule, fold induction over proposals and sweeps) + differential correspondence evaluated in Coq with recorded proposals; per-sweep cost followed on the real code",
    "Theorems in coq/Props/C09.v (closed under the global context): a proposal is accepted iff it strictly lowers the cost and otherwise leaves the whole state untouched; any number of sweeps with any proposals from any consistent state never raises the cost, keeps k and keeps every centre a frame of the data; k-hybrid cost <= k-centers cost; a proposal that already is a medoid cannot be accepted.",
    _CL_NOTE + " Reproducibility with a fixed seed reduces to 'the code draws the same proposals', which is observed (two runs) not proved; integer-valued metrics only so the float cost is exact.",
    "DESIGN.md 7 C09")
CLAIMED["C07"] = (
    "Coq proof over Q about any solution of the code-shaped linear systems (certificate-checked exact solver), discrete maximum principle, Kemeny-Snell identity, uniqueness of first-step solutions; differential correspondence evaluated in Coq on five containers",
    "Theorems in coq/Props/C07.v (closed under the global context): committors are 0 on sources, 1 on sinks, lie in [0,1] and satisfy q_i = sum_j T_ij q_j elsewhere; mean first-passage times are 0 on sinks and t_i = lag + sum_j T_ij t_j elsewhere, linear in the lag; every column of the all-pairs table satisfies the single-sink first-step equations and equals the single-sink computation (uniqueness).",
    "spsolve / np.linalg.solve / inv / eq_probs are modelled by an exact Gauss-Jordan whose output is re-checked per case and compared with the doubles at 1e-9; existence of a solution for ergodic input, dense/sparse agreement and 'inputs not modified' rest on the correspondence runs.",
    "DESIGN.md 7 C07")
CLAIMED["C10"] = (
    "Coq proof over a model regenerated from source (translator for partition_indices / partition_list) plus hand models of nearest-centre sweep, find_cluster_centers, compute_batches; differential correspondence evaluated in Coq; batch_reassign checked on the real code against per-frame RMSD",
    "Theorems in coq/Props/C10.v (closed under the global context): the nearest-centre sweep returns the minimal distance and the first centre attaining it for any non-empty centre list; partition_list preserves every value and order and concatenates back (rejects wrong totals); partition_indices maps every flat index to the unique (trajectory, frame) pair addressing the same frame, and back; the per-label centre finder returns a member of smallest distance; batches are consecutive so batch reassignment keeps trajectory order.",
    "translator/tr_partition.py + py2coq.py; loop skeletons Base/PartitionBase.v checked by correspondence; NumPy masking/argmin/unique and RaggedArray construction modelled; mdtraj loading and md.rmsd trusted (batch_reassign: oracle only).",
    "DESIGN.md 7 C10")
CLAIMED["C06"] = (
    "Coq proof (coherence invariant + refinement over operation histories) of a two-representation model of RaggedArray; differential execution of the model against /repo on generated operation sequences, all three slots compared after every operation (evaluated in Coq)",
    "Theorems in coq/Props/C06.v (closed under the global context): both constructors establish and every writer / every history keeps the three-slot coherence invariant (rows = partition data lens); any history refines the same history on a plain list of rows, error for error; a rejected write changes nothing; every observation is a function of the model rows; scalar and binary operators act element-wise and keep the row structure; cell writes keep lengths and leave unselected cells alone.",
    "aliasing clauses (copy never aliases, operators return new objects, operands unaltered) are heap facts checked at run time only (partial); NumPy fancy assignment/broadcasting modelled not verified; inputs not generated (not claimed): RaggedArray assigned to a single integer row, length-1 column list broadcast, augmented assignment on an empty selection, operands of different total size, step 0, empty rows.",
    "DESIGN.md 7 C06")
CLAIMED["C05"] = (
    "Coq refinement proof of an executable model of the RaggedArray read path (flat-offset arithmetic vs list-of-rows semantics, Python slice semantics from Base/PySlice.v); differential correspondence evaluated in Coq, exhaustive small scope in the thorough tier",
    "Theorems in coq/Props/C05.v (closed under the global context): for every ragged array (any number of rows, any lengths) and every index form of the supported grammar - row, row slice, row list, (row, col), paired fancy indices, 2-D slice x slice / list x slice / slice x int / slice x list with positive or negative bounds and steps, row x slice, boolean ragged mask - and for lengths/starts/shape/size/len/iteration/flatten, the code's flat-offset arithmetic returns exactly the list-of-rows result, error for error; an out-of-row element access always raises; both constructors agree.",
    "hand model tied to enspara/ra/ra.py by correspondence (84 length vectors with <= 3 rows of length 1..4, all row indices / (row, col) pairs in -5..5, all row slices and a[:, s:e:k] with bounds in {None, -5..5} and steps {None, +-1, +-2, +-3}, 237000 reads in the thorough tier); NumPy basic/fancy indexing, cumsum, where modelled not verified; _slice_to_list not machine-translated; dtype checked by the oracle only.",
    "DESIGN.md 7 C05")
