CLAIMED["C03"] = (
    "Coq proof over a model regenerated from source (translator) + differential correspondence evaluated in Coq",
    "Theorems in coq/Props/C03.v about the pair-extraction slices translated from _transitions_helper on every run and the hand model of assigns_to_counts; the model is run against the real assigns_to_counts on generated trajectory sets (ragged, padded, reordered, split).",
    "translator/tr_counts.py; modelled not verified: coo_matrix duplicate summation and the -1 mask.",
    "DESIGN.md 7 C03")

CLAIMED["C20"] = (
    "Coq proof over a model regenerated from source (translator) + differential correspondence evaluated in Coq",
    "Theorems in coq/Props/C20.v: the translated is_buffered_transition equals 'angle left the widened basin' for the library's three boundary sets, every state, every accepted buffer width and every off-gate angle (finite case split closed by lra), the translated _rotamers run equals the specification automaton by induction over the angle history, zero buffer is binning, states are valid; transition bookkeeping characterised exactly. The generated model is run against the real _rotamers / disorder.transitions.",
    "translator/tr_rotamer.py, py2coq.py; loop skeleton Base/RotamerBase.v checked by correspondence only; np.digitize modelled.",
    "DESIGN.md 7 C20")

CLAIMED["C04"] = (
    "Coq proof over an executable Q-model of normalize/transpose/mle-guard+post-iteration with a certified exact stationary solve; differential correspondence evaluated in Coq over builder x 10 containers x prior x eq_probs",
    "Theorems in coq/Props/C04.v (closed under the global context): row-normalisation is stochastic with T_ij*rowsum = C_ij, transpose satisfies detailed balance and stationarity, any symmetric non-negative X gives a reversible stochastic pair (mle post-iteration), prior counts are applied before estimation, rejection guards, and uniqueness of the stationary vector of an irreducible chain (so the eigen-solver output must match the model).",
    "partial for LAPACK/ARPACK eigenvectors (compared at 1e-9 with the exact unique vector), container kinds, aliasing and dense/sparse agreement (runtime oracle on every container); the mle iteration itself is C12.",
    "DESIGN.md 7 C04")
CLAIMED["C08"] = (
    "Coq proof over an executable Q-model of reactive_fluxes/net_fluxes (dense+sparse branch)/reactive_populations; flux algebra by induction on finite sums; differential correspondence evaluated in Coq",
    "Theorems in coq/Props/C08.v (closed under the global context): flux definition and zero diagonal, net flux is the positive part with at most one direction per pair, conservation at every intermediate state for reversible chains, nothing into sources / out of sinks, source outflow = sink inflow, reactive populations are a probability vector vanishing on sources and sinks.",
    "the forward committor is an input assumed to satisfy the committor equations (produced by core.committors, C07; checked per case exactly on the model's q and to 1e-9 on the code's doubles); NumPy/SciPy broadcasting and sparse ops executed not verified; populations clause applies when the normaliser is non-zero.",
    "DESIGN.md 7 C08")
CLAIMED["C11"] = (
    "Coq proof over an executable model of trim_disconnected/TrimMapping/MSM.fit (Warshall closure, component weight, arg-max, sub-matrix/zeroing, dict model); differential correspondence evaluated in Coq incl. exhaustive digraphs on <= 4 states in the thorough tier",
    "Theorems in coq/Props/C11.v (closed under the global context): closure = reflexive-transitive reachability, kept set is exactly one strongly connected component of maximal total original count, trimmed matrix strongly connected, counts preserved / removed rows and columns zero, mapping is an order-preserving bijection with to_mapped the inverse of to_original, renumbered and in-place variants describe the same model, container kept, MSM.fit reports the same mapping.",
    "scipy connected_components specified as mutual reachability (not verified; label order not modelled; on equal maximal weights any maximiser accepted); NumPy fancy indexing, sparse constructors and dict semantics modelled.",
    "DESIGN.md 7 C11")
CLAIMED["C17"] = (
    "Coq proof over an executable model of top_path/paths with both removal schemes over Q+-inf (invariants over the search loop incl. the full Dijkstra/widest-path invariant); exact differential correspondence evaluated in Coq; oracle by exhaustive simple-path enumeration",
    "Theorems in coq/Props/C17.v (closed under the global context): returned paths are simple source-to-sink paths over positive edges with flux = minimum edge, the top path is bottleneck-optimal over all walks, -inf only when no walk exists, error cases, termination of the model, paths = successive top paths of the residuals, num_paths respected, fluxes antitone for both schemes, subtract: sum <= source outflow; bottleneck: sum <= outflow refuted by two witnesses (known findings reproduced on the code).",
    "'conserved flow reaches the requested fraction' and 'input unchanged' rest on the oracle / array comparison only; NumPy primitives modelled; weights are small integers or halves so float subtraction is exact; explained-fraction cut-off compared only when |sum-cutoff| > 1e-12.",
    "DESIGN.md 7 C17")
CLAIMED["C18"] = (
    "Coq proof: exact joint counts, rejection, pooling, relabelling, frame order, schedule independence over nat/Z/Q; MI/KL laws (Gibbs inequality) over Reals; differential correspondence evaluated in Coq over 8 integer dtypes, layouts, 1..16 threads",
    "Theorems in coq/Props/C18.v: counts are exact under any schedule of the increments, invalid ids / unequal lengths are rejected and nothing else, pooled counts = counts of the concatenation, relabelling and frame reordering permute / preserve the table, channel-capacity divisor grid entry (i,j) = min(n_x[i], n_y[j]), weighted tables under uniform weights = counts/T (closed under the global context); MI >= 0, symmetric, = entropy on the diagonal, <= each marginal entropy, relabelling-invariant, KL >= 0 and zero iff equal (over R).",
    "theorems over R depend on the standard library's ClassicalDedekindReals.sig_forall_dec, sig_not_dec, FunctionalExtensionality.functional_extensionality_dep, Classical_Prop.classic; MI laws are about exact real arithmetic on rectangular count tables, the implementation's doubles are compared at 1e-9 through a double evaluation of the formula (trusted glue); shape lemma for the kernel result and real-valued weighted=plain equality open; dtype/layout/OpenMP covered by correspondence only.",
    "DESIGN.md 7 C18")

_CL_NOTE = ("the model receives the implementation's own distance matrix (exact rationals) and recorded k-medoids proposals; the theorems' "
            "hypotheses on that matrix (zero diagonal, positive off-diagonal) are evaluated in Coq per case (valid_matrix, proved sound); "
            "NumPy argmax/masking/unique and the metric kernels are modelled not verified (kernels: C13); md.Trajectory inputs are exercised with a table metric keyed on frame coordinates (md.rmsd itself is mdtraj's and is trusted).")
CLAIMED["C01"] = (
    "Coq proof by invariant over k-centers / nearest-centre / PAM state machines (unbounded n, k, sweeps) + differential correspondence evaluated in Coq on the implementation's distance matrix and recorded random proposals",
    "Theorems in coq/Props/C01.v (closed under the global context): the consistency invariant (centres distinct frames, labels in range, distance = metric distance to the assigned centre, no centre strictly closer, centre frames carry their own label at distance 0) holds after k-centers (cold/warm, count and/or radius, with the triangle shortcut), after nearest-centre assignment, after every accepted or rejected PAM proposal (any proposal frame), hence after any k-medoids / k-hybrid run.",
    _CL_NOTE + " 'inputs not modified' and estimator attribute plumbing are runtime checks.",
    "DESIGN.md 7 C01")
CLAIMED["C02"] = (
    "Coq proof over the k-centers loop (guarded-steps relation, fuel bound, radius monotonicity, shortcut equivalence under the triangle inequality, Gonzalez pigeonhole argument) + differential correspondence evaluated in Coq",
    "Theorems in coq/Props/C02.v (closed under the global context): first centre is frame 0 / supplied centres kept, every iteration appends a frame of currently largest distance (first maximum), the radius never grows, the loop stops exactly when the guard fails and n+1 iterations suffice, the shortcut run equals the plain run for symmetric metrics with the triangle inequality, final radius <= 2 x radius of any set of at most k centres for cold start or one initial centre; refuted for >= 2 initial centres (known finding F1).",
    _CL_NOTE + " The while-guard is modelled by hand (kc_guard) and tied by correspondence with cutoffs placed at, just below and just above attained radii.",
    "DESIGN.md 7 C02")
CLAIMED["C09"] = (
    "Coq proof (PAM accept rule, fold induction over proposals and sweeps) + differential correspondence evaluated in Coq with recorded proposals; per-sweep cost followed on the real code",
    "Theorems in coq/Props/C09.v (closed under the global context): a proposal is accepted iff it strictly lowers the cost and otherwise leaves the whole state untouched; any number of sweeps with any proposals from any consistent state never raises the cost, keeps k and keeps every centre a frame of the data; k-hybrid cost <= k-centers cost; a proposal that already is a medoid cannot be accepted.",
    _CL_NOTE + " Reproducibility with a fixed seed reduces to 'the code draws the same proposals', which is observed (two runs) not proved; integer-valued metrics only so the float cost is exact.",
    "DESIGN.md 7 C09")
CLAIMED["C07"] = (
    "Coq proof over Q about any solution of the code-shaped linear systems (certificate-checked exact solver), discrete maximum principle, Kemeny-Snell identity, uniqueness of first-step solutions; differential correspondence evaluated in Coq on five containers",
    "Theorems in coq/Props/C07.v (closed under the global context): committors are 0 on sources, 1 on sinks, lie in [0,1] and satisfy q_i = sum_j T_ij q_j elsewhere; mean first-passage times are 0 on sinks and t_i = lag + sum_j T_ij t_j elsewhere, linear in the lag; every column of the all-pairs table satisfies the single-sink first-step equations and equals the single-sink computation (uniqueness).",
    "spsolve / np.linalg.solve / inv / eq_probs are modelled by an exact Gauss-Jordan whose output is re-checked per case and compared with the doubles at 1e-9; existence of a solution for ergodic input, dense/sparse agreement and 'inputs not modified' rest on the correspondence runs.",
    "DESIGN.md 7 C07")
CLAIMED["C10"] = (
    "Coq proof over a model regenerated from source (translator for partition_indices / partition_list) plus hand models of nearest-centre sweep, find_cluster_centers, compute_batches; differential correspondence evaluated in Coq; batch_reassign checked on the real code against per-frame RMSD",
    "Theorems in coq/Props/C10.v (closed under the global context): the nearest-centre sweep returns the minimal distance and the first centre attaining it for any non-empty centre list; partition_list preserves every value and order and concatenates back (rejects wrong totals); partition_indices maps every flat index to the unique (trajectory, frame) pair addressing the same frame, and back; the per-label centre finder returns a member of smallest distance; batches are consecutive so batch reassignment keeps trajectory order.",
    "translator/tr_partition.py + py2coq.py; loop skeletons Base/PartitionBase.v checked by correspondence; NumPy masking/argmin/unique and RaggedArray construction modelled; mdtraj loading and md.rmsd trusted (batch_reassign: oracle only).",
    "DESIGN.md 7 C10")
CLAIMED["C06"] = (
    "Coq proof (coherence invariant + refinement over operation histories) of a two-representation model of RaggedArray; differential execution of the model against /repo on generated operation sequences, all three slots compared after every operation (evaluated in Coq)",
    "Theorems in coq/Props/C06.v (closed under the global context): both constructors establish and every writer / every history keeps the three-slot coherence invariant (rows = partition data lens); any history refines the same history on a plain list of rows, error for error; a rejected write changes nothing; every observation is a function of the model rows; scalar and binary operators act element-wise and keep the row structure; cell writes keep lengths and leave unselected cells alone.",
    "aliasing clauses (copy never aliases, operators return new objects, operands unaltered) are heap facts checked at run time only (partial); NumPy fancy assignment/broadcasting modelled not verified; inputs not generated (not claimed): RaggedArray assigned to a single integer row, length-1 column list broadcast, augmented assignment on an empty selection, operands of different total size, step 0, empty rows.",
    "DESIGN.md 7 C06")
CLAIMED["C05"] = (
    "Coq refinement proof of an executable model of the RaggedArray read path (flat-offset arithmetic vs list-of-rows semantics, Python slice semantics from Base/PySlice.v); differential correspondence evaluated in Coq, exhaustive small scope in the thorough tier",
    "Theorems in coq/Props/C05.v (closed under the global context): for every ragged array (any number of rows, any lengths) and every index form of the supported grammar - row, row slice, row list, (row, col), paired fancy indices, 2-D slice x slice / list x slice / slice x int / slice x list with positive or negative bounds and steps, row x slice, boolean ragged mask - and for lengths/starts/shape/size/len/iteration/flatten, the code's flat-offset arithmetic returns exactly the list-of-rows result, error for error; an out-of-row element access always raises; both constructors agree.",
    "hand model tied to enspara/ra/ra.py by correspondence (84 length vectors with <= 3 rows of length 1..4, all row indices / (row, col) pairs in -5..5, all row slices and a[:, s:e:k] with bounds in {None, -5..5} and steps {None, +-1, +-2, +-3}, 237000 reads in the thorough tier); NumPy basic/fancy indexing, cumsum, where modelled not verified; _slice_to_list not machine-translated; dtype checked by the oracle only.",
    "DESIGN.md 7 C05")
CLAIMED["C13"] = (
    "Coq proof: translator for the validation code of libdist.pyx + hand model of strided views, loop phases and double arithmetic; generic parallel-for library (any permutation, chunking and interleaving of iterations); differential correspondence evaluated in Coq over dtype x layout x thread count",
    "Theorems in coq/Props/C13.v (closed under the global context): an accepted call returns per row the sum of squares / sum of absolute differences / number of differing coordinates whatever the view (C, Fortran, strided, negative stride) and with or without an out buffer, which then holds the result whatever it contained; the modelled loops give the same array under any iteration order, chunking and interleaving of per-cell read-modify-write streams; exactness of double arithmetic under stated magnitude bounds (pre-fix integer arithmetic refuted); exact characterisation of what the translated validation accepts, and every index touched after acceptance is in bounds.",
    "partial: actual data races / out-of-bounds accesses in compiled code, the OpenMP runtime and Cython buffer access are runtime facts covered only by the thread and layout sweep (1..16 threads, one subprocess per thread count); sqrt and /n_features checked per case by rational inequalities; outside the exact range only 1e-12 relative agreement is checked; translator/tr_dist.py trusted.",
    "DESIGN.md 7 C13")
CLAIMED["C15"] = (
    "Coq proof over an executable model of ra.save/ra.load (zero-padded keys, sorted listing, strides, key subsets), sound_trajectory / load_as_concatenated under an explicit schedule, and the striped loaders; differential correspondence evaluated in Coq against real PyTables / npy / mdtraj round trips",
    "Theorems in coq/Props/C15.v (closed under the global context): zero-padded keys order like numbers for every row count, so save-then-load returns rows, order, lengths, dtype and element shape; |r[::s]| = ceil(|r|/s) and load with a stride or a key subset equals slicing the full load; file windows are disjoint and cover the buffer, so any completion order / interleaving of worker writes gives the in-order concatenation; load_as_concatenated returns lengths and concatenation under any schedule; striped loaders per rank.",
    "partial: PyTables/HDF5 byte fidelity and name-sorted listing, multiprocessing (fork-shared array, pool dispatch, a worker writes exactly its window) and mdtraj (length sounding, stride/atom/frame selection) are trusted runtime; NumPy slicing and .npy I/O modelled; MPI executed at world size 1 only; assumes stride >= 1, non-empty rows, correct lengths hint.",
    "DESIGN.md 7 C15")
CLAIMED["C19"] = (
    "Coq proof of the masked-ufunc discipline for every `where=` call site in the tree (translator/sites.py regenerates Gen/MaskedSites.v on every run; an unguarded site fails the build and is named) + perturbed-condition differential runs of the numerical API (repeat, heap poisoning, 1 vs 8 threads, young vs old process)",
    "Theorems in coq/Props/C19.v (closed under the global context): exact characterisation of when a masked element-wise call depends on uninitialised memory (independent of the initial buffer iff every position is masked-in), heap-independence of every masked call site of the current tree, the unguarded form refuted, no-NaN theorems for the repaired shannon_entropy and mutual_information.",
    "partial: the allocator, np.empty-style allocations, kernel zeroing of out, OpenMP scheduling, process pools and argument immutability are not provable in Coq and are checked only by the differential runs (bit-identical outputs across conditions, argument digests unchanged) over 29 routines; translator gaps: where= passed through **kwargs / functools.partial is not seen; translator/sites.py and its name tables trusted.",
    "DESIGN.md 7 C19")
CLAIMED["C12"] = (
    "Coq proof over update formulas regenerated from BOTH implementations (translator/tr_prinz.py: builders._prinz_mle_py and libmsm.pyx), loop invariants over the sweep skeleton, certificate correspondence evaluated in Coq on the estimator's converged output",
    "Theorems in coq/Props/C12.v: the two implementations' coordinate updates are the same functions (closed); the off-diagonal update is a non-negative root of its quadratic and the unique positive stationary point of the coordinate log-likelihood, likewise the diagonal update; row-sum tracking, symmetry and non-negativity are invariants of any number of sweeps from X = C + C^T; the guarded c is <= 0 in exact arithmetic; a state fixed under every coordinate update satisfies the Prinz self-consistency equations; the returned T, pi are stochastic and in detailed balance; soundness of the executable certificate (closed).",
    "partial: convergence, global optimality over all reversible matrices, IEEE rounding and the stopping rule on the pseudo log-likelihood are NOT proved - observed per input (self-consistency residual <= 1e-6, stochasticity / detailed balance 1e-9, py vs pyx 1e-6, likelihood >= transpose estimate and sampled reversible competitors); theorems over R depend on ClassicalDedekindReals.sig_forall_dec, sig_not_dec, FunctionalExtensionality.functional_extensionality_dep and (derivative statements) Classical_Prop.classic; translator/tr_prinz.py trusted.",
    "DESIGN.md 7 C12")
CLAIMED["C14"] = (
    "Coq proof over an executable bulk-synchronous model (striping, index maps, assembly, distributed k-centers / PAM step as refinements of the serial model Model/Cluster.v, reductions) + differential execution of the real code under a thread-simulated mpi4py for world sizes 1..6",
    "Theorems in coq/Props/C14.v (closed under the global context), for every world size P >= 1 and every length vector: stripes partition the keys / data; assembly of the local pieces returns the global array; local<->global index maps are mutually inverse and in range; the broadcast random draw is a bijection onto valid (owner, local) pairs; allreduce-MAX of local maxima = serial maximum; striped mean exact; distributed k-centers followed by reassembly equals the serial run (centres as global indices, labels, distances, stopping point) for tie-free data; one distributed PAM step equals the serial PAM step.",
    "partial: no MPI runtime exists in the sandbox - collectives are modelled as functions of the vector of per-rank contributions (trusted), deadlocks and Bcast buffer typing cannot be exhibited; the real code runs under harness/mpisim.py (threads as ranks); hypotheses: tie-free data for equality with the serial run, P <= number of trajectories, non-empty trajectories; MPI warm starts and load_trajectory_as_striped not modelled.",
    "DESIGN.md 7 C14")
CLAIMED["C16"] = (
    "Coq proof over a configuration dataflow regenerated from source (translator/tr_msm.py: MSM.__init__, fit, config, load, calc_imp_times call bindings) composed with the models of C03/C11/C04; spectrum post-processing, timescales (over R) and propagation proved; differential correspondence evaluated in Coq",
    "Theorems in coq/Props/C16.v: each constructor argument is stored under its own name and reaches the call that consumes it; fit equals the function pipeline (counts -> optional trim -> builder) for all inputs and configurations, errors included; mapping clauses; config round trip and identical refit after load; eigen post-processing returns real parts in descending order, leading value 1, first vector normalised and stationary given left eigenpairs; implied timescale = -lag/ln(lambda), positive and monotone for 0 < lambda < 1 (over R); n propagation steps = p T^n.",
    "partial: LAPACK/ARPACK eigenpairs are a hypothesis of the spectral theorems (residual-checked per case at 1e-9); Matrix-Market / savetxt / csv / pickle byte fidelity checked by executing the round trip only; the Prinz iteration is C12; theorems over R depend on the standard real-number axioms (sig_forall_dec, sig_not_dec, functional_extensionality_dep, classic); translator/tr_msm.py trusted.",
    "DESIGN.md 7 C16")

# ---- round 2 updates (override)
CLAIMED["C05"] = (
    "Coq refinement proof of the RaggedArray read path with the scalar index logic regenerated from source (translator/tr_ragged.py: _slice_to_list, _handle_negative_indices, _convert_from_2d, _convert_from_1d, starts) and proved equal to the model; differential correspondence evaluated in Coq on both the hand model and the generated definitions, exhaustive small scope in the thorough tier",
    CLAIMED["C05"][1] + " Round 2: the generated read path get_g equals the model get_c and hence the list-of-rows semantics; the pre-fix negative-start arithmetic is refuted (D3).",
    "scalar index logic regenerated from ra.py and proved equal to the model; statement shapes of the NumPy-vectorised code and the __getitem__ dispatch are pinned as exact text or checked by correspondence (237000 reads in the thorough tier); NumPy basic/fancy indexing, cumsum, where modelled not verified; dtype checked by the oracle only.",
    "DESIGN.md 7 C05")
CLAIMED["C12"] = (CLAIMED["C12"][0] + "; stopping rule (pseudo log-likelihood test and iteration cap) translated and the sweep count compared with the real functions",
    CLAIMED["C12"][1] + " Round 2: a sweep that changes nothing implies the Prinz equations for every strongly connected C (incl. the a = 0 two-state case); each update is the strict coordinate-wise maximum; at a fixed point all symmetric partial derivatives of the full log-likelihood vanish and every single-coordinate change strictly lowers it; global maximum for n = 2; stopping-rule and cap semantics.",
    CLAIMED["C12"][2].replace("partial: convergence, global optimality over all reversible matrices", "partial: convergence, global optimality for n >= 3"),
    "DESIGN.md 7 C12")
CLAIMED["C14"] = (CLAIMED["C14"][0] + "; several arrival-order schedules per case",
    CLAIMED["C14"][1] + " Round 2: the state assembled after any number of distributed PAM steps / sweeps satisfies C01's invariant, keeps k and never raises the cost (ties allowed); distributed k-centers (cold and warm start) assembles to the serial result which satisfies the invariant, for tie-free data.",
    CLAIMED["C14"][2].replace("MPI warm starts and load_trajectory_as_striped not modelled", "load_trajectory_as_striped not modelled; the warm start assumes non-empty distinct initial frames"),
    "DESIGN.md 7 C14")
CLAIMED["C18"] = (CLAIMED["C18"][0] + "; the counting kernel's validation, allocation, loop nest and index expression regenerated from libinfo.pyx (translator/tr_info.py) and proved equal to the model",
    CLAIMED["C18"][1] + " Round 2: table shape and marginals of the kernel result; end-to-end on the data: MI symmetric for a data set against itself, diagonal = empirical entropy, bounds, frame-order and relabelling invariance, pooled = concatenation; weighted = plain MI under uniform weights (real values).",
    CLAIMED["C18"][2].replace("shape lemma for the kernel result and real-valued weighted=plain equality open; ", "frame-order / relabel laws for the default state count not proved; "),
    "DESIGN.md 7 C18")

# ---- round 2, second wave (translators tying hand models to the source)
def _r2(pid, tech_add, text_add, note_add):
    t = CLAIMED[pid]
    CLAIMED[pid] = (t[0] + "; " + tech_add, t[1] + " Round 2: " + text_add, t[2] + " " + note_add, t[3])
_r2("C04", "builder dataflow regenerated from builders.py (translator/tr_builders.py) and proved equal to the model",
    "prior added before estimation, C + C^T symmetrisation and halving, which matrix populations come from, zero-row guard and axis of the row sums, no in-place writes into the caller's buffers, eq_probs on T with its ARPACK guard - as regenerated from the source - equal Model/Builders.v for every container kind.",
    "translator/tr_builders.py and the array vocabulary coq/Base/BuildersBase.v (scipy container-kind rules) trusted.")
_r2("C06", "write-path structure regenerated from ra.py (translator/tr_ragged_ops.py: __setitem__ dispatch per index form, append, constructor per input class, operators, __slots__, starts/size) and proved to refine the model step by step",
    "every regenerated __setitem__ branch ends with both representations current; generated flat-offset arithmetic equals the model's; append resets every slot; constructor copies by default; operators return new objects.",
    "the meaning of each recognised statement (effect alphabet in coq/Base/RaOpsBase.v) is trusted.")
_r2("C07", "system-building statements regenerated from core.py (translator/tr_tpt.py) and proved equal to the model; Gauss-Jordan proved sound and total on matrices with trivial kernel",
    "row and column masking, right-hand side and its order of writes, sink-column sum, final pin, cost vector, lag scaling, fundamental-matrix formula as regenerated equal Model/TPT.v; existence: for ergodic input the code's systems have a solution and the stationary vector exists, is unique and positive (end-to-end theorems).",
    "translator/tr_tpt.py and coq/Base/TptBase.v trusted.")
_r2("C08", "flux expressions regenerated from tpt.py (translator/tr_flux.py, shape-typed) and proved equal to the model",
    "broadcast orientation, q- = 1 - q+, diagonal reset, f - f^T orientation, positive part in both branches, density product and normalisation as regenerated equal Model/Flux.v.",
    "shape typing of NumPy/scipy broadcasting in translator/tr_flux.py trusted.")
_r2("C11", "trim_disconnected, TrimMapping and MSM.fit's trimming step regenerated from source (translator/tr_trim.py) and proved equal to the model for all inputs incl. sparse containers with duplicated stored entries",
    "the generated trim equals the model on every input (threshold applies to counts, never to stored entries); generated TrimMapping and fit equal the model.",
    "NumPy/SciPy words of coq/Base/TrimBase.v are trusted readings.")
_r2("C17", "scalar logic of path.py regenerated (translator/tr_path.py) and proved equal to the model; conserved-flow fraction theorem",
    "on acyclic conserved non-negative flows (sources listed once, disjoint from sinks) the subtract scheme with no path limit and cutoff <= 1 returns fluxes summing to at least cutoff x source outflow (c17_conserved_reaches_fraction); generated tests, reductions, constants and stopping rules equal the model's.",
    "the fraction theorem is over exact rationals (doubles checked by the oracle at 1e-9 x total); loop skeleton coq/Base/PathBase.v tied by correspondence.")
CLAIMED["C17"] = (CLAIMED["C17"][0], CLAIMED["C17"][1], CLAIMED["C17"][2].replace("'conserved flow reaches the requested fraction' and 'input unchanged' rest on the oracle / array comparison only", "'input unchanged' rests on the array comparison and the translator's copy-first rule"), CLAIMED["C17"][3])
_r2("C13", "the three kernels' loop nests and statements, fused types, wrappers and _get_distance_method regenerated (translator/tr_distkern.py) and proved equal to the PFor loop model",
    "every statement of every generated prange iteration stays on its own cell, so the generated kernels give the specification value under any schedule and interleaving; metric names map to the right kernels.",
    "out[k] op= e is treated as one atomic read-modify-write; translator/tr_distkern.py trusted.")
_r2("C15", "load-bearing scalar expressions, slices and loop bodies regenerated from ra.py / util/load.py / mpi/io.py (translator/tr_store.py) and proved equal to the model",
    "the node-name expression as written keeps keys sorted for every row count; generated lengths = ceil; generated prefix-sum offsets and worker windows are disjoint and cover the buffer; lengths are collected in file order; rank stripes hold item i at rank i mod size.",
    "exact-rational reading of math.ceil(n/stride) (n < 2^53); translator/tr_store.py and coq/Base/StoreBase.v skeletons trusted.")
_r2("C10", "per-label centre finder, compute_batches join-or-open test and the partition all-equal test regenerated from util.py (translator/tr_cluster.py) and proved equal to the model",
    "generated tests plugged into code-shaped skeletons equal argmin_label / cb_loop / square.",
    "")
_r2("C19", "second whole-tree scan: every uninitialising allocation (np.empty, empty_like, ndarray(shape), ...) must be completely written before it is read (per-site Coq obligation in Gen/AllocSites.v) and result caches keyed on identity / paths are rejected by name; in-place-overwrite and file-rewrite history probes",
    "write-before-read characterised exactly (heap-independent iff every cell is stored to), covering lemmas for the fill / full-assignment / enumerate-loop / cursor-loop patterns, every uninitialised allocation of the tree heap-independent; an identity-keyed cache is exactly what the overwrite probe detects.",
    "MPI receive-buffer semantics trusted; syntactic recognisers and allocator / cache-idiom lists of translator/sites.py trusted.")

# ---- round 3 (more of the code regenerated; monotone likelihood)
def _r3(pid, tech_add, text_add, note_add, note_replace=None):
    t = CLAIMED[pid]
    n = t[2]
    if note_replace:
        assert note_replace[0] in n, (pid, note_replace[0])
        n = n.replace(note_replace[0], note_replace[1])
    CLAIMED[pid] = (t[0] + "; " + tech_add, t[1] + " Round 3: " + text_add, (n + " " + note_add).strip(), t[3])
_r3("C20", "disorder.transitions (both branches and the `len(assignments.shape) == 1` test) regenerated from enspara/cards/disorder.py (translator/tr_disorder.py -> Gen/DisorderGen.v over Base/DisorderBase.v + PySlice.v) and proved equal to the specification for all inputs",
    "the generated 1-D and 2-D/ragged branches return (never raise) exactly the frames n with row[n] <> row[n+1], ascending, one output row per trajectory; correspondence compares the implementation with both the hand model and the generated definitions.",
    "NumPy/RaggedArray vocabulary of Base/DisorderBase.v (where, bincount minlength, RaggedArray(flat, lengths), Python slices) trusted; broadcasting of a length-1 operand in `-` treated as an error.")
_r3("C16", "translator/tr_spectrum.py regenerates eigenspectrum (n_eigs guard, dense/ARPACK decision, sort, slicing, normalisation), calc_imp_times' eigenspectrum call and formula, implied_timescales' loop, synthetic_ensemble and the MSM.save/load attribute-file table (Gen/MsmSpecGen.v, Gen/MsmAuxGen.v), each proved equal to the model (Proof/MsmSpecGenProofs.v, Proof/MsmAuxGenProofs.v)",
    "the spectral (sorted, permutation of the solver's pairs, first vector sums to one, stationary), timescale-formula (-lag/ln lambda_{k+1}, stationary eigenvalue dropped), ensemble (left multiplication, what is recorded) and save/load-table (each attribute written once and read back through the same manifest key with an exact writer) theorems are stated for the definitions regenerated from the source.",
    "synthetic_trajectory not modelled; NumPy vocabulary of Base/MsmSpecBase.v / MsmAuxBase.v and 'precision=p means p significant digits' trusted.")
_r3("C14", "translator/tr_mpi.py regenerates the index arithmetic and decision logic of enspara/mpi/ops.py, _kcenters_iteration_mpi, the mpi_mode branches of kcenters, ctr_ids_mpi, _msq, the MPI proposal and the PAM accept path (Gen/MpiGen.v over Base/MpiGenBase.v, slices via Base/PySlice.v); Proof/MpiGenProofs.v proves every generated definition equal to Model/Mpi.v (mean up to ==); the generated definitions are evaluated in every correspondence case",
    "x[r::P] is the model's stripe and x[r::P] = news its inverse; generated convert_local_indices / assemblers / max / mean / distribute_frame / randind / k-centers iteration, guard, loop / ctr_ids / proposal / PAM update equal the model; the serial-equivalence clause is restated on the generated definitions.",
    "glue statements (buffer allocation, dtype casts, asserts, logging, md.Trajectory wrapping) and _find_cluster_centers_mpi are pinned as text; the reading of NumPy/RaggedArray/mpi4py calls as the MpiGenBase vocabulary is trusted and exercised by the correspondence; distribute_frame / PAM step equalities assume non-empty local data on every rank.")
_r3("C12", "fold-invariant coordinate-ascent proof over the loop skeleton (Proof/PrinzMono.v); monotone-bounded convergence of the likelihood values (stdlib growing_cv); per-sweep likelihood followed on both real implementations",
    "every diagonal / pairwise update and every sweep of the generated code is monotone in the log-likelihood of T = X/rowsum and strictly increasing unless X is unchanged; equality exactly at fixed points, which for strongly connected counts satisfy the Prinz equations; the model returned under any stopping rule has likelihood >= the transpose estimate; the likelihood values along the iteration converge and per-sweep gains tend to 0.",
    "hypotheses of the monotonicity theorems: X has the support of C+C^T (the initial state has it) and every state receives a count (follows from strong connectivity; a witness shows it is needed - the real code yields a NaN row / AssertionError on a source state, which is outside the property).",
    note_replace=("partial: convergence, global optimality for n >= 3,", "partial: convergence of the matrices X_k, global optimality for n >= 3,"))
_r3("C18", "the Python layer regenerated too (translator/tr_infopy.py: joint_counts, mutual_information, _validate_feature_states_array, channel_capacity_normalization, mi_matrix, weighted_mi, shannon_entropy, kl_divergence 1-D/2-D -> Gen/MutualInfoGen.v, Gen/EntropyGen.v over Base/InfoPyBase.v), each proved equal to the model for all inputs; the correspondence also evaluates the regenerated joint_counts, pooling loop and divisor grid in Coq",
    "the whole information-theory layer of the anchors (Cython kernel and Python layer) is regenerated from /repo and tied to the model by all-input equalities, and the MI/KL laws are also stated on the generated text (89 theorems).",
    "trusted: the NumPy semantics written down in Base/InfoPyBase.v (axes/broadcast, masked ufuncs, promote_types/astype - exercised against NumPy by the jc stream over all 64 dtype pairs - and IEEE nan/inf rules); np.bincount's ValueError on negative ids and np.vstack's on ragged rows not modelled; mi_matrix_serial and the NMI/APC helpers not covered.")
_r3("C04", "eq_probs' ARPACK handling (stationarity guard and the ArpackNoConvergence handler, both falling back to the dense solver) regenerated as a `try_noconv` combinator and proved",
    "for sparse T the result is the dense solver's vector whenever ARPACK fails to converge or returns a non-stationary vector; for dense T nothing changes; other solver failures are raised (53 theorems).",
    "")
_r3("C02", "shortcut = plain also proved for initial centres that are not frames (Proof/ClusterVirt.v: supplied centres as virtual frames of the distance oracle)",
    "c02_shortcut_same_result_any_initial_centers: for any non-empty list of initial centres (non-frames, repeats) the shortcut run equals the plain run; labels and distances stay consistent with the supplied centres.",
    "the 2-approximation is not demanded for non-frame centres; an initial centre that attracts no frame is a known finding (empty-initial-centre).")
_r3("C05", "paired index lists are broadcast in the model and in the regenerated text (gen_c2_pairs = bpairs); streams over index dtypes, memory layout, mixed-dtype and object-dtype rows",
    "Pairs rs [c] = PairsScalar, Pairs [r] cs = ElemList, unequal non-broadcastable lengths raise (52 theorems).",
    "mixed-dtype and object-dtype streams are judged by the oracle only (typed values are outside the Z-valued Coq model).")


def _r4(pid, text_add):
    t = CLAIMED[pid]
    CLAIMED[pid] = (t[0], t[1] + " Session 5: " + text_add, t[2], t[3])
_r4("C09", "cost along the whole history from ANY supplied state (a run either returns the initial state unchanged or ends strictly cheaper; the cost after every prefix of the sweep list and after every proposal inside a sweep is a non-increasing chain; equal final cost means nothing was ever committed); one decision touches one medoid and keeps frame order; the set a random proposal is drawn from (pinned in the source by tr_cluster.py) is never empty and holds frame indices, so sweeps driven by any generator keep the guarantees; a proposal that already is a medoid is a no-op on the whole state (24 theorems).")
_r4("C10", "partition_list and partition_indices joined end to end (the pair reads in the pieces exactly the value the flat index read), the split is the unique one with those lengths, label/distance pieces have the same shape, batches respect the frame budget and only the first can be empty (18 theorems).")
_r4("C20", "the hysteresis automaton read frame by frame on the translated _rotamers; the reported transition frames are exactly where the state sequence may change (step function), are in range and bounded in number (20 theorems).")
_r4("C03", "closed forms with the sliding window off: floor((n-1)/lag) pairs per trajectory, the matrix total, lag 1 coincides with the sliding window, strided <= sliding (19 theorems).")
_r4("C01", "read off the invariant: no cluster is empty (label j is carried by centre j at distance 0), centres pairwise distinct, k <= n (15 theorems).")
