CLAIMED["C03"] = (
    "Coq proof over a model regenerated from source (translator) + differential correspondence evaluated in Coq",
    "Theorems in coq/Props/C03.v about the pair-extraction slices translated from _transitions_helper on every run and the hand model of assigns_to_counts; the model is run against the real assigns_to_counts on generated trajectory sets (ragged, padded, reordered, split).",
    "translator/tr_counts.py; modelled not verified: coo_matrix duplicate summation and the -1 mask.",
    "DESIGN.md 7 C03")

CLAIMED["C20"] = (
    "Coq proof over a model regenerated from source (translator) + differential correspondence evaluated in Coq",
    "Theorems in coq/Props/C20.v: the translated is_buffered_transition equals 'angle left the widened basin' for the library's three boundary sets, every state, every accepted buffer width and every off-gate angle (finite case split closed by lra), the translated _rotamers run equals the specification automaton by induction over the angle history, zero buffer is binning, states are valid; transition bookkeeping characterised exactly. The generated model is run against the real _rotamers / disorder.transitions.",
    "translator/tr_rotamer.py, py2coq.py; loop skeleton Base/RotamerBase.v checked by correspondence only; np.digitize modelled.",
    "DESIGN.md 7 C20")
