CLAIMED["C03"] = (
    "Coq proof over a model regenerated from source (translator) + differential correspondence evaluated in Coq",
    "Theorems in coq/Props/C03.v about the pair-extraction slices translated from _transitions_helper on every run and the hand model of assigns_to_counts; the model is run against the real assigns_to_counts on generated trajectory sets (ragged, padded, reordered, split).",
    "translator/tr_counts.py; modelled not verified: coo_matrix duplicate summation and the -1 mask.",
    "DESIGN.md 7 C03")
