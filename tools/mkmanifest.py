#!/usr/bin/env python3
"""Regenerate /verif/MANIFEST.json from the table below and validate it."""
import json, os, sys
V = os.path.dirname(os.path.dirname(os.path.abspath(__file__)))
BASELINE = ("cd /repo && /venv/bin/python -m pytest -ra -q -p no:cacheprovider --timeout=900 "
            "--continue-on-collection-errors enspara/test/test_ra.py enspara/test/test_rotamer.py enspara/test/test_tpt_fluxes.py")
TRUST = ("Trusted: Coq 8.16.1 kernel + vm_compute; the correspondence harness (generators, canonicalisation, tolerances); "
         "NumPy/SciPy primitives as executed; ")
# pid -> (technique, level text, level_note, design_ref)
CLAIMED = {}
NA = {}
exec(open(os.path.join(V, "tools", "claims.py")).read())
props = [json.loads(l) for l in open(os.path.join(V, "properties.jsonl"))]
checks = []
for p in props:
    pid = p["id"]
    if pid in CLAIMED:
        tech, text, note, ref = CLAIMED[pid]
        checks.append({
            "property_id": pid,
            "quick_cmd": "./check %s --tier quick" % pid,
            "thorough_cmd": "./check %s --tier thorough" % pid,
            "evidence_file": "/verif/evidence/%s.json" % pid,
            "replay_cmd_template": "./check %s --replay {path}" % pid,
            "engine": "coq-proof+correspondence",
            "level_claimed": {"category": "proof", "text": text, "design_ref": ref},
            "level_note": TRUST + note,
            "technique": tech})
na = [{"property_id": p["id"], "reason": NA.get(p["id"], "check not built yet in this round; planned per DESIGN.md section 7")}
      for p in props if p["id"] not in CLAIMED]
man = {"version": 1,
       "setup_cmd": "./setup.sh",
       "hooks": {"guard": "ENSPARA_VERIF", "enable": "no source hooks are needed: checks import /repo's sources directly and build the Cython extensions from /repo's .pyx into /verif/.cache",
                 "baseline_off_cmd": BASELINE, "source_commits": [], "add_only": True},
       "engines": [{"name": "coq-proof+correspondence", "path": "/verif/check",
                    "serves_properties": sorted(CLAIMED),
                    "kind_free_text": "Coq 8.16.1 theorems over executable Gallina models (coq/), tied to /repo by per-run translators (translator/) and by differential execution of the models inside Coq (vm_compute) against the real code (harness/)"}],
       "checks": checks, "not_applicable": na,
       "notes": "See DESIGN.md. known_findings.txt lists findings/fixed entries."}
json.dump(man, open(os.path.join(V, "MANIFEST.json"), "w"), indent=1)
try:
    import jsonschema
    jsonschema.validate(man, json.load(open("/root/.vp/MANIFEST.schema.json")))
    print("MANIFEST valid: %d claimed, %d not claimed" % (len(checks), len(na)))
except ImportError:
    print("jsonschema unavailable; wrote without validating")
