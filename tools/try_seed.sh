#!/bin/bash
# tools/try_seed.sh <PID> <patch> : run ./check <PID> against a scratch worktree of /repo with the patch applied
PID=$1; PATCH=$(readlink -f $2); TIER=${3:-quick}
W=/tmp/mut_$$
git -C /repo worktree add -q --detach $W HEAD || exit 2
if ! git -C $W apply $PATCH 2>/dev/null; then
  if ! (cd $W && patch -p1 -s --fuzz=3 < $PATCH >/dev/null 2>&1); then echo "PATCH-DOES-NOT-APPLY"; git -C /repo worktree remove --force $W; exit 3; fi
fi
cd /verif && ENSPARA_REPO=$W timeout 1500 ./check $PID --tier $TIER 2>&1 | grep -E "VIOLATION|violation:|NOT discharged|done:" | cut -c1-260 | head -8
git -C /repo worktree remove --force $W
