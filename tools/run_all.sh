#!/bin/bash
# Run every claimed check (quick tier by default) on /repo, 4 at a time; print a summary.
cd "$(dirname "$0")/.."
TIER=${1:-quick}
IDS=$(python3 -c "import json;print(' '.join(c['property_id'] for c in json.load(open('MANIFEST.json'))['checks']))")
mkdir -p .cache/runall
echo $IDS | tr ' ' '\n' | xargs -P ${RUNALL_P:-4} -I{} sh -c "timeout 3000 ./check {} --tier $TIER > .cache/runall/{}.log 2>&1; echo {} exit \$?"
grep -l "VIOLATION" .cache/runall/*.log
