#!/usr/bin/env python3
"""Confirm a seeded change and record it under /verif/seeded/<PID>-<n>/.

usage: confirm_seed.py <PID> <n> [--check-only]
Reads seeded/_raw/out_<PID>/patch<n>.diff and demo<n>.py.  In a scratch worktree of /repo HEAD:
  1. demo on the clean tree must exit 0;  2. patch applies, demo must exit non-zero;
  3. the pinned suite (run without built extensions) must still report 47 passed;
  4. ./check <PID> (quick) against the patched tree: records whether it reports a VIOLATION.
Writes seeded/<PID>-<n>/{patch.diff,demo.py,meta.json}.
"""
import glob, json, os, re, shutil, subprocess, sys, tempfile

V = os.path.dirname(os.path.dirname(os.path.abspath(__file__)))
sys.path.insert(0, os.path.join(V, "harness"))
PY = "/venv/bin/python"


def sh(cmd, cwd=None, env=None, timeout=3000):
    e = dict(os.environ)
    e.update(env or {})
    r = subprocess.run(cmd, shell=True, cwd=cwd, env=e, stdout=subprocess.PIPE, stderr=subprocess.STDOUT, text=True, timeout=timeout)
    return r.returncode, r.stdout


def put_ext(W):
    """place extension modules built from W's own .pyx into W (the demos import in place)"""
    rc, out = sh("%s %s/harness/build_ext.py" % (PY, V), env={"ENSPARA_REPO": W})
    d = out.strip().splitlines()[-1]
    m = {"libdist": "enspara/geometry", "libinfo": "enspara/info_theory", "libmsm": "enspara/msm"}
    for f in os.listdir(d):
        for k, sub in m.items():
            if f.startswith(k + "."):
                shutil.copy(os.path.join(d, f), os.path.join(W, sub, f))


def rm_ext(W):
    for f in glob.glob(os.path.join(W, "enspara", "*", "*.so")):
        os.remove(f)


def main():
    pid, n = sys.argv[1], sys.argv[2]
    check_only = "--check-only" in sys.argv
    checks = [a.split("=", 1)[1] for a in sys.argv if a.startswith("--checks=")]
    checks = checks[0].split(",") if checks else [pid]
    raw = os.path.join(V, "seeded", "_raw", "out_" + pid)
    patch = os.path.join(raw, "patch%s.diff" % n)
    demo = os.path.join(raw, "demo%s.py" % n)
    dest = os.path.join(V, "seeded", "%s-%s" % (pid, n))
    meta_p = os.path.join(dest, "meta.json")
    meta = json.load(open(meta_p)) if os.path.exists(meta_p) else {"property": pid, "n": int(n)}
    W = tempfile.mkdtemp(prefix="seed_%s_%s_" % (pid, n), dir="/tmp")
    os.rmdir(W)
    rc, out = sh("git -C /repo worktree add -q --detach %s HEAD" % W)
    assert rc == 0, out
    env = {"ENSPARA_REPO": W, "PYTHONHASHSEED": "0", "OMP_NUM_THREADS": "1"}
    try:
        meta["repo_head"] = sh("git -C /repo rev-parse --short HEAD")[1].strip()
        if not check_only:
            put_ext(W)
            rc0, o0 = sh("%s %s" % (PY, demo), cwd=W, env=env, timeout=900)
            meta["demo_on_clean_tree_exit"] = rc0
        rc, out = sh("git apply %s" % patch, cwd=W)
        if rc != 0:
            rc, out = sh("patch -p1 -s --fuzz=3 < %s" % patch, cwd=W)
        meta["patch_applies"] = (rc == 0)
        if rc != 0:
            meta["note"] = "patch does not apply to the current HEAD: " + out[-300:]
        else:
            if not check_only:
                put_ext(W)
                rc1, o1 = sh("%s %s" % (PY, demo), cwd=W, env=env, timeout=900)
                meta["demo_on_patched_tree_exit"] = rc1
                meta["demo_message"] = o1.strip().splitlines()[-1][:300] if o1.strip() else ""
                rm_ext(W)
                sh("rm -rf build", cwd=W)
                rc2, o2 = sh("%s -m pytest -ra -q -p no:cacheprovider --timeout=900 --continue-on-collection-errors 2>&1 | tail -1" % PY,
                             cwd=W, env={"PYTHONHASHSEED": "0"}, timeout=1800)
                meta["suite_on_patched_tree"] = o2.strip()[-120:]
                meta["suite_47_passed"] = bool(re.search(r"\b47 passed", o2))
            meta.setdefault("checks", {})
            for cid in checks:
                rc3, o3 = sh("./check %s --tier quick" % cid, cwd=V, env={"ENSPARA_REPO": W}, timeout=3000)
                vio = [l for l in o3.splitlines() if l.startswith("VIOLATION")]
                kinds = sorted(set(re.findall(r"violation: (\S+) (\S+)", o3)))
                meta["checks"][cid] = {"exit": rc3, "violation_line": vio[0] if vio else None,
                                       "kinds": ["%s/%s" % k for k in kinds][:12]}
        os.makedirs(dest, exist_ok=True)
        shutil.copy(patch, os.path.join(dest, "patch.diff"))
        shutil.copy(demo, os.path.join(dest, "demo.py"))
        notes = os.path.join(raw, "notes.md")
        if os.path.exists(notes) and "needs" not in meta:
            meta["needs"] = "see notes.md (section N=%s) written by the seeding agent" % n
            shutil.copy(notes, os.path.join(dest, "notes.md"))
        meta["what_i_ran"] = ("tools/confirm_seed.py: scratch worktree of /repo HEAD; demo on clean tree; git apply patch; demo on patched "
                              "tree; pinned suite without built extensions; ENSPARA_REPO=<worktree> ./check <id> --tier quick")
        json.dump(meta, open(meta_p, "w"), indent=1)
        print(pid, n, json.dumps({k: meta.get(k) for k in ("demo_on_clean_tree_exit", "demo_on_patched_tree_exit", "suite_47_passed", "patch_applies")}),
              {c: (v["exit"], v["kinds"][:3]) for c, v in meta.get("checks", {}).items()})
    finally:
        sh("git -C /repo worktree remove --force %s" % W)


main()
