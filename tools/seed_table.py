#!/usr/bin/env python3
"""Regenerate seeded/TABLE.md from seeded/<ID>-<n>/meta.json."""
import glob, json, os
V = os.path.dirname(os.path.dirname(os.path.abspath(__file__)))
rows = []
for d in sorted(glob.glob(os.path.join(V, "seeded", "C*-*"))):
    m = json.load(open(os.path.join(d, "meta.json")))
    for cid, r in sorted(m.get("checks", {}).items()):
        caught = "yes" if r.get("exit") == 1 and r.get("violation_line") else "NO"
        nf = " (no-failing-input-found)" if r.get("violation_line") and "no-failing-input-found" in r["violation_line"] else ""
        rows.append("| %s | %s | %s | %s | %s | %s%s | %s |" % (
            os.path.basename(d), m.get("repo_head"), m.get("demo_on_clean_tree_exit"), m.get("demo_on_patched_tree_exit"),
            "47 passed" if m.get("suite_47_passed") else m.get("suite_on_patched_tree"), caught, nf,
            ", ".join(k.split("/", 1)[1] if k.startswith("property-fails-on-impl/") else k for k in r.get("kinds", [])[:5])))
open(os.path.join(V, "seeded", "TABLE.md"), "w").write(
    "# Seeded changes and the checks that catch them\n\n"
    "Confirmed by tools/confirm_seed.py on the /repo HEAD given; `check` = ./check <id> --tier quick against the patched scratch tree.\n\n"
    "| seed | HEAD | demo clean | demo patched | suite | caught by check | oracle keys / kinds |\n|---|---|---|---|---|---|---|\n"
    + "\n".join(rows) + "\n")
print(len(rows), "rows")
