#!/bin/bash
# Offline setup: build the Cython extensions from /repo, run the translators, build all of coq/.
set -e
cd "$(dirname "$0")"
export PYTHONHASHSEED=0 PYTHONPATH=/verif/harness
/venv/bin/python harness/build_ext.py
/venv/bin/python harness/setup_all.py
